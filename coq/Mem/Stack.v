(* C18 — model of the byte stack of core/src/eval/stack.rs.  Definitions only; proofs in
   Mem/StackProofs.v.

   The stack is a byte vector: `push::<T>` copies the bytes of a T and then writes one marker byte;
   `read_unchecked::<T>` copies size_of::<T>() bytes from below the top marker and ASSUMES they are a
   T.  The model keeps, for every item, the marker byte that was written AND the type the bytes were
   written at, separately: reading at another type is the error state [TypeConfusion].

   Which marker goes with which type, which type `drop_top` / `item_size` use for a marker, and which
   marker test guards each of the other unchecked pops / reads is NOT written here: it is read from
   the source by checks/c18_translate.py into Gen/StackTables.v, so a pairing that is wrong in the
   code is wrong in the model. *)
From Coq Require Import List Bool Arith String.
Import ListNotations.
From NV Require Import Mem.StackBase Gen.StackTables.

Record item := mkI { it_marker : marker; it_kind : ikind; it_payload : nat }.
Definition stack := list item.   (* top first *)

Inductive serr :=
| TypeConfusion     (* bytes written at one item type are materialised at another *)
| UnknownPairing.   (* the translator could not determine the pairing used by the code *)

Inductive sres (A : Type) :=
| SOk (a : A)
| SErr (e : serr)
| SPanic.           (* read_unchecked's checked_sub(..).expect(..) on an empty stack: a panic, not UB *)
Arguments SOk {A} a.
Arguments SErr {A} e.
Arguments SPanic {A}.

Definition sbind {A B} (m : sres A) (f : A -> sres B) : sres B :=
  match m with SOk a => f a | SErr e => SErr e | SPanic => SPanic end.

(* Stack::push::<T> *)
Definition push (k : ikind) (p : nat) (st : stack) : sres stack :=
  match marker_of_opt k with
  | Some m => SOk (mkI m k p :: st)
  | None => SErr UnknownPairing
  end.

(* Stack::top_marker *)
Definition top_marker (st : stack) : option marker :=
  match st with [] => None | it :: _ => Some (it_marker it) end.

(* Stack::read_unchecked::<T> / pop_unchecked::<T> *)
Definition read_unchecked (T : ikind) (st : stack) : sres nat :=
  match st with
  | [] => SPanic
  | it :: _ => if ikind_eqb (it_kind it) T then SOk (it_payload it) else SErr TypeConfusion
  end.

Definition pop_unchecked (T : ikind) (st : stack) : sres (nat * stack) :=
  if pop_unchecked_reads_same_type then sbind (read_unchecked T st) (fun p => SOk (p, tl st))
  else SErr UnknownPairing.

(* Stack::pop::<T>: the checked pop *)
Definition pop (T : ikind) (st : stack) : sres (option nat * stack) :=
  match top_marker st with
  | None => SOk (None, st)
  | Some m =>
    match marker_of_opt T with
    | None => SErr UnknownPairing
    | Some mt =>
      if pop_generic_guarded && negb (marker_eqb m mt) then SOk (None, st)
      else sbind (pop_unchecked T st) (fun r => SOk (Some (fst r), snd r))
    end
  end.

(* Stack::drop_top *)
Definition drop_top (st : stack) : sres stack :=
  match top_marker st with
  | None => SOk st
  | Some m =>
    match drop_top_kind_opt m with
    | Some T => sbind (pop_unchecked T st) (fun r => SOk (snd r))
    | None => SErr UnknownPairing
    end
  end.

(* the guarded call sites of a function *)
Inductive lookup := Found (T : ikind) | NotGuarded | Unknown.

Fixpoint site_lookup (fn : string) (m : marker) (l : list (string * option (marker * ikind) * bool)) : lookup :=
  match l with
  | [] => NotGuarded
  | (f, o, _) :: r =>
    if String.eqb f fn then
      match o with
      | None => Unknown
      | Some (m', T) => if marker_eqb m m' then
                          (* a later entry for the same function must not be unknown either *)
                          match site_lookup fn m r with Unknown => Unknown | _ => Found T end
                        else site_lookup fn m r
      end
    else site_lookup fn m r
  end.

Definition pop_at (fn : string) (st : stack) : sres (option nat * stack) :=
  match top_marker st with
  | None => SOk (None, st)
  | Some m =>
    match site_lookup fn m guarded_sites with
    | Found T => sbind (pop_unchecked T st) (fun r => SOk (Some (fst r), snd r))
    | NotGuarded => SOk (None, st)
    | Unknown => SErr UnknownPairing
    end
  end.

(* Stack::pop_arg / pop_arg_as_idx: `match marker { Marker::Arg => .., Marker::TrackedArg => .., _ => None }` *)
Definition pop_arg := pop_at "pop_arg".
Definition pop_arg_as_idx := pop_at "pop_arg_as_idx".

(* Stack::peek_sealed_cont: reads (without popping) the continuation on top.  Result code as in the
   replay hook: 1 = Seq, 2 = Unseal, 0 = Other (the operator is decided by the parity of the payload) *)
Definition peek_sealed_cont (st : stack) : sres nat :=
  match top_marker st with
  | None => SOk 0
  | Some m =>
    match site_lookup "peek_sealed_cont" m guarded_sites with
    | Found T =>
      sbind (read_unchecked T st) (fun p =>
        SOk (if Nat.even p then (match T with IOp1Cont => 1 | IOp2SecondCont => 2 | _ => 0 end) else 0))
    | NotGuarded => SOk 0
    | Unknown => SErr UnknownPairing
    end
  end.

(* Stack::clear_eqs: `while self.pop_eq().is_some() {}` *)
Fixpoint clear_eqs (fuel : nat) (st : stack) : sres stack :=
  match fuel with
  | O => SOk st
  | S f =>
    sbind (pop IEq st) (fun r => match fst r with Some _ => clear_eqs f (snd r) | None => SOk (snd r) end)
  end.

(* Stack::unwind: `if let Some(Marker::UpdateIndex) = top_marker() { pop_unchecked; reset } else { drop_top }`
   until empty.  Returns the payloads of the update indices that were reset and the type every item
   was popped at, in order. *)
Fixpoint unwind (fuel : nat) (st : stack) : sres (list nat * list ikind * stack) :=
  match st with
  | [] => SOk ([], [], [])
  | it :: _ =>
    match fuel with
    | O => SOk ([], [], st)
    | S f =>
      match site_lookup "unwind" (it_marker it) guarded_sites with
      | Found T =>
        sbind (pop_unchecked T st) (fun r =>
          sbind (unwind f (snd r)) (fun q => SOk (fst r :: fst (fst q), T :: snd (fst q), snd q)))
      | NotGuarded =>
        match drop_top_kind_opt (it_marker it) with
        | Some T =>
          sbind (drop_top st) (fun st' =>
            sbind (unwind f st') (fun q => SOk (fst (fst q), T :: snd (fst q), snd q)))
        | None => SErr UnknownPairing
        end
      | Unknown => SErr UnknownPairing
      end
    end
  end.

(* Drop for Stack: `while !empty { drop_top }` *)
Fixpoint drop_all (fuel : nat) (st : stack) : sres stack :=
  match st with
  | [] => SOk []
  | _ => match fuel with O => SOk st | S f => sbind (drop_top st) (drop_all f) end
  end.

(* StackMarkerIter: walks down the byte vector using Marker::item_size to skip each payload; the
   walk stays on marker bytes iff item_size uses the type the item was written at *)
Fixpoint markers (st : stack) : sres (list marker) :=
  match st with
  | [] => SOk []
  | it :: r =>
    match item_size_kind_opt (it_marker it) with
    | Some T => if ikind_eqb T (it_kind it) then sbind (markers r) (fun l => SOk (it_marker it :: l))
                else SErr TypeConfusion
    | None => SErr UnknownPairing
    end
  end.

(* ------------------------------------------------------------------ scripts (as the replay hook H7) *)

Inductive sop :=
| SPush (k : ikind)
| SPop (k : ikind)
| SPopArg | SPopArgIdx | SPeek | SClearEqs | SUnwind | SDropTop | SIsTopIdx | SIsTopCont.

Definition is_idx (m : marker) : bool := marker_eqb m MUpdateIndex.
Definition is_cont (m : marker) : bool :=
  match m with MOp1Cont | MOp2FirstCont | MOp2SecondCont | MOpNCont => true | _ => false end.

Definition b2n (b : bool) : nat := if b then 1 else 0.
Definition some2n {A} (o : option A) : nat := match o with Some _ => 1 | None => 0 end.

(* one operation; [n] is the position of the operation in the script (the payload of a push) *)
Definition sstep (n : nat) (o : sop) (st : stack) : sres (nat * stack) :=
  match o with
  | SPush k => sbind (push k n st) (fun st' => SOk (1, st'))
  | SPop k => sbind (pop k st) (fun r => SOk (some2n (fst r), snd r))
  | SPopArg => sbind (pop_arg st) (fun r => SOk (some2n (fst r), snd r))
  | SPopArgIdx => sbind (pop_arg_as_idx st) (fun r => SOk (some2n (fst r), snd r))
  | SPeek => sbind (peek_sealed_cont st) (fun c => SOk (c, st))
  | SClearEqs => sbind (clear_eqs (S (List.length st)) st) (fun st' => SOk (1, st'))
  | SUnwind => sbind (unwind (List.length st) st) (fun q => SOk (1, snd q))
  | SDropTop => sbind (drop_top st) (fun st' => SOk (1, st'))
  | SIsTopIdx => SOk (b2n (match top_marker st with Some m => is_idx m | None => false end), st)
  | SIsTopCont => SOk (b2n (match top_marker st with Some m => is_cont m | None => false end), st)
  end.

Fixpoint srun (n : nat) (ops : list sop) (st : stack) : sres (list (nat * list marker) * stack) :=
  match ops with
  | [] => SOk ([], st)
  | o :: r =>
    sbind (sstep n o st) (fun x =>
      sbind (markers (snd x)) (fun ms =>
        sbind (srun (S n) r (snd x)) (fun y => SOk ((fst x, ms) :: fst y, snd y))))
  end.
