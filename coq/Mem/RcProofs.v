(* C18 — proofs about the reference-counting protocol model of Mem/Rc.v.

   Invariant [inv_h E h] ("rc_exact" + "typed"), for a heap h and the list E of handles held
   outside the heap (root handles and the temporaries of the running operation):
     - for every address: a live block's count is the number of handles to it in E and in the
       payloads of the blocks; a freed block (or an address never allocated) has no handle at all;
     - every handle points to a block whose tag is allowed by the handle's static kind — in
       particular a Thunk-typed handle points to a block tagged Thunk (thunk_tag_inv).
   Every primitive preserves it and cannot reach an error state under it; operations are
   compositions of primitives in which ownership of handles is tracked linearly. *)
From Coq Require Import List NArith Bool Arith Lia Permutation.
Import ListNotations.
From NV Require Import Mem.Rc.

Set Implicit Arguments.

(* ------------------------------------------------------------------ lists *)

Lemma nth_error_upd_eq : forall A (l : list A) n x, n < length l -> nth_error (upd n x l) n = Some x.
Proof.
  induction l as [|y t IH]; intros n x Hn; simpl in *; [lia|].
  destruct n; simpl; [reflexivity|]. apply IH; lia.
Qed.

Lemma nth_error_upd_neq : forall A (l : list A) n m x, n <> m -> nth_error (upd n x l) m = nth_error l m.
Proof.
  induction l as [|y t IH]; intros n m x Hnm; simpl; [reflexivity|].
  destruct n; destruct m; simpl; try reflexivity; try congruence.
  apply IH; congruence.
Qed.

Lemma length_upd : forall A (l : list A) n x, length (upd n x l) = length l.
Proof. induction l; intros [|n] x; simpl; auto. Qed.

Lemma upd_upd : forall A (l : list A) n x y, upd n x (upd n y l) = upd n x l.
Proof. induction l as [|z t IH]; intros [|n] x y; simpl; auto. f_equal. apply IH. Qed.

Lemma nth_error_Some_lt : forall A (l : list A) n x, nth_error l n = Some x -> n < length l.
Proof. intros. apply nth_error_Some. congruence. Qed.

Lemma flat_map_upd_perm : forall A B (f : A -> list B) (l : list A) i x y,
  nth_error l i = Some x ->
  Permutation (flat_map f (upd i y l) ++ f x) (flat_map f l ++ f y).
Proof.
  induction l as [|z t IH]; intros i x y H; [destruct i; discriminate|].
  destruct i; simpl in *.
  - inversion H; subst. rewrite <- !app_assoc.
    rewrite (Permutation_app_comm (f y)). rewrite <- app_assoc.
    rewrite (app_assoc (f x)). rewrite (Permutation_app_comm (f x) (flat_map f t)).
    rewrite <- app_assoc. reflexivity.
  - rewrite <- !app_assoc. apply Permutation_app_head. apply IH; assumption.
Qed.

Lemma flat_map_app' : forall A B (f : A -> list B) l1 l2, flat_map f (l1 ++ l2) = flat_map f l1 ++ flat_map f l2.
Proof. intros. apply flat_map_app. Qed.

Lemma in_flat_map_nth : forall A B (f : A -> list B) l i x y,
  nth_error l i = Some x -> In y (f x) -> In y (flat_map f l).
Proof.
  intros. apply in_flat_map. exists x. split; [eapply nth_error_In; eauto|assumption].
Qed.

(* ------------------------------------------------------------------ occurrences *)

Definition ptr_to (a : addr) (tv : tval) : bool :=
  match snd tv with VPtr a' => Nat.eqb a a' | VInl _ => false end.

Fixpoint occ (a : addr) (l : list tval) : nat :=
  match l with [] => 0 | tv :: r => (if ptr_to a tv then 1 else 0) + occ a r end.

Lemma ptr_to_ptr : forall a k a', ptr_to a (k, VPtr a') = Nat.eqb a a'.
Proof. reflexivity. Qed.
Lemma ptr_to_inl : forall a k i, ptr_to a (k, VInl i) = false.
Proof. reflexivity. Qed.

Lemma occ_app : forall a l1 l2, occ a (l1 ++ l2) = occ a l1 + occ a l2.
Proof. induction l1; intros; simpl; [reflexivity|]. rewrite IHl1. lia. Qed.

Lemma occ_perm : forall a l1 l2, Permutation l1 l2 -> occ a l1 = occ a l2.
Proof. induction 1; simpl; try lia. Qed.

Lemma occ_pos_in : forall a l, 0 < occ a l -> exists k, In (k, VPtr a) l.
Proof.
  induction l as [|[k v] r IH]; simpl; intros H; [lia|].
  unfold ptr_to in H; simpl in H. destruct v as [i|a'].
  - destruct (IH H) as [k' ?]. eauto.
  - destruct (Nat.eqb a a') eqn:E.
    + apply Nat.eqb_eq in E; subst. eauto.
    + destruct (IH H) as [k' ?]. eauto.
Qed.

Lemma in_occ_pos : forall a k l, In (k, VPtr a) l -> 0 < occ a l.
Proof.
  induction l as [|tv r IH]; simpl; intros H; [contradiction|].
  destruct H as [->|H].
  - unfold ptr_to; simpl. rewrite Nat.eqb_refl. lia.
  - specialize (IH H). lia.
Qed.

Lemma occ_map_snd : forall a l l', map snd l = map snd l' -> occ a l = occ a l'.
Proof.
  induction l as [|x r IH]; intros [|y r'] H; simpl in *; try discriminate; [reflexivity|].
  inversion H. unfold ptr_to. rewrite H1. f_equal. apply IH; assumption.
Qed.

Lemma occ_nil : forall a, occ a [] = 0.
Proof. reflexivity. Qed.
Lemma occ_cons_inl : forall a k i l, occ a ((k, VInl i) :: l) = occ a l.
Proof. reflexivity. Qed.
Lemma occ_cons_ptr : forall a k a' l, occ a ((k, VPtr a') :: l) = (if Nat.eqb a a' then 1 else 0) + occ a l.
Proof. reflexivity. Qed.
Lemma occ_cons : forall a tv l, occ a (tv :: l) = (if ptr_to a tv then 1 else 0) + occ a l.
Proof. reflexivity. Qed.
Arguments occ : simpl never.

Ltac iflia := repeat match goal with |- context [if ?c then _ else _] => destruct c end; lia.

(* ------------------------------------------------------------------ the invariant *)

Definition typed (h : list block) (tv : tval) : Prop :=
  match snd tv with
  | VInl _ => fst tv = KValue
  | VPtr a => exists b, nth_error h a = Some b /\ tag_ok (fst tv) (b_tag b) = true
  end.

(* a live block has at least one handle and its count is the number of handles; a freed block
   and an address never allocated have none *)
Definition rc_exact (R : list tval) (h : list block) : Prop :=
  forall a, match nth_error h a with
            | Some b => if b_freed b then occ a R = 0 else b_rc b = N.of_nat (occ a R) /\ 0 < occ a R
            | None => occ a R = 0
            end.

Definition inv_refs (R : list tval) (h : list block) : Prop := rc_exact R h /\ Forall (typed h) R.
Definition inv_h (E : list tval) (h : list block) : Prop := inv_refs (E ++ heap_refs h) h.

Lemma inv_refs_perm : forall R R' h, Permutation R R' -> inv_refs R h -> inv_refs R' h.
Proof.
  intros R R' h P [H1 H2]. split.
  - intros a. specialize (H1 a). rewrite <- (occ_perm a P). exact H1.
  - eapply Permutation_Forall; eauto.
Qed.

Lemma inv_h_perm : forall E E' h, Permutation E E' -> inv_h E h -> inv_h E' h.
Proof. intros. eapply inv_refs_perm; [|eassumption]. apply Permutation_app_tail; assumption. Qed.

(* tags never change: typedness is stable *)
Definition tags_stable (h h' : list block) : Prop :=
  forall a b, nth_error h a = Some b -> exists b', nth_error h' a = Some b' /\ b_tag b' = b_tag b.

Lemma tags_stable_refl : forall h, tags_stable h h.
Proof. intros h a b H; eauto. Qed.

Lemma tags_stable_trans : forall h1 h2 h3, tags_stable h1 h2 -> tags_stable h2 h3 -> tags_stable h1 h3.
Proof.
  intros h1 h2 h3 H12 H23 a b H. destruct (H12 a b H) as [b' [H' E']].
  destruct (H23 a b' H') as [b'' [H'' E'']]. exists b''. split; congruence.
Qed.

Lemma typed_stable : forall h h' tv, tags_stable h h' -> typed h tv -> typed h' tv.
Proof.
  intros h h' [k v] S T. unfold typed in *; simpl in *. destruct v; [assumption|].
  destruct T as [b [Hb Hk]]. destruct (S _ _ Hb) as [b' [Hb' E]]. exists b'. rewrite E. auto.
Qed.

Lemma tags_stable_upd : forall h a b b', nth_error h a = Some b -> b_tag b' = b_tag b -> tags_stable h (upd a b' h).
Proof.
  intros h a b b' Hb E a0 b0 H0. destruct (Nat.eq_dec a a0) as [->|N].
  - exists b'. rewrite nth_error_upd_eq by (eapply nth_error_Some_lt; eauto). split; congruence.
  - exists b0. rewrite nth_error_upd_neq by assumption. auto.
Qed.

Lemma tags_stable_app : forall h l, tags_stable h (h ++ l).
Proof.
  intros h l a b H. exists b. split; [|reflexivity].
  rewrite nth_error_app1; [assumption|eapply nth_error_Some_lt; eauto].
Qed.

(* a handle present in the references points to a live block *)
Lemma ref_live : forall R h k a, rc_exact R h -> In (k, VPtr a) R ->
  exists b, nth_error h a = Some b /\ b_freed b = false /\ b_rc b = N.of_nat (occ a R) /\ 0 < occ a R.
Proof.
  intros R h k a HR HI. pose proof (in_occ_pos _ _ _ HI) as P. specialize (HR a).
  destruct (nth_error h a) as [b|]; [|lia].
  destruct (b_freed b) eqn:F; [lia|]. exists b. destruct HR. auto.
Qed.

(* heap_refs after an update / an allocation *)
Lemma heap_refs_upd_perm : forall h a b b', nth_error h a = Some b ->
  Permutation (heap_refs (upd a b' h) ++ b_kids b) (heap_refs h ++ b_kids b').
Proof. intros. apply flat_map_upd_perm. assumption. Qed.

Lemma heap_refs_upd_same : forall h a b b', nth_error h a = Some b -> b_kids b' = b_kids b ->
  Permutation (heap_refs (upd a b' h)) (heap_refs h).
Proof.
  intros h a b b' Hb E. pose proof (heap_refs_upd_perm h a b' Hb) as P. rewrite E in P.
  eapply Permutation_app_inv_r; eauto.
Qed.

Lemma heap_refs_snoc : forall h b, heap_refs (h ++ [b]) = heap_refs h ++ b_kids b.
Proof. intros. unfold heap_refs. rewrite flat_map_app. simpl. rewrite app_nil_r. reflexivity. Qed.

Lemma kids_in_heap_refs : forall h a b tv, nth_error h a = Some b -> In tv (b_kids b) -> In tv (heap_refs h).
Proof. intros. eapply in_flat_map_nth; eauto. Qed.

(* ------------------------------------------------------------------ specification of a heap step *)

Definition hspec {A} (m : H A) (h : list block) (Q : A -> list block -> Prop) : Prop :=
  match m h with Ok (a, h') => Q a h' | Err _ => False | Overflow => True end.

Lemma hspec_bind : forall A B (m : H A) (f : A -> H B) h Q,
  hspec m h (fun a h' => hspec (f a) h' Q) -> hspec (hbind m f) h Q.
Proof.
  unfold hspec, hbind. intros. destruct (m h) as [[a h']| |]; auto.
Qed.

Lemma hspec_ret : forall A (a : A) h (Q : A -> list block -> Prop), Q a h -> hspec (hret a) h Q.
Proof. unfold hspec, hret. auto. Qed.

Lemma hspec_weaken : forall A (m : H A) h (Q Q' : A -> list block -> Prop),
  hspec m h Q -> (forall a h', Q a h' -> Q' a h') -> hspec m h Q'.
Proof. unfold hspec. intros. destruct (m h) as [[a h']| |]; auto. Qed.

(* ------------------------------------------------------------------ one block changes *)

Lemma heap_refs_upd_occ : forall h a b b' a0, nth_error h a = Some b ->
  occ a0 (heap_refs (upd a b' h)) + occ a0 (b_kids b) = occ a0 (heap_refs h) + occ a0 (b_kids b').
Proof.
  intros. pose proof (occ_perm a0 (heap_refs_upd_perm h a b' H)) as P.
  rewrite !occ_app in P. exact P.
Qed.

Lemma heap_refs_upd_in : forall h a b b' x, nth_error h a = Some b ->
  In x (heap_refs (upd a b' h)) -> In x (heap_refs h) \/ In x (b_kids b').
Proof.
  intros h a b b' x Hb Hx. pose proof (heap_refs_upd_perm h a b' Hb) as P.
  assert (In x (heap_refs (upd a b' h) ++ b_kids b)) as I by (apply in_or_app; auto).
  eapply Permutation_in in I; [|exact P]. apply in_app_or in I. exact I.
Qed.

(* The general step: block [a] goes from b to b'.  dm / dp: handles to a itself that disappear
   from / appear in the references, besides the exchange between the payload and the outside. *)
Lemma inv_h_upd : forall E E' h a b b' dm dp,
  inv_h E h -> nth_error h a = Some b -> b_freed b = false -> b_tag b' = b_tag b ->
  (forall a0, occ a0 (E' ++ b_kids b') + (if Nat.eqb a0 a then dm else 0)
              = occ a0 (E ++ b_kids b) + (if Nat.eqb a0 a then dp else 0)) ->
  (if b_freed b' then (b_rc b + N.of_nat dp = N.of_nat dm)%N
   else (b_rc b' + N.of_nat dm = b_rc b + N.of_nat dp)%N /\ (1 <= b_rc b')%N) ->
  Forall (typed h) (E' ++ b_kids b') ->
  inv_h E' (upd a b' h).
Proof.
  intros E E' h a b b' dm dp [HR HT] Hb Hlive Htag Hocc Hrc HT'.
  assert (tags_stable h (upd a b' h)) as TS by (eapply tags_stable_upd; eauto).
  split.
  - intros a0. specialize (Hocc a0). pose proof (heap_refs_upd_occ h a b' a0 Hb) as Hh.
    rewrite !occ_app in *. pose proof (HR a0) as HRa. rewrite occ_app in HRa.
    destruct (Nat.eq_dec a0 a) as [Heq|Hne].
    + subst a0. rewrite Nat.eqb_refl in Hocc.
      rewrite nth_error_upd_eq by (eapply nth_error_Some_lt; eauto).
      rewrite Hb, Hlive in HRa. destruct (b_freed b'); lia.
    + rewrite (proj2 (Nat.eqb_neq a0 a) Hne) in Hocc.
      rewrite nth_error_upd_neq by congruence.
      destruct (nth_error h a0) as [b0|]; [destruct (b_freed b0)|]; lia.
  - apply Forall_forall. intros x Hx. apply in_app_or in Hx.
    eapply typed_stable; [exact TS|]. rewrite Forall_forall in HT, HT'.
    destruct Hx as [Hx|Hx].
    + apply HT'. apply in_or_app; auto.
    + destruct (heap_refs_upd_in h a b' x Hb Hx) as [I|I].
      * apply HT. apply in_or_app; auto.
      * apply HT'. apply in_or_app; auto.
Qed.

(* a new block *)
Lemma inv_h_alloc : forall E h k t sh kids,
  inv_h (kids ++ E) h ->
  inv_h ((if tag_ok k t then k else kind_of_tag t, VPtr (length h)) :: E) (h ++ [mkB t 1 sh kids false]).
Proof.
  intros E h k t sh kids [HR HT].
  assert (tags_stable h (h ++ [mkB t 1 sh kids false])) as TS by apply tags_stable_app.
  split.
  - intros a0. specialize (HR a0). rewrite heap_refs_snoc. cbn [app b_kids].
    rewrite occ_cons_ptr. rewrite !occ_app in *.
    destruct (Nat.eqb_spec a0 (length h)) as [Heq|Hne].
    + subst a0. rewrite nth_error_app2 by lia. rewrite Nat.sub_diag. simpl.
      rewrite (proj2 (nth_error_None h (length h))) in HR by lia. lia.
    + destruct (lt_dec a0 (length h)).
      * rewrite nth_error_app1 by lia. destruct (nth_error h a0) as [b0|]; [destruct (b_freed b0)|]; lia.
      * rewrite nth_error_app2 by lia. destruct (a0 - length h) as [|n0] eqn:En; [lia|].
        simpl. rewrite (proj2 (nth_error_None h a0)) in HR by lia.
        destruct n0; simpl; lia.
  - constructor.
    + unfold typed; simpl. exists (mkB t 1 sh kids false). split.
      * rewrite nth_error_app2 by lia. rewrite Nat.sub_diag. reflexivity.
      * simpl. destruct (tag_ok k t) eqn:Ek; [assumption|].
        unfold kind_of_tag, tag_ok. destruct (is_value_tag t); reflexivity.
    + rewrite heap_refs_snoc. apply Forall_forall. intros x Hx.
      eapply typed_stable; [exact TS|]. rewrite Forall_forall in HT. apply HT.
      apply in_app_or in Hx. destruct Hx as [Hx|Hx]; [|apply in_app_or in Hx; destruct Hx as [Hx|Hx]].
      * apply in_or_app. left. apply in_or_app. auto.
      * apply in_or_app. auto.
      * apply in_or_app. left. apply in_or_app. auto.
Qed.

(* the kind of a handle can be changed to any kind its block allows *)
Lemma inv_h_retype : forall E h k k' v,
  inv_h ((k, v) :: E) h -> typed h (k', v) -> inv_h ((k', v) :: E) h.
Proof.
  intros E h k k' v [HR HT] Ht. split.
  - intros a0. specialize (HR a0). cbn [app] in *. rewrite occ_cons in *. exact HR.
  - cbn [app] in *. inversion HT; subst. constructor; assumption.
Qed.

Lemma typed_as_value : forall h tv, typed h tv -> typed h (as_value tv).
Proof.
  intros h [k v] T. unfold as_value; simpl. destruct k; try exact T.
  unfold typed in *; simpl in *. destruct v; [reflexivity|].
  destruct T as [b [Hb Hk]]. exists b. split; [assumption|].
  simpl in Hk. destruct (b_tag b); simpl in *; congruence.
Qed.

Lemma snd_as_value : forall tv, snd (as_value tv) = snd tv.
Proof. intros [k v]; unfold as_value; simpl; destruct k; reflexivity. Qed.

Lemma map_snd_as_value : forall l, map snd (map as_value l) = map snd l.
Proof. induction l; simpl; [reflexivity|]. rewrite snd_as_value, IHl. reflexivity. Qed.

Lemma inv_h_map_as_value : forall l E h, inv_h (l ++ E) h -> inv_h (map as_value l ++ E) h.
Proof.
  intros l E h [HR HT]. split.
  - intros a0. specialize (HR a0). rewrite !occ_app in *.
    rewrite (occ_map_snd a0 (map as_value l) l) by apply map_snd_as_value. exact HR.
  - rewrite <- !app_assoc in *. apply Forall_app in HT. destruct HT as [H1 H2].
    apply Forall_app. split; [|assumption].
    apply Forall_forall. intros x Hx. apply in_map_iff in Hx. destruct Hx as [y [<- Hy]].
    apply typed_as_value. rewrite Forall_forall in H1. auto.
Qed.

(* ------------------------------------------------------------------ the primitives *)

Lemma heap_refs_upd_eq : forall h a b b', nth_error h a = Some b -> b_kids b' = b_kids b ->
  heap_refs (upd a b' h) = heap_refs h.
Proof.
  unfold heap_refs. induction h as [|z t IH]; intros a b b' Hb E; [destruct a; discriminate|].
  destruct a; simpl in *.
  - inversion Hb; subst. rewrite E. reflexivity.
  - f_equal. eapply IH; eauto.
Qed.

Lemma Forall_typed_sub : forall h R l, Forall (typed h) R -> incl l R -> Forall (typed h) l.
Proof. intros h R l H I. apply Forall_forall. intros x Hx. rewrite Forall_forall in H. auto. Qed.

Section Prims.
Variable mx : N.

Lemma get_ok : forall E h k a, inv_h E h -> In (k, VPtr a) (E ++ heap_refs h) ->
  exists b, h_get a h = Ok (b, h) /\ nth_error h a = Some b /\ b_freed b = false /\
            b_rc b = N.of_nat (occ a (E ++ heap_refs h)) /\ 0 < occ a (E ++ heap_refs h).
Proof.
  intros E h k a [HR _] HI. destruct (ref_live _ _ HR HI) as [b [Hb [Hf [Hrc Hpos]]]].
  exists b. unfold h_get. rewrite Hb, Hf. auto.
Qed.

Lemma read_spec : forall E h tv, inv_h E h -> In tv (E ++ heap_refs h) ->
  exists o, h_read tv h = Ok (o, h) /\
    match o with
    | Some b => exists a, snd tv = VPtr a /\ nth_error h a = Some b /\ b_freed b = false
    | None => exists i, snd tv = VInl i
    end.
Proof.
  intros E h [k v] I HI. unfold h_read; simpl. destruct v as [i|a].
  - exists None. split; [reflexivity|eauto].
  - destruct (get_ok _ _ I HI) as [b [Hg [Hb [Hf _]]]]. exists (Some b).
    unfold hbind. rewrite Hg. split; [reflexivity|eauto].
Qed.

Lemma clone1_spec : forall E h tv, inv_h E h -> In tv (E ++ heap_refs h) ->
  hspec (h_clone1 mx tv) h (fun _ h' => inv_h (tv :: E) h' /\ tags_stable h h' /\ heap_refs h' = heap_refs h).
Proof.
  intros E h [k v] I HI. unfold h_clone1; simpl. destruct v as [i|a].
  - apply hspec_ret. split; [|split; [apply tags_stable_refl|reflexivity]].
    destruct I as [HR HT]. split.
    + intros a0. specialize (HR a0). cbn [app]. rewrite occ_cons_inl. exact HR.
    + cbn [app]. constructor; [|assumption]. rewrite Forall_forall in HT. auto.
  - destruct (get_ok _ _ I HI) as [b [Hg [Hb [Hf [Hrc Hpos]]]]].
    unfold h_inc, hspec, hbind. rewrite Hg.
    destruct (N.eqb_spec (b_rc b) 0) as [Hz|Hz]; [lia|].
    destruct (N.leb mx (b_rc b)); [exact Logic.I|].
    unfold h_set. simpl.
    assert (heap_refs (upd a (set_rc b (b_rc b + 1)) h) = heap_refs h) as HE
      by (eapply heap_refs_upd_eq; eauto).
    split; [|split; [eapply tags_stable_upd; eauto|exact HE]].
    eapply inv_h_upd with (b := b) (dm := 0) (dp := 1); eauto.
    + intros a0. cbn [b_kids set_rc app]. rewrite occ_cons_ptr. iflia.
    + simpl. rewrite Hf. lia.
    + cbn [b_kids set_rc app]. destruct I as [_ HT]. rewrite Forall_forall in HT. constructor; [auto|].
      eapply Forall_typed_sub; [apply Forall_forall; exact HT|].
      intros x Hx. apply in_app_or in Hx. apply in_or_app. destruct Hx; [auto|].
      right. eapply kids_in_heap_refs; eauto.
Qed.

Lemma clone_all_spec : forall l E h, inv_h E h -> incl l (E ++ heap_refs h) ->
  hspec (h_clone_all mx l) h (fun _ h' => inv_h (l ++ E) h' /\ tags_stable h h' /\ heap_refs h' = heap_refs h).
Proof.
  induction l as [|tv r IH]; intros E h I HI; simpl.
  - apply hspec_ret. split; [assumption|split; [apply tags_stable_refl|reflexivity]].
  - apply hspec_bind. eapply hspec_weaken; [apply clone1_spec; [exact I|apply HI; left; reflexivity]|].
    intros _ h1 [I1 [T1 R1]]. simpl.
    eapply hspec_weaken; [apply (IH (tv :: E) h1 I1)|].
    + intros x Hx. simpl. right. rewrite R1. apply HI. right. exact Hx.
    + intros _ h2 [I2 [T2 R2]]. simpl. split; [|split].
      * eapply inv_h_perm; [|exact I2]. symmetry. apply Permutation_middle.
      * eapply tags_stable_trans; eauto.
      * congruence.
Qed.

Lemma alloc_spec : forall E h k t sh kids, inv_h (kids ++ E) h ->
  hspec (h_alloc k t sh kids) h (fun tv h' =>
    inv_h (tv :: E) h' /\ tags_stable h h' /\ heap_refs h' = heap_refs h ++ kids /\
    tv = (if tag_ok k t then k else kind_of_tag t, VPtr (length h)) /\
    nth_error h' (length h) = Some (mkB t 1 sh kids false) /\
    (forall a b, nth_error h a = Some b -> nth_error h' a = Some b)).
Proof.
  intros. unfold hspec, h_alloc. split; [apply inv_h_alloc; assumption|].
  split; [apply tags_stable_app|]. split; [apply heap_refs_snoc|]. split; [reflexivity|]. split.
  - rewrite nth_error_app2 by lia. rewrite Nat.sub_diag. reflexivity.
  - intros a b Hb. rewrite nth_error_app1; [assumption|eapply nth_error_Some_lt; eauto].
Qed.

(* removing an inline handle from the outside references *)
Lemma inv_h_drop_inl : forall E h k i, inv_h ((k, VInl i) :: E) h -> inv_h E h.
Proof.
  intros E h k i [HR HT]. split.
  - intros a0. specialize (HR a0). cbn [app] in HR. rewrite occ_cons_inl in HR. exact HR.
  - cbn [app] in HT. inversion HT; assumption.
Qed.

Lemma length_heap_refs_upd : forall h a b b', nth_error h a = Some b ->
  length (heap_refs (upd a b' h)) + length (b_kids b) = length (heap_refs h) + length (b_kids b').
Proof.
  intros. pose proof (Permutation_length (heap_refs_upd_perm h a b' H)) as P.
  rewrite !app_length in P. exact P.
Qed.

Lemma drop_loop_spec : forall fuel pend E h,
  inv_h (pend ++ E) h -> length pend + length (heap_refs h) < fuel ->
  exists h', drop_loop fuel pend h = Ok h' /\ inv_h E h' /\ tags_stable h h'.
Proof.
  induction fuel as [|f IH]; intros pend E h I Hf; [lia|].
  destruct pend as [|[k v] rest].
  - exists h. simpl. split; [reflexivity|split; [exact I|apply tags_stable_refl]].
  - simpl drop_loop. destruct v as [i|a]; simpl snd; cbv iota.
    + apply (IH rest E h).
      * simpl in I. eapply inv_h_drop_inl; eauto.
      * simpl in Hf. lia.
    + assert (In (k, VPtr a) ((((k, VPtr a) :: rest) ++ E) ++ heap_refs h)) as HI by (simpl; auto).
      destruct (get_ok _ _ I HI) as [b [_ [Hb [Hfr [Hrc Hpos]]]]].
      rewrite Hb, Hfr.
      destruct (N.eqb_spec (b_rc b) 0) as [Hz|Hz]; [lia|].
      destruct (N.eqb_spec (b_rc b) 1) as [H1|H1].
      * (* last handle: the block is freed and its payload dropped *)
        assert (inv_h ((b_kids b ++ rest) ++ E) (upd a (freed_block b) h)) as I'.
        { eapply inv_h_upd with (b := b) (dm := 1) (dp := 0); eauto.
          - intros a0. cbn [b_kids freed_block app]. rewrite app_nil_r. rewrite <- !app_assoc.
            rewrite occ_cons_ptr. rewrite !occ_app. iflia.
          - simpl. lia.
          - cbn [b_kids freed_block]. rewrite app_nil_r. destruct I as [_ HT].
            eapply Forall_typed_sub; [exact HT|].
            intros x Hx. rewrite <- app_assoc in Hx. apply in_app_or in Hx. destruct Hx as [Hx|Hx].
            + apply in_or_app. right. eapply kids_in_heap_refs; eauto.
            + apply in_or_app. left. simpl. right. exact Hx. }
        destruct (IH (b_kids b ++ rest) E (upd a (freed_block b) h) I') as [h' [Hd [Ih' Th']]].
        { pose proof (length_heap_refs_upd h a (freed_block b) Hb) as L. simpl in L, Hf.
          rewrite app_length. lia. }
        exists h'. split; [exact Hd|split; [exact Ih'|]].
        eapply tags_stable_trans; [eapply (@tags_stable_upd h a b (freed_block b)); [exact Hb|reflexivity]|exact Th'].
      * (* other handles remain *)
        assert (inv_h (rest ++ E) (upd a (set_rc b (b_rc b - 1)) h)) as I'.
        { eapply inv_h_upd with (b := b) (dm := 1) (dp := 0); eauto.
          - intros a0. cbn [b_kids set_rc app]. rewrite occ_cons_ptr. iflia.
          - simpl. rewrite Hfr. lia.
          - cbn [b_kids set_rc]. destruct I as [_ HT].
            eapply Forall_typed_sub; [exact HT|].
            intros x Hx. apply in_app_or in Hx. destruct Hx as [Hx|Hx].
            + apply in_or_app. left. simpl. right. exact Hx.
            + apply in_or_app. right. eapply kids_in_heap_refs; eauto. }
        destruct (IH rest E (upd a (set_rc b (b_rc b - 1)) h) I') as [h' [Hd [Ih' Th']]].
        { rewrite (heap_refs_upd_eq h a (set_rc b (b_rc b - 1)) Hb) by reflexivity. simpl in Hf. lia. }
        exists h'. split; [exact Hd|split; [exact Ih'|]].
        eapply tags_stable_trans; [eapply (@tags_stable_upd h a b (set_rc b (b_rc b - 1))); [exact Hb|reflexivity]|exact Th'].
Qed.

Lemma drop_spec : forall l E h, inv_h (l ++ E) h ->
  hspec (h_drop l) h (fun _ h' => inv_h E h' /\ tags_stable h h').
Proof.
  intros l E h I. unfold hspec, h_drop.
  destruct (@drop_loop_spec (S (length l + length (heap_refs h))) l E h I) as [h' [Hd [I' T']]]; [lia|].
  rewrite Hd. auto.
Qed.

(* dropping one handle of a block that has others only decrements *)
Lemma drop_one_shared : forall h k a b, nth_error h a = Some b -> b_freed b = false ->
  b_rc b <> 0%N -> b_rc b <> 1%N ->
  h_drop (@cons tval (k, VPtr a) (@nil tval)) h = Ok (tt, upd a (set_rc b (b_rc b - 1)) h).
Proof.
  intros h k a b Hb Hf H0 H1. unfold h_drop. simpl. rewrite Hb, Hf.
  destruct (N.eqb_spec (b_rc b) 0); [contradiction|].
  destruct (N.eqb_spec (b_rc b) 1); [contradiction|]. reflexivity.
Qed.

Definition unique_in (h : list block) (tv : tval) : Prop :=
  match snd tv with
  | VPtr a => exists b, nth_error h a = Some b /\ b_freed b = false /\ b_rc b = 1%N
  | VInl _ => True
  end.

Lemma typed_kind_alloc : forall h k a b, typed h (k, VPtr a) -> nth_error h a = Some b ->
  (if tag_ok k (b_tag b) then k else kind_of_tag (b_tag b)) = k.
Proof.
  intros h k a b [b' [Hb' Hk]] Hb. simpl in *. rewrite Hb in Hb'. inversion Hb'; subst. rewrite Hk. reflexivity.
Qed.

Lemma make_unique_spec : forall E h tv, inv_h (tv :: E) h ->
  hspec (h_make_unique mx tv) h (fun tv' h' =>
    inv_h (tv' :: E) h' /\ tags_stable h h' /\ unique_in h' tv' /\ fst tv' = fst tv).
Proof.
  intros E h [k v] I. unfold h_make_unique; cbn [snd fst]. destruct v as [i|a].
  - apply hspec_ret. split; [exact I|split; [apply tags_stable_refl|split; [exact Logic.I|reflexivity]]].
  - assert (In (k, VPtr a) (((k, VPtr a) :: E) ++ heap_refs h)) as HI by (simpl; auto).
    destruct (get_ok _ _ I HI) as [b [Hg [Hb [Hf [Hrc Hpos]]]]].
    unfold hspec at 1, hbind at 1. rewrite Hg.
    destruct (N.eqb_spec (b_rc b) 1) as [H1|H1].
    + simpl. split; [exact I|split; [apply tags_stable_refl|split; [|reflexivity]]].
      unfold unique_in; simpl. eauto.
    + apply hspec_bind. eapply hspec_weaken.
      { apply (@clone_all_spec (b_kids b) ((k, VPtr a) :: E) h I).
        intros x Hx. apply in_or_app. right. eapply kids_in_heap_refs; eauto. }
      intros _ h1 [I1 [T1 R1]]. cbv beta.
      apply hspec_bind. eapply hspec_weaken; [apply (@alloc_spec ((k, VPtr a) :: E) h1 k (b_tag b) (copy_shape (b_shape b)) (b_kids b) I1)|].
      intros tv' h2 [I2 [T2 [R2 [Hs [Hn Hkeep]]]]]. cbv beta.
      (* the old block still has another handle: the drop only decrements *)
      destruct (T1 _ _ Hb) as [b1 [Hb1 _]].
      assert (In (k, VPtr a) ((b_kids b ++ (k, VPtr a) :: E) ++ heap_refs h1)) as HI1.
      { apply in_or_app. left. apply in_or_app. right. left. reflexivity. }
      destruct (get_ok _ _ I1 HI1) as [b1' [_ [Hb1' [Hf1 [Hrc1 _]]]]].
      rewrite Hb1 in Hb1'. inversion Hb1'; subst b1'. clear Hb1'.
      assert (b_rc b1 <> 0%N /\ b_rc b1 <> 1%N) as [Hn0 Hn1].
      { rewrite Hrc1. rewrite R1. rewrite Hrc in H1.
        cbn [app] in *. rewrite !occ_app in *. rewrite occ_cons_ptr in *. rewrite Nat.eqb_refl in *.
        rewrite occ_app in *. split; lia. }
      pose proof (Hkeep _ _ Hb1) as Hb2.
      apply hspec_bind. unfold hspec at 1.
      rewrite (@drop_one_shared h2 k a b1 Hb2 Hf1 Hn0 Hn1).
      apply hspec_ret.
      assert (inv_h ([(k, VPtr a)] ++ tv' :: E) h2) as I2'.
      { eapply inv_h_perm; [|exact I2]. apply perm_swap. }
      pose proof (@drop_spec (@cons tval (k, VPtr a) (@nil tval)) (tv' :: E) h2 I2') as D. unfold hspec in D.
      rewrite (@drop_one_shared h2 k a b1 Hb2 Hf1 Hn0 Hn1) in D. destruct D as [I3 T3].
      split; [exact I3|]. split; [eapply tags_stable_trans; [exact T1|eapply tags_stable_trans; eauto]|].
      assert (typed h (k, VPtr a)) as Ht.
      { destruct I as [_ HT]. inversion HT; assumption. }
      rewrite (typed_kind_alloc Ht Hb) in Hs. subst tv'. split; [|reflexivity].
      unfold unique_in. cbn [snd].
      assert (length h1 <> a) as Hne by (apply nth_error_Some_lt in Hb1; lia).
      exists (mkB (b_tag b) 1 (copy_shape (b_shape b)) (b_kids b) false).
      rewrite nth_error_upd_neq by congruence. auto.
Qed.

Lemma strong_clone_spec : forall E h tv, inv_h E h -> In tv (E ++ heap_refs h) ->
  hspec (h_strong_clone mx tv) h (fun tv' h' => inv_h (tv' :: E) h' /\ tags_stable h h').
Proof.
  intros E h [k v] I HI. unfold h_strong_clone; cbn [snd fst]. destruct v as [i|a].
  - apply hspec_ret. split; [|apply tags_stable_refl].
    pose proof (@clone1_spec E h (k, VInl i) I HI) as C. unfold hspec, h_clone1 in C. simpl in C. tauto.
  - destruct (get_ok _ _ I HI) as [b [Hg [Hb [Hf [Hrc Hpos]]]]].
    unfold hspec at 1, hbind at 1. rewrite Hg.
    apply hspec_bind. eapply hspec_weaken.
    { apply (@clone_all_spec (b_kids b) E h I).
      intros x Hx. apply in_or_app. right. eapply kids_in_heap_refs; eauto. }
    intros _ h1 [I1 [T1 R1]]. cbv beta.
    eapply hspec_weaken; [apply (@alloc_spec E h1 k (b_tag b) (copy_shape (b_shape b)) (b_kids b) I1)|].
    intros tv' h2 [I2 [T2 _]]. split; [exact I2|eapply tags_stable_trans; eauto].
Qed.

(* writes *)
Lemma modify_spec : forall mode tv (f : editf) given E h,
  inv_h (tv :: given ++ E) h ->
  (forall sh kids, Permutation (snd (fst (f sh kids)) ++ snd (f sh kids)) (kids ++ given)) ->
  hspec (h_modify mx mode tv f) h (fun r h' =>
    inv_h (fst r :: (match snd r with Some rel => rel | None => given end) ++ E) h' /\ tags_stable h h' /\
    (forall rel, snd r = Some rel -> exists sh kids, rel = snd (f sh kids)) /\
    (mode <> WCow -> fst r = tv)).
Proof.
  intros mode tv f given E h I Hf. unfold h_modify.
  apply hspec_bind.
  assert (hspec (match mode with WCow => h_make_unique mx tv | _ => hret tv end) h
            (fun tv' h1 => inv_h (tv' :: given ++ E) h1 /\ tags_stable h h1 /\
                           (mode = WCow -> unique_in h1 tv') /\ (mode <> WCow -> tv' = tv))) as S1.
  { destruct mode.
    - eapply hspec_weaken; [apply make_unique_spec; exact I|]. intros tv' h1 [I1 [T1 [U1 _]]].
      split; [exact I1|split; [exact T1|split; [auto|congruence]]].
    - apply hspec_ret. split; [exact I|split; [apply tags_stable_refl|split; [discriminate|reflexivity]]].
    - apply hspec_ret. split; [exact I|split; [apply tags_stable_refl|split; [discriminate|reflexivity]]]. }
  eapply hspec_weaken; [exact S1|]. clear S1. intros [k v] h1 [I1 [T1 [U1 Eq1]]]. cbn [snd].
  destruct v as [i|a].
  - apply hspec_ret. cbn [fst snd]. split; [exact I1|split; [exact T1|split; [discriminate|exact Eq1]]].
  - assert (In (k, VPtr a) (((k, VPtr a) :: given ++ E) ++ heap_refs h1)) as HI by (simpl; auto).
    destruct (get_ok _ _ I1 HI) as [b [Hg [Hb [Hfr [Hrc Hpos]]]]].
    unfold hspec at 1, hbind at 1. rewrite Hg.
    destruct (match mode with WIfUnique => negb (N.eqb (b_rc b) 1) | _ => false end) eqn:Eskip.
    + cbn [fst snd]. split; [exact I1|split; [exact T1|split; [discriminate|exact Eq1]]].
    + assert ((match mode with WShared => false | _ => negb (N.eqb (b_rc b) 1) end) = false) as Eu.
      { destruct mode; [|exact Eskip|reflexivity].
        destruct (U1 eq_refl) as [b' [Hb' [_ Hr']]]. rewrite Hb in Hb'. inversion Hb'; subst b'.
        rewrite Hr'. reflexivity. }
      rewrite Eu. unfold hspec, hbind, h_set, hret. cbn [fst snd].
      specialize (Hf (b_shape b) (b_kids b)).
      set (r := f (b_shape b) (b_kids b)) in *.
      split; [|split; [eapply tags_stable_trans; [exact T1|eapply (@tags_stable_upd h1 a b); [exact Hb|reflexivity]]|
                       split; [intros rel Hrel; inversion Hrel; subst rel; exists (b_shape b), (b_kids b); reflexivity|exact Eq1]]].
      eapply inv_h_upd with (b := b) (dm := 0) (dp := 0); eauto.
      * intros a0. cbn [b_kids].
        cbn [app]. rewrite !occ_cons. rewrite <- !app_assoc.
        pose proof (occ_perm a0 Hf) as P. rewrite !occ_app in *. iflia.
      * cbn [b_freed b_rc]. lia.
      * cbn [b_kids]. destruct I1 as [_ HT].
        eapply Forall_typed_sub; [exact HT|].
        intros x Hx. cbn [app] in Hx. destruct Hx as [<-|Hx]; [left; reflexivity|].
        assert (In x (snd (fst r) ++ snd r) \/ In x E) as Hx'.
        { rewrite <- app_assoc in Hx. apply in_app_or in Hx. destruct Hx as [Hx|Hx].
          - left. apply in_or_app. auto.
          - apply in_app_or in Hx. destruct Hx as [Hx|Hx]; [right; exact Hx|].
            left. apply in_or_app. auto. }
        destruct Hx' as [Hx'|Hx'].
        -- eapply Permutation_in in Hx'; [|exact Hf]. apply in_app_or in Hx'. destruct Hx' as [Hx'|Hx'].
           ++ apply in_or_app. right. eapply kids_in_heap_refs; eauto.
           ++ apply in_or_app. left. right. apply in_or_app. auto.
        -- apply in_or_app. left. right. apply in_or_app. auto.
Qed.

(* the theorem's third part, at the level of one write: a write through &mut happens only on a
   block whose count is 1 *)
Lemma modify_writes_unique : forall mode tv f h r h',
  h_modify mx mode tv f h = Ok (r, h') -> mode <> WShared -> snd r <> None ->
  exists a b, snd (fst r) = VPtr a /\ nth_error h' a = Some b /\ b_rc b = 1%N.
Proof.
  intros mode tv f h r h' Hm Hmode Hw. unfold h_modify, hbind in Hm.
  destruct (match mode with WCow => h_make_unique mx tv | _ => hret tv end h) as [[tv' h1]| |]; try discriminate.
  destruct tv' as [k v]. cbn [snd] in Hm. destruct v as [i|a].
  - unfold hret in Hm. inversion Hm; subst. simpl in Hw. congruence.
  - unfold h_get in Hm. destruct (nth_error h1 a) as [b|] eqn:Hb; try discriminate.
    destruct (b_freed b); try discriminate.
    destruct (match mode with WIfUnique => negb (N.eqb (b_rc b) 1) | _ => false end).
    + unfold hret in Hm. inversion Hm; subst. simpl in Hw. congruence.
    + destruct (match mode with WShared => false | _ => negb (N.eqb (b_rc b) 1) end) eqn:E.
      * unfold hfail in Hm. discriminate.
      * unfold h_set, hret in Hm. inversion Hm; subst. cbn [fst snd].
        exists a. eexists. split; [reflexivity|]. split.
        -- apply nth_error_upd_eq. eapply nth_error_Some_lt; eauto.
        -- cbn [b_rc]. destruct mode; try congruence;
           destruct (N.eqb_spec (b_rc b) 1); simpl in E; congruence.
Qed.

Lemma take_or_clone_spec : forall tv sel E h,
  inv_h (tv :: E) h -> (forall sh kids, incl (sel sh kids) kids) ->
  hspec (h_take_or_clone mx tv sel) h (fun r h' => inv_h (snd r ++ E) h' /\ tags_stable h h').
Proof.
  intros [k v] sel E h I Hsel. unfold h_take_or_clone; cbn [snd]. destruct v as [i|a].
  - apply hspec_ret. cbn [snd app]. split; [eapply inv_h_drop_inl; eauto|apply tags_stable_refl].
  - assert (In (k, VPtr a) (((k, VPtr a) :: E) ++ heap_refs h)) as HI by (simpl; auto).
    destruct (get_ok _ _ I HI) as [b [Hg [Hb [Hfr [Hrc Hpos]]]]].
    unfold hspec at 1, hbind at 1. rewrite Hg.
    destruct (N.eqb_spec (b_rc b) 1) as [H1|H1].
    + unfold hspec, hbind, h_set, hret. cbn [snd].
      split; [|eapply (@tags_stable_upd h a b); [exact Hb|reflexivity]].
      eapply inv_h_upd with (b := b) (dm := 1) (dp := 0); eauto.
      * intros a0. cbn [b_kids freed_block app]. rewrite app_nil_r.
        rewrite occ_cons_ptr. rewrite !occ_app. iflia.
      * simpl. lia.
      * cbn [b_kids freed_block]. rewrite app_nil_r. destruct I as [_ HT].
        eapply Forall_typed_sub; [exact HT|].
        intros x Hx. apply in_app_or in Hx. destruct Hx as [Hx|Hx].
        -- apply in_or_app. right. eapply kids_in_heap_refs; eauto.
        -- apply in_or_app. left. right. exact Hx.
    + apply hspec_bind. eapply hspec_weaken.
      { apply (@clone_all_spec (sel (b_shape b) (b_kids b)) ((k, VPtr a) :: E) h I).
        intros x Hx. apply in_or_app. right. eapply kids_in_heap_refs; eauto. apply (Hsel _ _ _ Hx). }
      intros _ h1 [I1 [T1 R1]]. cbv beta.
      apply hspec_bind. eapply hspec_weaken.
      { apply (@drop_spec (@cons tval (k, VPtr a) (@nil tval)) (sel (b_shape b) (b_kids b) ++ E) h1).
        eapply inv_h_perm; [|exact I1]. cbn [app]. symmetry. apply Permutation_middle. }
      intros _ h2 [I2 T2]. cbv beta. apply hspec_ret. cbn [snd].
      split; [exact I2|eapply tags_stable_trans; eauto].
Qed.

Lemma clone_kids_spec : forall tv sel E h,
  inv_h E h -> In tv (E ++ heap_refs h) -> (forall sh kids, incl (sel sh kids) kids) ->
  hspec (h_clone_kids mx tv sel) h (fun r h' =>
    inv_h (snd r ++ E) h' /\ tags_stable h h' /\ heap_refs h' = heap_refs h).
Proof.
  intros [k v] sel E h I HI Hsel. unfold h_clone_kids; cbn [snd]. destruct v as [i|a].
  - apply hspec_ret. cbn [snd app]. split; [exact I|split; [apply tags_stable_refl|reflexivity]].
  - destruct (get_ok _ _ I HI) as [b [Hg [Hb [Hfr [Hrc Hpos]]]]].
    unfold hspec at 1, hbind at 1. rewrite Hg.
    apply hspec_bind. eapply hspec_weaken.
    { apply (@clone_all_spec (sel (b_shape b) (b_kids b)) E h I).
      intros x Hx. apply in_or_app. right. eapply kids_in_heap_refs; eauto. apply (Hsel _ _ _ Hx). }
    intros _ h1 [I1 [T1 R1]]. cbv beta. apply hspec_ret. cbn [snd]. auto.
Qed.

Lemma clone_grandkids_spec : forall tv E h,
  inv_h E h -> In tv (E ++ heap_refs h) ->
  hspec (h_clone_grandkids mx tv) h (fun l h' =>
    inv_h (l ++ E) h' /\ tags_stable h h' /\ heap_refs h' = heap_refs h).
Proof.
  intros [k v] E h I HI. unfold h_clone_grandkids; cbn [snd]. destruct v as [i|a].
  - apply hspec_ret. cbn [app]. split; [exact I|split; [apply tags_stable_refl|reflexivity]].
  - destruct (get_ok _ _ I HI) as [b [Hg [Hb [Hfr [Hrc Hpos]]]]].
    unfold hspec at 1, hbind at 1. rewrite Hg.
    destruct (b_kids b) as [|kid rest] eqn:Ek.
    + apply hspec_ret. cbn [app]. split; [exact I|split; [apply tags_stable_refl|reflexivity]].
    + apply hspec_bind. eapply hspec_weaken.
      { apply (@clone_kids_spec kid (fun _ l => l) E h I).
        - apply in_or_app. right. eapply kids_in_heap_refs; eauto. rewrite Ek. left. reflexivity.
        - intros sh kids x Hx. exact Hx. }
      intros r h1 [I1 [T1 R1]]. cbv beta. apply hspec_ret. auto.
Qed.

(* thunk_tag_inv at work: the unchecked decode of a Thunk-typed handle finds a thunk block *)
Lemma thunk_data_spec : forall tv E h, inv_h E h -> In tv (E ++ heap_refs h) -> fst tv = KThunk ->
  exists b, h_thunk_data tv h = Ok (b, h) /\ b_tag b = TThunk.
Proof.
  intros [k v] E h I HI Hk. simpl in Hk. subst k.
  assert (typed h (KThunk, v)) as Ht.
  { destruct I as [_ HT]. rewrite Forall_forall in HT. auto. }
  destruct v as [i|a]; [discriminate Ht|].
  destruct (get_ok _ _ I HI) as [b [Hg [Hb [Hfr _]]]].
  destruct Ht as [b' [Hb' Hk]]. rewrite Hb in Hb'. inversion Hb'; subst b'. simpl in Hk.
  exists b. unfold h_thunk_data, hbind. rewrite Hg. rewrite Hk. split; [reflexivity|].
  destruct (b_tag b); simpl in Hk; congruence.
Qed.

Lemma retype_thunk_spec : forall tv E h, inv_h (tv :: E) h ->
  exists r, h_retype_thunk tv h = Ok (r, h) /\ inv_h (fst r :: E) h.
Proof.
  intros [k v] E h I.
  assert (In (k, v) (((k, v) :: E) ++ heap_refs h)) as HI by (simpl; auto).
  destruct (read_spec _ I HI) as [o [Hr Ho]].
  unfold h_retype_thunk, hbind. rewrite Hr. destruct o as [b|].
  - destruct Ho as [a [Hs [Hb Hfr]]]. simpl in Hs. subst v.
    destruct (tag_eqb (b_tag b) TThunk) eqn:Et.
    + eexists. split; [reflexivity|]. cbn [fst snd].
      eapply inv_h_retype; [exact I|]. exists b. split; [exact Hb|exact Et].
    + eexists. split; [reflexivity|exact I].
  - eexists. split; [reflexivity|exact I].
Qed.

End Prims.

(* ------------------------------------------------------------------ permutation solver *)

Definition tval_dec : forall x y : tval, {x = y} + {x <> y}.
Proof. repeat decide equality. Defined.

Lemma count_firstn_skipn : forall n (l : list tval) x,
  count_occ tval_dec l x = count_occ tval_dec (firstn n l) x + count_occ tval_dec (skipn n l) x.
Proof. intros. rewrite <- count_occ_app. rewrite firstn_skipn. reflexivity. Qed.

Lemma skipn_1_tl : forall A (l : list A), tl l = skipn 1 l.
Proof. destruct l; reflexivity. Qed.

Lemma removelast_last_t : forall l, removelast_t l ++ opt_list (last_t l) = l.
Proof.
  induction l as [|x r IH]; [reflexivity|]. destruct r as [|y r']; [reflexivity|].
  change (x :: (removelast_t (y :: r') ++ opt_list (last_t (y :: r'))) = x :: y :: r').
  rewrite IH. reflexivity.
Qed.

Lemma count_removelast_last : forall (l : list tval) x,
  count_occ tval_dec l x = count_occ tval_dec (removelast_t l) x + count_occ tval_dec (opt_list (last_t l)) x.
Proof. intros. rewrite <- count_occ_app. rewrite removelast_last_t. reflexivity. Qed.

Ltac perm_facts x :=
  repeat match goal with
  | |- context [firstn ?n ?l] =>
    lazymatch goal with
    | _ : count_occ tval_dec l x = count_occ tval_dec (firstn n l) x + _ |- _ => fail
    | _ => pose proof (count_firstn_skipn n l x)
    end
  end;
  repeat match goal with
  | |- context [removelast_t ?l] =>
    lazymatch goal with
    | _ : count_occ tval_dec l x = count_occ tval_dec (removelast_t l) x + _ |- _ => fail
    | _ => pose proof (count_removelast_last l x)
    end
  end.

Ltac perm_tac :=
  rewrite ?skipn_1_tl;
  apply (Permutation_count_occ tval_dec);
  let x := fresh "x" in intro x;
  repeat (progress (rewrite ?count_occ_app; cbn [count_occ opt_list app]));
  perm_facts x;
  repeat match goal with |- context [tval_dec ?a ?b] => destruct (tval_dec a b) end;
  lia.

Example perm_tac_test : forall (a b : tval) (l k : list tval),
  Permutation (a :: firstn 1 l ++ k ++ b :: skipn 1 l) (l ++ [b] ++ a :: k).
Proof. intros. perm_tac. Qed.

(* ------------------------------------------------------------------ state level *)

Definition sinv (X : list tval) (st : hstate) : Prop := inv_h (root_vals (roots st) ++ X) (heap st).

Definition striple {A} (X : list tval) (m : M A) (Q : A -> list tval) : Prop :=
  forall st, sinv X st ->
    match m st with Ok (a, st') => sinv (Q a) st' | Overflow => True | Err _ => False end.

Lemma sinv_perm : forall X X' st, Permutation X X' -> sinv X st -> sinv X' st.
Proof. unfold sinv. intros. eapply inv_h_perm; [|eassumption]. apply Permutation_app_head. assumption. Qed.

Lemma striple_pre : forall A X X' (m : M A) Q, Permutation X X' -> striple X' m Q -> striple X m Q.
Proof. unfold striple. intros A X X' m Q P H st I. apply H. eapply sinv_perm; eauto. Qed.

Lemma striple_post : forall A X (m : M A) Q Q', (forall a, Permutation (Q a) (Q' a)) -> striple X m Q -> striple X m Q'.
Proof.
  unfold striple. intros A X m Q Q' P H st I. specialize (H st I).
  destruct (m st) as [[a st']| |]; auto. eapply sinv_perm; eauto.
Qed.

Lemma striple_ret : forall A X (a : A) Q, Permutation X (Q a) -> striple X (ret a) Q.
Proof. unfold striple, ret. intros. eapply sinv_perm; eauto. Qed.

Lemma striple_bind : forall A B X (m : M A) (f : A -> M B) Q R,
  striple X m Q -> (forall a, striple (Q a) (f a) R) -> striple X (bind m f) R.
Proof.
  unfold striple, bind. intros A B X m f Q R Hm Hf st I. specialize (Hm st I).
  destruct (m st) as [[a st']| |]; auto. apply Hf. exact Hm.
Qed.

Lemma striple_guard : forall X c (m : M out) Q, Permutation X (Q OSkip) -> striple X m Q -> striple X (guard c m) Q.
Proof.
  unfold striple, guard. intros X c m Q P H st I. destruct (c st); [apply H; exact I|].
  eapply sinv_perm; eauto.
Qed.

Lemma striple_get : forall A X (f : hstate -> A), striple X (get f) (fun _ => X).
Proof. unfold striple, get. intros. assumption. Qed.

Lemma striple_fun : forall A X (m : hstate -> M A) Q, (forall s, striple X (m s) Q) -> striple X (fun st => m st st) Q.
Proof. unfold striple. intros. apply H. assumption. Qed.

Lemma striple_lift : forall A (m : H A) Lin (Lout : A -> list tval) X,
  (forall E h, inv_h (Lin ++ E) h -> hspec m h (fun a h' => inv_h (Lout a ++ E) h')) ->
  striple (Lin ++ X) (lift m) (fun a => Lout a ++ X).
Proof.
  unfold striple, lift, sinv. intros A m Lin Lout X Hm st I.
  assert (inv_h (Lin ++ (root_vals (roots st) ++ X)) (heap st)) as I'.
  { eapply inv_h_perm; [|exact I]. perm_tac. }
  specialize (Hm _ _ I'). unfold hspec in Hm.
  destruct (m (heap st)) as [[a h']| |]; auto. simpl.
  eapply inv_h_perm; [|exact Hm]. perm_tac.
Qed.

Lemma root_vals_upd_perm : forall r s o o', nth_error r s = Some o ->
  Permutation (root_vals (upd s o' r) ++ opt_list o) (root_vals r ++ opt_list o').
Proof.
  intros. unfold root_vals.
  pose proof (@flat_map_upd_perm _ _ (fun o => match o with Some tv => [tv] | None => [] end) r s o o' H) as P.
  destruct o, o'; exact P.
Qed.

Lemma striple_take_root : forall X s, striple X (take_root s) (fun o => opt_list o ++ X).
Proof.
  unfold striple, take_root, sinv. intros X s st I.
  destruct (nth_error (roots st) s) as [[tv|]|] eqn:Hs; simpl; try exact I.
  pose proof (@root_vals_upd_perm (roots st) s (Some tv) None Hs) as P. simpl in P. rewrite app_nil_r in P.
  eapply inv_h_perm; [|exact I]. rewrite <- P. perm_tac.
Qed.

Lemma striple_take_roots : forall ss X, striple X (take_roots ss) (fun l => l ++ X).
Proof.
  induction ss as [|s r IH]; intros X; simpl.
  - apply striple_ret. reflexivity.
  - eapply striple_bind; [apply striple_take_root|]. intros o. cbv beta.
    eapply striple_bind; [apply IH|]. intros l. cbv beta.
    apply striple_ret. destruct o; simpl; perm_tac.
Qed.

Lemma striple_push_root : forall X tv, striple (tv :: X) (push_root tv) (fun _ => X).
Proof.
  unfold striple, push_root, sinv. intros X tv st I. simpl.
  unfold root_vals in *. rewrite flat_map_app. simpl.
  eapply inv_h_perm; [|exact I]. perm_tac.
Qed.

Lemma striple_push_roots : forall l X, striple (l ++ X) (push_roots l) (fun _ => X).
Proof.
  induction l as [|tv r IH]; intros X; simpl.
  - apply striple_ret. reflexivity.
  - eapply striple_bind; [apply striple_push_root|]. intros u. cbv beta. apply IH.
Qed.

Lemma striple_with_root : forall A s (f : tval -> H (tval * A)) (dflt : A) Lin (Lout : A -> list tval) X,
  (forall tv E h, inv_h (tv :: Lin ++ E) h -> hspec (f tv) h (fun r h' => inv_h (fst r :: Lout (snd r) ++ E) h')) ->
  Permutation Lin (Lout dflt) ->
  striple (Lin ++ X) (with_root s f dflt) (fun a => Lout a ++ X).
Proof.
  unfold striple, with_root, sinv. intros A s f dflt Lin Lout X Hf Hd st I.
  destruct (nth_error (roots st) s) as [[tv|]|] eqn:Hs; simpl;
    try (eapply inv_h_perm; [|exact I]; apply Permutation_app_head; apply Permutation_app_tail; exact Hd).
  pose proof (@root_vals_upd_perm (roots st) s (Some tv) None Hs) as P. simpl in P. rewrite app_nil_r in P.
  assert (inv_h (tv :: Lin ++ (root_vals (upd s None (roots st)) ++ X)) (heap st)) as I'.
  { eapply inv_h_perm; [|exact I]. rewrite <- P. perm_tac. }
  specialize (Hf _ _ _ I'). unfold hspec in Hf.
  destruct (f tv (heap st)) as [[[tv' a] h']| |]; auto. simpl in *.
  assert (nth_error (upd s None (roots st)) s = Some None) as Hs'.
  { apply nth_error_upd_eq. eapply nth_error_Some_lt; eauto. }
  pose proof (@root_vals_upd_perm (upd s None (roots st)) s None (Some tv') Hs') as P'. simpl in P'.
  rewrite app_nil_r in P'.
  assert (upd s (Some tv') (upd s None (roots st)) = upd s (Some tv') (roots st)) as Eu.
  { apply upd_upd. }
  rewrite Eu in P'.
  eapply inv_h_perm; [|exact Hf]. rewrite P'. perm_tac.
Qed.

Section StateOps.
Variable mx : N.

Lemma striple_clone_root : forall X s, striple X (clone_root mx s) (fun l => l ++ X).
Proof.
  unfold striple, clone_root, sinv. intros X s st I.
  destruct (nth_error (roots st) s) as [[tv|]|] eqn:Hs; simpl; try exact I.
  assert (In tv ((root_vals (roots st) ++ X) ++ heap_refs (heap st))) as HI.
  { apply in_or_app. left. apply in_or_app. left. unfold root_vals. apply in_flat_map.
    exists (Some tv). split; [eapply nth_error_In; eauto|left; reflexivity]. }
  pose proof (@clone1_spec mx _ _ tv I HI) as C. unfold hspec in C.
  destruct (h_clone1 mx tv (heap st)) as [[u h']| |]; auto. simpl. destruct C as [C _].
  eapply inv_h_perm; [|exact C]. perm_tac.
Qed.

Lemma striple_clone_roots : forall ss X, striple X (clone_roots mx ss) (fun l => l ++ X).
Proof.
  induction ss as [|s r IH]; intros X; simpl.
  - apply striple_ret. reflexivity.
  - eapply striple_bind; [apply striple_clone_root|]. intros l. cbv beta.
    eapply striple_bind; [apply IH|]. intros l'. cbv beta.
    apply striple_ret. perm_tac.
Qed.

End StateOps.

(* ------------------------------------------------------------------ flexible forms (up to permutation) *)

Section Ops.
Variable mx : N.

Lemma drop_spec' : forall l L E h, inv_h L h -> Permutation L (l ++ E) ->
  hspec (h_drop l) h (fun _ h' => inv_h E h').
Proof.
  intros. eapply hspec_weaken; [apply (@drop_spec l E h); eapply inv_h_perm; eauto|]. intros _ h' [? _]. assumption.
Qed.

Lemma alloc_spec' : forall k t sh kids L E h, inv_h L h -> Permutation L (kids ++ E) ->
  hspec (h_alloc k t sh kids) h (fun tv h' => inv_h (tv :: E) h').
Proof.
  intros. eapply hspec_weaken; [apply (@alloc_spec E h k t sh kids); eapply inv_h_perm; eauto|].
  intros tv h' [? _]. assumption.
Qed.

Lemma modify_spec' : forall mode tv (f : editf) given L E h,
  inv_h L h -> Permutation L (tv :: given ++ E) ->
  (forall sh kids, Permutation (snd (fst (f sh kids)) ++ snd (f sh kids)) (kids ++ given)) ->
  hspec (h_modify mx mode tv f) h (fun r h' =>
    inv_h (fst r :: (match snd r with Some rel => rel | None => given end) ++ E) h' /\
    (forall rel, snd r = Some rel -> exists sh kids, rel = snd (f sh kids))).
Proof.
  intros. eapply hspec_weaken; [apply (@modify_spec mx mode tv f given E h); [eapply inv_h_perm; eauto|assumption]|].
  intros r h' [? [_ [? _]]]. split; assumption.
Qed.

(* a write through the RefCell of a thunk that releases nothing: the handle is unchanged *)
Lemma modify_shared_spec : forall tv (f : editf) L E h,
  inv_h L h -> Permutation L (tv :: E) ->
  (forall sh kids, snd (fst (f sh kids)) = kids /\ snd (f sh kids) = []) ->
  hspec (h_modify mx WShared tv f) h (fun _ h' => inv_h (tv :: E) h').
Proof.
  intros tv f L E h I P Hf.
  eapply hspec_weaken; [apply (@modify_spec mx WShared tv f [] E h); [eapply inv_h_perm; eauto|]|].
  - intros sh kids. destruct (Hf sh kids) as [H1 H2]. rewrite H1, H2. reflexivity.
  - intros r h' [I' [_ [R Eq]]]. rewrite (Eq ltac:(discriminate)) in I'.
    destruct (snd r) as [rel|]; [|exact I'].
    destruct (R _ eq_refl) as [sh [kids Hrel]]. destruct (Hf sh kids) as [_ H2]. rewrite H2 in Hrel. subst rel. exact I'.
Qed.

Lemma take_or_clone_spec' : forall tv sel L E h,
  inv_h L h -> Permutation L (tv :: E) -> (forall sh kids, incl (sel sh kids) kids) ->
  hspec (h_take_or_clone mx tv sel) h (fun r h' => inv_h (snd r ++ E) h').
Proof.
  intros. eapply hspec_weaken; [apply (@take_or_clone_spec mx tv sel E h); [eapply inv_h_perm; eauto|assumption]|].
  intros r h' [? _]. assumption.
Qed.

Lemma clone_kids_spec' : forall tv sel L h,
  inv_h L h -> In tv L -> (forall sh kids, incl (sel sh kids) kids) ->
  hspec (h_clone_kids mx tv sel) h (fun r h' => inv_h (snd r ++ L) h').
Proof.
  intros. eapply hspec_weaken; [apply (@clone_kids_spec mx tv sel L h); [assumption|apply in_or_app; auto|assumption]|].
  intros r h' [? _]. assumption.
Qed.

Lemma clone_grandkids_spec' : forall tv L h, inv_h L h -> In tv L ->
  hspec (h_clone_grandkids mx tv) h (fun l h' => inv_h (l ++ L) h').
Proof.
  intros. eapply hspec_weaken; [apply (@clone_grandkids_spec mx tv L h); [assumption|apply in_or_app; auto]|].
  intros r h' [? _]. assumption.
Qed.

Lemma clone_all_spec' : forall l L h, inv_h L h -> incl l L ->
  hspec (h_clone_all mx l) h (fun _ h' => inv_h (l ++ L) h').
Proof.
  intros. eapply hspec_weaken; [apply (@clone_all_spec mx l L h); [assumption|]|].
  - intros x Hx. apply in_or_app. left. auto.
  - intros r h' [? _]. assumption.
Qed.

Lemma clone1_spec' : forall tv L h, inv_h L h -> In tv L ->
  hspec (h_clone1 mx tv) h (fun _ h' => inv_h (tv :: L) h').
Proof.
  intros. eapply hspec_weaken; [apply (@clone1_spec mx L h tv); [assumption|apply in_or_app; auto]|].
  intros r h' [? _]. assumption.
Qed.

Lemma make_unique_spec' : forall tv L E h, inv_h L h -> Permutation L (tv :: E) ->
  hspec (h_make_unique mx tv) h (fun tv' h' => inv_h (tv' :: E) h').
Proof.
  intros. eapply hspec_weaken; [apply (@make_unique_spec mx E h tv); eapply inv_h_perm; eauto|].
  intros r h' [? _]. assumption.
Qed.

Lemma strong_clone_spec' : forall tv L h, inv_h L h -> In tv L ->
  hspec (h_strong_clone mx tv) h (fun tv' h' => inv_h (tv' :: L) h').
Proof.
  intros. eapply hspec_weaken; [apply (@strong_clone_spec mx L h tv); [assumption|apply in_or_app; auto]|].
  intros r h' [? _]. assumption.
Qed.

Lemma read_spec' : forall tv L h (Q : option block -> list block -> Prop), inv_h L h -> In tv L ->
  (forall o, Q o h) -> hspec (h_read tv) h Q.
Proof.
  intros tv L h Q I HI HQ. destruct (@read_spec L h tv I) as [o [Hr _]]; [apply in_or_app; auto|].
  unfold hspec. rewrite Hr. apply HQ.
Qed.

Lemma as_thunk_spec : forall tv L h (Q : option block -> list block -> Prop), inv_h L h -> In tv L ->
  (forall o, Q o h) -> hspec (h_as_thunk tv) h Q.
Proof.
  intros [k v] L h Q I HI HQ. unfold h_as_thunk. cbn [fst].
  destruct k; try (apply hspec_ret; apply HQ).
  destruct (@thunk_data_spec (KThunk, v) L h I) as [b [Hb _]]; [apply in_or_app; auto|reflexivity|].
  unfold hspec, hbind. rewrite Hb. apply HQ.
Qed.

Lemma retype_thunk_spec' : forall tv L E h, inv_h L h -> Permutation L (tv :: E) ->
  hspec (h_retype_thunk tv) h (fun r h' => inv_h (fst r :: E) h').
Proof.
  intros tv L E h I P. destruct (@retype_thunk_spec tv E h) as [r [Hr Ir]]; [eapply inv_h_perm; eauto|].
  unfold hspec. rewrite Hr. exact Ir.
Qed.

Ltac hstep := apply hspec_bind; eapply hspec_weaken.
Ltac permI H := eapply inv_h_perm; [|exact H]; perm_tac.

Lemma incl_closure_sel : forall sh kids, incl (closure_sel sh kids) kids.
Proof.
  intros sh kids x Hx. unfold closure_sel, closure_kids in Hx.
  destruct sh as [d|s l|s l [|]]; simpl in Hx; try contradiction; try assumption.
  destruct kids; simpl in *; [contradiction|auto].
Qed.

Lemma incl_all_kids : forall sh kids, incl (all_kids sh kids) kids.
Proof. intros sh kids x Hx. exact Hx. Qed.

Lemma incl_firstn : forall A n (l : list A), incl (firstn n l) l.
Proof. intros A n l x Hx. rewrite <- (firstn_skipn n l). apply in_or_app. auto. Qed.

Lemma incl_tl : forall A (l : list A), incl (tl l) l.
Proof. intros A [|y l] x Hx; simpl in *; auto. Qed.

(* ---------------------------------------------------------------- the mutation *)

Lemma mutate_fin : forall (r : tval * option (list tval)) (keep : bool) x E h,
  inv_h (fst r :: (match snd r with Some rel => rel | None => x end) ++ E) h ->
  hspec (match snd r with
         | Some rel => if keep then @hret (tval * (bool * list tval)) (fst r, (true, rel))
                       else h_drop rel ;;; @hret (tval * (bool * list tval)) (fst r, (true, []))
         | None => @hret (tval * (bool * list tval)) (fst r, (false, x))
         end) h
        (fun q h' => inv_h (fst q :: snd (snd q) ++ E) h').
Proof.
  intros [tv' [rel|]] keep x E h I; cbn [fst snd] in *.
  - destruct keep.
    + apply hspec_ret. exact I.
    + hstep. { eapply drop_spec' with (E := tv' :: E); [exact I|perm_tac]. }
      cbv beta. intros _ h1 I1. apply hspec_ret. exact I1.
  - apply hspec_ret. exact I.
Qed.

Lemma mutate_spec : forall mode tv m x E h, inv_h (tv :: x ++ E) h ->
  hspec (h_mutate mx mode tv m x) h (fun r h' => inv_h (fst r :: snd (snd r) ++ E) h').
Proof.
  intros mode tv m x E h I. unfold h_mutate.
  apply hspec_bind. eapply read_spec'; [exact I|left; reflexivity|]. intros [b|]; [|apply hspec_ret; exact I].
  (* what to do when the block is given back unchanged (no leaf / unexpected shape) *)
  assert (forall tv1 l h1, inv_h (tv1 :: l ++ x ++ E) h1 ->
            hspec (r3 <- h_modify mx mode tv1 (fun sh kids => ((sh, kids ++ l), [])) ;;
                   match snd r3 with
                   | Some _ => @hret (tval * (bool * list tval)) (fst r3, (false, x))
                   | None => h_drop l ;;; hret (fst r3, (false, x))
                   end) h1 (fun r h' => inv_h (fst r :: snd (snd r) ++ E) h')) as Hback.
  { intros tv1 l h1 I1.
    hstep. { eapply modify_spec' with (given := l) (E := x ++ E); [exact I1|perm_tac|]. intros; cbn [fst snd]; perm_tac. }
    cbv beta. intros [tv3 [rel3|]] h3 [I3 R3]; cbn [fst snd] in *.
    - destruct (R3 _ eq_refl) as [sh [kids ->]]. cbn [snd] in *. apply hspec_ret. cbn [fst snd]. exact I3.
    - hstep. { eapply drop_spec' with (E := tv3 :: x ++ E); [exact I3|perm_tac]. }
      cbv beta. intros _ h4 I4. apply hspec_ret. cbn [fst snd]. exact I4. }
  destruct (mclass_of (b_tag b)) eqn:Ec; destruct m as [d|s'|]; try (apply hspec_ret; exact I).
  - (* leaf, set *)
    hstep. { eapply modify_spec' with (given := x) (E := E); [exact I|perm_tac|]. intros; cbn [fst snd]; perm_tac. }
    cbv beta. intros r h1 [I1 _]. apply (@mutate_fin r true x E h1 I1).
  - (* record push *)
    hstep. { eapply modify_spec' with (given := x) (E := E); [exact I|perm_tac|]. intros; cbn [fst snd]; perm_tac. }
    cbv beta. intros r h1 [I1 _]. apply (@mutate_fin r true x E h1 I1).
  - (* record pop *)
    hstep. { eapply modify_spec' with (given := x) (E := E); [exact I|perm_tac|]. intros; cbn [fst snd]; perm_tac. }
    cbv beta. intros r h1 [I1 _]. apply (@mutate_fin r true x E h1 I1).
  - (* optional push *)
    hstep. { eapply modify_spec' with (given := x) (E := E); [exact I|perm_tac|]. intros; cbn [fst snd]; perm_tac. }
    cbv beta. intros r h1 [I1 _]. apply (@mutate_fin r false x E h1 I1).
  - (* optional pop *)
    hstep. { eapply modify_spec' with (given := x) (E := E); [exact I|perm_tac|]. intros; cbn [fst snd]; perm_tac. }
    cbv beta. intros r h1 [I1 _]. apply (@mutate_fin r true x E h1 I1).
  - (* single kid: replace *)
    hstep. { eapply modify_spec' with (given := x) (E := E); [exact I|perm_tac|]. intros; cbn [fst snd]; perm_tac. }
    cbv beta. intros r h1 [I1 _]. apply (@mutate_fin r false x E h1 I1).
  - (* array push: through the leaf *)
    hstep. { eapply modify_spec' with (given := []) (E := x ++ E); [exact I|perm_tac|]. intros; cbn [fst snd]; perm_tac. }
    cbv beta. intros [tv1 [rel|]] h1 [I1 _]; cbn [fst snd] in *; [|apply hspec_ret; cbn [fst snd]; exact I1].
    destruct rel as [|leaf [|z rel']]; [apply Hback; exact I1| |apply Hback; exact I1].
    hstep. { eapply modify_spec' with (given := x) (E := tv1 :: E); [exact I1|perm_tac|]. intros; cbn [fst snd]; perm_tac. }
    cbv beta. intros [leaf' r2] h2 [I2 R2]; cbn [fst snd] in *.
    hstep. { eapply modify_spec' with (given := [leaf']) (E := (match r2 with Some rel => rel | None => x end) ++ E);
             [exact I2|perm_tac|]. intros; cbn [fst snd]; perm_tac. }
    cbv beta. intros [tv3 r3] h3 [I3 R3]; cbn [fst snd] in *.
    destruct r2 as [rel2|]; destruct r3 as [rel3|];
      try (destruct (R2 _ eq_refl) as [sh2 [kids2 ->]]); try (destruct (R3 _ eq_refl) as [sh3 [kids3 ->]]);
      cbn [snd app] in *.
    + apply hspec_ret. cbn [fst snd app]. exact I3.
    + hstep. { eapply drop_spec' with (E := tv3 :: E); [exact I3|perm_tac]. }
      cbv beta. intros _ h4 I4. apply hspec_ret. cbn [fst snd app]. exact I4.
    + apply hspec_ret. cbn [fst snd]. exact I3.
    + hstep. { eapply drop_spec' with (E := tv3 :: x ++ E); [exact I3|perm_tac]. }
      cbv beta. intros _ h4 I4. apply hspec_ret. cbn [fst snd]. exact I4.
  - (* array pop *)
    hstep. { eapply modify_spec' with (given := []) (E := x ++ E); [exact I|perm_tac|]. intros; cbn [fst snd]; perm_tac. }
    cbv beta. intros [tv1 [rel|]] h1 [I1 _]; cbn [fst snd] in *; [|apply hspec_ret; cbn [fst snd]; exact I1].
    destruct rel as [|leaf [|z rel']]; [apply Hback; exact I1| |apply Hback; exact I1].
    hstep. { eapply modify_spec' with (given := []) (E := tv1 :: x ++ E); [exact I1|perm_tac|]. intros; cbn [fst snd]; perm_tac. }
    cbv beta. intros [leaf' r2] h2 [I2 R2]; cbn [fst snd] in *.
    hstep. { eapply modify_spec' with (given := [leaf']) (E := (match r2 with Some rel => rel | None => [] end) ++ x ++ E);
             [exact I2|perm_tac|]. intros; cbn [fst snd]; perm_tac. }
    cbv beta. intros [tv3 r3] h3 [I3 R3]; cbn [fst snd] in *.
    destruct r3 as [rel3|]; try (destruct (R3 _ eq_refl) as [sh3 [kids3 ->]]); cbn [snd app] in *.
    + apply hspec_ret. cbn [fst snd]. permI I3.
    + hstep. { eapply drop_spec' with (E := tv3 :: (match r2 with Some rel => rel | None => [] end) ++ x ++ E); [exact I3|perm_tac]. }
      cbv beta. intros _ h4 I4. apply hspec_ret. cbn [fst snd]. permI I4.
Qed.

(* ---------------------------------------------------------------- lifted primitives *)

Lemma striple_alloc : forall k t sh kids X,
  striple (kids ++ X) (lift (h_alloc k t sh kids)) (fun tv => [tv] ++ X).
Proof.
  intros. apply striple_lift. intros E h I. eapply alloc_spec'; [exact I|reflexivity].
Qed.

Lemma striple_alloc_av : forall k t sh v rest X,
  striple ((v ++ rest) ++ X) (lift (h_alloc k t sh (map as_value v ++ rest))) (fun tv => [tv] ++ X).
Proof.
  intros. apply striple_lift. intros E h I.
  eapply alloc_spec' with (E := E); [|reflexivity].
  rewrite <- !app_assoc in *. apply inv_h_map_as_value. exact I.
Qed.

Lemma striple_drop : forall l X, striple (l ++ X) (lift (h_drop l)) (fun _ => [] ++ X).
Proof. intros. apply striple_lift. intros E h I. eapply drop_spec'; [exact I|reflexivity]. Qed.

Lemma striple_done : forall (o : out) X, X = [] -> striple X (ret o) (fun _ => []).
Proof. intros; subst. apply striple_ret. reflexivity. Qed.

Ltac sbind := eapply striple_bind.
Ltac spre L := eapply (@striple_pre _ _ L); [perm_tac|].

(* push everything that is owned, then finish *)
Lemma striple_push_done : forall l (o : out), striple l (bind (push_roots l) (fun _ => ret o)) (fun _ => []).
Proof.
  intros. sbind. { spre (l ++ []). apply striple_push_roots. }
  intros u. cbv beta. apply striple_done. reflexivity.
Qed.

Lemma striple_push1_done : forall tv (o : out), striple [tv] (bind (push_root tv) (fun _ => ret o)) (fun _ => []).
Proof.
  intros. sbind. { apply striple_push_root. } intros u. cbv beta. apply striple_done. reflexivity.
Qed.

Lemma striple_drop_done : forall l (o : out), striple l (bind (lift (h_drop l)) (fun _ => ret o)) (fun _ => []).
Proof.
  intros. sbind. { spre (l ++ []). apply striple_drop. } intros u. cbv beta. apply striple_done. reflexivity.
Qed.

Lemma striple_with_thunk : forall s f,
  (forall tv b E h, inv_h (tv :: E) h -> hspec (f tv b) h (fun r h' => inv_h (tv :: snd r ++ E) h')) ->
  striple [] (with_thunk s f) (fun _ => []).
Proof.
  intros s f Hf. unfold with_thunk. apply striple_guard; [reflexivity|].
  sbind.
  { change (@nil tval) with (@nil tval ++ @nil tval).
    apply (@striple_with_root _ s _ (OSkip, @nil tval) (@nil tval) (fun r => snd r) (@nil tval)); [|reflexivity].
    intros tv E h I. cbn [app] in I.
    apply hspec_bind. eapply as_thunk_spec; [exact I|left; reflexivity|]. intros [b|].
    - hstep. { apply Hf. exact I. } cbv beta. intros r h1 I1. apply hspec_ret. cbn [fst snd]. exact I1.
    - apply hspec_ret. cbn [fst snd app]. exact I. }
  intros r. cbv beta. rewrite app_nil_r. apply striple_push_done.
Qed.

(* ---------------------------------------------------------------- every operation *)

Lemma sinv_add_inl : forall X st i, sinv X st -> sinv ((KValue, VInl i) :: X) st.
Proof.
  unfold sinv. intros X st i [HR HT]. split.
  - intros a0. specialize (HR a0). rewrite !occ_app in *. rewrite occ_cons_inl. exact HR.
  - rewrite <- app_assoc in *. apply Forall_app in HT. destruct HT as [H1 H2].
    apply Forall_app. split; [exact H1|]. cbn [app]. constructor; [reflexivity|exact H2].
Qed.

Lemma striple_new_inl : forall i (o : out), striple [] (bind (push_root (KValue, VInl i)) (fun _ => ret o)) (fun _ => []).
Proof.
  intros i o st I. apply (@striple_push1_done (KValue, VInl i) o st). apply sinv_add_inl. exact I.
Qed.

Lemma striple_alloc_av0 : forall k t sh v X,
  striple (v ++ X) (lift (h_alloc k t sh (map as_value v))) (fun tv => [tv] ++ X).
Proof.
  intros. pose proof (@striple_alloc_av k t sh v [] X) as P. rewrite !app_nil_r in P. exact P.
Qed.

Lemma step_ONewInl : forall i, striple [] (step mx (ONewInl i)) (fun _ => []).
Proof. intros. apply striple_new_inl. Qed.

Lemma step_ONewData : forall t d, striple [] (step mx (ONewData t d)) (fun _ => []).
Proof.
  intros. unfold step. destruct (mclass_of t); try (apply striple_done; reflexivity).
  sbind. { apply (@striple_alloc KValue t (SData d) [] []). }
  intros tv. cbv beta. apply striple_push1_done.
Qed.

Lemma step_ONewArr : forall d ss, striple [] (step mx (ONewArr d ss)) (fun _ => []).
Proof.
  intros. unfold step. apply striple_guard; [reflexivity|].
  sbind. { apply striple_take_roots. } intros kids. cbv beta. rewrite app_nil_r.
  destruct kids as [|k0 kr]; [apply striple_new_inl|].
  sbind. { spre ((k0 :: kr) ++ []). apply striple_alloc_av0. }
  intros leaf. cbv beta.
  sbind. { apply (@striple_alloc KValue TArray (SData d) [leaf] []). }
  intros tv. cbv beta. apply striple_push1_done.
Qed.

Lemma step_ONewRec : forall d ss, striple [] (step mx (ONewRec d ss)) (fun _ => []).
Proof.
  intros. unfold step. apply striple_guard; [reflexivity|].
  sbind. { apply striple_take_roots. } intros kids. cbv beta. rewrite app_nil_r.
  destruct kids as [|k0 kr]; [apply striple_new_inl|].
  sbind. { spre ((k0 :: kr) ++ []). apply striple_alloc_av0. }
  intros tv. cbv beta. apply striple_push1_done.
Qed.

Lemma step_ONewEnum : forall d s, striple [] (step mx (ONewEnum d s)) (fun _ => []).
Proof.
  intros. unfold step. apply striple_guard; [reflexivity|].
  sbind. { apply striple_take_roots. } intros kids. cbv beta. rewrite app_nil_r.
  sbind. { spre (kids ++ []). apply striple_alloc_av0. }
  intros tv. cbv beta. apply striple_push1_done.
Qed.

Lemma step_ONewWrap : forall t s, striple [] (step mx (ONewWrap t s)) (fun _ => []).
Proof.
  intros. unfold step. destruct (mclass_of t); try (apply striple_done; reflexivity).
  apply striple_guard; [reflexivity|].
  sbind. { apply striple_take_roots. } intros kids. cbv beta. rewrite app_nil_r.
  sbind. { spre (kids ++ []). apply striple_alloc_av0. }
  intros tv. cbv beta. apply striple_push1_done.
Qed.

Lemma step_ONewLabel : forall d s, striple [] (step mx (ONewLabel d s)) (fun _ => []).
Proof.
  intros. unfold step. apply striple_guard; [reflexivity|].
  sbind. { apply striple_take_roots. } intros kids. cbv beta. rewrite app_nil_r.
  sbind. { spre (kids ++ []). apply striple_alloc. }
  intros tv. cbv beta. apply striple_push1_done.
Qed.

Lemma step_ONewThunk : forall s env, striple [] (step mx (ONewThunk s env)) (fun _ => []).
Proof.
  intros. unfold step. apply striple_guard; [reflexivity|].
  sbind. { apply striple_take_roots. } intros v. cbv beta. rewrite app_nil_r.
  sbind. { apply striple_take_roots. } intros ts. cbv beta.
  sbind. { apply striple_alloc. } intros m. cbv beta.
  sbind. { spre ((v ++ [m]) ++ []). apply striple_alloc_av. }
  intros tv. cbv beta. apply striple_push1_done.
Qed.

Lemma step_ONewRev : forall s, striple [] (step mx (ONewRev s)) (fun _ => []).
Proof.
  intros. unfold step. apply striple_guard; [reflexivity|].
  sbind. { apply striple_take_roots. } intros v. cbv beta. rewrite app_nil_r.
  sbind. { apply (@striple_alloc KRc TEnvMap (SData 0) [] v). } intros m. cbv beta.
  sbind. { spre ((v ++ [m]) ++ []). apply striple_alloc_av. } intros rc. cbv beta.
  sbind. { apply (@striple_alloc KThunk TThunk (SRev Suspended false false) [rc] []). }
  intros tv. cbv beta. apply striple_push1_done.
Qed.

Lemma step_OClone : forall s, striple [] (step mx (OClone s)) (fun _ => []).
Proof.
  intros. unfold step. apply striple_guard; [reflexivity|].
  sbind. { apply striple_clone_root. } intros l. cbv beta. rewrite app_nil_r. apply striple_push_done.
Qed.

Lemma step_ODrop : forall s, striple [] (step mx (ODrop s)) (fun _ => []).
Proof.
  intros. unfold step. apply striple_guard; [reflexivity|].
  sbind. { apply striple_take_roots. } intros l. cbv beta. rewrite app_nil_r. apply striple_drop_done.
Qed.

Lemma striple_with_root0 : forall s (f : tval -> H (tval * out)),
  (forall tv E h, inv_h (tv :: E) h -> hspec (f tv) h (fun r h' => inv_h (fst r :: E) h')) ->
  striple [] (with_root s f OSkip) (fun _ => []).
Proof.
  intros s f Hf.
  change (@nil tval) with (@nil tval ++ @nil tval) at 1.
  apply (@striple_with_root _ s f OSkip (@nil tval) (fun _ => @nil tval) (@nil tval)); [|reflexivity].
  intros tv E h I. cbn [app] in *. apply Hf. exact I.
Qed.

Lemma step_OIntoThunk : forall s, striple [] (step mx (OIntoThunk s)) (fun _ => []).
Proof.
  intros. unfold step. apply striple_with_root0. intros tv E h I.
  hstep. { eapply retype_thunk_spec'; [exact I|reflexivity]. }
  cbv beta. intros r h1 I1. apply hspec_ret. exact I1.
Qed.

Lemma step_OIntoValue : forall s, striple [] (step mx (OIntoValue s)) (fun _ => []).
Proof.
  intros. unfold step. apply striple_with_root0. intros tv E h I.
  apply hspec_ret. cbn [fst]. change (as_value tv :: E) with (map as_value [tv] ++ E).
  apply inv_h_map_as_value. exact I.
Qed.

Lemma step_OMakeUnique : forall s, striple [] (step mx (OMakeUnique s)) (fun _ => []).
Proof.
  intros. unfold step. apply striple_with_root0. intros tv E h I.
  hstep. { eapply make_unique_spec'; [exact I|reflexivity]. }
  cbv beta. intros r h1 I1. apply hspec_ret. exact I1.
Qed.

Lemma step_OStrongClone : forall s, striple [] (step mx (OStrongClone s)) (fun _ => []).
Proof.
  intros. unfold step. apply striple_guard; [reflexivity|].
  sbind.
  { change (@nil tval) with (@nil tval ++ @nil tval).
    apply (@striple_with_root _ s _ (@nil tval) (@nil tval) (fun r => r) (@nil tval)); [|reflexivity].
    intros tv E h I. cbn [app] in I.
    hstep. { eapply strong_clone_spec'; [exact I|left; reflexivity]. }
    cbv beta. intros tv' h1 I1. apply hspec_ret. cbn [fst snd]. permI I1. }
  intros r. cbv beta. rewrite app_nil_r. apply striple_push_done.
Qed.

Lemma step_OLensRestore : forall s, striple [] (step mx (OLensRestore s)) (fun _ => []).
Proof. intros. unfold step. apply striple_guard; [reflexivity|]. apply striple_done. reflexivity. Qed.

Lemma inv_h_map_push_kind : forall t l E h, inv_h (l ++ E) h -> inv_h (map (push_kind t) l ++ E) h.
Proof.
  intros t l E h I. unfold push_kind.
  destruct t as [[]|]; try (apply inv_h_map_as_value; exact I).
  rewrite map_id. exact I.
Qed.

Lemma mutate_root_spec : forall mode s m t x (d : bool * list tval),
  snd d = x ->
  striple (x ++ []) (with_root s (fun tv => h_mutate mx mode tv m (map (push_kind t) x)) d)
          (fun r => snd r ++ []).
Proof.
  intros mode s m t x d Hd.
  apply (@striple_with_root _ s _ d x (fun r => snd r) (@nil tval)); [|rewrite Hd; reflexivity].
  intros tv E h I.
  eapply mutate_spec.
  change (tv :: map (push_kind t) x ++ E) with ([tv] ++ map (push_kind t) x ++ E).
  eapply inv_h_perm; [|apply (@inv_h_map_push_kind t x ([tv] ++ E)); eapply inv_h_perm; [|exact I]]; perm_tac.
Qed.

Lemma step_OMakeMut : forall s m, striple [] (step mx (OMakeMut s m)) (fun _ => []).
Proof.
  intros. unfold step. apply striple_guard; [reflexivity|].
  sbind. { apply striple_get. } intros t. cbv beta.
  sbind. { apply striple_take_roots. } intros x. cbv beta.
  sbind. { apply mutate_root_spec. reflexivity. }
  intros r. cbv beta. rewrite app_nil_r. apply striple_push_done.
Qed.

Lemma step_OContentMut : forall s m, striple [] (step mx (OContentMut s m)) (fun _ => []).
Proof.
  intros. unfold step. apply striple_guard; [reflexivity|].
  sbind. { apply striple_get. } intros t. cbv beta.
  sbind. { apply striple_get. } intros n. cbv beta.
  destruct (N.eqb n 1); [|apply striple_done; reflexivity].
  sbind. { apply striple_take_roots. } intros x. cbv beta.
  sbind. { apply mutate_root_spec. reflexivity. }
  intros r. cbv beta. rewrite app_nil_r. apply striple_push_done.
Qed.

Lemma striple_read : forall tv X, In tv X -> striple X (lift (h_read tv)) (fun _ => X).
Proof.
  intros tv X HI. pose proof (@striple_lift _ (h_read tv) X (fun _ => X) (@nil tval)) as P.
  rewrite !app_nil_r in P. apply P. intros E h I.
  eapply read_spec'; [exact I|apply in_or_app; auto|]. intros o. exact I.
Qed.

Lemma striple_as_thunk : forall tv X, In tv X -> striple X (lift (h_as_thunk tv)) (fun _ => X).
Proof.
  intros tv X HI. pose proof (@striple_lift _ (h_as_thunk tv) X (fun _ => X) (@nil tval)) as P.
  rewrite !app_nil_r in P. apply P. intros E h I.
  eapply as_thunk_spec; [exact I|apply in_or_app; auto|]. intros o. exact I.
Qed.

Lemma striple_take_or_clone : forall tv sel X, (forall sh kids, incl (sel sh kids) kids) ->
  striple ([tv] ++ X) (lift (h_take_or_clone mx tv sel)) (fun r => snd r ++ X).
Proof.
  intros. apply striple_lift. intros E h I. eapply take_or_clone_spec'; [exact I|reflexivity|assumption].
Qed.

Lemma step_OLensTake : forall s, striple [] (step mx (OLensTake s)) (fun _ => []).
Proof.
  intros. unfold step. apply striple_guard; [reflexivity|].
  sbind. { apply striple_take_roots. } intros l. cbv beta. rewrite app_nil_r.
  destruct l as [|tv [|z l']]; try apply striple_drop_done.
  sbind. { apply striple_read. left. reflexivity. } intros ob. cbv beta.
  destruct ob as [b|]; [|apply striple_drop_done].
  destruct (b_tag b);
    try (sbind; [apply (@striple_take_or_clone tv all_kids []); apply incl_all_kids|];
         intros p; cbv beta; rewrite app_nil_r; apply striple_push_done).
  - (* array *)
    sbind. { apply (@striple_take_or_clone tv all_kids []); apply incl_all_kids. }
    intros p. cbv beta. rewrite app_nil_r.
    destruct (snd p) as [|leaf [|z l']]; try apply striple_drop_done.
    sbind. { apply (@striple_take_or_clone leaf all_kids []); apply incl_all_kids. }
    intros q. cbv beta. rewrite app_nil_r. apply striple_push_done.
  - (* thunk *)
    sbind. { apply (@striple_lift _ (h_retype_thunk tv) [tv] (fun r => [fst r]) []).
             intros E h I. eapply retype_thunk_spec'; [exact I|reflexivity]. }
    intros r. cbv beta. apply striple_push1_done.
Qed.

(* ---------------------------------------------------------------- thunks *)

Lemma step_OTGet : forall s, striple [] (step mx (OTGet s)) (fun _ => []).
Proof.
  intros. unfold step. apply striple_with_thunk. intros tv b E h I.
  destruct (closure_kids (b_shape b) (b_kids b)); [|apply hspec_ret; exact I].
  hstep. { eapply clone_kids_spec'; [exact I|left; reflexivity|apply incl_closure_sel]. }
  cbv beta. intros p h1 I1.
  hstep. { eapply drop_spec' with (E := tv :: firstn 1 (snd p) ++ E); [exact I1|perm_tac]. }
  cbv beta. intros _ h2 I2. apply hspec_ret. exact I2.
Qed.

Lemma step_OTMkFrame : forall s, striple [] (step mx (OTMkFrame s)) (fun _ => []).
Proof.
  intros. unfold step. apply striple_with_thunk. intros tv b E h I.
  destruct (tstate_eqb (get_state (b_shape b)) Blackholed); [apply hspec_ret; exact I|].
  hstep. { eapply modify_shared_spec with (E := E); [exact I|reflexivity|]. intros; split; reflexivity. }
  cbv beta. intros _ h1 I1.
  hstep. { eapply clone1_spec'; [exact I1|left; reflexivity]. }
  cbv beta. intros _ h2 I2. apply hspec_ret. cbn [snd app]. exact I2.
Qed.

Lemma step_OTReset : forall s, striple [] (step mx (OTReset s)) (fun _ => []).
Proof.
  intros. unfold step. apply striple_with_thunk. intros tv b E h I.
  hstep. { eapply modify_shared_spec with (E := E); [exact I|reflexivity|]. intros; split; reflexivity. }
  cbv beta. intros _ h1 I1. apply hspec_ret. exact I1.
Qed.

Lemma step_OTLock : forall s, striple [] (step mx (OTLock s)) (fun _ => []).
Proof.
  intros. unfold step. apply striple_with_thunk. intros tv b E h I.
  destruct (get_locked (b_shape b)); [apply hspec_ret; exact I|].
  hstep. { eapply modify_shared_spec with (E := E); [exact I|reflexivity|]. intros; split; reflexivity. }
  cbv beta. intros _ h1 I1. apply hspec_ret. exact I1.
Qed.

Lemma step_OTUnlock : forall s, striple [] (step mx (OTUnlock s)) (fun _ => []).
Proof.
  intros. unfold step. apply striple_with_thunk. intros tv b E h I.
  hstep. { eapply modify_shared_spec with (E := E); [exact I|reflexivity|]. intros; split; reflexivity. }
  cbv beta. intros _ h1 I1. apply hspec_ret. exact I1.
Qed.

Lemma step_OTRevert : forall s, striple [] (step mx (OTRevert s)) (fun _ => []).
Proof.
  intros. unfold step. apply striple_with_thunk. intros tv b E h I.
  destruct (is_rev (b_shape b)).
  - hstep. { eapply clone_kids_spec' with (sel := fun _ kids => firstn 1 kids); [exact I|left; reflexivity|].
             intros; apply incl_firstn. }
    cbv beta. intros p h1 I1.
    hstep. { eapply alloc_spec' with (E := tv :: E); [exact I1|reflexivity]. }
    cbv beta. intros tv' h2 I2. apply hspec_ret. cbn [snd app]. permI I2.
  - hstep. { eapply clone1_spec'; [exact I|left; reflexivity]. }
    cbv beta. intros _ h1 I1. apply hspec_ret. cbn [snd app]. exact I1.
Qed.

Lemma step_OTMap : forall s, striple [] (step mx (OTMap s)) (fun _ => []).
Proof.
  intros. unfold step. apply striple_with_thunk. intros tv b E h I.
  destruct (is_rev (b_shape b)).
  - hstep. { eapply clone_grandkids_spec'; [exact I|left; reflexivity]. }
    cbv beta. intros q h1 I1.
    hstep. { eapply alloc_spec' with (E := tv :: E); [exact I1|reflexivity]. }
    cbv beta. intros rc h2 I2.
    hstep. { eapply clone_kids_spec' with (sel := fun _ kids => tl kids); [exact I2|right; left; reflexivity|].
             intros; apply incl_tl. }
    cbv beta. intros p h3 I3.
    hstep. { eapply alloc_spec' with (kids := rc :: snd p) (E := tv :: E); [exact I3|perm_tac]. }
    cbv beta. intros tv' h4 I4. apply hspec_ret. cbn [snd app]. permI I4.
  - hstep. { eapply clone_kids_spec'; [exact I|left; reflexivity|apply incl_all_kids]. }
    cbv beta. intros p h1 I1.
    hstep. { eapply alloc_spec' with (E := tv :: E); [exact I1|reflexivity]. }
    cbv beta. intros tv' h2 I2. apply hspec_ret. cbn [snd app]. permI I2.
Qed.

Lemma modify_spec'' : forall mode tv (f : editf) given L E h,
  inv_h L h -> Permutation L (tv :: given ++ E) ->
  (forall sh kids, Permutation (snd (fst (f sh kids)) ++ snd (f sh kids)) (kids ++ given)) ->
  hspec (h_modify mx mode tv f) h (fun r h' =>
    inv_h (fst r :: (match snd r with Some rel => rel | None => given end) ++ E) h' /\
    (mode <> WCow -> fst r = tv)).
Proof.
  intros. eapply hspec_weaken; [apply (@modify_spec mx mode tv f given E h); [eapply inv_h_perm; eauto|assumption]|].
  intros r h' [? [_ [_ ?]]]. split; assumption.
Qed.

Lemma step_OTUpdate : forall f c, striple [] (step mx (OTUpdate f c)) (fun _ => []).
Proof.
  intros. unfold step. apply striple_guard; [reflexivity|].
  sbind. { apply striple_take_roots. } intros v. cbv beta. rewrite app_nil_r.
  sbind. { apply striple_take_roots. } intros fl. cbv beta.
  destruct fl as [|ftv [|z fl']]; try (spre (v ++ []); rewrite app_nil_r; apply striple_drop_done);
    try (spre (v ++ ftv :: z :: fl'); apply striple_drop_done).
  sbind. { apply striple_as_thunk. left. reflexivity. } intros ob. cbv beta.
  destruct ob as [b|]; [|spre (v ++ [ftv]); apply striple_drop_done].
  sbind. { apply (@striple_alloc KRc TEnvMap (SData 0) [] ([ftv] ++ v)). } intros m. cbv beta.
  sbind.
  { spre (([m] ++ [ftv] ++ v) ++ []).
    apply (@striple_lift _ _ ([m] ++ [ftv] ++ v)
             (fun r => fst r :: (match snd r with Some rel => rel | None => map as_value v ++ [m] end)) []).
    intros E h I.
    assert (inv_h (map as_value v ++ ([m] ++ [ftv] ++ E)) h) as I'.
    { apply inv_h_map_as_value. permI I. }
    eapply hspec_weaken.
    { eapply modify_spec' with (given := map as_value v ++ [m]) (E := E); [exact I'|perm_tac|].
      intros sh kids. destruct sh; cbn [fst snd]; perm_tac. }
    intros r h1 [I1 _]. exact I1. }
  intros r. cbv beta. rewrite app_nil_r.
  sbind. { spre ((match snd r with Some rel => rel | None => map as_value v ++ [m] end) ++ [fst r]). apply striple_drop. }
  intros u. cbv beta. apply striple_drop_done.
Qed.

Lemma step_OTBuildCached : forall s recs, striple [] (step mx (OTBuildCached s recs)) (fun _ => []).
Proof.
  intros. unfold step. apply striple_guard; [reflexivity|].
  sbind. { apply striple_clone_roots. } intros rs. cbv beta.
  sbind.
  { apply (@striple_with_root _ s _ OSkip rs (fun _ => rs) (@nil tval)); [|reflexivity].
    intros tv E h I.
    apply hspec_bind. eapply as_thunk_spec; [exact I|left; reflexivity|]. intros [b|]; [|apply hspec_ret; exact I].
    destruct (b_shape b) as [d|st l|st l [|]]; try (apply hspec_ret; exact I).
    hstep. { eapply clone_grandkids_spec'; [exact I|left; reflexivity]. }
    cbv beta. intros q h1 I1.
    hstep. { eapply clone_all_spec'; [exact I1|]. intros x Hx. apply in_or_app. right. right. apply in_or_app. auto. }
    cbv beta. intros _ h2 I2.
    hstep. { eapply alloc_spec' with (E := q ++ tv :: rs ++ E); [exact I2|reflexivity]. }
    cbv beta. intros m h3 I3.
    hstep. { eapply drop_spec' with (E := firstn 1 q ++ m :: tv :: rs ++ E); [exact I3|perm_tac]. }
    cbv beta. intros _ h4 I4.
    hstep. { eapply modify_spec'' with (mode := WShared) (given := firstn 1 q ++ [m]) (E := rs ++ E); [exact I4|perm_tac|].
             intros sh kids. destruct sh as [d|st' l'|st' l' [|]]; cbn [fst snd]; perm_tac. }
    cbv beta. intros r h5 [I5 Eq5]. rewrite (Eq5 ltac:(discriminate)) in I5.
    hstep. { eapply drop_spec' with (E := tv :: rs ++ E); [exact I5|perm_tac]. }
    cbv beta. intros _ h6 I6. apply hspec_ret. exact I6. }
  intros r. cbv beta. rewrite app_nil_r. apply striple_drop_done.
Qed.

Lemma step_OTIntoClosure : forall s, striple [] (step mx (OTIntoClosure s)) (fun _ => []).
Proof.
  intros. unfold step. apply striple_guard; [reflexivity|].
  sbind. { apply striple_take_roots. } intros l. cbv beta. rewrite app_nil_r.
  destruct l as [|tv [|z l']]; try apply striple_drop_done.
  sbind. { apply striple_as_thunk. left. reflexivity. } intros ob. cbv beta.
  destruct ob as [b|]; [|apply striple_drop_done].
  sbind. { apply (@striple_take_or_clone tv closure_sel []); apply incl_closure_sel. }
  intros [[sh uq] kids]. cbv beta. cbn [fst snd]. rewrite app_nil_r.
  destruct uq.
  - destruct (closure_kids sh kids) as [ck|] eqn:Eck; [|apply striple_drop_done].
    assert (Permutation kids (firstn 1 ck ++ (skipn 1 ck ++ (if is_rev sh then firstn 1 kids else [])))) as P.
    { unfold closure_kids in Eck. destruct sh as [d|st l|st l [|]]; inversion Eck; subst ck; cbn [is_rev]; perm_tac. }
    sbind. { eapply striple_pre; [exact P|]. apply striple_push_roots. }
    intros u. cbv beta. apply striple_drop_done.
  - destruct (closure_kids sh kids) as [ck|]; [|apply striple_drop_done].
    sbind. { spre (firstn 1 kids ++ skipn 1 kids). apply striple_push_roots. }
    intros u. cbv beta. apply striple_drop_done.
Qed.

Lemma step_OTSaturate : forall s, striple [] (step mx (OTSaturate s)) (fun _ => []).
Proof.
  intros. unfold step. apply striple_guard; [reflexivity|].
  sbind. { apply striple_take_roots. } intros l. cbv beta. rewrite app_nil_r.
  destruct l as [|tv [|z l']]; try apply striple_drop_done.
  sbind. { apply striple_as_thunk. left. reflexivity. } intros ob. cbv beta.
  destruct ob as [b|]; [|apply striple_drop_done].
  sbind. { apply (@striple_take_or_clone tv all_kids []); apply incl_all_kids. }
  intros [[sh uq] kids]. cbv beta. cbn [fst snd]. rewrite app_nil_r.
  destruct (is_rev sh).
  - destruct kids as [|orig cached]; [apply striple_done; reflexivity|].
    sbind. { apply (@striple_take_or_clone orig all_kids cached); apply incl_all_kids. }
    intros q. cbv beta.
    sbind. { spre (cached ++ snd q). apply striple_drop. } intros u. cbv beta.
    sbind. { spre (snd q ++ []). apply striple_alloc. } intros tv'. cbv beta. apply striple_push1_done.
  - sbind. { spre (kids ++ []). apply striple_alloc. } intros tv'. cbv beta. apply striple_push1_done.
Qed.

(* ---------------------------------------------------------------- all operations, all histories *)

Theorem step_safe : forall o, striple [] (step mx o) (fun _ => []).
Proof.
  destruct o.
  - apply step_ONewInl. - apply step_ONewData. - apply step_ONewArr. - apply step_ONewRec.
  - apply step_ONewEnum. - apply step_ONewWrap. - apply step_ONewLabel. - apply step_ONewThunk.
  - apply step_ONewRev. - apply step_OClone. - apply step_ODrop. - apply step_OIntoThunk.
  - apply step_OIntoValue. - apply step_OMakeMut. - apply step_OContentMut. - apply step_OStrongClone.
  - apply step_OMakeUnique. - apply step_OLensTake. - apply step_OLensRestore. - apply step_OTGet.
  - apply step_OTMkFrame. - apply step_OTUpdate. - apply step_OTReset. - apply step_OTLock.
  - apply step_OTUnlock. - apply step_OTRevert. - apply step_OTBuildCached. - apply step_OTIntoClosure.
  - apply step_OTSaturate. - apply step_OTMap.
Qed.

End Ops.

(* ------------------------------------------------------------------ histories *)

(* every handle that exists: the live roots and the handles owned by the payloads of the blocks *)
Definition all_handles (st : hstate) : list tval := root_vals (roots st) ++ heap_refs (heap st).

(* count(b) = number of live handles to b, a freed block (or an address never allocated) has none *)
Definition rc_inv (st : hstate) : Prop :=
  forall a, match nth_error (heap st) a with
            | Some b => if b_freed b then occ a (all_handles st) = 0
                        else b_rc b = N.of_nat (occ a (all_handles st)) /\ 0 < occ a (all_handles st)
            | None => occ a (all_handles st) = 0
            end.

(* a handle whose static type is Thunk points to a live block tagged Thunk; more generally every
   handle points to a live block whose tag its static kind allows *)
Definition thunk_tag_inv (st : hstate) : Prop :=
  forall k v, In (k, v) (all_handles st) ->
    match v with
    | VInl _ => k = KValue
    | VPtr a => exists b, nth_error (heap st) a = Some b /\ b_freed b = false /\ tag_ok k (b_tag b) = true
    end.

Lemma sinv_nil_iff : forall st, sinv [] st -> rc_inv st /\ thunk_tag_inv st.
Proof.
  unfold sinv, inv_h, inv_refs, rc_inv, thunk_tag_inv, all_handles. intros st [HR HT].
  rewrite app_nil_r in *. split; [exact HR|].
  intros k v HI. rewrite Forall_forall in HT. specialize (HT _ HI). unfold typed in HT. simpl in HT.
  destruct v as [i|a]; [exact HT|].
  destruct (ref_live _ _ HR HI) as [b [Hb [Hf _]]]. destruct HT as [b' [Hb' Hk]].
  rewrite Hb in Hb'. inversion Hb'; subst b'. eauto.
Qed.

Lemma sinv_init : sinv [] init.
Proof.
  unfold sinv, init, inv_h, inv_refs. simpl. split; [|constructor].
  intros a. destruct a; reflexivity.
Qed.

Theorem run_safe : forall mx ops st, sinv [] st ->
  match run mx ops st with
  | Ok (_, st') => sinv [] st'
  | Err _ => False
  | Overflow => True
  end.
Proof.
  induction ops as [|o r IH]; intros st I; simpl; [exact I|].
  pose proof (@step_safe mx o st I) as S. destruct (step mx o st) as [[x st1]| |]; auto.
  specialize (IH st1 S). destruct (run mx r st1) as [[xs st2]| |]; auto.
Qed.

(* the increment can only overflow when max_rc handles to the block exist at the same time *)
Lemma overflow_needs_max_handles : forall mx E h a,
  inv_h E h -> h_inc mx a h = Overflow -> (mx <= N.of_nat (occ a (E ++ heap_refs h)))%N.
Proof.
  intros mx E h a [HR _] Ho. unfold h_inc, hbind, h_get in Ho. specialize (HR a).
  destruct (nth_error h a) as [b|]; [|discriminate]. destruct (b_freed b); [discriminate|].
  destruct (N.eqb (b_rc b) 0); [discriminate|].
  destruct (N.leb_spec mx (b_rc b)); [|discriminate]. lia.
Qed.

(* ------------------------------------------------------------------ non-vacuity *)

(* a history with sharing, copy-on-write through both levels of an array, a lens take, a thunk
   that is black-holed, updated with a value containing itself, reverted and consumed *)
Definition demo_history : list op :=
  [ ONewData TNumber 5; OClone 0; ONewArr 7 [0; 1]; OClone 2; OMakeMut 2 (MutPush 3);
    ONewData TString 3; ONewRev 4; OClone 5; OTBuildCached 5 [6]; OTMkFrame 5; OClone 2;
    OTUpdate 7 8; OTRevert 5; OLensTake 2; OTIntoClosure 6; OTSaturate 5 ].

Example demo_history_runs :
  match run MAX_REF_COUNT demo_history init with
  | Ok (outs, st) => outs = [ODone; ODone; ODone; ODone; ODone; ODone; ODone; ODone; ODone;
                             OBool true; ODone; ODone; ODone; ODone; ODone; ODone]
                     /\ leaked st = 0 /\ length (roots st) = 15
  | _ => False
  end.
Proof. vm_compute. repeat split. Qed.

(* the error states are expressible: the same primitives used against the protocol reach them *)
Example double_drop_is_detected :
  let h := [mkB TNumber 1 (SData 5) [] false] in
  h_drop [(KValue, VPtr 0); (KValue, VPtr 0)] h = Err DoubleFree.
Proof. reflexivity. Qed.

Example use_after_free_is_detected :
  let h := [mkB TNumber 1 (SData 5) [] false] in
  (hbind (h_drop [(KValue, VPtr 0)]) (fun _ => h_read (KValue, VPtr 0))) h = Err UseAfterFree.
Proof. reflexivity. Qed.

Example unchecked_thunk_decode_is_detected :
  let h := [mkB TNumber 1 (SData 5) [] false] in
  h_thunk_data (KThunk, VPtr 0) h = Err BadThunkDecode.
Proof. reflexivity. Qed.

Example write_while_shared_is_detected :
  let h := [mkB TNumber 2 (SData 5) [] false] in
  (* a &mut write (WIfUnique's check skipped by pretending the mode is WCow after a make_unique that
     did not happen is not expressible; the check itself is what fails here) *)
  h_modify 10 WIfUnique (KValue, VPtr 0) (fun sh k => ((SData 6, k), [])) h = Ok (((KValue, VPtr 0), None), h).
Proof. reflexivity. Qed.

(* ValueBlockHeader::set_ref_count writes before it checks: at MAX_REF_COUNT + 1 = 2^56 the carry
   lands in the tag byte (Number (0) becomes Array (1), count 0) and only then the panic fires *)
Example overflow_header_corrupts_tag : overflow_header 0 = (1%N, 0%N) /\ overflow_header 4 = (5%N, 0%N).
Proof. split; reflexivity. Qed.

Example overflow_is_reachable_in_the_model :
  run 2 [ONewData TNumber 1; OClone 0; OClone 0] init = Overflow.
Proof. reflexivity. Qed.

(* ------------------------------------------------------------------ the statements of Props/C18.v *)

Theorem rc_protocol_safe : forall ops,
  match run MAX_REF_COUNT ops init with
  | Ok (_, st) => rc_inv st /\ thunk_tag_inv st
  | Err _ => False
  | Overflow => True
  end.
Proof.
  intros ops. pose proof (@run_safe MAX_REF_COUNT ops init sinv_init) as S.
  destruct (run MAX_REF_COUNT ops init) as [[outs st]| |]; auto. apply sinv_nil_iff. exact S.
Qed.

Theorem thunk_tag_decode : forall ops outs st v,
  run MAX_REF_COUNT ops init = Ok (outs, st) -> In (KThunk, v) (all_handles st) ->
  exists b, h_thunk_data (KThunk, v) (heap st) = Ok (b, heap st) /\ b_tag b = TThunk.
Proof.
  intros ops outs st v Hrun HI. pose proof (@run_safe MAX_REF_COUNT ops init sinv_init) as S.
  rewrite Hrun in S. unfold sinv in S.
  apply (@thunk_data_spec (KThunk, v) (root_vals (roots st) ++ []) (heap st) S); [|reflexivity].
  rewrite app_nil_r. exact HI.
Qed.

(* a copy of a thunk's data (make_unique / strong_clone of a thunk block, saturate of a shared
   standard thunk, map) is never born black-holed or locked, and a copy of a copy is the same *)
Lemma copy_shape_fresh : forall sh,
  get_state (copy_shape sh) <> Blackholed /\ get_locked (copy_shape sh) = false /\
  copy_shape (copy_shape sh) = copy_shape sh.
Proof. intros [d|[] l|[] l c]; simpl; repeat split; congruence. Qed.
