(* C18 — proofs about the reference-counting protocol model of Mem/Rc.v.

   Invariant [inv_h E h] ("rc_exact" + "typed"), for a heap h and the list E of handles held
   outside the heap (root handles and the temporaries of the running operation):
     - for every address: a live block's count is the number of handles to it in E and in the
       payloads of the blocks; a freed block (or an address never allocated) has no handle at all;
     - every handle points to a block whose tag is allowed by the handle's static kind — in
       particular a Thunk-typed handle points to a block tagged Thunk (thunk_tag_inv).
   Every primitive preserves it and cannot reach an error state under it; operations are
   compositions of primitives in which ownership of handles is tracked linearly. *)
From Coq Require Import List NArith Bool Arith Lia Permutation.
Import ListNotations.
From NV Require Import Mem.Rc.

Set Implicit Arguments.

(* ------------------------------------------------------------------ lists *)

Lemma nth_error_upd_eq : forall A (l : list A) n x, n < length l -> nth_error (upd n x l) n = Some x.
Proof.
  induction l as [|y t IH]; intros n x Hn; simpl in *; [lia|].
  destruct n; simpl; [reflexivity|]. apply IH; lia.
Qed.

Lemma nth_error_upd_neq : forall A (l : list A) n m x, n <> m -> nth_error (upd n x l) m = nth_error l m.
Proof.
  induction l as [|y t IH]; intros n m x Hnm; simpl; [reflexivity|].
  destruct n; destruct m; simpl; try reflexivity; try congruence.
  apply IH; congruence.
Qed.

Lemma length_upd : forall A (l : list A) n x, length (upd n x l) = length l.
Proof. induction l; intros [|n] x; simpl; auto. Qed.

Lemma nth_error_Some_lt : forall A (l : list A) n x, nth_error l n = Some x -> n < length l.
Proof. intros. apply nth_error_Some. congruence. Qed.

Lemma flat_map_upd_perm : forall A B (f : A -> list B) (l : list A) i x y,
  nth_error l i = Some x ->
  Permutation (flat_map f (upd i y l) ++ f x) (flat_map f l ++ f y).
Proof.
  induction l as [|z t IH]; intros i x y H; [destruct i; discriminate|].
  destruct i; simpl in *.
  - inversion H; subst. rewrite <- !app_assoc.
    rewrite (Permutation_app_comm (f y)). rewrite <- app_assoc.
    rewrite (app_assoc (f x)). rewrite (Permutation_app_comm (f x) (flat_map f t)).
    rewrite <- app_assoc. reflexivity.
  - rewrite <- !app_assoc. apply Permutation_app_head. apply IH; assumption.
Qed.

Lemma flat_map_app' : forall A B (f : A -> list B) l1 l2, flat_map f (l1 ++ l2) = flat_map f l1 ++ flat_map f l2.
Proof. intros. apply flat_map_app. Qed.

Lemma in_flat_map_nth : forall A B (f : A -> list B) l i x y,
  nth_error l i = Some x -> In y (f x) -> In y (flat_map f l).
Proof.
  intros. apply in_flat_map. exists x. split; [eapply nth_error_In; eauto|assumption].
Qed.

(* ------------------------------------------------------------------ occurrences *)

Definition ptr_to (a : addr) (tv : tval) : bool :=
  match snd tv with VPtr a' => Nat.eqb a a' | VInl _ => false end.

Fixpoint occ (a : addr) (l : list tval) : nat :=
  match l with [] => 0 | tv :: r => (if ptr_to a tv then 1 else 0) + occ a r end.

Lemma occ_app : forall a l1 l2, occ a (l1 ++ l2) = occ a l1 + occ a l2.
Proof. induction l1; intros; simpl; [reflexivity|]. rewrite IHl1. lia. Qed.

Lemma occ_perm : forall a l1 l2, Permutation l1 l2 -> occ a l1 = occ a l2.
Proof. induction 1; simpl; try lia. Qed.

Lemma occ_pos_in : forall a l, 0 < occ a l -> exists k, In (k, VPtr a) l.
Proof.
  induction l as [|[k v] r IH]; simpl; intros H; [lia|].
  unfold ptr_to in H; simpl in H. destruct v as [i|a'].
  - destruct (IH H) as [k' ?]. eauto.
  - destruct (Nat.eqb a a') eqn:E.
    + apply Nat.eqb_eq in E; subst. eauto.
    + destruct (IH H) as [k' ?]. eauto.
Qed.

Lemma in_occ_pos : forall a k l, In (k, VPtr a) l -> 0 < occ a l.
Proof.
  induction l as [|tv r IH]; simpl; intros H; [contradiction|].
  destruct H as [->|H].
  - unfold ptr_to; simpl. rewrite Nat.eqb_refl. lia.
  - specialize (IH H). lia.
Qed.

Lemma occ_map_snd : forall a l l', map snd l = map snd l' -> occ a l = occ a l'.
Proof.
  induction l as [|x r IH]; intros [|y r'] H; simpl in *; try discriminate; [reflexivity|].
  inversion H. unfold ptr_to. rewrite H1. f_equal. apply IH; assumption.
Qed.

(* ------------------------------------------------------------------ the invariant *)

Definition typed (h : list block) (tv : tval) : Prop :=
  match snd tv with
  | VInl _ => fst tv = KValue
  | VPtr a => exists b, nth_error h a = Some b /\ tag_ok (fst tv) (b_tag b) = true
  end.

Definition rc_exact (R : list tval) (h : list block) : Prop :=
  forall a, match nth_error h a with
            | Some b => if b_freed b then occ a R = 0 else b_rc b = N.of_nat (occ a R)
            | None => occ a R = 0
            end.

Definition inv_refs (R : list tval) (h : list block) : Prop := rc_exact R h /\ Forall (typed h) R.
Definition inv_h (E : list tval) (h : list block) : Prop := inv_refs (E ++ heap_refs h) h.

Lemma inv_refs_perm : forall R R' h, Permutation R R' -> inv_refs R h -> inv_refs R' h.
Proof.
  intros R R' h P [H1 H2]. split.
  - intros a. specialize (H1 a). rewrite <- (occ_perm a P). exact H1.
  - eapply Permutation_Forall; eauto.
Qed.

Lemma inv_h_perm : forall E E' h, Permutation E E' -> inv_h E h -> inv_h E' h.
Proof. intros. eapply inv_refs_perm; [|eassumption]. apply Permutation_app_tail; assumption. Qed.

(* tags never change: typedness is stable *)
Definition tags_stable (h h' : list block) : Prop :=
  forall a b, nth_error h a = Some b -> exists b', nth_error h' a = Some b' /\ b_tag b' = b_tag b.

Lemma tags_stable_refl : forall h, tags_stable h h.
Proof. intros h a b H; eauto. Qed.

Lemma tags_stable_trans : forall h1 h2 h3, tags_stable h1 h2 -> tags_stable h2 h3 -> tags_stable h1 h3.
Proof.
  intros h1 h2 h3 H12 H23 a b H. destruct (H12 a b H) as [b' [H' E']].
  destruct (H23 a b' H') as [b'' [H'' E'']]. exists b''. split; congruence.
Qed.

Lemma typed_stable : forall h h' tv, tags_stable h h' -> typed h tv -> typed h' tv.
Proof.
  intros h h' [k v] S T. unfold typed in *; simpl in *. destruct v; [assumption|].
  destruct T as [b [Hb Hk]]. destruct (S _ _ Hb) as [b' [Hb' E]]. exists b'. rewrite E. auto.
Qed.

Lemma tags_stable_upd : forall h a b b', nth_error h a = Some b -> b_tag b' = b_tag b -> tags_stable h (upd a b' h).
Proof.
  intros h a b b' Hb E a0 b0 H0. destruct (Nat.eq_dec a a0) as [->|N].
  - exists b'. rewrite nth_error_upd_eq by (eapply nth_error_Some_lt; eauto). split; congruence.
  - exists b0. rewrite nth_error_upd_neq by assumption. auto.
Qed.

Lemma tags_stable_app : forall h l, tags_stable h (h ++ l).
Proof.
  intros h l a b H. exists b. split; [|reflexivity].
  rewrite nth_error_app1; [assumption|eapply nth_error_Some_lt; eauto].
Qed.

(* a handle present in the references points to a live block *)
Lemma ref_live : forall R h k a, rc_exact R h -> In (k, VPtr a) R ->
  exists b, nth_error h a = Some b /\ b_freed b = false /\ b_rc b = N.of_nat (occ a R) /\ 0 < occ a R.
Proof.
  intros R h k a HR HI. pose proof (in_occ_pos _ _ _ HI) as P. specialize (HR a).
  destruct (nth_error h a) as [b|]; [|lia].
  destruct (b_freed b) eqn:F; [lia|]. exists b. auto.
Qed.

(* heap_refs after an update / an allocation *)
Lemma heap_refs_upd_perm : forall h a b b', nth_error h a = Some b ->
  Permutation (heap_refs (upd a b' h) ++ b_kids b) (heap_refs h ++ b_kids b').
Proof. intros. apply flat_map_upd_perm. assumption. Qed.

Lemma heap_refs_upd_same : forall h a b b', nth_error h a = Some b -> b_kids b' = b_kids b ->
  Permutation (heap_refs (upd a b' h)) (heap_refs h).
Proof.
  intros h a b b' Hb E. pose proof (heap_refs_upd_perm h a b' Hb) as P. rewrite E in P.
  eapply Permutation_app_inv_r; eauto.
Qed.

Lemma heap_refs_snoc : forall h b, heap_refs (h ++ [b]) = heap_refs h ++ b_kids b.
Proof. intros. unfold heap_refs. rewrite flat_map_app. simpl. rewrite app_nil_r. reflexivity. Qed.

Lemma kids_in_heap_refs : forall h a b tv, nth_error h a = Some b -> In tv (b_kids b) -> In tv (heap_refs h).
Proof. intros. eapply in_flat_map_nth; eauto. Qed.

(* ------------------------------------------------------------------ specification of a heap step *)

Definition hspec {A} (m : H A) (h : list block) (Q : A -> list block -> Prop) : Prop :=
  match m h with Ok (a, h') => Q a h' | Err _ => False | Overflow => True end.

Lemma hspec_bind : forall A B (m : H A) (f : A -> H B) h Q,
  hspec m h (fun a h' => hspec (f a) h' Q) -> hspec (hbind m f) h Q.
Proof.
  unfold hspec, hbind. intros. destruct (m h) as [[a h']| |]; auto.
Qed.

Lemma hspec_ret : forall A (a : A) h (Q : A -> list block -> Prop), Q a h -> hspec (hret a) h Q.
Proof. unfold hspec, hret. auto. Qed.

Lemma hspec_weaken : forall A (m : H A) h (Q Q' : A -> list block -> Prop),
  hspec m h Q -> (forall a h', Q a h' -> Q' a h') -> hspec m h Q'.
Proof. unfold hspec. intros. destruct (m h) as [[a h']| |]; auto. Qed.

(* ------------------------------------------------------------------ one block changes *)

Lemma heap_refs_upd_occ : forall h a b b' a0, nth_error h a = Some b ->
  occ a0 (heap_refs (upd a b' h)) + occ a0 (b_kids b) = occ a0 (heap_refs h) + occ a0 (b_kids b').
Proof.
  intros. pose proof (occ_perm a0 (heap_refs_upd_perm h a b' H)) as P.
  rewrite !occ_app in P. exact P.
Qed.

Lemma heap_refs_upd_in : forall h a b b' x, nth_error h a = Some b ->
  In x (heap_refs (upd a b' h)) -> In x (heap_refs h) \/ In x (b_kids b').
Proof.
  intros h a b b' x Hb Hx. pose proof (heap_refs_upd_perm h a b' Hb) as P.
  assert (In x (heap_refs (upd a b' h) ++ b_kids b)) as I by (apply in_or_app; auto).
  eapply Permutation_in in I; [|exact P]. apply in_app_or in I. exact I.
Qed.

(* The general step: block [a] goes from b to b'.  dm / dp: handles to a itself that disappear
   from / appear in the references, besides the exchange between the payload and the outside. *)
Lemma inv_h_upd : forall E E' h a b b' dm dp,
  inv_h E h -> nth_error h a = Some b -> b_freed b = false -> b_tag b' = b_tag b ->
  (forall a0, occ a0 (E' ++ b_kids b') + (if Nat.eqb a0 a then dm else 0)
              = occ a0 (E ++ b_kids b) + (if Nat.eqb a0 a then dp else 0)) ->
  (if b_freed b' then (b_rc b + N.of_nat dp = N.of_nat dm)%N
   else (b_rc b' + N.of_nat dm = b_rc b + N.of_nat dp)%N) ->
  Forall (typed h) (E' ++ b_kids b') ->
  inv_h E' (upd a b' h).
Proof.
  intros E E' h a b b' dm dp [HR HT] Hb Hlive Htag Hocc Hrc HT'.
  assert (tags_stable h (upd a b' h)) as TS by (eapply tags_stable_upd; eauto).
  split.
  - intros a0. specialize (Hocc a0). pose proof (heap_refs_upd_occ h a b' a0 Hb) as Hh.
    rewrite !occ_app in *. pose proof (HR a0) as HRa. rewrite occ_app in HRa.
    destruct (Nat.eqb_spec a0 a) as [->|Hne].
    + rewrite nth_error_upd_eq by (eapply nth_error_Some_lt; eauto).
      rewrite Hb, Hlive in HRa. destruct (b_freed b'); lia.
    + rewrite nth_error_upd_neq by congruence.
      destruct (nth_error h a0) as [b0|]; [destruct (b_freed b0)|]; lia.
  - apply Forall_forall. intros x Hx. apply in_app_or in Hx.
    eapply typed_stable; [exact TS|]. rewrite Forall_forall in HT, HT'.
    destruct Hx as [Hx|Hx].
    + apply HT'. apply in_or_app; auto.
    + destruct (heap_refs_upd_in h a b' x Hb Hx) as [I|I].
      * apply HT. apply in_or_app; auto.
      * apply HT'. apply in_or_app; auto.
Qed.

(* a new block *)
Lemma inv_h_alloc : forall E h k t sh kids,
  inv_h (kids ++ E) h ->
  inv_h ((if tag_ok k t then k else kind_of_tag t, VPtr (length h)) :: E) (h ++ [mkB t 1 sh kids false]).
Proof.
  intros E h k t sh kids [HR HT].
  assert (tags_stable h (h ++ [mkB t 1 sh kids false])) as TS by apply tags_stable_app.
  split.
  - intros a0. specialize (HR a0). rewrite heap_refs_snoc. simpl. rewrite !occ_app in *. simpl.
    unfold ptr_to at 1; simpl.
    destruct (Nat.eqb_spec a0 (length h)) as [->|Hne].
    + rewrite nth_error_app2 by lia. rewrite Nat.sub_diag. simpl.
      rewrite (proj2 (nth_error_None h (length h))) in HR by lia. lia.
    + destruct (lt_dec a0 (length h)).
      * rewrite nth_error_app1 by lia. destruct (nth_error h a0) as [b0|]; [destruct (b_freed b0)|]; lia.
      * rewrite nth_error_app2 by lia. destruct (a0 - length h) as [|n0] eqn:En; [lia|].
        simpl. rewrite (proj2 (nth_error_None h a0)) in HR by lia.
        destruct n0; simpl; lia.
  - constructor.
    + unfold typed; simpl. exists (mkB t 1 sh kids false). split.
      * rewrite nth_error_app2 by lia. rewrite Nat.sub_diag. reflexivity.
      * simpl. destruct (tag_ok k t) eqn:Ek; [assumption|].
        unfold kind_of_tag, tag_ok. destruct (is_value_tag t); reflexivity.
    + rewrite heap_refs_snoc. apply Forall_forall. intros x Hx.
      eapply typed_stable; [exact TS|]. rewrite Forall_forall in HT. apply HT.
      apply in_app_or in Hx. destruct Hx as [Hx|Hx]; [|apply in_app_or in Hx; destruct Hx as [Hx|Hx]].
      * apply in_or_app. left. apply in_or_app. auto.
      * apply in_or_app. auto.
      * apply in_or_app. left. apply in_or_app. auto.
Qed.

(* the kind of a handle can be changed to any kind its block allows *)
Lemma inv_h_retype : forall E h k k' v,
  inv_h ((k, v) :: E) h -> typed h (k', v) -> inv_h ((k', v) :: E) h.
Proof.
  intros E h k k' v [HR HT] Ht. split.
  - intros a0. specialize (HR a0). simpl in *. exact HR.
  - simpl in *. inversion HT; subst. constructor; assumption.
Qed.

Lemma typed_as_value : forall h tv, typed h tv -> typed h (as_value tv).
Proof.
  intros h [k v] T. unfold as_value; simpl. destruct k; try exact T.
  unfold typed in *; simpl in *. destruct v; [reflexivity|].
  destruct T as [b [Hb Hk]]. exists b. split; [assumption|].
  simpl in Hk. destruct (b_tag b); simpl in *; congruence.
Qed.

Lemma snd_as_value : forall tv, snd (as_value tv) = snd tv.
Proof. intros [k v]; unfold as_value; simpl; destruct k; reflexivity. Qed.

Lemma map_snd_as_value : forall l, map snd (map as_value l) = map snd l.
Proof. induction l; simpl; [reflexivity|]. rewrite snd_as_value, IHl. reflexivity. Qed.

Lemma inv_h_map_as_value : forall l E h, inv_h (l ++ E) h -> inv_h (map as_value l ++ E) h.
Proof.
  intros l E h [HR HT]. split.
  - intros a0. specialize (HR a0). rewrite !occ_app in *.
    rewrite (occ_map_snd a0 (map as_value l) l) by apply map_snd_as_value. exact HR.
  - rewrite <- !app_assoc in *. apply Forall_app in HT. destruct HT as [H1 H2].
    apply Forall_app. split; [|assumption].
    apply Forall_forall. intros x Hx. apply in_map_iff in Hx. destruct Hx as [y [<- Hy]].
    apply typed_as_value. rewrite Forall_forall in H1. auto.
Qed.
