(* C18 — model of the manual reference counting of core/src/eval/value/mod.rs (ValueBlockRc,
   NickelValue Clone/Drop, content_make_mut, make_unique/strong_clone), of the move-out lenses of
   value/lens.rs (with_content / extract_or_clone) and of the Thunk wrapper of cache/lazy.rs.

   Definitions only; the proofs are in Mem/RcProofs.v.

   What is modelled.  The heap is a list of blocks indexed by address; addresses are never reused
   (so a stale pointer is detectable: the allocator itself is NOT modelled).  A block has a tag, a
   reference count, a shape (the non-pointer part of the payload), the list of handles its payload
   owns ("kids") and a freed flag.  Besides the value blocks of mod.rs, the std::rc::Rc boxes that
   sit between value blocks (the leaf of the persistent vector of an array, the hash map of an
   environment, the Rc<Closure> of a revertible thunk) are blocks of the same heap: the reference
   count of a value block is the number of *physical* handles, and those live inside these boxes.

   Every position holding a handle has a static kind, its Rust type: KValue = NickelValue,
   KThunk = Thunk (#[repr(transparent)] wrapper, decoded WITHOUT a tag check), KRc = std Rc.

   Error states are explicit ([err]); the theorems of RcProofs.v show none is reachable. *)
From Coq Require Import List NArith Bool Arith.
Import ListNotations.

Definition addr := nat.

Inductive inl := INull | ITrue | IFalse | IEmptyArray | IEmptyRecord.
Inductive value := VInl (i : inl) | VPtr (a : addr).
Inductive kind := KValue | KThunk | KRc.
Notation tval := (kind * value)%type.

(* DataTag of mod.rs, plus the std Rc boxes *)
Inductive tag :=
| TNumber | TArray | TRecord | TString | TThunk | TTerm | TLabel | TEnumVariant
| TForeignId | TSealingKey | TCustomContract | TType
| TVecLeaf | TRcClosure | TEnvMap.

Definition is_value_tag (t : tag) : bool :=
  match t with TVecLeaf | TRcClosure | TEnvMap => false | _ => true end.

Definition tag_eqb (t u : tag) : bool :=
  match t, u with
  | TNumber, TNumber | TArray, TArray | TRecord, TRecord | TString, TString | TThunk, TThunk
  | TTerm, TTerm | TLabel, TLabel | TEnumVariant, TEnumVariant | TForeignId, TForeignId
  | TSealingKey, TSealingKey | TCustomContract, TCustomContract | TType, TType
  | TVecLeaf, TVecLeaf | TRcClosure, TRcClosure | TEnvMap, TEnvMap => true
  | _, _ => false
  end.

(* which block tags a position of a given static kind may point to *)
Definition tag_ok (k : kind) (t : tag) : bool :=
  match k with
  | KThunk => tag_eqb t TThunk
  | KValue => is_value_tag t
  | KRc => negb (is_value_tag t)
  end.

Definition kind_of_tag (t : tag) : kind := if is_value_tag t then KValue else KRc.

Inductive tstate := Suspended | Blackholed | Evaluated.

(* non-pointer part of a payload.
   SStd : standard thunk, kids = [value; env]
   SRev : revertible thunk, kids = orig :: (if cached then [value; env] else []) *)
Inductive shape :=
| SData (d : N)
| SStd (s : tstate) (locked : bool)
| SRev (s : tstate) (locked : bool) (cached : bool).

Record block := mkB {
  b_tag : tag;
  b_rc : N;
  b_shape : shape;
  b_kids : list tval;
  b_freed : bool }.

Inductive err :=
| UseAfterFree             (* access through a handle whose block has been freed *)
| DoubleFree               (* drop of a handle whose block has been freed *)
| CountUnderflow           (* decrement of a zero count *)
| CloneOfZero              (* increment of a zero count: violates assert_unchecked(count != 0) *)
| UniqueAccessWhileShared  (* &mut / move-out of the payload while count <> 1 *)
| BadThunkDecode           (* unchecked decode as thunk data of something that is not a thunk block *)
| Dangling                 (* address never allocated *)
| OutOfFuel.               (* the drop loop ran out of fuel: never (fuel is a proved bound) *)

(* Overflow: inc_ref_count at MAX_REF_COUNT writes the header and then panics (see
   [overflow_header] below); the run stops there.  It is not one of the memory errors, but the
   state it leaves behind is corrupted, so nothing is claimed after it. *)
Inductive res (A : Type) := Ok (a : A) | Err (e : err) | Overflow.
Arguments Ok {A} a.
Arguments Err {A} e.
Arguments Overflow {A}.

(* ------------------------------------------------------------------ heap level *)

Definition H (A : Type) := list block -> res (A * list block).
Definition hret {A} (a : A) : H A := fun h => Ok (a, h).
Definition hbind {A B} (m : H A) (f : A -> H B) : H B :=
  fun h => match m h with Ok (a, h') => f a h' | Err e => Err e | Overflow => Overflow end.
Definition hfail {A} (e : err) : H A := fun _ => Err e.

Declare Scope hm_scope.
Delimit Scope hm_scope with hm.
Notation "x <- m ;; k" := (hbind m (fun x => k)) (at level 61, m at next level, right associativity) : hm_scope.
Notation "m ;;; k" := (hbind m (fun _ => k)) (at level 61, right associativity) : hm_scope.
Open Scope hm_scope.

Fixpoint upd {A} (n : nat) (x : A) (l : list A) {struct l} : list A :=
  match l with
  | [] => []
  | y :: t => match n with O => x :: t | S m => y :: upd m x t end
  end.

Definition heap_refs (h : list block) : list tval := flat_map b_kids h.

Definition h_get (a : addr) : H block := fun h =>
  match nth_error h a with
  | None => Err Dangling
  | Some b => if b_freed b then Err UseAfterFree else Ok (b, h)
  end.

Definition h_set (a : addr) (b : block) : H unit := fun h => Ok (tt, upd a b h).

Definition set_rc (b : block) (n : N) : block := mkB (b_tag b) n (b_shape b) (b_kids b) (b_freed b).
Definition freed_block (b : block) : block := mkB (b_tag b) 0 (b_shape b) [] true.

Section WithMax.
(* ValueBlockHeader::MAX_REF_COUNT = 2^56 - 1 *)
Variable max_rc : N.

(* ValueBlockHeader::inc_ref_count (Clone for NickelValue / ValueBlockRc) *)
Definition h_inc (a : addr) : H unit :=
  b <- h_get a ;;
  if N.eqb (b_rc b) 0 then hfail CloneOfZero
  else if N.leb max_rc (b_rc b) then (fun _ => Overflow)
  else h_set a (set_rc b (b_rc b + 1)).

Definition h_clone1 (tv : tval) : H unit :=
  match snd tv with VInl _ => hret tt | VPtr a => h_inc a end.

Fixpoint h_clone_all (l : list tval) : H unit :=
  match l with [] => hret tt | tv :: r => h_clone1 tv ;;; h_clone_all r end.

(* ValueBlockRc::encode : fresh block, count 1, the payload takes ownership of [kids].  The
   handle is returned at static kind [k] when the tag allows it (Thunk(NickelValue::thunk(..))). *)
Definition h_alloc (k : kind) (t : tag) (sh : shape) (kids : list tval) : H tval := fun h =>
  Ok ((if tag_ok k t then k else kind_of_tag t, VPtr (length h)), h ++ [mkB t 1 sh kids false]).

(* Drop for NickelValue / ValueBlockRc (dec_ref_count; at zero drop_slow = drop_in_place of the
   payload, i.e. drop of every handle it owns, then dealloc), as a worklist *)
Fixpoint drop_loop (fuel : nat) (pend : list tval) (h : list block) : res (list block) :=
  match pend with
  | [] => Ok h
  | tv :: rest =>
    match fuel with
    | O => Err OutOfFuel
    | S f =>
      match snd tv with
      | VInl _ => drop_loop f rest h
      | VPtr a =>
        match nth_error h a with
        | None => Err Dangling
        | Some b =>
          if b_freed b then Err DoubleFree
          else if N.eqb (b_rc b) 0 then Err CountUnderflow
          else if N.eqb (b_rc b) 1 then drop_loop f (b_kids b ++ rest) (upd a (freed_block b) h)
          else drop_loop f rest (upd a (set_rc b (b_rc b - 1)) h)
        end
      end
    end
  end.

Definition h_drop (l : list tval) : H unit := fun h =>
  match drop_loop (S (length l + length (heap_refs h))) l h with
  | Ok h' => Ok (tt, h')
  | Err e => Err e
  | Overflow => Overflow
  end.

(* borrow of the block behind a handle (used for control flow only) *)
Definition h_read (tv : tval) : H (option block) :=
  match snd tv with VInl _ => hret None | VPtr a => b <- h_get a ;; hret (Some b) end.

(* Clone for ThunkData (and ThunkData::map): the copy of a thunk's data is a new independent thunk,
   never born black-holed or locked.  Other payloads are copied as they are. *)
Definition unblackhole (s : tstate) : tstate := match s with Blackholed => Suspended | x => x end.
Definition copy_shape (sh : shape) : shape :=
  match sh with
  | SStd s _ => SStd (unblackhole s) false
  | SRev s _ c => SRev (unblackhole s) false c
  | SData d => SData d
  end.

(* ValueBlockRc::make_unique / content_make_mut::make_mut / Rc::make_mut: count 1 -> in place;
   otherwise strong_clone (clone of the payload: every kid +1, fresh block with count 1) and the
   old handle is dropped by the assignment *)
Definition h_make_unique (tv : tval) : H tval :=
  match snd tv with
  | VInl _ => hret tv
  | VPtr a =>
    b <- h_get a ;;
    if N.eqb (b_rc b) 1 then hret tv
    else
      h_clone_all (b_kids b) ;;;
      tv' <- h_alloc (fst tv) (b_tag b) (copy_shape (b_shape b)) (b_kids b) ;;
      h_drop [tv] ;;;
      hret tv'
  end.

(* ValueBlockRc::strong_clone on a borrowed handle *)
Definition h_strong_clone (tv : tval) : H tval :=
  match snd tv with
  | VInl _ => hret tv
  | VPtr a =>
    b <- h_get a ;;
    h_clone_all (b_kids b) ;;;
    h_alloc (fst tv) (b_tag b) (copy_shape (b_shape b)) (b_kids b)
  end.

(* how a write reaches the payload:
   WCow      content_make_mut / make_mut: make the block unique first (copy-on-write)
   WIfUnique content_mut / try_get_mut: only if the count is 1, otherwise nothing happens
   WShared   through the RefCell of a thunk: shared mutation is the point *)
Inductive wmode := WCow | WIfUnique | WShared.

(* an edit: from the current shape and kids, the new shape and kids and the handles that leave
   the block *)
Definition editf := shape -> list tval -> (shape * list tval) * list tval.

(* One write.  The handle [tv] is owned by the caller and is given back (it is a new one after a
   copy-on-write).  [None]: nothing was written (inline value, or WIfUnique on a shared block).
   A write through &mut (WCow, WIfUnique) re-checks that the count is 1: the error state that a
   missing / wrong check in the code would be. *)
Definition h_modify (mode : wmode) (tv : tval) (f : editf) : H (tval * option (list tval)) :=
  tv' <- (match mode with WCow => h_make_unique tv | _ => hret tv end) ;;
  match snd tv' with
  | VInl _ => hret (tv', None)
  | VPtr a =>
    b <- h_get a ;;
    if (match mode with WIfUnique => negb (N.eqb (b_rc b) 1) | _ => false end) then hret (tv', None)
    else if (match mode with WShared => false | _ => negb (N.eqb (b_rc b) 1) end) then hfail UniqueAccessWhileShared
    else
      let r := f (b_shape b) (b_kids b) in
      h_set a (mkB (b_tag b) (b_rc b) (fst (fst r)) (snd (fst r)) false) ;;;
      hret (tv', Some (snd r))
  end.

(* lens.rs with_content (extract_or_clone, Thunk::into_closure) and Rc::unwrap_or_clone /
   Rc::try_unwrap: consumes the handle.  Count 1: ManuallyDrop(value); ptr::read(content);
   dealloc — the block is released WITHOUT running the destructor of the payload, whose handles
   now all belong to the caller (result flag true).  Otherwise the part [sel] of the payload is
   cloned and the handle is dropped. *)
Definition h_take_or_clone (tv : tval) (sel : shape -> list tval -> list tval) : H (shape * bool * list tval) :=
  match snd tv with
  | VInl _ => hret (SData 0, true, [])
  | VPtr a =>
    b <- h_get a ;;
    if N.eqb (b_rc b) 1 then h_set a (freed_block b) ;;; hret (b_shape b, true, b_kids b)
    else
      let l := sel (b_shape b) (b_kids b) in
      h_clone_all l ;;; h_drop [tv] ;;; hret (b_shape b, false, l)
  end.

(* clone of a part of the payload through a borrowed handle (Thunk::get_owned, Closure::clone) *)
Definition h_clone_kids (tv : tval) (sel : shape -> list tval -> list tval) : H (shape * list tval) :=
  match snd tv with
  | VInl _ => hret (SData 0, [])
  | VPtr a =>
    b <- h_get a ;;
    let l := sel (b_shape b) (b_kids b) in
    h_clone_all l ;;; hret (b_shape b, l)
  end.

(* same, one level down: the payload of the first kid (Closure::clone(orig) of a revertible thunk) *)
Definition h_clone_grandkids (tv : tval) : H (list tval) :=
  match snd tv with
  | VInl _ => hret []
  | VPtr a =>
    b <- h_get a ;;
    match b_kids b with
    | k :: _ => p <- h_clone_kids k (fun _ l => l) ;; hret (snd p)
    | [] => hret []
    end
  end.

(* Thunk::data : as_thunk_data_unchecked, no tag test in the code.  The model makes the test
   and turns a failure into the error state the missing test would be. *)
Definition h_thunk_data (tv : tval) : H block :=
  match tv with
  | (KThunk, VPtr a) =>
    b <- h_get a ;;
    if tag_eqb (b_tag b) TThunk then hret b else hfail BadThunkDecode
  | _ => hfail BadThunkDecode
  end.

(* a handle of static type Thunk used as such (None: the handle has another static type, the
   operation does not apply) *)
Definition h_as_thunk (tv : tval) : H (option block) :=
  match fst tv with
  | KThunk => b <- h_thunk_data tv ;; hret (Some b)
  | _ => hret None
  end.

(* NickelValue::try_into_thunk / as_thunk / the Thunk arm of content(): checked conversion *)
Definition h_retype_thunk (tv : tval) : H (tval * bool) :=
  o <- h_read tv ;;
  match o with
  | Some b => if tag_eqb (b_tag b) TThunk then hret ((KThunk, snd tv), true) else hret (tv, false)
  | None => hret (tv, false)
  end.

(* ------------------------------------------------------------------ state level: root handles *)

Record hstate := mkS { heap : list block; roots : list (option tval) }.

Definition M (A : Type) := hstate -> res (A * hstate).
Definition ret {A} (a : A) : M A := fun st => Ok (a, st).
Definition bind {A B} (m : M A) (f : A -> M B) : M B :=
  fun st => match m st with Ok (a, st') => f a st' | Err e => Err e | Overflow => Overflow end.

Declare Scope sm_scope.
Delimit Scope sm_scope with sm.
Notation "x <~ m ;; k" := (bind m (fun x => k)) (at level 61, m at next level, right associativity) : sm_scope.
Notation "m ;;~ k" := (bind m (fun _ => k)) (at level 61, right associativity) : sm_scope.
Open Scope sm_scope.

Definition lift {A} (m : H A) : M A := fun st =>
  match m (heap st) with
  | Ok (a, h') => Ok (a, mkS h' (roots st))
  | Err e => Err e
  | Overflow => Overflow
  end.

Definition root_vals (r : list (option tval)) : list tval :=
  flat_map (fun o => match o with Some tv => [tv] | None => [] end) r.

(* move the handle out of slot s (the slot becomes dead) *)
Definition take_root (s : nat) : M (option tval) := fun st =>
  match nth_error (roots st) s with
  | Some (Some tv) => Ok (Some tv, mkS (heap st) (upd s None (roots st)))
  | _ => Ok (None, st)
  end.

Definition push_root (tv : tval) : M unit := fun st => Ok (tt, mkS (heap st) (roots st ++ [Some tv])).

Fixpoint push_roots (l : list tval) : M unit :=
  match l with [] => ret tt | tv :: r => push_root tv ;;~ push_roots r end.

(* run [f] on the handle of slot s, in place (&self / &mut self): the handle it returns goes
   back into the same slot *)
Definition with_root {A} (s : nat) (f : tval -> H (tval * A)) (dflt : A) : M A := fun st =>
  match nth_error (roots st) s with
  | Some (Some tv) =>
    match f tv (heap st) with
    | Ok ((tv', a), h') => Ok (a, mkS h' (upd s (Some tv') (roots st)))
    | Err e => Err e
    | Overflow => Overflow
    end
  | _ => Ok (dflt, st)
  end.

(* clones of the handles of some slots (Clone through a borrow of the root) *)
Definition clone_root (s : nat) : M (list tval) := fun st =>
  match nth_error (roots st) s with
  | Some (Some tv) =>
    match h_clone1 tv (heap st) with
    | Ok (_, h') => Ok ([tv], mkS h' (roots st))
    | Err e => Err e
    | Overflow => Overflow
    end
  | _ => Ok ([], st)
  end.

Fixpoint clone_roots (ss : list nat) : M (list tval) :=
  match ss with
  | [] => ret []
  | s :: r => l <~ clone_root s ;; l' <~ clone_roots r ;; ret (l ++ l')
  end.

(* ------------------------------------------------------------------ operations of a history *)

Inductive mutation := MutSet (d : N) | MutPush (s : nat) | MutPop.

Inductive op :=
| ONewInl (i : inl)
| ONewData (t : tag) (d : N)          (* Number, String, ForeignId, SealingKey *)
| ONewArr (d : N) (ss : list nat)     (* NickelValue::array of moved values; empty -> inline *)
| ONewRec (d : N) (ss : list nat)     (* NickelValue::record; empty -> inline *)
| ONewEnum (d : N) (s : option nat)
| ONewWrap (t : tag) (s : nat)        (* CustomContract / Type / Term(Closurize): one value kid *)
| ONewLabel (d : N) (s : option nat)  (* Label with arg_idx: a Thunk-typed kid *)
| ONewThunk (s : nat) (env : list nat)
| ONewRev (s : nat)
| OClone (s : nat)
| ODrop (s : nat)
| OIntoThunk (s : nat)                (* NickelValue::try_into_thunk *)
| OIntoValue (s : nat)                (* From<Thunk> for NickelValue *)
| OMakeMut (s : nat) (m : mutation)   (* content_make_mut, then the mutation *)
| OContentMut (s : nat) (m : mutation)(* content_mut: None when shared *)
| OStrongClone (s : nat)              (* into_block; strong_clone *)
| OMakeUnique (s : nat)               (* with_pos_idx = into_block; make_unique *)
| OLensTake (s : nat)                 (* content().take() and ownership of the parts *)
| OLensRestore (s : nat)              (* content().restore() *)
| OTGet (s : nat)                     (* Thunk::get_owned *)
| OTMkFrame (s : nat)                 (* Thunk::mk_update_frame *)
| OTUpdate (f c : nat)                (* ThunkUpdateFrame::update *)
| OTReset (s : nat)
| OTLock (s : nat)
| OTUnlock (s : nat)
| OTRevert (s : nat)
| OTBuildCached (s : nat) (recs : list nat)
| OTIntoClosure (s : nat)
| OTSaturate (s : nat)
| OTMap (s : nat).

Inductive out := OSkip | ODone | OBool (b : bool) | OPanic.

(* the editing class of a value block: how a &mut to its content is used by the histories *)
Inductive mclass := CLeaf | CVar | COpt (k : kind) | COne | CArr | CNone.

Definition mclass_of (t : tag) : mclass :=
  match t with
  | TNumber | TString | TForeignId | TSealingKey => CLeaf
  | TRecord => CVar
  | TEnumVariant => COpt KValue
  | TLabel => COpt KThunk
  | TCustomContract | TType | TTerm => COne
  | TArray => CArr
  | _ => CNone
  end.

(* a handle used as a NickelValue: Thunk converts with From<Thunk> *)
Definition as_value (tv : tval) : tval :=
  match fst tv with KRc => tv | _ => (KValue, snd tv) end.

Definition is_thunk_kind (tv : tval) : bool := match fst tv with KThunk => true | _ => false end.

Fixpoint nodup_nat (l : list nat) : bool :=
  match l with [] => true | x :: r => negb (existsb (Nat.eqb x) r) && nodup_nat r end.

(* all slots live (and Thunk-typed when [thunks]) and pairwise distinct *)
Definition slots_ok (thunks : bool) (ss : list nat) (st : hstate) : bool :=
  nodup_nat ss &&
  forallb (fun s => match nth_error (roots st) s with
                    | Some (Some tv) => if thunks then is_thunk_kind tv else true
                    | _ => false end) ss.

Fixpoint take_roots (ss : list nat) : M (list tval) :=
  match ss with
  | [] => ret []
  | s :: r =>
    o <~ take_root s ;;
    l <~ take_roots r ;;
    ret (match o with Some tv => tv :: l | None => l end)
  end.

(* a pure look at the state *)
Definition get {A} (f : hstate -> A) : M A := fun st => Ok (f st, st).

Definition guard (c : hstate -> bool) (m : M out) : M out := fun st => if c st then m st else Ok (OSkip, st).

Definition opt_list {A} (o : option A) : list A := match o with Some x => [x] | None => [] end.

Fixpoint removelast_t (l : list tval) : list tval :=
  match l with [] => [] | [_] => [] | x :: r => x :: removelast_t r end.
Fixpoint last_t (l : list tval) : option tval :=
  match l with [] => None | [x] => Some x | _ :: r => last_t r end.

Definition all_kids : shape -> list tval -> list tval := fun _ l => l.

(* The mutation, on the handle [tv] owned by the caller; [x] are the owned values to move in
   (already at the kind of the position).  Returns the handle, whether the write happened, the
   handles that become new roots and the handles to drop. *)
Definition h_mutate (mode : wmode) (tv : tval) (m : mutation) (x : list tval)
  : H (tval * (bool * list tval)) :=
  o <- h_read tv ;;
  match o with
  | None => hret (tv, (false, x))
  | Some b =>
    let fin (r : tval * option (list tval)) (keep : bool) : H (tval * (bool * list tval)) :=
      match snd r with
      | Some rel => if keep then hret (fst r, (true, rel)) else h_drop rel ;;; hret (fst r, (true, []))
      | None => hret (fst r, (false, x))
      end in
    match mclass_of (b_tag b), m with
    | CLeaf, MutSet d =>
      r <- h_modify mode tv (fun _ kids => ((SData d, kids), x)) ;; fin r true
    | CVar, MutPush _ =>
      r <- h_modify mode tv (fun sh kids => ((sh, kids ++ x), [])) ;; fin r true
    | CVar, MutPop =>
      r <- h_modify mode tv (fun sh kids => ((sh, removelast_t kids), opt_list (last_t kids) ++ x)) ;; fin r true
    | COpt _, MutPush _ | COne, MutPush _ =>
      r <- h_modify mode tv (fun sh kids => ((sh, x), kids)) ;; fin r false
    | COpt _, MutPop =>
      r <- h_modify mode tv (fun sh kids => ((sh, []), kids ++ x)) ;; fin r true
    | CArr, MutPush _ =>
      (* arr.array.push(v): Rc::make_mut on the leaf of the vector, then push *)
      r <- h_modify mode tv (fun sh kids => ((sh, []), kids)) ;;
      match snd r with
      | Some [leaf] =>
        r2 <- h_modify WCow leaf (fun sh kids => ((sh, kids ++ x), [])) ;;
        r3 <- h_modify mode (fst r) (fun sh kids => ((sh, kids ++ [fst r2]), [])) ;;
        match snd r2, snd r3 with
        | Some _, Some _ => hret (fst r3, (true, []))
        | Some _, None => h_drop [fst r2] ;;; hret (fst r3, (true, []))
        | None, Some _ => hret (fst r3, (true, x))
        | None, None => h_drop [fst r2] ;;; hret (fst r3, (true, x))
        end
      | Some l => r3 <- h_modify mode (fst r) (fun sh kids => ((sh, kids ++ l), [])) ;;
                  match snd r3 with Some _ => hret (fst r3, (false, x)) | None => h_drop l ;;; hret (fst r3, (false, x)) end
      | None => hret (fst r, (false, x))
      end
    | CArr, MutPop =>
      r <- h_modify mode tv (fun sh kids => ((sh, []), kids)) ;;
      match snd r with
      | Some [leaf] =>
        r2 <- h_modify WCow leaf (fun sh kids => ((sh, removelast_t kids), opt_list (last_t kids))) ;;
        r3 <- h_modify mode (fst r) (fun sh kids => ((sh, kids ++ [fst r2]), [])) ;;
        let popped := match snd r2 with Some p => p | None => [] end in
        match snd r3 with
        | Some _ => hret (fst r3, (true, popped ++ x))
        | None => h_drop [fst r2] ;;; hret (fst r3, (true, popped ++ x))
        end
      | Some l => r3 <- h_modify mode (fst r) (fun sh kids => ((sh, kids ++ l), [])) ;;
                  match snd r3 with Some _ => hret (fst r3, (false, x)) | None => h_drop l ;;; hret (fst r3, (false, x)) end
      | None => hret (fst r, (false, x))
      end
    | _, _ => hret (tv, (false, x))
    end
  end.

(* is the mutation meaningful for this block, and is the pushed root of an acceptable kind? *)
Definition mutation_ok (c : mclass) (m : mutation) (x : option tval) : bool :=
  match c, m with
  | CLeaf, MutSet _ => true
  | CVar, MutPush _ | COne, MutPush _ | CArr, MutPush _ | COpt KValue, MutPush _ =>
    match x with Some _ => true | None => false end
  | COpt _, MutPush _ => match x with Some v => is_thunk_kind v | None => false end
  | CVar, MutPop | COpt _, MutPop | CArr, MutPop => true
  | _, _ => false
  end.

Definition mut_slot (m : mutation) : option nat := match m with MutPush s => Some s | _ => None end.

(* tag of the block behind a root, None for inline / dead *)
Definition root_tag (s : nat) (st : hstate) : option tag :=
  match nth_error (roots st) s with
  | Some (Some (_, VPtr a)) =>
    match nth_error (heap st) a with Some b => Some (b_tag b) | None => None end
  | _ => None
  end.

Definition root_rc (s : nat) (st : hstate) : N :=
  match nth_error (roots st) s with
  | Some (Some (_, VPtr a)) =>
    match nth_error (heap st) a with Some b => b_rc b | None => 0 end
  | _ => 0
  end.

Definition root_live (s : nat) (st : hstate) : bool :=
  match nth_error (roots st) s with Some (Some _) => true | _ => false end.

Definition root_is_thunk (s : nat) (st : hstate) : bool :=
  match nth_error (roots st) s with Some (Some tv) => is_thunk_kind tv | _ => false end.

Definition mut_guard (s : nat) (m : mutation) (st : hstate) : bool :=
  match root_tag s st with
  | None => false
  | Some t =>
    let x := match mut_slot m with
             | Some s' => if Nat.eqb s s' then None
                          else match nth_error (roots st) s' with Some (Some v) => Some v | _ => None end
             | None => None end in
    mutation_ok (mclass_of t) m x
  end.

(* the kind at which a pushed root enters a block of this tag *)
Definition push_kind (t : option tag) (tv : tval) : tval :=
  match t with Some TLabel => tv | _ => as_value tv end.

(* closure part of the kids of a thunk block *)
Definition closure_kids (sh : shape) (kids : list tval) : option (list tval) :=
  match sh with
  | SStd _ _ => Some kids
  | SRev _ _ true => Some (tl kids)
  | _ => None
  end.
Definition closure_sel (sh : shape) (kids : list tval) : list tval :=
  match closure_kids sh kids with Some ck => ck | None => [] end.

Definition set_state (sh : shape) (s : tstate) : shape :=
  match sh with SStd _ l => SStd s l | SRev _ l c => SRev s l c | x => x end.
Definition get_state (sh : shape) : tstate :=
  match sh with SStd s _ => s | SRev s _ _ => s | _ => Suspended end.
Definition set_locked (sh : shape) (l : bool) : shape :=
  match sh with SStd s _ => SStd s l | SRev s _ c => SRev s l c | x => x end.
Definition get_locked (sh : shape) : bool :=
  match sh with SStd _ l => l | SRev _ l _ => l | _ => false end.
Definition tstate_eqb (a b : tstate) : bool :=
  match a, b with Suspended, Suspended | Blackholed, Blackholed | Evaluated, Evaluated => true | _, _ => false end.
Definition is_rev (sh : shape) : bool := match sh with SRev _ _ _ => true | _ => false end.

(* an operation on the thunk of slot s through &self: [f] gets the handle and the (checked)
   thunk data, gives back what becomes new roots *)
Definition with_thunk (s : nat) (f : tval -> block -> H (out * list tval)) : M out :=
  guard (root_is_thunk s)
    (r <~ with_root s (fun tv =>
            ob <- h_as_thunk tv ;;
            match ob with
            | Some b => r <- f tv b ;; hret (tv, r)
            | None => hret (tv, (OSkip, []))
            end) (OSkip, []) ;;
     push_roots (snd r) ;;~ ret (fst r)).

Definition step (o : op) : M out :=
  match o with
  | ONewInl i => push_root (KValue, VInl i) ;;~ ret ODone

  | ONewData t d =>
    match mclass_of t with
    | CLeaf => tv <~ lift (h_alloc KValue t (SData d) []) ;; push_root tv ;;~ ret ODone
    | _ => ret OSkip
    end

  | ONewArr d ss =>
    guard (slots_ok false ss)
      (kids <~ take_roots ss ;;
       match kids with
       | [] => push_root (KValue, VInl IEmptyArray) ;;~ ret ODone
       | _ =>
         leaf <~ lift (h_alloc KRc TVecLeaf (SData 0) (map as_value kids)) ;;
         tv <~ lift (h_alloc KValue TArray (SData d) [leaf]) ;;
         push_root tv ;;~ ret ODone
       end)

  | ONewRec d ss =>
    guard (slots_ok false ss)
      (kids <~ take_roots ss ;;
       match kids with
       | [] => push_root (KValue, VInl IEmptyRecord) ;;~ ret ODone
       | _ => tv <~ lift (h_alloc KValue TRecord (SData d) (map as_value kids)) ;; push_root tv ;;~ ret ODone
       end)

  | ONewEnum d s =>
    guard (slots_ok false (opt_list s))
      (kids <~ take_roots (opt_list s) ;;
       tv <~ lift (h_alloc KValue TEnumVariant (SData d) (map as_value kids)) ;; push_root tv ;;~ ret ODone)

  | ONewWrap t s =>
    match mclass_of t with
    | COne =>
      guard (slots_ok false [s])
        (kids <~ take_roots [s] ;;
         tv <~ lift (h_alloc KValue t (SData 0) (map as_value kids)) ;; push_root tv ;;~ ret ODone)
    | _ => ret OSkip
    end

  | ONewLabel d s =>
    guard (slots_ok true (opt_list s))
      (kids <~ take_roots (opt_list s) ;;
       tv <~ lift (h_alloc KValue TLabel (SData d) kids) ;; push_root tv ;;~ ret ODone)

  | ONewThunk s env =>
    guard (fun st => slots_ok false [s] st && slots_ok true env st && negb (existsb (Nat.eqb s) env))
      (v <~ take_roots [s] ;;
       ts <~ take_roots env ;;
       m <~ lift (h_alloc KRc TEnvMap (SData 0) ts) ;;
       tv <~ lift (h_alloc KThunk TThunk (SStd Suspended false) (map as_value v ++ [m])) ;;
       push_root tv ;;~ ret ODone)

  | ONewRev s =>
    guard (slots_ok false [s])
      (v <~ take_roots [s] ;;
       m <~ lift (h_alloc KRc TEnvMap (SData 0) []) ;;
       rc <~ lift (h_alloc KRc TRcClosure (SData 0) (map as_value v ++ [m])) ;;
       tv <~ lift (h_alloc KThunk TThunk (SRev Suspended false false) [rc]) ;;
       push_root tv ;;~ ret ODone)

  | OClone s =>
    guard (root_live s) (l <~ clone_root s ;; push_roots l ;;~ ret ODone)

  | ODrop s =>
    guard (root_live s) (l <~ take_roots [s] ;; lift (h_drop l) ;;~ ret ODone)

  | OIntoThunk s =>
    with_root s (fun tv => r <- h_retype_thunk tv ;; hret (fst r, OBool (snd r))) OSkip

  | OIntoValue s =>
    with_root s (fun tv => hret (as_value tv, ODone)) OSkip

  | OMakeMut s m =>
    guard (mut_guard s m)
      (t <~ get (root_tag s) ;;
       x <~ take_roots (opt_list (mut_slot m)) ;;
       r <~ with_root s (fun tv => h_mutate WCow tv m (map (push_kind t) x)) (false, x) ;;
       push_roots (snd r) ;;~ ret ODone)

  | OContentMut s m =>
    guard (mut_guard s m)
      (t <~ get (root_tag s) ;;
       n <~ get (root_rc s) ;;
       if N.eqb n 1 then
         x <~ take_roots (opt_list (mut_slot m)) ;;
         r <~ with_root s (fun tv => h_mutate WIfUnique tv m (map (push_kind t) x)) (false, x) ;;
         push_roots (snd r) ;;~ ret (OBool true)
       else ret (OBool false))

  | OStrongClone s =>
    guard (root_live s)
      (r <~ with_root s (fun tv => tv' <- h_strong_clone tv ;; hret (tv, [tv'])) [] ;;
       push_roots r ;;~ ret ODone)

  | OMakeUnique s =>
    with_root s (fun tv => tv' <- h_make_unique tv ;; hret (tv', ODone)) OSkip

  | OLensTake s =>
    guard (root_live s)
      (l <~ take_roots [s] ;;
       match l with
       | [tv] =>
         ob <~ lift (h_read tv) ;;
         match ob with
         | None => lift (h_drop [tv]) ;;~ ret ODone           (* inline: null / bool / empty container *)
         | Some b =>
           match b_tag b with
           | TThunk =>                                        (* thunk_lens: into_thunk_unchecked after the tag match *)
             r <~ lift (h_retype_thunk tv) ;; push_root (fst r) ;;~ ret ODone
           | TArray =>
             p <~ lift (h_take_or_clone tv all_kids) ;;
             match snd p with
             | [leaf] =>
               q <~ lift (h_take_or_clone leaf all_kids) ;;   (* Slice::into_iter: Rc::unwrap_or_clone *)
               push_roots (snd q) ;;~ ret ODone
             | l' => lift (h_drop l') ;;~ ret ODone
             end
           | _ =>
             p <~ lift (h_take_or_clone tv all_kids) ;;
             push_roots (snd p) ;;~ ret ODone
           end
         end
       | l' => lift (h_drop l') ;;~ ret OSkip
       end)

  | OLensRestore s => guard (root_live s) (ret ODone)

  | OTGet s =>
    with_thunk s (fun tv b =>
      match closure_kids (b_shape b) (b_kids b) with
      | None => hret (OPanic, [])                             (* revertible thunk without cached value *)
      | Some _ =>
        p <- h_clone_kids tv closure_sel ;;
        h_drop (skipn 1 (snd p)) ;;; hret (ODone, firstn 1 (snd p))
      end)

  | OTMkFrame s =>
    with_thunk s (fun tv b =>
      if tstate_eqb (get_state (b_shape b)) Blackholed then hret (OBool false, [])
      else
        _ <- h_modify WShared tv (fun sh kids => ((set_state sh Blackholed, kids), [])) ;;
        h_clone1 tv ;;; hret (OBool true, [tv]))

  | OTUpdate f c =>
    guard (fun st => root_is_thunk f st && slots_ok false [c] st && negb (Nat.eqb f c))
      (v <~ take_roots [c] ;;
       fl <~ take_roots [f] ;;
       match fl with
       | [ftv] =>
         ob <~ lift (h_as_thunk ftv) ;;
         match ob with None => lift (h_drop (v ++ [ftv])) ;;~ ret OSkip | Some _ =>
         m <~ lift (h_alloc KRc TEnvMap (SData 0) []) ;;
         let newc := map as_value v ++ [m] in
         r <~ lift (h_modify WShared ftv (fun sh kids =>
                      match sh with
                      | SStd _ l => ((SStd Evaluated l, newc), kids)
                      | SRev _ l _ => ((SRev Evaluated l true, firstn 1 kids ++ newc), skipn 1 kids)
                      | SData _ => ((sh, kids), newc)
                      end)) ;;
         lift (h_drop (match snd r with Some rel => rel | None => newc end)) ;;~
         lift (h_drop [fst r]) ;;~ ret ODone
         end
       | l => lift (h_drop (v ++ l)) ;;~ ret OSkip
       end)

  | OTReset s =>
    with_thunk s (fun tv _ =>
      _ <- h_modify WShared tv (fun sh kids => ((set_state sh Suspended, kids), [])) ;; hret (ODone, []))

  | OTLock s =>
    with_thunk s (fun tv b =>
      if get_locked (b_shape b) then hret (OBool false, [])
      else _ <- h_modify WShared tv (fun sh kids => ((set_locked sh true, kids), [])) ;; hret (OBool true, []))

  | OTUnlock s =>
    with_thunk s (fun tv b =>
      _ <- h_modify WShared tv (fun sh kids => ((set_locked sh false, kids), [])) ;;
      hret (OBool (get_locked (b_shape b)), []))

  | OTRevert s =>
    with_thunk s (fun tv b =>
      if is_rev (b_shape b) then
        p <- h_clone_kids tv (fun _ kids => firstn 1 kids) ;;
        tv' <- h_alloc KThunk TThunk (SRev Suspended false false) (snd p) ;;
        hret (ODone, [tv'])
      else h_clone1 tv ;;; hret (ODone, [tv]))

  | OTBuildCached s recs =>
    guard (fun st => root_is_thunk s st && slots_ok true recs st)
      ((* the harness builds rec_env: &[(Ident, Thunk)] from clones of the roots *)
       rs <~ clone_roots recs ;;
       r <~ with_root s (fun tv =>
              ob <- h_as_thunk tv ;;
              match ob with None => hret (tv, OSkip) | Some b =>
              match b_shape b with
              | SRev _ _ false =>
                (* new_cached = Closure::clone(orig) *)
                q <- h_clone_grandkids tv ;;
                (* env.extend(rec_env.iter().cloned()): the layer is shared with orig, so a new
                   layer is made from the clones and the old (empty) one is released *)
                h_clone_all rs ;;;
                m <- h_alloc KRc TEnvMap (SData 0) rs ;;
                h_drop (skipn 1 q) ;;;
                r <- h_modify WShared tv (fun sh kids =>
                       match sh with
                       | SRev st l false => ((SRev st l true, kids ++ firstn 1 q ++ [m]), [])
                       | _ => ((sh, kids), firstn 1 q ++ [m])
                       end) ;;
                h_drop (match snd r with Some rel => rel | None => firstn 1 q ++ [m] end) ;;;
                hret (tv, ODone)
              | SRev _ _ true => hret (tv, OPanic)            (* assert!(cached.is_none()) *)
              | _ => hret (tv, ODone)
              end end) OSkip ;;
       lift (h_drop rs) ;;~ ret r)

  | OTIntoClosure s =>
    guard (root_is_thunk s)
      (l <~ take_roots [s] ;;
       match l with
       | [tv] =>
         ob <~ lift (h_as_thunk tv) ;;
         match ob with None => lift (h_drop [tv]) ;;~ ret OSkip | Some _ =>
         p <~ lift (h_take_or_clone tv closure_sel) ;;
         let sh := fst (fst p) in
         let kids := snd p in
         if snd (fst p) then
           (* unique: the whole ThunkData is owned *)
           match closure_kids sh kids with
           | Some ck =>
             push_roots (firstn 1 ck) ;;~
             lift (h_drop (skipn 1 ck ++ (if is_rev sh then firstn 1 kids else []))) ;;~ ret ODone
           | None => lift (h_drop kids) ;;~ ret OPanic
           end
         else
           match closure_kids sh kids with
           | Some _ => push_roots (firstn 1 kids) ;;~ lift (h_drop (skipn 1 kids)) ;;~ ret ODone
           | None => lift (h_drop kids) ;;~ ret OPanic
           end
         end
       | l' => lift (h_drop l') ;;~ ret OSkip
       end)

  | OTSaturate s =>
    guard (root_is_thunk s)
      (l <~ take_roots [s] ;;
       match l with
       | [tv] =>
         ob <~ lift (h_as_thunk tv) ;;
         match ob with None => lift (h_drop [tv]) ;;~ ret OSkip | Some _ =>
         p <~ lift (h_take_or_clone tv all_kids) ;;
         let sh := fst (fst p) in
         if is_rev sh then
           (* Rc::try_unwrap(orig).unwrap_or_else(clone); cached and deps are dropped *)
           match snd p with
           | orig :: cached =>
             q <~ lift (h_take_or_clone orig all_kids) ;;
             lift (h_drop cached) ;;~
             tv' <~ lift (h_alloc KValue TThunk (SStd Suspended false) (snd q)) ;;
             push_root tv' ;;~ ret ODone
           | [] => ret ODone
           end
         else
           (* revthunk_as_explicit_fun returns the data of a standard thunk unchanged: moved out
              when this was the only handle, a copy (ThunkData::clone) otherwise *)
           tv' <~ lift (h_alloc KValue TThunk (if snd (fst p) then sh else copy_shape sh) (snd p)) ;;
           push_root tv' ;;~ ret ODone
         end
       | l' => lift (h_drop l') ;;~ ret OSkip
       end)

  | OTMap s =>
    with_thunk s (fun tv b =>
      if is_rev (b_shape b) then
        q <- h_clone_grandkids tv ;;
        rc <- h_alloc KRc TRcClosure (SData 0) q ;;
        p <- h_clone_kids tv (fun _ kids => tl kids) ;;
        tv' <- h_alloc KThunk TThunk (copy_shape (fst p)) (rc :: snd p) ;;
        hret (ODone, [tv'])
      else
        p <- h_clone_kids tv all_kids ;;
        tv' <- h_alloc KThunk TThunk (copy_shape (fst p)) (snd p) ;;
        hret (ODone, [tv']))
  end.

(* a history: the run stops at the first error / overflow *)
Fixpoint run (ops : list op) (st : hstate) : res (list out * hstate) :=
  match ops with
  | [] => Ok ([], st)
  | o :: r =>
    match step o st with
    | Ok (x, st') =>
      match run r st' with
      | Ok (xs, st'') => Ok (x :: xs, st'')
      | Err e => Err e
      | Overflow => Overflow
      end
    | Err e => Err e
    | Overflow => Overflow
    end
  end.

End WithMax.

Definition init : hstate := mkS [] [].

(* The real bound *)
Definition MAX_REF_COUNT : N := 72057594037927935%N.   (* 0x00FF_FFFF_FFFF_FFFF *)

(* ValueBlockHeader::set_ref_count writes pack(tag, count) BEFORE testing count > MAX_REF_COUNT:
   with count = MAX+1 = 2^56 the bit lands in the tag byte.  (tag number, stored count) after the
   write that precedes the panic: *)
Definition overflow_header (tag_num : N) : N * N := (N.lor tag_num 1, 0%N).

(* ------------------------------------------------------------------ observation (for the tie) *)

Inductive rtree :=
| RInl (i : inl)
| RCut
| RFreed
| RNode (t : tag) (sh : shape) (rc : N) (kids : list rtree).

Definition blk (h : list block) (v : value) : option block :=
  match v with VPtr a => nth_error h a | VInl _ => None end.

(* the kids a Rust observer can see through the public API: array elements through the leaf,
   the closure value of a thunk (not its environment, not orig) *)
Definition visible_kids (h : list block) (b : block) : list tval :=
  match b_tag b with
  | TArray =>
    match b_kids b with
    | [leaf] => match blk h (snd leaf) with Some lb => b_kids lb | None => [] end
    | _ => []
    end
  | TThunk =>
    match closure_kids (b_shape b) (b_kids b) with
    | Some ck => firstn 1 ck
    | None => []
    end
  | _ => b_kids b
  end.

Fixpoint render (fuel : nat) (h : list block) (v : value) : rtree :=
  match v with
  | VInl i => RInl i
  | VPtr a =>
    match fuel with
    | O => RCut
    | S f =>
      match nth_error h a with
      | None => RFreed
      | Some b =>
        if b_freed b then RFreed
        else RNode (b_tag b) (b_shape b) (b_rc b) (map (fun tv => render f h (snd tv)) (visible_kids h b))
      end
    end
  end.

Definition observe (depth : nat) (st : hstate) : list (option (kind * rtree)) :=
  map (fun o => match o with
                | Some tv => Some (fst tv, render depth (heap st) (snd tv))
                | None => None end) (roots st).

(* leak accounting: live blocks not reachable from the live roots *)
Fixpoint mark (fuel : nat) (work : list addr) (seen : list addr) (h : list block) : list addr :=
  match fuel with
  | O => seen
  | S f =>
    match work with
    | [] => seen
    | a :: w =>
      if existsb (Nat.eqb a) seen then mark f w seen h
      else
        match nth_error h a with
        | Some b =>
          let ks := flat_map (fun tv => match snd tv with VPtr x => [x] | _ => [] end) (b_kids b) in
          mark f (ks ++ w) (a :: seen) h
        | None => mark f w seen h
        end
    end
  end.

Definition live_blocks (h : list block) : nat := length (filter (fun b => negb (b_freed b)) h).

Definition leaked (st : hstate) : nat :=
  let rootptrs := flat_map (fun tv => match snd tv with VPtr x => [x] | _ => [] end) (root_vals (roots st)) in
  let fuel := S (length (heap st) + length (heap_refs (heap st)) + length rootptrs) in
  let seen := mark fuel rootptrs [] (heap st) in
  live_blocks (heap st) - length (filter (fun a => match nth_error (heap st) a with
                                                   | Some b => negb (b_freed b) | None => false end) seen).
