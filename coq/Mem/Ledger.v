(* C18 — ledger of the `unsafe` sites of the memory representation.

   Every `unsafe` block / fn / impl and every pop_unchecked / read_unchecked call of
   core/src/eval/{stack.rs, cache/lazy.rs, value/mod.rs, value/lens.rs} is listed by
   checks/c18_translate.py in Gen/UnsafeSites.v (key = file, impl, function, kind, ordinal; line
   numbers are not part of the key).  This hand-maintained table says, for each key, what carries
   the site's obligation.  [sites_all_covered] fails to compile when a site appears (or moves to
   another function) that the table does not know: an open obligation. *)
From Coq Require Import List String Bool.
Import ListNotations.
From NV Require Import Mem.Rc Mem.RcProofs Mem.StackBase Mem.Stack Mem.StackProofs Gen.UnsafeSites.
Open Scope string_scope.

Inductive coverage : Type :=
| ByLemma (name : string) (P : Prop) (proof : P) (why : string)
    (* the protocol obligation of the site is this lemma of RcProofs / StackProofs *)
| ByTagTest (why : string)
    (* decode at the type selected by a tag test; pairing exercised by the harness, not proved *)
| Identity (why : string)
    (* a handle changes Rust type, nothing happens in the model *)
| LayoutOnly (why : string)
    (* layout / bit patterns / allocator: not modelled, sampled under Miri / ASan *)
| Hook.
    (* verification hook (feature verif-hooks) *)

Definition ledger : list (string * coverage) := [
  ("eval/stack.rs::Stack<C>::push:unsafe-block#1", ByLemma "push_ok" _ push_ok "push writes the payload bytes, then the marker of the same type");
  ("eval/stack.rs::Stack<C>::pop:unsafe-block#1", ByLemma "pop_ok" _ pop_ok "the marker test `marker != T::marker()` dominates the unchecked pop");
  ("eval/stack.rs::Stack<C>::pop:call:pop_unchecked#1", ByLemma "pop_ok" _ pop_ok "the marker test `marker != T::marker()` dominates the unchecked pop");
  ("eval/stack.rs::Stack<C>::top_marker:unsafe-block#1", LayoutOnly "transmute<u8, Marker> of the last byte: that byte was written by push as `kind as u8` (push_ok); validity of the byte pattern is the repr(u8) fact, not modelled");
  ("eval/stack.rs::Stack<C>::pop_unchecked:unsafe-fn#1", ByLemma "pop_unchecked_ok" _ pop_unchecked_ok "reads at the same T and truncates by 1 + size_of::<T>()");
  ("eval/stack.rs::Stack<C>::pop_unchecked:unsafe-block#1", ByLemma "pop_unchecked_ok" _ pop_unchecked_ok "reads at the same T and truncates by 1 + size_of::<T>()");
  ("eval/stack.rs::Stack<C>::pop_unchecked:call:read_unchecked#1", ByLemma "pop_unchecked_ok" _ pop_unchecked_ok "reads at the same T and truncates by 1 + size_of::<T>()");
  ("eval/stack.rs::Stack<C>::read_unchecked:unsafe-fn#1", ByLemma "read_unchecked_ok" _ read_unchecked_ok "the bytes below the marker were written at type T (frames_well_tagged)");
  ("eval/stack.rs::Stack<C>::read_unchecked:unsafe-block#1", ByLemma "read_unchecked_ok" _ read_unchecked_ok "the bytes below the marker were written at type T (frames_well_tagged)");
  ("eval/stack.rs::Stack<C>::drop_top:unsafe-block#1", ByLemma "drop_top_ok" _ drop_top_ok "every arm pops at the type paired with its marker (generated table)");
  ("eval/stack.rs::Stack<C>::drop_top:call:pop_unchecked#1", ByLemma "drop_top_ok" _ drop_top_ok "every arm pops at the type paired with its marker (generated table)");
  ("eval/stack.rs::Stack<C>::drop_top:call:pop_unchecked#2", ByLemma "drop_top_ok" _ drop_top_ok "every arm pops at the type paired with its marker (generated table)");
  ("eval/stack.rs::Stack<C>::drop_top:call:pop_unchecked#3", ByLemma "drop_top_ok" _ drop_top_ok "every arm pops at the type paired with its marker (generated table)");
  ("eval/stack.rs::Stack<C>::drop_top:call:pop_unchecked#4", ByLemma "drop_top_ok" _ drop_top_ok "every arm pops at the type paired with its marker (generated table)");
  ("eval/stack.rs::Stack<C>::drop_top:call:pop_unchecked#5", ByLemma "drop_top_ok" _ drop_top_ok "every arm pops at the type paired with its marker (generated table)");
  ("eval/stack.rs::Stack<C>::drop_top:call:pop_unchecked#6", ByLemma "drop_top_ok" _ drop_top_ok "every arm pops at the type paired with its marker (generated table)");
  ("eval/stack.rs::Stack<C>::drop_top:call:pop_unchecked#7", ByLemma "drop_top_ok" _ drop_top_ok "every arm pops at the type paired with its marker (generated table)");
  ("eval/stack.rs::Stack<C>::drop_top:call:pop_unchecked#8", ByLemma "drop_top_ok" _ drop_top_ok "every arm pops at the type paired with its marker (generated table)");
  ("eval/stack.rs::Stack<C>::drop_top:call:pop_unchecked#9", ByLemma "drop_top_ok" _ drop_top_ok "every arm pops at the type paired with its marker (generated table)");
  ("eval/stack.rs::Stack<C>::drop_top:call:pop_unchecked#10", ByLemma "drop_top_ok" _ drop_top_ok "every arm pops at the type paired with its marker (generated table)");
  ("eval/stack.rs::Stack<C>::unwind:unsafe-block#1", ByLemma "unwind_ok" _ unwind_ok "the UpdateIndex test guards the pop at UpdateIndexItem");
  ("eval/stack.rs::Stack<C>::unwind:call:pop_unchecked#1", ByLemma "unwind_ok" _ unwind_ok "the UpdateIndex test guards the pop at UpdateIndexItem");
  ("eval/stack.rs::Stack<C>::pop_arg:unsafe-block#1", ByLemma "pop_at_ok" _ pop_at_ok "each arm pops at the type paired with the marker it matched");
  ("eval/stack.rs::Stack<C>::pop_arg:call:pop_unchecked#1", ByLemma "pop_at_ok" _ pop_at_ok "each arm pops at the type paired with the marker it matched");
  ("eval/stack.rs::Stack<C>::pop_arg:unsafe-block#2", ByLemma "pop_at_ok" _ pop_at_ok "each arm pops at the type paired with the marker it matched");
  ("eval/stack.rs::Stack<C>::pop_arg:call:pop_unchecked#2", ByLemma "pop_at_ok" _ pop_at_ok "each arm pops at the type paired with the marker it matched");
  ("eval/stack.rs::Stack<C>::pop_arg_as_idx:unsafe-block#1", ByLemma "pop_at_ok" _ pop_at_ok "each arm pops at the type paired with the marker it matched");
  ("eval/stack.rs::Stack<C>::pop_arg_as_idx:call:pop_unchecked#1", ByLemma "pop_at_ok" _ pop_at_ok "each arm pops at the type paired with the marker it matched");
  ("eval/stack.rs::Stack<C>::pop_arg_as_idx:unsafe-block#2", ByLemma "pop_at_ok" _ pop_at_ok "each arm pops at the type paired with the marker it matched");
  ("eval/stack.rs::Stack<C>::pop_arg_as_idx:call:pop_unchecked#2", ByLemma "pop_at_ok" _ pop_at_ok "each arm pops at the type paired with the marker it matched");
  ("eval/stack.rs::Stack<C>::peek_sealed_cont:unsafe-block#1", ByLemma "peek_ok" _ peek_ok "each arm reads at the type paired with the marker it matched");
  ("eval/stack.rs::Stack<C>::peek_sealed_cont:call:read_unchecked#1", ByLemma "peek_ok" _ peek_ok "each arm reads at the type paired with the marker it matched");
  ("eval/stack.rs::Stack<C>::peek_sealed_cont:unsafe-block#2", ByLemma "peek_ok" _ peek_ok "each arm reads at the type paired with the marker it matched");
  ("eval/stack.rs::Stack<C>::peek_sealed_cont:call:read_unchecked#2", ByLemma "peek_ok" _ peek_ok "each arm reads at the type paired with the marker it matched");
  ("eval/stack.rs::Iterator for StackMarkerIter<'_, C>::next:unsafe-block#1", ByLemma "markers_ok" _ markers_ok "item_size skips exactly the payload that was written, so the byte read is a marker");
  ("cache/lazy.rs::Thunk::data:unsafe-block#1", ByLemma "thunk_data_spec" _ thunk_data_spec "Thunk::data: unchecked decode; a Thunk-typed handle points to a live Thunk block (thunk_tag_inv)");
  ("value/mod.rs::NickelValue::with_inline_pos_idx:unsafe-block#1", LayoutOnly "bit-level encoding (tag bits, inline values, header packing, Layout): not modelled; sampled under Miri / AddressSanitizer");
  ("value/mod.rs::NickelValue::inline:unsafe-block#1", LayoutOnly "bit-level encoding (tag bits, inline values, header packing, Layout): not modelled; sampled under Miri / AddressSanitizer");
  ("value/mod.rs::NickelValue::as_inline_unchecked:unsafe-fn#1", LayoutOnly "bit-level encoding (tag bits, inline values, header packing, Layout): not modelled; sampled under Miri / AddressSanitizer");
  ("value/mod.rs::NickelValue::as_inline_unchecked:unsafe-block#1", LayoutOnly "bit-level encoding (tag bits, inline values, header packing, Layout): not modelled; sampled under Miri / AddressSanitizer");
  ("value/mod.rs::NickelValue::raw_copy:unsafe-fn#1", Identity "the handle changes Rust type (ManuallyDrop / raw copy) without touching the count; one handle in the model");
  ("value/mod.rs::NickelValue::block:unsafe-fn#1", Identity "the handle changes Rust type (ManuallyDrop / raw copy) without touching the count; one handle in the model");
  ("value/mod.rs::NickelValue::inline:unsafe-block#2", LayoutOnly "bit-level encoding (tag bits, inline values, header packing, Layout): not modelled; sampled under Miri / AddressSanitizer");
  ("value/mod.rs::NickelValue::as_inline_unchecked:unsafe-fn#2", LayoutOnly "bit-level encoding (tag bits, inline values, header packing, Layout): not modelled; sampled under Miri / AddressSanitizer");
  ("value/mod.rs::NickelValue::as_inline_unchecked:unsafe-block#2", LayoutOnly "bit-level encoding (tag bits, inline values, header packing, Layout): not modelled; sampled under Miri / AddressSanitizer");
  ("value/mod.rs::NickelValue::raw_copy:unsafe-fn#2", Identity "the handle changes Rust type (ManuallyDrop / raw copy) without touching the count; one handle in the model");
  ("value/mod.rs::NickelValue::block:unsafe-fn#2", Identity "the handle changes Rust type (ManuallyDrop / raw copy) without touching the count; one handle in the model");
  ("value/mod.rs::NickelValue::header:unsafe-fn#1", ByLemma "get_ok" _ get_ok "read of the header through a handle: the block is live while a handle to it exists");
  ("value/mod.rs::NickelValue::header:unsafe-block#1", ByLemma "get_ok" _ get_ok "read of the header through a handle: the block is live while a handle to it exists");
  ("value/mod.rs::NickelValue::as_thunk_data_unchecked:unsafe-fn#1", ByLemma "thunk_data_spec" _ thunk_data_spec "unchecked decode as thunk data; callers hold a Thunk-typed handle");
  ("value/mod.rs::NickelValue::as_thunk_data_unchecked:unsafe-block#1", ByLemma "thunk_data_spec" _ thunk_data_spec "unchecked decode as thunk data; callers hold a Thunk-typed handle");
  ("value/mod.rs::NickelValue::as_thunk:unsafe-block#1", ByLemma "retype_thunk_spec" _ retype_thunk_spec "NickelValue seen as Thunk (repr(transparent)) after a DataTag::Thunk test");
  ("value/mod.rs::NickelValue::as_thunk_unchecked:unsafe-fn#1", ByLemma "retype_thunk_spec" _ retype_thunk_spec "NickelValue seen as Thunk (repr(transparent)) after a DataTag::Thunk test");
  ("value/mod.rs::NickelValue::as_thunk_unchecked:unsafe-block#1", ByLemma "retype_thunk_spec" _ retype_thunk_spec "NickelValue seen as Thunk (repr(transparent)) after a DataTag::Thunk test");
  ("value/mod.rs::NickelValue::as_thunk_mut_unchecked:unsafe-fn#1", ByLemma "retype_thunk_spec" _ retype_thunk_spec "NickelValue seen as Thunk (repr(transparent)) after a DataTag::Thunk test");
  ("value/mod.rs::NickelValue::as_thunk_mut_unchecked:unsafe-block#1", ByLemma "retype_thunk_spec" _ retype_thunk_spec "NickelValue seen as Thunk (repr(transparent)) after a DataTag::Thunk test");
  ("value/mod.rs::NickelValue::into_thunk_unchecked:unsafe-fn#1", ByLemma "retype_thunk_spec" _ retype_thunk_spec "NickelValue seen as Thunk (repr(transparent)) after a DataTag::Thunk test");
  ("value/mod.rs::NickelValue::as_value_data:unsafe-block#1", ByTagTest "decode at the type selected by the DataTag of the header; liveness from get_ok; the tag/type pairing is exercised by harness c18 (content_ref on every render), not proved");
  ("value/mod.rs::NickelValue::content_ref:unsafe-block#1", ByTagTest "decode at the type selected by the DataTag of the header; liveness from get_ok; the tag/type pairing is exercised by harness c18 (content_ref on every render), not proved");
  ("value/mod.rs::NickelValue::content_ref:unsafe-block#2", ByTagTest "decode at the type selected by the DataTag of the header; liveness from get_ok; the tag/type pairing is exercised by harness c18 (content_ref on every render), not proved");
  ("value/mod.rs::NickelValue::content_mut:unsafe-block#1", ByLemma "modify_writes_unique" _ modify_writes_unique "&mut only when the count is 1");
  ("value/mod.rs::NickelValue::content_mut:unsafe-block#2", ByLemma "modify_writes_unique" _ modify_writes_unique "&mut only when the count is 1");
  ("value/mod.rs::NickelValue::content:unsafe-block#1", ByTagTest "decode at the type selected by the DataTag of the header; liveness from get_ok; the tag/type pairing is exercised by harness c18 (content_ref on every render), not proved");
  ("value/mod.rs::NickelValue::content:unsafe-block#2", ByTagTest "decode at the type selected by the DataTag of the header; liveness from get_ok; the tag/type pairing is exercised by harness c18 (content_ref on every render), not proved");
  ("value/mod.rs::NickelValue::content_make_mut/make_mut:unsafe-fn#1", ByLemma "make_unique_spec" _ make_unique_spec "copy-on-write: the &mut is handed out on a block whose count is 1");
  ("value/mod.rs::NickelValue::content_make_mut/make_mut:unsafe-block#1", ByLemma "make_unique_spec" _ make_unique_spec "copy-on-write: the &mut is handed out on a block whose count is 1");
  ("value/mod.rs::NickelValue::content_make_mut:unsafe-block#1", ByLemma "make_unique_spec" _ make_unique_spec "copy-on-write: the &mut is handed out on a block whose count is 1");
  ("value/mod.rs::NickelValue::content_make_mut:unsafe-block#2", ByLemma "make_unique_spec" _ make_unique_spec "copy-on-write: the &mut is handed out on a block whose count is 1");
  ("value/mod.rs::NickelValue::data_tag:unsafe-block#1", ByLemma "get_ok" _ get_ok "read of the header through a handle: the block is live while a handle to it exists");
  ("value/mod.rs::NickelValue::phys_eq:unsafe-block#1", ByLemma "get_ok" _ get_ok "read of the header through a handle: the block is live while a handle to it exists");
  ("value/mod.rs::NickelValue::with_pos_idx:unsafe-block#1", ByLemma "make_unique_spec" _ make_unique_spec "copy-on-write: the &mut is handed out on a block whose count is 1");
  ("value/mod.rs::NickelValue::pos_idx:unsafe-block#1", ByLemma "get_ok" _ get_ok "read of the header through a handle: the block is live while a handle to it exists");
  ("value/mod.rs::Clone for NickelValue::clone:unsafe-block#1", ByLemma "clone1_spec" _ clone1_spec "increment through a live handle; the new handle is accounted for");
  ("value/mod.rs::Clone for NickelValue::clone:unsafe-block#2", ByLemma "clone1_spec" _ clone1_spec "increment through a live handle; the new handle is accounted for");
  ("value/mod.rs::Drop for NickelValue::drop:unsafe-block#1", ByLemma "drop_spec" _ drop_spec "decrement; at zero the payload is dropped exactly once and the block freed once");
  ("value/mod.rs::TryFrom<&'a NickelValue> for InlineValue::try_from:unsafe-block#1", LayoutOnly "bit-level encoding (tag bits, inline values, header packing, Layout): not modelled; sampled under Miri / AddressSanitizer");
  ("value/mod.rs::TryFrom<NickelValue> for ValueBlockRc::try_from:unsafe-block#1", Identity "the handle changes Rust type (ManuallyDrop / raw copy) without touching the count; one handle in the model");
  ("value/mod.rs::From<ValueBlockRc> for NickelValue::from:unsafe-block#1", Identity "the handle changes Rust type (ManuallyDrop / raw copy) without touching the count; one handle in the model");
  ("value/mod.rs::TryFrom<usize> for ValueTag::try_from:unsafe-block#1", LayoutOnly "bit-level encoding (tag bits, inline values, header packing, Layout): not modelled; sampled under Miri / AddressSanitizer");
  ("value/mod.rs::TryFrom<u8> for DataTag::try_from:unsafe-block#1", LayoutOnly "bit-level encoding (tag bits, inline values, header packing, Layout): not modelled; sampled under Miri / AddressSanitizer");
  ("value/mod.rs::ValueBlockHeader::pack:unsafe-fn#1", LayoutOnly "bit-level encoding (tag bits, inline values, header packing, Layout): not modelled; sampled under Miri / AddressSanitizer");
  ("value/mod.rs::ValueBlockHeader::tag:unsafe-block#1", LayoutOnly "bit-level encoding (tag bits, inline values, header packing, Layout): not modelled; sampled under Miri / AddressSanitizer");
  ("value/mod.rs::ValueBlockHeader::new:unsafe-block#1", LayoutOnly "bit-level encoding (tag bits, inline values, header packing, Layout): not modelled; sampled under Miri / AddressSanitizer");
  ("value/mod.rs::ValueBlockHeader::set_ref_count:unsafe-block#1", ByLemma "clone1_spec" _ clone1_spec "increment through a live handle; the new handle is accounted for");
  ("value/mod.rs::ValueBlockHeader::inc_ref_count:unsafe-block#1", ByLemma "clone1_spec" _ clone1_spec "increment through a live handle; the new handle is accounted for");
  ("value/mod.rs::ValueBlockRc::from_raw:unsafe-fn#1", Identity "the handle changes Rust type (ManuallyDrop / raw copy) without touching the count; one handle in the model");
  ("value/mod.rs::ValueBlockRc::header:unsafe-block#1", ByLemma "get_ok" _ get_ok "read of the header through a handle: the block is live while a handle to it exists");
  ("value/mod.rs::ValueBlockRc::header_from_raw:unsafe-fn#1", ByLemma "get_ok" _ get_ok "read of the header through a handle: the block is live while a handle to it exists");
  ("value/mod.rs::ValueBlockRc::header_from_raw:unsafe-block#1", ByLemma "get_ok" _ get_ok "read of the header through a handle: the block is live while a handle to it exists");
  ("value/mod.rs::ValueBlockRc::tag_from_raw:unsafe-fn#1", ByLemma "get_ok" _ get_ok "read of the header through a handle: the block is live while a handle to it exists");
  ("value/mod.rs::ValueBlockRc::tag_from_raw:unsafe-block#1", ByLemma "get_ok" _ get_ok "read of the header through a handle: the block is live while a handle to it exists");
  ("value/mod.rs::ValueBlockRc::try_get_mut:unsafe-block#1", ByLemma "modify_writes_unique" _ modify_writes_unique "&mut only when the count is 1");
  ("value/mod.rs::ValueBlockRc::try_make_mut:unsafe-block#1", ByLemma "make_unique_spec" _ make_unique_spec "copy-on-write: the &mut is handed out on a block whose count is 1");
  ("value/mod.rs::ValueBlockRc::block_layout:unsafe-block#1", LayoutOnly "bit-level encoding (tag bits, inline values, header packing, Layout): not modelled; sampled under Miri / AddressSanitizer");
  ("value/mod.rs::ValueBlockRc::encode:unsafe-block#1", ByLemma "alloc_spec" _ alloc_spec "fresh block, count 1, payload takes ownership; layout arithmetic itself is not modelled");
  ("value/mod.rs::ValueBlockRc::try_decode:unsafe-block#1", ByTagTest "decode at the type selected by the DataTag of the header; liveness from get_ok; the tag/type pairing is exercised by harness c18 (content_ref on every render), not proved");
  ("value/mod.rs::ValueBlockRc::decode_unchecked:unsafe-fn#1", ByTagTest "decode at the type selected by the DataTag of the header; liveness from get_ok; the tag/type pairing is exercised by harness c18 (content_ref on every render), not proved");
  ("value/mod.rs::ValueBlockRc::decode_unchecked:unsafe-block#1", ByTagTest "decode at the type selected by the DataTag of the header; liveness from get_ok; the tag/type pairing is exercised by harness c18 (content_ref on every render), not proved");
  ("value/mod.rs::ValueBlockRc::decode_mut_unchecked:unsafe-fn#1", ByTagTest "decode at the type selected by the DataTag of the header; liveness from get_ok; the tag/type pairing is exercised by harness c18 (content_ref on every render), not proved");
  ("value/mod.rs::ValueBlockRc::decode_mut_unchecked:unsafe-block#1", ByTagTest "decode at the type selected by the DataTag of the header; liveness from get_ok; the tag/type pairing is exercised by harness c18 (content_ref on every render), not proved");
  ("value/mod.rs::ValueBlockRc::decode_from_raw_unchecked:unsafe-fn#1", ByTagTest "decode at the type selected by the DataTag of the header; liveness from get_ok; the tag/type pairing is exercised by harness c18 (content_ref on every render), not proved");
  ("value/mod.rs::ValueBlockRc::decode_from_raw_unchecked:unsafe-block#1", ByTagTest "decode at the type selected by the DataTag of the header; liveness from get_ok; the tag/type pairing is exercised by harness c18 (content_ref on every render), not proved");
  ("value/mod.rs::ValueBlockRc::decode_mut_from_raw_unchecked:unsafe-fn#1", ByTagTest "decode at the type selected by the DataTag of the header; liveness from get_ok; the tag/type pairing is exercised by harness c18 (content_ref on every render), not proved");
  ("value/mod.rs::ValueBlockRc::decode_mut_from_raw_unchecked:unsafe-block#1", ByTagTest "decode at the type selected by the DataTag of the header; liveness from get_ok; the tag/type pairing is exercised by harness c18 (content_ref on every render), not proved");
  ("value/mod.rs::ValueBlockRc::try_decode_from_raw:unsafe-fn#1", ByTagTest "decode at the type selected by the DataTag of the header; liveness from get_ok; the tag/type pairing is exercised by harness c18 (content_ref on every render), not proved");
  ("value/mod.rs::ValueBlockRc::try_decode_from_raw:unsafe-block#1", ByTagTest "decode at the type selected by the DataTag of the header; liveness from get_ok; the tag/type pairing is exercised by harness c18 (content_ref on every render), not proved");
  ("value/mod.rs::ValueBlockRc::drop_slow:unsafe-fn#1", ByLemma "drop_spec" _ drop_spec "decrement; at zero the payload is dropped exactly once and the block freed once");
  ("value/mod.rs::ValueBlockRc::drop_slow:unsafe-block#1", ByLemma "drop_spec" _ drop_spec "decrement; at zero the payload is dropped exactly once and the block freed once");
  ("value/mod.rs::Drop for ValueBlockRc::drop:unsafe-block#1", ByLemma "drop_spec" _ drop_spec "decrement; at zero the payload is dropped exactly once and the block freed once");
  ("value/mod.rs::NickelValue::verif_ref_count:unsafe-block#1", Hook);
  ("value/lens.rs::ValueLens<Container<T>>::container_lens:unsafe-fn#1", ByTagTest "lens constructors are called from NickelValue::content under the matching DataTag / Term arm; exercised by harness c18 (lens take / restore), not proved");
  ("value/lens.rs::ValueLens<T>::content_lens:unsafe-fn#1", ByTagTest "lens constructors are called from NickelValue::content under the matching DataTag / Term arm; exercised by harness c18 (lens take / restore), not proved");
  ("value/lens.rs::ValueLens<T>::with_content:unsafe-block#1", ByLemma "take_or_clone_spec" _ take_or_clone_spec "count 1: payload moved out and block released without destructor; otherwise clone and drop");
  ("value/lens.rs::ValueLens<bool>::bool_lens:unsafe-fn#1", ByTagTest "lens constructors are called from NickelValue::content under the matching DataTag / Term arm; exercised by harness c18 (lens take / restore), not proved");
  ("value/lens.rs::ValueLens<bool>::bool_extractor:unsafe-block#1", ByTagTest "lens constructors are called from NickelValue::content under the matching DataTag / Term arm; exercised by harness c18 (lens take / restore), not proved");
  ("value/lens.rs::ValueLens<Thunk>::thunk_lens:unsafe-fn#1", ByTagTest "lens constructors are called from NickelValue::content under the matching DataTag / Term arm; exercised by harness c18 (lens take / restore), not proved");
  ("value/lens.rs::ValueLens<Thunk>::thunk_extractor:unsafe-block#1", ByLemma "retype_thunk_spec" _ retype_thunk_spec "into_thunk_unchecked on a value whose lens was built under the DataTag::Thunk arm");
  ("value/lens.rs::TermContent::take:unsafe-block#1", ByTagTest "lens constructors are called from NickelValue::content under the matching DataTag / Term arm; exercised by harness c18 (lens take / restore), not proved");
  ("value/lens.rs::ValueLens<$type>::<item>:unsafe-fn#1", ByTagTest "lens constructors are called from NickelValue::content under the matching DataTag / Term arm; exercised by harness c18 (lens take / restore), not proved");
  ("value/lens.rs::ValueLens<Box<$type>>::<item>:unsafe-fn#1", ByTagTest "lens constructors are called from NickelValue::content under the matching DataTag / Term arm; exercised by harness c18 (lens take / restore), not proved")
].

Definition covered (key : string) : bool := existsb (fun e => String.eqb (fst e) key) ledger.

Definition uncovered_sites : list (string * nat) := filter (fun s => negb (covered (fst s))) sites.

(* entries of the ledger that no longer correspond to a site (informative) *)
Definition stale_entries : list string :=
  map fst (filter (fun e => negb (existsb (fun s => String.eqb (fst s) (fst e)) sites)) ledger).

Theorem sites_all_covered : forall key line, In (key, line) sites -> covered key = true.
Proof.
  assert (forallb (fun s => covered (fst s)) sites = true) as H by (vm_compute; reflexivity).
  intros key line HI. rewrite forallb_forall in H. exact (H _ HI).
Qed.

Definition count_by (p : coverage -> bool) : nat := List.length (filter (fun e => p (snd e)) ledger).
Definition n_by_lemma := count_by (fun c => match c with ByLemma _ _ _ _ => true | _ => false end).
Definition n_by_tag_test := count_by (fun c => match c with ByTagTest _ => true | _ => false end).
Definition n_identity := count_by (fun c => match c with Identity _ => true | _ => false end).
Definition n_layout_only := count_by (fun c => match c with LayoutOnly _ => true | _ => false end).
