(* C18 — proofs about the byte-stack model of Mem/Stack.v, against the tables generated from
   core/src/eval/stack.rs (Gen/StackTables.v).

   frames_well_tagged: the marker byte of every item is the marker of the type its bytes were
   written at.  Under it every unchecked pop / read of the modelled functions materialises the top
   item at the type it was written at; `unwind` pops every item at its own type and ends with the
   empty stack.  The facts about the generated tables are established by computation here: if a
   pairing in the source changes, these lemmas stop compiling. *)
From Coq Require Import List Bool Arith String Lia.
Import ListNotations.
From NV Require Import Mem.StackBase Gen.StackTables Mem.Stack.

(* ------------------------------------------------------------------ the generated tables *)

Lemma flags_ok :
  pop_generic_guarded = true /\ pop_unchecked_reads_same_type = true /\
  marker_enum_as_modelled = true /\ unchecked_calls_accounted = true.
Proof. repeat split; reflexivity. Qed.

Lemma marker_of_total : forall k, exists m, marker_of_opt k = Some m.
Proof. destruct k; eexists; reflexivity. Qed.

Lemma marker_of_inj : forall k k' m, marker_of_opt k = Some m -> marker_of_opt k' = Some m -> k = k'.
Proof. destruct k, k'; simpl; intros m H H'; congruence. Qed.

Lemma drop_top_kind_ok : forall k m, marker_of_opt k = Some m -> drop_top_kind_opt m = Some k.
Proof. destruct k; simpl; intros m H; inversion H; reflexivity. Qed.

Lemma item_size_kind_ok : forall k m, marker_of_opt k = Some m -> item_size_kind_opt m = Some k.
Proof. destruct k; simpl; intros m H; inversion H; reflexivity. Qed.

Definition site_entry_ok (e : string * option (marker * ikind) * bool) : Prop :=
  match snd (fst e) with Some (m, T) => marker_of_opt T = Some m | None => False end.

Lemma sites_ok : Forall site_entry_ok guarded_sites.
Proof. unfold guarded_sites. repeat constructor. Qed.

Lemma marker_eqb_eq : forall a b, marker_eqb a b = true -> a = b.
Proof. destruct a, b; simpl; intros; congruence. Qed.
Lemma marker_eqb_refl : forall a, marker_eqb a a = true.
Proof. destruct a; reflexivity. Qed.
Lemma ikind_eqb_refl : forall a, ikind_eqb a a = true.
Proof. destruct a; reflexivity. Qed.

Lemma site_lookup_sound : forall fn m l, Forall site_entry_ok l ->
  site_lookup fn m l <> Unknown /\ (forall T, site_lookup fn m l = Found T -> marker_of_opt T = Some m).
Proof.
  induction l as [|[[f o] r] l IH]; intros H; simpl.
  - split; [discriminate|intros; discriminate].
  - inversion H as [|? ? He Hl]; subst. specialize (IH Hl). destruct IH as [IH1 IH2].
    destruct (String.eqb f fn); [|split; assumption].
    unfold site_entry_ok in He; simpl in He. destruct o as [[m' T']|]; [|contradiction].
    destruct (marker_eqb m m') eqn:Em; [|split; assumption].
    apply marker_eqb_eq in Em. subst m'.
    destruct (site_lookup fn m l) eqn:El; try congruence.
    + split; [discriminate|]. intros T0 HT. inversion HT; subst. assumption.
    + split; [discriminate|]. intros T0 HT. inversion HT; subst. assumption.
Qed.

(* ------------------------------------------------------------------ the invariant *)

Definition item_ok (it : item) : Prop := marker_of_opt (it_kind it) = Some (it_marker it).
Definition frames_well_tagged (st : stack) : Prop := Forall item_ok st.

Definition no_fault {A} (r : sres A) (Q : A -> Prop) : Prop :=
  match r with SOk a => Q a | SErr _ => False | SPanic => False end.

Lemma push_ok : forall k p st, frames_well_tagged st ->
  no_fault (push k p st) (fun st' => frames_well_tagged st' /\ exists m, st' = mkI m k p :: st).
Proof.
  intros k p st W. unfold push. destruct (marker_of_total k) as [m Hm]. rewrite Hm. simpl.
  split; [constructor; [exact Hm|exact W]|eauto].
Qed.

(* the heart: a marker test for T's marker makes the unchecked read at T well-typed *)
Lemma pop_unchecked_ok : forall T it st, frames_well_tagged (it :: st) ->
  marker_of_opt T = Some (it_marker it) ->
  pop_unchecked T (it :: st) = SOk (it_payload it, st) /\ it_kind it = T.
Proof.
  intros T it st W HT. inversion W as [|? ? Hit Wst]; subst. unfold item_ok in Hit.
  assert (it_kind it = T) as E by (eapply marker_of_inj; eauto).
  unfold pop_unchecked, read_unchecked. destruct flags_ok as [_ [F _]]. rewrite F.
  rewrite E, ikind_eqb_refl. simpl. auto.
Qed.

Lemma read_unchecked_ok : forall T it st, frames_well_tagged (it :: st) ->
  marker_of_opt T = Some (it_marker it) -> read_unchecked T (it :: st) = SOk (it_payload it).
Proof.
  intros T it st W HT. inversion W as [|? ? Hit Wst]; subst. unfold item_ok in Hit.
  assert (it_kind it = T) as E by (eapply marker_of_inj; eauto).
  unfold read_unchecked. rewrite E, ikind_eqb_refl. reflexivity.
Qed.

Lemma tail_ok : forall it st, frames_well_tagged (it :: st) -> frames_well_tagged st.
Proof. intros it st W. inversion W; assumption. Qed.

Lemma pop_ok : forall T st, frames_well_tagged st ->
  no_fault (pop T st) (fun r => frames_well_tagged (snd r) /\
     match fst r with
     | Some p => exists it, st = it :: snd r /\ it_kind it = T /\ it_payload it = p
     | None => snd r = st
     end).
Proof.
  intros T [|it st] W; unfold pop; cbn [top_marker]; [simpl; auto|].
  destruct (marker_of_total T) as [mt Hmt]. rewrite Hmt.
  change pop_generic_guarded with true. cbn [andb].
  destruct (marker_eqb (it_marker it) mt) eqn:Em; simpl; [|auto].
  apply marker_eqb_eq in Em. subst mt.
  destruct (pop_unchecked_ok T it st W Hmt) as [Hp Hk]. rewrite Hp. simpl.
  split; [eapply tail_ok; eauto|]. exists it. auto.
Qed.

Lemma drop_top_ok : forall st, frames_well_tagged st ->
  no_fault (drop_top st) (fun st' => frames_well_tagged st' /\ st' = tl st).
Proof.
  intros [|it st] W; unfold drop_top; cbn [top_marker]; [simpl; auto|].
  inversion W as [|? ? Hit Wst]; subst. unfold item_ok in Hit.
  rewrite (drop_top_kind_ok _ _ Hit).
  destruct (pop_unchecked_ok (it_kind it) it st W Hit) as [Hp _]. rewrite Hp. simpl. auto.
Qed.

Lemma pop_at_ok : forall fn st, frames_well_tagged st ->
  no_fault (pop_at fn st) (fun r => frames_well_tagged (snd r) /\ (snd r = st \/ snd r = tl st)).
Proof.
  intros fn [|it st] W; unfold pop_at; cbn [top_marker]; [simpl; auto|].
  destruct (site_lookup_sound fn (it_marker it) guarded_sites sites_ok) as [HU HF].
  destruct (site_lookup fn (it_marker it) guarded_sites) as [T| |] eqn:El; try congruence; [|simpl; auto].
  destruct (pop_unchecked_ok T it st W (HF T eq_refl)) as [Hp _]. rewrite Hp. simpl.
  split; [eapply tail_ok; eauto|auto].
Qed.

Lemma peek_ok : forall st, frames_well_tagged st -> no_fault (peek_sealed_cont st) (fun _ => True).
Proof.
  intros [|it st] W; unfold peek_sealed_cont; cbn [top_marker]; [simpl; auto|].
  destruct (site_lookup_sound "peek_sealed_cont" (it_marker it) guarded_sites sites_ok) as [HU HF].
  destruct (site_lookup "peek_sealed_cont" (it_marker it) guarded_sites) as [T| |] eqn:El; try congruence; [|simpl; auto].
  rewrite (read_unchecked_ok T it st W (HF T eq_refl)). simpl. auto.
Qed.

Lemma clear_eqs_ok : forall fuel st, frames_well_tagged st ->
  no_fault (clear_eqs fuel st) (fun st' => frames_well_tagged st').
Proof.
  induction fuel as [|f IH]; intros st W; simpl; [exact W|].
  pose proof (pop_ok IEq st W) as P. destruct (pop IEq st) as [[o st']| |]; simpl in *; try contradiction.
  destruct P as [W' _]. destruct o; [apply IH; exact W'|exact W'].
Qed.

(* unwind pops every item at the type it was written at and leaves the stack empty *)
Lemma unwind_ok : forall fuel st, frames_well_tagged st -> List.length st <= fuel ->
  no_fault (unwind fuel st) (fun q => snd q = [] /\ snd (fst q) = map it_kind st).
Proof.
  induction fuel as [|f IH]; intros [|it st] W L; cbn [List.length] in L; try lia;
    try (cbn [unwind no_fault fst snd map]; auto; fail).
  cbn [unwind].
  inversion W as [|? ? Hit Wst]; subst. unfold item_ok in Hit.
  destruct (site_lookup_sound "unwind" (it_marker it) guarded_sites sites_ok) as [HU HF].
  destruct (site_lookup "unwind" (it_marker it) guarded_sites) as [T| |] eqn:El; try congruence.
  - destruct (pop_unchecked_ok T it st W (HF T eq_refl)) as [Hp Hk]. rewrite Hp. cbn [sbind fst snd].
    specialize (IH st Wst ltac:(lia)). destruct (unwind f st) as [[[rs ks] st']| |]; cbn [no_fault sbind fst snd] in *; try contradiction.
    destruct IH as [E1 E2]. cbn [map]. rewrite E1, E2, Hk. auto.
  - rewrite (drop_top_kind_ok _ _ Hit).
    pose proof (drop_top_ok (it :: st) W) as D. destruct (drop_top (it :: st)) as [st'| |]; cbn [no_fault sbind] in *; try contradiction.
    destruct D as [_ E]. cbn [tl] in E. subst st'.
    specialize (IH st Wst ltac:(lia)). destruct (unwind f st) as [[[rs ks] st']| |]; cbn [no_fault sbind fst snd] in *; try contradiction.
    destruct IH as [E1 E2]. cbn [map]. rewrite E1, E2. auto.
Qed.

Lemma drop_all_ok : forall fuel st, frames_well_tagged st -> List.length st <= fuel ->
  no_fault (drop_all fuel st) (fun st' => st' = []).
Proof.
  induction fuel as [|f IH]; intros [|it st] W L; cbn [List.length] in L; try lia;
    try (cbn [drop_all no_fault]; auto; fail).
  cbn [drop_all].
  pose proof (drop_top_ok (it :: st) W) as D. destruct (drop_top (it :: st)) as [st'| |]; cbn [no_fault sbind] in *; try contradiction.
  destruct D as [W' E]. cbn [tl] in E. subst st'. apply IH; [exact W'|lia].
Qed.

(* the marker iterator stays on marker bytes *)
Lemma markers_ok : forall st, frames_well_tagged st -> markers st = SOk (map it_marker st).
Proof.
  induction st as [|it st IH]; intros W; simpl; [reflexivity|].
  inversion W as [|? ? Hit Wst]; subst. unfold item_ok in Hit.
  rewrite (item_size_kind_ok _ _ Hit), ikind_eqb_refl, (IH Wst). reflexivity.
Qed.

Lemma sstep_ok : forall n o st, frames_well_tagged st ->
  no_fault (sstep n o st) (fun r => frames_well_tagged (snd r)).
Proof.
  intros n o st W. destruct o; cbn [sstep].
  - pose proof (push_ok k n st W) as P. destruct (push k n st); simpl in *; try contradiction. tauto.
  - pose proof (pop_ok k st W) as P. destruct (pop k st) as [[? ?]| |]; simpl in *; try contradiction. tauto.
  - pose proof (pop_at_ok "pop_arg" st W) as P. unfold pop_arg. destruct (pop_at "pop_arg" st) as [[? ?]| |]; simpl in *; try contradiction. tauto.
  - pose proof (pop_at_ok "pop_arg_as_idx" st W) as P. unfold pop_arg_as_idx. destruct (pop_at "pop_arg_as_idx" st) as [[? ?]| |]; simpl in *; try contradiction. tauto.
  - pose proof (peek_ok st W) as P. destruct (peek_sealed_cont st); simpl in *; try contradiction. exact W.
  - pose proof (clear_eqs_ok (S (List.length st)) st W) as P. destruct (clear_eqs (S (List.length st)) st); simpl in *; try contradiction. exact P.
  - pose proof (unwind_ok (List.length st) st W (le_n _)) as P. destruct (unwind (List.length st) st) as [[[? ?] ?]| |]; simpl in *; try contradiction.
    destruct P as [-> _]. constructor.
  - pose proof (drop_top_ok st W) as P. destruct (drop_top st); simpl in *; try contradiction. tauto.
  - exact W.
  - exact W.
Qed.

(* every script of stack operations, from the empty stack: no type confusion, no read past the
   bottom, the invariant holds at the end *)
Theorem stack_typed : forall ops n st, frames_well_tagged st ->
  no_fault (srun n ops st) (fun r => frames_well_tagged (snd r)).
Proof.
  induction ops as [|o r IH]; intros n st W; simpl; [exact W|].
  pose proof (sstep_ok n o st W) as S. destruct (sstep n o st) as [[c st1]| |]; simpl in *; try contradiction.
  rewrite (markers_ok st1 S). simpl.
  specialize (IH (Datatypes.S n) st1 S). destruct (srun (Datatypes.S n) r st1) as [[tr st2]| |]; simpl in *; try contradiction.
  exact IH.
Qed.

(* non-vacuity: the error state is expressible — an item whose marker byte names another type *)
Example mistagged_item_is_detected :
  drop_top [mkI MArg ITrackedArg 0] = SErr TypeConfusion.
Proof. reflexivity. Qed.

Example script_example :
  match srun 0 [SPush IArg; SPush IUpdateIndex; SPush IOp1Cont; SPeek; SPopArg; SPush IEq; SPush IEq;
                SClearEqs; SUnwind] [] with
  | SOk (tr, st) => st = [] /\ map fst tr = [1; 1; 1; 1; 0; 1; 1; 1; 1]
  | _ => False
  end.
Proof. vm_compute. split; reflexivity. Qed.

(* ------------------------------------------------------------------ the statements of Props/C18.v *)

Theorem stack_typed_from_empty : forall ops,
  no_fault (srun 0 ops []) (fun r => frames_well_tagged (snd r)).
Proof. intros. apply stack_typed. constructor. Qed.

Theorem unwind_typed : forall st, frames_well_tagged st ->
  no_fault (unwind (List.length st) st) (fun q => snd q = [] /\ snd (fst q) = map it_kind st).
Proof. intros. apply unwind_ok; [assumption|apply le_n]. Qed.

Theorem stack_tables_consistent :
  (forall k m, marker_of_opt k = Some m -> drop_top_kind_opt m = Some k /\ item_size_kind_opt m = Some k) /\
  (forall k k' m, marker_of_opt k = Some m -> marker_of_opt k' = Some m -> k = k') /\
  Forall site_entry_ok guarded_sites /\
  pop_generic_guarded = true /\ pop_unchecked_reads_same_type = true /\
  marker_enum_as_modelled = true /\ unchecked_calls_accounted = true.
Proof.
  split; [|split; [exact marker_of_inj|split; [exact sites_ok|exact flags_ok]]].
  intros k m H. split; [apply drop_top_kind_ok|apply item_size_kind_ok]; exact H.
Qed.
