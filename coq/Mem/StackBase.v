(* C18 — the vocabulary of core/src/eval/stack.rs: the Marker enum (repr(u8), in declaration
   order) and the item types that `impl StackItem`.  The pairing between the two is NOT written
   here: it is generated from the source into Gen/StackTables.v. *)
Inductive marker :=
| MEq | MArg | MTrackedArg | MUpdateIndex | MOp1Cont | MOp2FirstCont | MOp2SecondCont | MOpNCont
| MStrChunk | MStrAcc.

Inductive ikind :=
| IEq | IArg | ITrackedArg | IUpdateIndex | IOp1Cont | IOp2FirstCont | IOp2SecondCont | IOpNCont
| IStrChunk | IStrAcc.

Definition marker_eqb (a b : marker) : bool :=
  match a, b with
  | MEq, MEq | MArg, MArg | MTrackedArg, MTrackedArg | MUpdateIndex, MUpdateIndex | MOp1Cont, MOp1Cont
  | MOp2FirstCont, MOp2FirstCont | MOp2SecondCont, MOp2SecondCont | MOpNCont, MOpNCont
  | MStrChunk, MStrChunk | MStrAcc, MStrAcc => true
  | _, _ => false
  end.

Definition ikind_eqb (a b : ikind) : bool :=
  match a, b with
  | IEq, IEq | IArg, IArg | ITrackedArg, ITrackedArg | IUpdateIndex, IUpdateIndex | IOp1Cont, IOp1Cont
  | IOp2FirstCont, IOp2FirstCont | IOp2SecondCont, IOp2SecondCont | IOpNCont, IOpNCont
  | IStrChunk, IStrChunk | IStrAcc, IStrAcc => true
  | _, _ => false
  end.

Definition all_ikinds : list ikind :=
  (IEq :: IArg :: ITrackedArg :: IUpdateIndex :: IOp1Cont :: IOp2FirstCont :: IOp2SecondCont :: IOpNCont
   :: IStrChunk :: IStrAcc :: nil)%list.

Definition all_markers : list marker :=
  (MEq :: MArg :: MTrackedArg :: MUpdateIndex :: MOp1Cont :: MOp2FirstCont :: MOp2SecondCont :: MOpNCont
   :: MStrChunk :: MStrAcc :: nil)%list.

(* discriminant of the repr(u8) enum *)
Definition marker_num (m : marker) : nat :=
  match m with
  | MEq => 0 | MArg => 1 | MTrackedArg => 2 | MUpdateIndex => 3 | MOp1Cont => 4 | MOp2FirstCont => 5
  | MOp2SecondCont => 6 | MOpNCont => 7 | MStrChunk => 8 | MStrAcc => 9
  end.
Definition ikind_num (k : ikind) : nat :=
  match k with
  | IEq => 0 | IArg => 1 | ITrackedArg => 2 | IUpdateIndex => 3 | IOp1Cont => 4 | IOp2FirstCont => 5
  | IOp2SecondCont => 6 | IOpNCont => 7 | IStrChunk => 8 | IStrAcc => 9
  end.
