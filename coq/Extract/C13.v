(* Extraction of the C13 models.  Directives used: ExtrOcamlBasic (bool, option, unit, list, prod
   -> OCaml natives) and nothing else; N, Z, positive, nat stay the extracted inductive types. *)
From Coq Require Import Extraction ExtrOcamlBasic.
From NV Require Import Codec.Escape Codec.Ident Codec.Num Codec.YamlScalar Codec.Loaders Gen.Keywords.
Extraction "c13_model.ml"
  escape print_string next_tok lex_string
  quoting_regex_match print_key lex_key key_of tables_ok
  serialize_int int_token dec_of_Z parse_i64 json_serde_int toml_int
  resolve resolve_plain from_sci nonstring_spelling float_overflow_spelling
  loader_run serde_run
  printer_keywords lexer_reserved grammar_accepted.
