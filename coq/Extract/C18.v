(* Extraction of the C18 models.  Directives used: ExtrOcamlBasic (bool, option, unit, list, prod,
   sumbool -> OCaml natives) and ExtrOcamlNativeString (string -> OCaml string), nothing else; nat, N,
   positive stay the inductive datatypes. *)
From Coq Require Import Extraction ExtrOcamlBasic ExtrOcamlNativeString.
From NV Require Import Mem.Rc Mem.StackBase Mem.Stack.
Extraction "c18_model.ml" step init observe leaked MAX_REF_COUNT srun marker_num.
