(* Extraction of the C18 models.  Directives used: ExtrOcamlBasic (bool, option, unit, list, prod,
   sumbool -> OCaml natives) and nothing else; nat, N, positive stay the inductive datatypes. *)
From Coq Require Import Extraction ExtrOcamlBasic.
From NV Require Import Mem.Rc.
Extraction "c18_model.ml" step init observe leaked MAX_REF_COUNT.
