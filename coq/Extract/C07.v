(* Extraction of the C07 models: the dependency analysis (part A) and the overriding mechanism
   with its specification (part B).  Directives: ExtrOcamlBasic only (bool, option, unit, list,
   prod -> OCaml natives); nat, N, Z, positive stay the Coq inductive types. *)
From Coq Require Import Extraction ExtrOcamlBasic.
From NV Require Import Rec.FreeVars Rec.Lang Rec.Spec Rec.Mech Rec.Nested.
Extraction "c07_fv.ml" all_deps collect.
Extraction "c07_mech.ml" irun ifields ifield cfg_current cfg_fixed with_unknown srun sfield skeys vars inst sinst.
