(* Extraction of the C01 model (evaluator of the typed fragment, derivation checker).  Directives used: ExtrOcamlBasic and
   ExtrOcamlNativeString only; nat, Z, positive and Q stay the inductive datatypes. *)
From Coq Require Import Extraction ExtrOcamlBasic ExtrOcamlNativeString.
From NV Require Import Types.Syntax Types.Sem Types.Decl Types.ModelSig Types.Checker.
Extraction "c01_model.ml" run eval force check_deriv erase model_sig.
