(* Extraction of the C01 model (evaluator of the typed fragment).  Directives used: ExtrOcamlBasic and
   ExtrOcamlNativeString only; nat, Z, positive and Q stay the inductive datatypes. *)
From Coq Require Import Extraction ExtrOcamlBasic ExtrOcamlNativeString.
From NV Require Import Types.Syntax Types.Sem.
Extraction "c01_model.ml" run eval force.
