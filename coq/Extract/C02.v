(* Extraction of the C02 model (contract generation, simplification, first-order boundary).
   Directives: ExtrOcamlBasic, ExtrOcamlNativeString only. *)
From Coq Require Import Extraction ExtrOcamlBasic ExtrOcamlNativeString.
From NV Require Import Contract.Data Contract.Gen Contract.Apply Contract.Checks.
Extraction "c02_model.ml" contract_of contract_static_of static_type simplify subcontract
  check check_pol apply_data member first_order wf_ty wrap_full wrap_static wrap2_full wrap2_static checks negs.
