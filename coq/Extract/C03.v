(* Extraction of the C03 model.  Directives: ExtrOcamlBasic (bool, option, unit, list, prod ->
   OCaml natives) and ExtrOcamlNativeString (string -> OCaml string); Z/positive/nat stay the
   extracted inductive types. *)
From Coq Require Import Extraction ExtrOcamlBasic ExtrOcamlNativeString.
From NV Require Import Contract.Data Contract.Gen Contract.Apply.
Extraction "c03_model.ml" check check_pol member first_order wf_ty wf_dv contract_of.
