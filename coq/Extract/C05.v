(* Extraction of the data-merge algebra (shared by C05, C06, C15). ExtrOcamlBasic only. *)
From Coq Require Import Extraction ExtrOcamlBasic.
From NV Require Import Merge.Algebra Merge.ElabWf.
Extraction "merge_model.ml" elab merge export wf wfE pcmp_src pcmp pnorm.
