(* Extraction of the C09 models (call-by-name specification and call-by-need machine).
   Directives: ExtrOcamlBasic + ExtrOcamlNativeString only; nat, Z, positive stay inductive. *)
From Coq Require Import Extraction ExtrOcamlBasic ExtrOcamlNativeString.
From NV Require Import Lazy.Syntax Lazy.Spec Lazy.Need.
Extraction "c09_model.ml" run extract runN extractN acyclic subst gets check_exportable.
