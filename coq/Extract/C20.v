(* Extraction of the C20 model.  Directives used: ExtrOcamlBasic (bool, option, unit, list, prod,
   sumbool -> OCaml natives) and ExtrOcamlNativeString (string, ascii -> OCaml string, char) and
   nothing else; N / positive stay the extracted inductive types. *)
From Coq Require Import Extraction ExtrOcamlBasic ExtrOcamlNativeString.
From NV Require Import Pkg.Version Pkg.Resolve Pkg.Lock.
Extraction "c20_model.ml"
  ver_compare matches_cur matches_fix satisfies bucket_of_ver bucket_of_req
  valid_solution exists_solution enum_size cand_keys
  index_packages assignment_of_ip index_dep_version known_class
  locked_of reachable_part choose_version
  precise sorted_dependencies lock_new lock_entries package_map all_packages
  up_to_date copy_from_lock.
