(* Extraction of the mechanism-level merge model (C05_mech / C15_mech) together with the algebra it
   refines (the driver prints both, so that the refinement theorem is also exercised on every
   generated case).  ExtrOcamlBasic only. *)
From Coq Require Import Extraction ExtrOcamlBasic.
From NV Require Import Merge.Algebra MergeMech.OrdMap MergeMech.Model MergeMech.Abs.
Extraction "mergemech_model.ml" x_melab x_whnf x_export_json x_export_ordered x_full_ordered
  x_record_fields x_record_values x_record_to_array mwfb abs elab export wf.
