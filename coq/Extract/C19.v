(* Extraction of the C19 model.  Directives used: ExtrOcamlBasic (bool, option, unit, list, prod,
   sumbool -> OCaml natives) and nothing else; nat stays the Peano datatype. *)
From Coq Require Import Extraction ExtrOcamlBasic.
From NV Require Import Lsp.World.
Extraction "c19_model.ml" trace_from run empty_world cfg_code cfg_patched path_of.
