(* Extraction of the C08 model.  Directives: ExtrOcamlBasic and ExtrOcamlNativeString only;
   nat, positive and Z stay the extracted inductive types. *)
From Coq Require Import Extraction ExtrOcamlBasic ExtrOcamlNativeString.
From NV Require Import Delayed.Model Delayed.Spec.
Extraction "c08_model.ml" run run_dom run_stack run_concat program force eval reaches reaches_arg reach_table.
