(* Extraction of the C17 model.  Directives used: ExtrOcamlBasic (bool, option, unit, list, prod,
   sumbool -> OCaml natives) and nothing else; nat stays the Peano datatype. *)
From Coq Require Import Extraction ExtrOcamlBasic.
From NV Require Import Vector.Model Vector.History.
Extraction "c17_model.ml" irun iinit srun sinit check_invariants to_list siter.
