(* Extraction of the C11 sealing model.  Directives: ExtrOcamlBasic + ExtrOcamlNativeString only. *)
From Coq Require Import Extraction ExtrOcamlBasic ExtrOcamlNativeString.
From NV Require Import Seal.Syntax Seal.Eval Seal.Print.
Extraction "c11_model.ml" run_line print_tm print_ty strip cfg_real contract_of.
