(* Extraction of the C16 model.  Directives: ExtrOcamlBasic and ExtrOcamlNativeString only;
   Z, N, positive, Q stay the extracted inductive types (no Extract Constant/Inductive). *)
From Coq Require Import Extraction ExtrOcamlBasic ExtrOcamlNativeString.
From Coq Require Import ZArith QArith.
From NV Require Import Arith.Num Arith.Expr Arith.Eq Arith.EqX Gen.StdNumber.
Extraction "c16_model.ml"
  eval_top std_number_table from_sci
  dv_eqb eq_machine canon export wf enum_free
  xeq_machine norm xwf embed
  Z.add Z.mul Z.opp Z.div_eucl Z.of_N Z.to_N Z.compare Z.pos_div_eucl N.add N.mul Qred.
