(* Extraction of the C12 model.  Directives: ExtrOcamlBasic (bool, option, unit, list, prod ->
   OCaml natives) and ExtrOcamlNativeString (string -> OCaml string); nat and Z stay the Coq
   inductive types. *)
From Coq Require Import Extraction ExtrOcamlBasic ExtrOcamlNativeString.
From NV Require Import Mech.Syntax Mech.Machine Mech.Spec.
Extraction "c12_model.ml" sess_run sess_run_broken sess_step_gen sess_step_satcopy empty_session count_blackholed count_locked
  defs_of spec_run spec_run_full spec_run_query squery top_senv sobs.
