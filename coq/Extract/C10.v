(* Extraction of the C10 models.  Directives: ExtrOcamlBasic + ExtrOcamlNativeString only; Z, N,
   positive, Q and nat stay the extracted inductive types. *)
From Coq Require Import Extraction ExtrOcamlBasic ExtrOcamlNativeString ZArith QArith.
From NV Require Import Crash.Outcome Crash.NumOps Crash.Index Crash.Lexer Crash.Span Crash.Defects Crash.MergeDispatch Crash.TomlFloats.
Extraction "c10_model.ml"
  div_exact mod_exact pow_exact Qred
  substring op_array_slice op_array_at op_array_gen_len find_all_index find_all_index_fixed
  run init next_step
  from_lexical from_lexical_fixed split_spans external_error_span json_error_span toml_error_span
  pretty_print_cap pretty_print_cap_fixed select_value from_doc
  Z.add Z.mul Z.opp Z.div_eucl.
