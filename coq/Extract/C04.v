(* Extraction of the contract-equality model (C04). ExtrOcamlBasic only. *)
From Coq Require Import Extraction ExtrOcamlBasic.
From NV Require Import Merge.CtrEq.
Extraction "ctreq_model.ml" contract_eq combine_dedup ceq.
