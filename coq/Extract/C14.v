(* Extraction of the C14 model.  Directives: ExtrOcamlBasic, ExtrOcamlNativeString, nothing else
   (numbers stay the inductive positive/N/Z of the standard library). *)
From Coq Require Import Extraction ExtrOcamlBasic ExtrOcamlNativeString.
From NV Require Import Surface.Ast Surface.Indent Surface.Print Surface.Parse Surface.Image Surface.Io Gen.OpTable.
Extraction "c14_model.ml"
  Print.print Parse.parse repaired_code pinned_code
  OpTable.binops OpTable.prefixops OpTable.max_level OpTable.primops OpTable.keywords
  OpTable.op_spelling OpTable.infix_ops OpTable.postfix_ops
  q_of_string string_of_q multiline_roundtrips strip_indent min_interpolate_sign parser_image.
