(* The rules of doc/manual/merging.md as lemmas about the algebra (C06), and independence from
   the order in which a record literal lists its fields (C15). *)
From Coq Require Import List ZArith QArith Bool Lia Permutation.
Import ListNotations.
From NV Require Import Merge.Algebra Merge.Sorted Merge.Prio Merge.CsSet Merge.AlgebraProofs.
Close Scope Q_scope.
Open Scope bool_scope.

(* ---- priorities: default below every number, numbers in numeric order, no annotation = 0, force
   above all; this is exactly [MergePriority::cmp] (lemma [pnorm_cmp] in Prio.v). *)
Lemma prio_default_lowest q : pltb PBot (PNum q) = true /\ pltb PBot PTop = true.
Proof. split; reflexivity. Qed.
Lemma prio_force_highest q : pltb (PNum q) PTop = true /\ pltb PBot PTop = true.
Proof. split; reflexivity. Qed.
Lemma prio_numeric a b : pltb (PNum a) (PNum b) = true <-> (a < b)%Q.
Proof. unfold pltb. cbn [pcmp]. rewrite Qlt_alt. destruct (Qcompare a b); split; congruence. Qed.
Lemma prio_neutral_is_zero : pnorm SNeutral = pnorm (SNum 0%Q).
Proof. reflexivity. Qed.

(* ---- value selection on a field defined on both sides *)
Section FieldRules.
Variable md : D -> D -> D.

Lemma rule_higher_left p1 p2 o1 o2 h1 h2 c1 c2 t1 t2 :
  pltb p2 p1 = true ->
  mergeF md (mkF p1 o1 h1 c1 (Some t1)) (mkF p2 o2 h2 c2 (Some t2)) =
  mkF p1 (o1 && o2) (h1 || h2) (cs_union c1 c2) (Some t1).
Proof.
  intros H. cbn [mergeF]. rewrite H.
  assert (E : peqb p1 p2 = false).
  { unfold peqb, pltb in *. rewrite (pcmp_opp p2 p1). destruct (pcmp p2 p1); cbn; congruence. }
  now rewrite E.
Qed.

Lemma rule_higher_right p1 p2 o1 o2 h1 h2 c1 c2 t1 t2 :
  pltb p1 p2 = true ->
  mergeF md (mkF p1 o1 h1 c1 (Some t1)) (mkF p2 o2 h2 c2 (Some t2)) =
  mkF p2 (o1 && o2) (h1 || h2) (cs_union c1 c2) (Some t2).
Proof.
  intros H. cbn [mergeF].
  assert (E : peqb p1 p2 = false) by (unfold peqb, pltb in *; destruct (pcmp p1 p2); congruence).
  assert (E' : pltb p2 p1 = false).
  { unfold pltb in *. rewrite (pcmp_opp p1 p2). destruct (pcmp p1 p2); cbn; congruence. }
  now rewrite E, E'.
Qed.

Lemma rule_equal_recurse p o1 o2 h1 h2 c1 c2 t1 t2 :
  mergeF md (mkF p o1 h1 c1 (Some t1)) (mkF p o2 h2 c2 (Some t2)) =
  mkF p (o1 && o2) (h1 || h2) (cs_union c1 c2) (Some (md t1 t2)).
Proof. cbn [mergeF]. now rewrite peqb_refl. Qed.

Lemma rule_defined_beats_undefined_l p1 p2 o1 o2 h1 h2 c1 c2 t1 :
  mergeF md (mkF p1 o1 h1 c1 (Some t1)) (mkF p2 o2 h2 c2 None) =
  mkF p1 (o1 && o2) (h1 || h2) (cs_union c1 c2) (Some t1).
Proof. reflexivity. Qed.

Lemma rule_defined_beats_undefined_r p1 p2 o1 o2 h1 h2 c1 c2 t2 :
  mergeF md (mkF p1 o1 h1 c1 None) (mkF p2 o2 h2 c2 (Some t2)) =
  mkF p2 (o1 && o2) (h1 || h2) (cs_union c1 c2) (Some t2).
Proof. reflexivity. Qed.

Lemma rule_optional_iff_both f1 f2 : f_opt (mergeF md f1 f2) = f_opt f1 && f_opt f2.
Proof.
  destruct f1 as [p1 o1 h1 c1 [t1|]], f2 as [p2 o2 h2 c2 [t2|]]; cbn [mergeF f_opt];
    repeat match goal with |- context [if ?c then _ else _] => destruct c end; reflexivity.
Qed.

Lemma rule_hidden_if_either f1 f2 : f_hid (mergeF md f1 f2) = f_hid f1 || f_hid f2.
Proof.
  destruct f1 as [p1 o1 h1 c1 [t1|]], f2 as [p2 o2 h2 c2 [t2|]]; cbn [mergeF f_hid];
    repeat match goal with |- context [if ?c then _ else _] => destruct c end; reflexivity.
Qed.

(* every contract attached on either side is attached to the result (C04's spec-level statement) *)
Lemma rule_contracts_accumulate f1 f2 c :
  In c (f_cs (mergeF md f1 f2)) <-> In c (f_cs f1) \/ In c (f_cs f2).
Proof.
  destruct f1 as [p1 o1 h1 c1 [t1|]], f2 as [p2 o2 h2 c2 [t2|]]; cbn [mergeF f_cs];
    repeat match goal with |- context [if ?c then _ else _] => destruct c end; cbn [f_cs];
    apply cs_union_In.
Qed.
End FieldRules.

(* ---- atoms *)
Lemma rule_equal_atoms x : merge (DAtom x) (DAtom x) = DAtom x.
Proof. unfold merge. cbn [mergeD_fuel depth Nat.max]. now rewrite atom_eqb_refl. Qed.

Lemma rule_unequal_atoms x y : x <> y -> merge (DAtom x) (DAtom y) = DTop.
Proof.
  intros H. unfold merge. cbn [mergeD_fuel depth Nat.max].
  destruct (atom_eqb x y) eqn:E; [apply atom_eqb_eq in E; contradiction|reflexivity].
Qed.

Lemma rule_atom_vs_record x fs : merge (DAtom x) (DRec fs) = DTop /\ merge (DRec fs) (DAtom x) = DTop.
Proof. split; reflexivity. Qed.

(* ---- fields present on one side are kept; common fields are merged *)
Lemma rule_record_fields md k l1 l2 :
  ssorted l1 -> ssorted l2 ->
  lookup k (merge_assoc md l1 l2) =
  match lookup k l1, lookup k l2 with
  | Some f1, Some f2 => Some (mergeF md f1 f2)
  | Some f1, None => Some f1
  | None, Some f2 => Some f2
  | None, None => None
  end.
Proof. intros S1 S2. unfold merge_assoc. now rewrite assoc_merge_lookup. Qed.

(* ---- export: hidden fields are skipped, optional fields without a value are skipped, a field
   without a value that is neither optional nor hidden is a missing-definition error, a pending
   conflict that is still there is a non-mergeable error, a contract is checked on the final value *)
Section ExportRules.
Variable sat : cid -> J -> bool.

Definition field_result (n : nat) (f : F) : option res :=
  let '(mkF _ o h cs v) := f in
  if h then None
  else match v with
       | None => if o then None else Some (inr [EMissingDef])
       | Some d =>
           match exportD sat n d with
           | inl j => if forallb (fun c => sat c j) cs then Some (inl j) else Some (inr [EBlame])
           | inr e => Some (inr (match cs with [] => e | _ => add_err EBlame e end))
           end
       end.

Definition combine (k : N) (r : option res) (acc : res) : res :=
  match r, acc with
  | None, _ => acc
  | Some (inl j), inl (JObj js) => inl (JObj ((k, j) :: js))
  | Some (inl _), inl _ => inr [EFuel]
  | Some (inl _), inr er => inr er
  | Some (inr e1), inl _ => inr e1
  | Some (inr e1), inr e2 => inr (union_err e1 e2)
  end.

Lemma export_rec n fs :
  exportD sat (S n) (DRec fs) =
  fold_right (fun kf acc => combine (fst kf) (field_result n (snd kf)) acc) (inl (JObj [])) fs.
Proof.
  cbn [exportD]. induction fs as [|[k [p o h cs v]] t IH]; cbn [fold_right fst snd field_result]; [reflexivity|].
  rewrite <- IH. destruct h; [reflexivity|]. destruct v as [d|].
  - destruct (exportD sat n d); [destruct (forallb _ cs)|]; reflexivity.
  - destruct o; reflexivity.
Qed.

Lemma export_top n : exportD sat n DTop = inr conflict_errs.
Proof. destruct n; reflexivity. Qed.

Lemma export_atom n a : exportD sat n (DAtom a) = inl (JAtom a).
Proof. destruct n; reflexivity. Qed.
End ExportRules.

(* ---- C15: the order in which a record literal lists its (distinct) fields is irrelevant *)
Lemma insert_field_comm k1 f1 k2 f2 l :
  k1 <> k2 -> insert_field k1 f1 (insert_field k2 f2 l) = insert_field k2 f2 (insert_field k1 f1 l).
Proof.
  intros Hne. induction l as [|[k f] t IH]; cbn [insert_field].
  - destruct (N.compare_spec k1 k2), (N.compare_spec k2 k1); subst; try lia; try contradiction; reflexivity.
  - destruct (N.compare_spec k2 k), (N.compare_spec k1 k); subst; cbn [insert_field];
      repeat match goal with
             | |- context [N.compare ?a ?b] => destruct (N.compare_spec a b); subst; cbn [insert_field]
             end; try lia; try contradiction; try reflexivity.
    now rewrite IH.
Qed.

Definition field_step (acc : list (N * F)) (x : N * sprio * bool * bool * list cid * option expr) :=
  let '(k, p, o, h, cs, v) := x in
  insert_field k (mkF (match v with None => PNum 0%Q | Some _ => pnorm p end) o h (cs_norm cs)
                      (option_map elab v)) acc.

Definition fkey (x : N * sprio * bool * bool * list cid * option expr) : N :=
  let '(k, _, _, _, _, _) := x in k.

Lemma elab_rec fs : elab (ERec fs) = DRec (fold_left field_step fs []).
Proof. reflexivity. Qed.

Lemma field_step_comm acc x y : fkey x <> fkey y ->
  field_step (field_step acc x) y = field_step (field_step acc y) x.
Proof.
  destruct x as [[[[[k1 p1] o1] h1] c1] v1], y as [[[[[k2 p2] o2] h2] c2] v2]. cbn [fkey field_step].
  intros H. apply insert_field_comm. congruence.
Qed.

Lemma fold_field_step_perm fs fs' : Permutation fs fs' -> NoDup (map fkey fs) ->
  forall acc, fold_left field_step fs acc = fold_left field_step fs' acc.
Proof.
  induction 1 as [|x l l' Hp IH|x y l|l l' l'' Hp1 IH1 Hp2 IH2]; intros Hnd acc.
  - reflexivity.
  - cbn [fold_left]. apply IH. cbn [map] in Hnd. now inversion Hnd.
  - cbn [fold_left]. f_equal. apply field_step_comm.
    cbn [map] in Hnd. inversion Hnd as [|? ? Hnin _]. intros E. apply Hnin. rewrite E. now left.
  - rewrite IH1 by assumption. apply IH2.
    apply (Permutation_NoDup (Permutation_map fkey Hp1)). assumption.
Qed.

Theorem elab_perm fs fs' : Permutation fs fs' -> NoDup (map fkey fs) ->
  elab (ERec fs) = elab (ERec fs').
Proof. intros Hp Hnd. rewrite !elab_rec. f_equal. now apply fold_field_step_perm. Qed.
