(* Soundness of the contract-equality model: when [ceq] (with the length checks) answers [true],
   the two contracts have structurally equal unfoldings (records compared as maps, contract lists
   element by element AND of the same length).  Without the length checks (the code before commit
   0d21c82) this is false: [ceq_nolen_refuted]. *)
From Coq Require Import List Arith NArith Bool Lia.
Import ListNotations.
From NV Require Import Merge.CtrEq.
Open Scope bool_scope.

Inductive opt_rel {X} (R : X -> X -> Prop) : option X -> option X -> Prop :=
| or_none : opt_rel R None None
| or_some x y : R x y -> opt_rel R (Some x) (Some y).

Inductive ueq : ut -> ut -> Prop :=
| q_null : ueq UNull UNull
| q_bool b : ueq (UBool b) (UBool b)
| q_tag t : ueq (UTag t) (UTag t)
| q_variant t a b : ueq a b -> ueq (UVariant t a) (UVariant t b)
| q_key k : ueq (UKey k) (UKey k)
| q_str s : ueq (UStr s) (UStr s)
| q_free x : ueq (UFree x) (UFree x)
| q_rec f1 f2 o :
    length f1 = length f2 ->
    (forall k x, In (k, x) f1 -> exists y, klookup k f2 = Some y /\ ufeq x y) ->
    ueq (URec f1 o) (URec f2 o)
| q_arr l1 l2 : Forall2 ueq l1 l2 -> ueq (UArr l1) (UArr l2)
| q_type a b : uteq a b -> ueq (UType a) (UType b)
| q_app f g a b : ueq f g -> ueq a b -> ueq (UApp f a) (UApp g b)
| q_access i a b : ueq a b -> ueq (UAccess i a) (UAccess i b)
| q_opaque i : ueq (UOpaque i) (UOpaque i)
with ufeq : ufield -> ufield -> Prop :=
| q_field p1 p2 a1 a2 o h q v1 v2 :
    Forall2 ueq p1 p2 -> Forall2 uteq a1 a2 -> opt_rel ueq v1 v2 ->
    ufeq (mkUF p1 a1 o h q v1) (mkUF p2 a2 o h q v2)
with uteq : uty -> uty -> Prop :=
| q_tdyn : uteq UTyDyn UTyDyn | q_tnum : uteq UTyNum UTyNum | q_tbool : uteq UTyBool UTyBool
| q_tstr : uteq UTyStr UTyStr | q_tsym : uteq UTySym UTySym
| q_tarr a b : uteq a b -> uteq (UTyArr a) (UTyArr b)
| q_tdict f a b : uteq a b -> uteq (UTyDict f a) (UTyDict f b)
| q_tarrow a b c d : uteq a c -> uteq b d -> uteq (UTyArrow a b) (UTyArrow c d)
| q_trec r1 r2 :
    length r1 = length r2 ->
    (forall k x, In (k, x) r1 -> exists y, klookup k r2 = Some y /\ uteq x y) ->
    uteq (UTyRec r1) (UTyRec r2)
| q_tenum r1 r2 :
    length r1 = length r2 ->
    (forall k x, In (k, x) r1 -> exists y, klookup k r2 = Some y /\ opt_rel uteq x y) ->
    uteq (UTyEnum r1) (UTyEnum r2)
| q_tcontract a b : ueq a b -> uteq (UTyContract a) (UTyContract b).

(* ---- list helpers *)
Lemma mapM_length {X Y} (f : X -> option Y) l u : mapM f l = Some u -> length u = length l.
Proof.
  revert u. induction l as [|a t IH]; cbn [mapM]; intros u H.
  - injection H as <-. reflexivity.
  - destruct (f a); [|discriminate]. destruct (mapM f t); [|discriminate]. injection H as <-.
    cbn. f_equal. now apply IH.
Qed.

Lemma zipall_all2 {X} (f : X -> X -> bool) l1 : forall l2, length l1 = length l2 -> zipall f l1 l2 = all2 f l1 l2.
Proof.
  induction l1 as [|a t IH]; intros [|b u] H; try discriminate; cbn; [reflexivity|].
  rewrite IH; [reflexivity|]. cbn in H. lia.
Qed.

Lemma all2_mapM {X Y} (f : X -> X -> bool) (g1 g2 : X -> option Y) (R : Y -> Y -> Prop) l1 :
  forall l2 u1 u2,
  (forall a b, In a l1 -> In b l2 -> f a b = true -> forall x y, g1 a = Some x -> g2 b = Some y -> R x y) ->
  all2 f l1 l2 = true -> mapM g1 l1 = Some u1 -> mapM g2 l2 = Some u2 -> Forall2 R u1 u2.
Proof.
  induction l1 as [|a t IH]; intros [|b u] u1 u2 H A M1 M2; cbn [all2] in A; try discriminate.
  - cbn in M1, M2. injection M1 as <-. injection M2 as <-. constructor.
  - cbn [mapM] in M1, M2. rewrite andb_true_iff in A. destruct A as [Ah At].
    destruct (g1 a) eqn:G1; [|discriminate]. destruct (mapM g1 t) eqn:T1; [|discriminate].
    destruct (g2 b) eqn:G2; [|discriminate]. destruct (mapM g2 u) eqn:T2; [|discriminate].
    injection M1 as <-. injection M2 as <-. constructor.
    + apply (H a b); auto; now left.
    + apply (IH u); auto. intros a' b' Ha Hb. apply H; now right.
Qed.

Lemma klookup_mapM {V W} (g : V -> option W) (m : list (N * V)) u k v :
  mapM (fun kf => option_map (pair (fst kf)) (g (snd kf))) m = Some u ->
  klookup k m = Some v -> exists w, g v = Some w /\ klookup k u = Some w.
Proof.
  revert u. induction m as [|[k' v'] t IH]; cbn [mapM klookup fst snd]; intros u M L; [discriminate|].
  destruct (g v') eqn:G; cbn [option_map] in M; [|discriminate].
  destruct (mapM _ t) eqn:T; [|discriminate]. injection M as <-. cbn [klookup].
  destruct (N.eqb k k').
  - injection L as <-. eauto.
  - now apply IH.
Qed.

Lemma In_mapM {V W} (g : V -> option W) (m : list (N * V)) u k x :
  mapM (fun kf => option_map (pair (fst kf)) (g (snd kf))) m = Some u ->
  In (k, x) u -> exists v, In (k, v) m /\ g v = Some x.
Proof.
  revert u. induction m as [|[k' v'] t IH]; cbn [mapM fst snd]; intros u M I.
  - injection M as <-. contradiction.
  - destruct (g v') eqn:G; cbn [option_map] in M; [|discriminate].
    destruct (mapM _ t) eqn:T; [|discriminate]. injection M as <-.
    destruct I as [E|I].
    + injection E as -> ->. exists v'. split; [now left|assumption].
    + destruct (IH _ eq_refl I) as [v [Hin Hg]]. exists v. split; [now right|assumption].
Qed.

Lemma forallb_In' {X} (f : X -> bool) l x : forallb f l = true -> In x l -> f x = true.
Proof. rewrite forallb_forall. auto. Qed.

Lemma klookup_In {V} k (v : V) m : klookup k m = Some v -> In (k, v) m.
Proof.
  induction m as [|[k' v'] t IH]; cbn [klookup]; [discriminate|].
  destruct (N.eqb_spec k k') as [->|]; intros H; [injection H as ->; now left|right; auto].
Qed.

(* generic map case *)
Lemma map_eq_sound {V W} (f : V -> V -> bool) (g1 g2 : V -> option W) (R : W -> W -> Prop) m1 m2 u1 u2 :
  (forall a b, f a b = true -> forall x y, g1 a = Some x -> g2 b = Some y -> R x y) ->
  map_eq f m1 m2 = true ->
  mapM (fun kf => option_map (pair (fst kf)) (g1 (snd kf))) m1 = Some u1 ->
  mapM (fun kf => option_map (pair (fst kf)) (g2 (snd kf))) m2 = Some u2 ->
  length u1 = length u2 /\
  (forall k x, In (k, x) u1 -> exists y, klookup k u2 = Some y /\ R x y).
Proof.
  intros H E M1 M2. unfold map_eq in E. rewrite andb_true_iff, Nat.eqb_eq in E. destruct E as [El Ef].
  split.
  - rewrite (mapM_length _ _ _ M1), (mapM_length _ _ _ M2). assumption.
  - intros k x I. destruct (In_mapM _ _ _ _ _ M1 I) as [v [Hin Hg]].
    pose proof (forallb_In' _ _ _ Ef Hin) as Hf. cbn [fst snd] in Hf.
    destruct (klookup k m2) as [v2|] eqn:L; [|discriminate].
    destruct (klookup_mapM _ _ _ _ _ M2 L) as [w [Hw Lw]].
    exists w. split; [assumption|]. eapply H; eassumption.
Qed.

(* ---- the soundness theorem *)
Definition sound_at (n : nat) : Prop :=
  (forall gas t1 e1 t2 e2, ceq true n gas t1 e1 t2 e2 = true ->
     forall m1 m2 u1 u2, unf m1 e1 t1 = Some u1 -> unf m2 e2 t2 = Some u2 -> ueq u1 u2) /\
  (forall gas f1 e1 f2 e2, feq true n gas f1 e1 f2 e2 = true ->
     forall m1 m2 u1 u2, unff m1 e1 f1 = Some u1 -> unff m2 e2 f2 = Some u2 -> ufeq u1 u2) /\
  (forall gas t1 e1 t2 e2, tyeq true n gas t1 e1 t2 e2 = true ->
     forall m1 m2 u1 u2, unft m1 e1 t1 = Some u1 -> unft m2 e2 t2 = Some u2 -> uteq u1 u2).

Ltac inv_some :=
  repeat match goal with
         | H : option_map _ ?x = Some _ |- _ => destruct x eqn:?; cbn [option_map] in H; [|discriminate]
         | H : Some _ = Some _ |- _ => injection H as <-
         | H : None = Some _ |- _ => discriminate
         end.

Lemma sound_all n : sound_at n.
Proof.
  induction n as [|n [IHc [IHf IHt]]].
  - repeat split; intros; discriminate.
  - repeat split.
    + (* ceq *)
      intros gas t1 e1 t2 e2 E m1 m2 u1 u2 U1 U2.
      destruct m1 as [|m1]; [discriminate|]. destruct m2 as [|m2]; [discriminate|].
      destruct t1, t2; cbn [ceq] in E; try discriminate.
      (* a variable on one side only, or on both sides *)
      all: lazymatch type of E with
           | match ?G with 0 => false | S _ => match elookup ?x ?e with _ => _ end end = true =>
               tryif constr_eq e e1 then
                 (destruct G as [|g]; [discriminate|];
                  destruct (elookup x e1) as [[ca cea]|] eqn:L; [|discriminate];
                  cbn [unf] in U1; rewrite L in U1;
                  exact (IHc g ca cea _ e2 E m1 (S m2) u1 u2 U1 U2))
               else
                 (destruct G as [|g]; [discriminate|];
                  destruct (elookup x e2) as [[cb ceb]|] eqn:L; [|discriminate];
                  cbn [unf] in U2; rewrite L in U2;
                  exact (IHc g _ e1 cb ceb E (S m1) m2 u1 u2 U1 U2))
           | match elookup ?x ?e with _ => _ end = true =>
               cbn [unf] in U1, U2;
               destruct (elookup x e1) as [[ca cea]|] eqn:L1;
               match type of E with
               | context [elookup ?y ?e'] => destruct (elookup y e') as [[cb ceb]|] eqn:L2
               end; try discriminate;
               [ match type of E with
                 | match ?G with 0 => false | S _ => _ end = true => destruct G as [|g]; [discriminate|]
                 end; exact (IHc g ca cea cb ceb E m1 m2 u1 u2 U1 U2)
               | apply N.eqb_eq in E; subst; inv_some; constructor ]
           | _ => cbn [unf] in U1, U2
           end.
      all: try solve [inv_some; constructor].
      all: try solve [apply eqb_prop in E; subst; inv_some; constructor].
      all: try solve [apply N.eqb_eq in E; subst; inv_some; constructor].
      all: try solve [rewrite andb_true_iff, N.eqb_eq in E; destruct E as [-> E]; inv_some; constructor; eapply IHc; eassumption].
      all: try solve [inv_some; constructor; eapply IHt; eassumption].
      * (* records *)
        rewrite andb_true_iff in E. destruct E as [E Eo]. apply eqb_prop in Eo. subst.
        inv_some.
        match goal with
        | M1 : mapM _ fs = Some ?l1, M2 : mapM _ fs0 = Some ?l2 |- _ =>
            destruct (map_eq_sound _ (unff m1 e1) (unff m2 e2) ufeq _ _ _ _
                        (fun a b H x y => IHf gas a e1 b e2 H m1 m2 x y) E M1 M2) as [Hl Hk]
        end.
        constructor; assumption.
      * (* arrays *)
        inv_some. constructor.
        eapply (all2_mapM _ (unf m1 e1) (unf m2 e2)); [|exact E|eassumption|eassumption].
        intros a b _ _ H x y X Y. cbv beta in H. exact (IHc _ _ _ _ _ H _ _ _ _ X Y).
      * (* application *)
        rewrite andb_true_iff in E. destruct E as [Ef Ea].
        destruct (unf m1 e1 t1_1) eqn:A1; [|discriminate]. destruct (unf m1 e1 t1_2) eqn:A2; [|discriminate].
        destruct (unf m2 e2 t2_1) eqn:B1; [|discriminate]. destruct (unf m2 e2 t2_2) eqn:B2; [|discriminate].
        inv_some. apply q_app; [exact (IHc _ _ _ _ _ Ef _ _ _ _ A1 B1)|exact (IHc _ _ _ _ _ Ea _ _ _ _ A2 B2)].
    + (* feq *)
      intros gas f1 e1 f2 e2 E m1 m2 u1 u2 U1 U2.
      destruct m1 as [|m1]; [discriminate|]. destruct m2 as [|m2]; [discriminate|].
      destruct f1 as [p1 a1 o1 h1 q1 v1], f2 as [p2 a2 o2 h2 q2 v2]. cbn [feq unff] in *.
      rewrite !andb_true_iff in E. destruct E as [[[Ep Ea] [[Eo Eh] Eq]] Ev].
      apply eqb_prop in Eo, Eh. apply N.eqb_eq in Eq. subst.
      unfold list_cmp in Ep, Ea. rewrite andb_true_iff, Nat.eqb_eq in Ep, Ea.
      destruct Ep as [Lp Zp], Ea as [La Za].
      rewrite zipall_all2 in Zp by assumption. rewrite zipall_all2 in Za by assumption.
      destruct (mapM (unf m1 e1) p1) eqn:P1; [|discriminate]. destruct (mapM (unft m1 e1) a1) eqn:A1; [|discriminate].
      destruct (mapM (unf m2 e2) p2) eqn:P2; [|discriminate]. destruct (mapM (unft m2 e2) a2) eqn:A2; [|discriminate].
      destruct v1 as [x1|], v2 as [x2|]; try discriminate.
      * destruct (unf m1 e1 x1) eqn:X1; cbn [option_map] in U1; [|discriminate].
        destruct (unf m2 e2 x2) eqn:X2; cbn [option_map] in U2; [|discriminate].
        inv_some. constructor.
        -- eapply (all2_mapM _ (unf m1 e1) (unf m2 e2)); [|exact Zp|eassumption|eassumption].
           intros a b _ _ H x y X Y. cbv beta in H. exact (IHc _ _ _ _ _ H _ _ _ _ X Y).
        -- eapply (all2_mapM _ (unft m1 e1) (unft m2 e2)); [|exact Za|eassumption|eassumption].
           intros a b _ _ H x y X Y. cbv beta in H. exact (IHt _ _ _ _ _ H _ _ _ _ X Y).
        -- constructor. eapply IHc; eassumption.
      * inv_some. constructor.
        -- eapply (all2_mapM _ (unf m1 e1) (unf m2 e2)); [|exact Zp|eassumption|eassumption].
           intros a b _ _ H x y X Y. cbv beta in H. exact (IHc _ _ _ _ _ H _ _ _ _ X Y).
        -- eapply (all2_mapM _ (unft m1 e1) (unft m2 e2)); [|exact Za|eassumption|eassumption].
           intros a b _ _ H x y X Y. cbv beta in H. exact (IHt _ _ _ _ _ H _ _ _ _ X Y).
        -- constructor.
    + (* tyeq *)
      intros gas t1 e1 t2 e2 E m1 m2 u1 u2 U1 U2.
      destruct m1 as [|m1]; [discriminate|]. destruct m2 as [|m2]; [discriminate|].
      destruct t1, t2; cbn [tyeq] in E; try discriminate; cbn [unft] in U1, U2.
      all: try solve [inv_some; constructor].
      * inv_some. constructor. eapply IHt; eassumption.
      * rewrite andb_true_iff in E. destruct E as [Ef E]. apply eqb_prop in Ef. subst.
        inv_some. constructor. eapply IHt; eassumption.
      * rewrite andb_true_iff in E. destruct E as [Ea Eb].
        destruct (unft m1 e1 t1_1) eqn:A1; [|discriminate]. destruct (unft m1 e1 t1_2) eqn:A2; [|discriminate].
        destruct (unft m2 e2 t2_1) eqn:B1; [|discriminate]. destruct (unft m2 e2 t2_2) eqn:B2; [|discriminate].
        inv_some. apply q_tarrow; [exact (IHt _ _ _ _ _ Ea _ _ _ _ A1 B1)|exact (IHt _ _ _ _ _ Eb _ _ _ _ A2 B2)].
      * inv_some.
        match goal with
        | M1 : mapM _ rows = Some ?l1, M2 : mapM _ rows0 = Some ?l2 |- _ =>
            destruct (map_eq_sound _ (unft m1 e1) (unft m2 e2) uteq _ _ _ _
                        (fun a b H x y => IHt gas a e1 b e2 H m1 m2 x y) E M1 M2) as [Hl Hk]
        end.
        constructor; assumption.
      * inv_some.
        assert (HE : forall a b : option kty,
                   match a, b with
                   | Some x0, Some y0 => tyeq true n gas x0 e1 y0 e2
                   | None, None => true
                   | _, _ => false
                   end = true ->
                   forall x y,
                     match a with Some ty => option_map Some (unft m1 e1 ty) | None => Some None end = Some x ->
                     match b with Some ty => option_map Some (unft m2 e2 ty) | None => Some None end = Some y ->
                     opt_rel uteq x y).
        { intros [a0|] [b0|] H x y X Y; try discriminate.
          - destruct (unft m1 e1 a0) eqn:A; [|discriminate]. destruct (unft m2 e2 b0) eqn:B; [|discriminate].
            cbn in X, Y. injection X as <-. injection Y as <-. constructor.
            exact (IHt _ _ _ _ _ H _ _ _ _ A B).
          - injection X as <-. injection Y as <-. constructor. }
        match goal with
        | M1 : mapM _ rows = Some ?l1, M2 : mapM _ rows0 = Some ?l2 |- _ =>
            destruct (map_eq_sound _ _ _ (opt_rel uteq) _ _ _ _ HE E M1 M2) as [Hl Hk]
        end.
        constructor; assumption.
      * inv_some. constructor. eapply IHc; eassumption.
Qed.

Theorem ceq_sound n gas t1 e1 t2 e2 :
  ceq true n gas t1 e1 t2 e2 = true ->
  forall m1 m2 u1 u2, unf m1 e1 t1 = Some u1 -> unf m2 e2 t2 = Some u2 -> ueq u1 u2.
Proof. exact (proj1 (sound_all n) gas t1 e1 t2 e2). Qed.

Theorem contract_eq_sound n t1 e1 t2 e2 :
  contract_eq n t1 e1 t2 e2 = true ->
  forall m1 m2 u1 u2, unf m1 e1 t1 = Some u1 -> unf m2 e2 t2 = Some u2 -> ueq u1 u2.
Proof. unfold contract_eq. apply ceq_sound. Qed.

(* deduplication keeps every contract of the first list, and drops a contract of the second list
   only when the first list holds one with an equal unfolding *)
Theorem combine_dedup_sound n c1 e1 c2 e2 :
  (forall a, In a c1 -> In a (combine_dedup n c1 e1 c2 e2)) /\
  (forall b, In b c2 -> In b (combine_dedup n c1 e1 c2 e2) \/
                        exists a, In a c1 /\
                          forall m1 m2 u1 u2, unf m1 e1 a = Some u1 -> unf m2 e2 b = Some u2 -> ueq u1 u2).
Proof.
  unfold combine_dedup. split.
  - intros a H. apply in_or_app. now left.
  - intros b H. destruct (existsb (fun a => contract_eq n a e1 b e2) c1) eqn:E.
    + right. apply existsb_exists in E. destruct E as [a [Ha Ea]]. exists a. split; [assumption|].
      now apply contract_eq_sound with (n := n).
    + left. apply in_or_app. right. apply filter_In. split; [assumption|]. now rewrite E.
Qed.

(* ---- the version without the length checks (the code before commit 0d21c82) is unsound:
   {foo | C1} and {foo | C1 | C2} are declared equal *)
Definition wit1 : ct := KRec [(0%N, mkKF [KOpaque 1] [] false false 0 None)] false.
Definition wit2 : ct := KRec [(0%N, mkKF [KOpaque 1; KOpaque 2] [] false false 0 None)] false.

Lemma ceq_nolen_refuted :
  ceq false 5 12 wit1 [] wit2 [] = true /\
  exists u1 u2, unf 5 [] wit1 = Some u1 /\ unf 5 [] wit2 = Some u2 /\ ~ ueq u1 u2.
Proof.
  split; [reflexivity|]. eexists. eexists. split; [reflexivity|]. split; [reflexivity|].
  intros H. inversion H as [| | | | | | |f1 f2 o Hl Hk| | | | |]; subst.
  destruct (Hk 0%N _ (or_introl eq_refl)) as [y [Hy Hf]]. cbn in Hy. injection Hy as <-.
  inversion Hf as [p1 p2 a1 a2 o' h q v1 v2 Hp Ha Hv]; subst.
  inversion Hp as [|x y' l l' Hx Hl']; subst. inversion Hl'.
Qed.

(* with the length checks the same pair is rejected *)
Lemma ceq_len_rejects : ceq true 5 12 wit1 [] wit2 [] = false.
Proof. reflexivity. Qed.

(* non-vacuity of the soundness theorem: aliases through environments (with shadowing) are equated *)
Example ceq_alias_example :
  let eA : env := [(7%N, Clo (KOpaque 3) [])] in
  let e1 : env := [(1%N, Clo (KVar 7) eA)] in                      (* let Nat = <def 3> in let A = Nat *)
  let e2 : env := [(2%N, Clo (KVar 1) e1); (7%N, Clo (KOpaque 9) [])] in (* B = A, with an unrelated shadowing Nat *)
  contract_eq 10 (KVar 1) e1 (KVar 2) e2 = true /\ contract_eq 10 (KVar 7) eA (KVar 7) e2 = false.
Proof. split; reflexivity. Qed.
