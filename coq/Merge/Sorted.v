(* Strictly sorted association lists keyed by N: lookup, extensionality, and the lookup
   characterisation of [assoc_merge]. *)
From Coq Require Import List NArith Bool Lia.
Import ListNotations.
From NV Require Import Merge.Algebra.

Section Assoc.
Context {V : Type}.

Fixpoint lookup (k : N) (l : list (N * V)) : option V :=
  match l with
  | [] => None
  | (k', v) :: t => if N.eqb k k' then Some v else lookup k t
  end.

Fixpoint ssorted (l : list (N * V)) : Prop :=
  match l with
  | [] => True
  | (k1, _) :: t => (forall k v, In (k, v) t -> (k1 < k)%N) /\ ssorted t
  end.

Lemma lookup_In k v l : lookup k l = Some v -> In (k, v) l.
Proof.
  induction l as [|[k' v'] t IH]; cbn [lookup]; [discriminate|].
  destruct (N.eqb_spec k k') as [->|Hne]; intros H.
  - injection H as ->. now left.
  - right. auto.
Qed.

Lemma In_lookup k v l : ssorted l -> In (k, v) l -> lookup k l = Some v.
Proof.
  induction l as [|[k' v'] t IH]; cbn [lookup ssorted]; [contradiction|].
  intros [Hlt Hs] [Heq|Hin].
  - injection Heq as -> ->. now rewrite N.eqb_refl.
  - destruct (N.eqb_spec k k') as [->|Hne].
    + specialize (Hlt _ _ Hin). lia.
    + auto.
Qed.

Lemma lookup_lt_none k l :
  ssorted l -> (forall k' v, In (k', v) l -> (k < k')%N) -> lookup k l = None.
Proof.
  induction l as [|[k' v'] t IH]; cbn [lookup ssorted]; [reflexivity|].
  intros [Hlt Hs] Hall.
  destruct (N.eqb_spec k k') as [->|Hne].
  - specialize (Hall k' v' (or_introl eq_refl)). lia.
  - apply IH; [assumption|]. intros k2 v2 Hin. apply (Hall k2 v2). now right.
Qed.

Lemma ssorted_ext l1 l2 :
  ssorted l1 -> ssorted l2 -> (forall k, lookup k l1 = lookup k l2) -> l1 = l2.
Proof.
  revert l2. induction l1 as [|[k1 v1] t1 IH]; intros [|[k2 v2] t2] H1 H2 Hext.
  - reflexivity.
  - specialize (Hext k2). cbn [lookup] in Hext. rewrite N.eqb_refl in Hext. discriminate.
  - specialize (Hext k1). cbn [lookup] in Hext. rewrite N.eqb_refl in Hext. discriminate.
  - cbn [ssorted] in H1, H2. destruct H1 as [Hlt1 Hs1], H2 as [Hlt2 Hs2].
    assert (Hk : k1 = k2).
    { destruct (N.lt_trichotomy k1 k2) as [Hlt|[Heq|Hgt]]; [|assumption|].
      - pose proof (Hext k1) as He. cbn [lookup] in He. rewrite N.eqb_refl in He.
        destruct (N.eqb_spec k1 k2) as [?|Hne]; [assumption|].
        symmetry in He. apply lookup_In in He. specialize (Hlt2 _ _ He). lia.
      - pose proof (Hext k2) as He. cbn [lookup] in He. rewrite N.eqb_refl in He.
        destruct (N.eqb_spec k2 k1) as [?|Hne]; [congruence|].
        apply lookup_In in He. specialize (Hlt1 _ _ He). lia. }
    subst k2.
    assert (Hv : v1 = v2).
    { specialize (Hext k1). cbn [lookup] in Hext. rewrite N.eqb_refl in Hext. congruence. }
    subst v2. f_equal. apply IH; [assumption|assumption|].
    intros k. specialize (Hext k). cbn [lookup] in Hext.
    destruct (N.eqb_spec k k1) as [Heq|Hne]; [|assumption].
    rewrite Heq.
    rewrite (lookup_lt_none k1 t1), (lookup_lt_none k1 t2); auto.
Qed.

(* ---- assoc_merge *)
Variable mf : V -> V -> V.

Definition opt_merge (a b : option V) : option V :=
  match a, b with
  | Some x, Some y => Some (mf x y)
  | Some x, None => Some x
  | None, Some y => Some y
  | None, None => None
  end.

Lemma assoc_merge_nil_r l : assoc_merge mf l [] = l.
Proof. destruct l as [|[k v] t]; reflexivity. Qed.

Lemma assoc_merge_In l1 : forall l2 k v,
  In (k, v) (assoc_merge mf l1 l2) -> (exists v1, In (k, v1) l1) \/ (exists v2, In (k, v2) l2).
Proof.
  induction l1 as [|[k1 v1] t1 IH1]; intros l2.
  - intros k v H. right. destruct l2; cbn in H; [contradiction|eauto].
  - induction l2 as [|[k2 v2] t2 IH2]; intros k v H.
    + left. eauto.
    + cbn [assoc_merge] in H. destruct (N.compare k1 k2) eqn:Hc.
      * apply N.compare_eq in Hc. subst k2. destruct H as [H|H].
        -- injection H as <- _. left. exists v1. now left.
        -- apply IH1 in H. destruct H as [[x Hx]|[x Hx]]; [left|right]; exists x; now right.
      * destruct H as [H|H].
        -- injection H as <- _. left. exists v1. now left.
        -- apply IH1 in H. destruct H as [[x Hx]|[x Hx]]; [left; exists x; now right|right; eauto].
      * destruct H as [H|H].
        -- injection H as <- _. right. exists v2. now left.
        -- apply IH2 in H. destruct H as [[x Hx]|[x Hx]]; [left; eauto|right; exists x; now right].
Qed.

Lemma assoc_merge_sorted l1 : forall l2,
  ssorted l1 -> ssorted l2 -> ssorted (assoc_merge mf l1 l2).
Proof.
  induction l1 as [|[k1 v1] t1 IH1]; intros l2 H1 H2.
  - destruct l2; exact H2.
  - induction l2 as [|[k2 v2] t2 IH2].
    + exact H1.
    + cbn [assoc_merge]. cbn [ssorted] in H1, H2.
      destruct H1 as [Hlt1 Hs1], H2 as [Hlt2 Hs2].
      destruct (N.compare k1 k2) eqn:Hc.
      * apply N.compare_eq in Hc. subst k2. cbn [ssorted]. split; [|now apply IH1].
        intros k v Hin. apply assoc_merge_In in Hin.
        destruct Hin as [[x Hx]|[x Hx]]; eauto.
      * pose proof (proj1 (N.compare_lt_iff _ _) Hc) as Hc'. cbn [ssorted]. split.
        -- intros k v Hin. apply assoc_merge_In in Hin.
           destruct Hin as [[x Hx]|[x Hx]]; [eauto|].
           destruct Hx as [Hx|Hx]; [injection Hx as <- _; assumption|].
           specialize (Hlt2 _ _ Hx). lia.
        -- apply IH1; [assumption|]. cbn [ssorted]. now split.
      * pose proof (proj1 (N.compare_gt_iff _ _) Hc) as Hc'. cbn [ssorted]. split.
        -- intros k v Hin.
           change (In (k, v) (assoc_merge mf ((k1, v1) :: t1) t2)) in Hin.
           apply assoc_merge_In in Hin.
           destruct Hin as [[x Hx]|[x Hx]]; [|eauto].
           destruct Hx as [Hx|Hx]; [injection Hx as <- _; assumption|].
           specialize (Hlt1 _ _ Hx). lia.
        -- apply IH2. assumption.
Qed.

Lemma assoc_merge_lookup l1 : forall l2 k,
  ssorted l1 -> ssorted l2 ->
  lookup k (assoc_merge mf l1 l2) = opt_merge (lookup k l1) (lookup k l2).
Proof.
  induction l1 as [|[k1 v1] t1 IH1]; intros l2 k H1 H2.
  - destruct l2 as [|[k2 v2] t2]; cbn [assoc_merge lookup opt_merge]; [reflexivity|].
    destruct (N.eqb k k2); [reflexivity|]. destruct (lookup k t2); reflexivity.
  - induction l2 as [|[k2 v2] t2 IH2].
    + cbn [assoc_merge lookup opt_merge]. destruct (N.eqb k k1); [reflexivity|].
      destruct (lookup k t1); reflexivity.
    + cbn [assoc_merge]. cbn [ssorted] in H1, H2.
      destruct H1 as [Hlt1 Hs1], H2 as [Hlt2 Hs2].
      destruct (N.compare k1 k2) eqn:Hc.
      * apply N.compare_eq in Hc. subst k2. cbn [lookup].
        destruct (N.eqb_spec k k1) as [->|Hne]; [reflexivity|]. now apply IH1.
      * pose proof (proj1 (N.compare_lt_iff _ _) Hc) as Hc'. cbn [lookup].
        destruct (N.eqb_spec k k1) as [->|Hne].
        -- destruct (N.eqb_spec k1 k2) as [?|_]; [lia|].
           rewrite (lookup_lt_none k1 t2); [reflexivity|assumption|].
           intros k' v' Hin. specialize (Hlt2 _ _ Hin). lia.
        -- rewrite IH1; [reflexivity|assumption|]. cbn [ssorted]. now split.
      * pose proof (proj1 (N.compare_gt_iff _ _) Hc) as Hc'.
        change (lookup k ((k2, v2) :: assoc_merge mf ((k1, v1) :: t1) t2) =
                opt_merge (lookup k ((k1, v1) :: t1)) (lookup k ((k2, v2) :: t2))).
        cbn [lookup].
        destruct (N.eqb_spec k k2) as [->|Hne].
        -- destruct (N.eqb_spec k2 k1) as [?|_]; [lia|].
           rewrite (lookup_lt_none k2 t1); [reflexivity|assumption|].
           intros k' v' Hin. specialize (Hlt1 _ _ Hin). lia.
        -- rewrite IH2 by assumption. cbn [lookup]. reflexivity.
Qed.

End Assoc.

(* bridge with the boolean [sorted_keys] of the model *)
Lemma sorted_keys_ssorted (l : list (N * F)) : sorted_keys l = true <-> ssorted l.
Proof.
  induction l as [|[k1 f1] t IH]; cbn [sorted_keys ssorted]; [tauto|].
  destruct t as [|[k2 f2] t'].
  - split; [intros _; split; [intros ? ? []|exact I]|reflexivity].
  - rewrite andb_true_iff, IH, N.ltb_lt. split.
    + intros [Hlt Hs]. split; [|assumption].
      intros k v [Heq|Hin]; [injection Heq as <- _; assumption|].
      cbn [ssorted] in Hs. destruct Hs as [Hall _]. specialize (Hall _ _ Hin). lia.
    + intros [Hall Hs]. split; [|assumption]. apply (Hall k2 f2). now left.
Qed.

(* ---- algebraic laws of [assoc_merge], lifted from the value-merge function on the values that
   actually occur (predicate [P]) *)
Section Laws.
Context {V : Type}.
Variable mf : V -> V -> V.
Variable P : V -> Prop.

Definition allP (l : list (N * V)) : Prop := forall k v, In (k, v) l -> P v.

Lemma lookup_P l k v : allP l -> lookup k l = Some v -> P v.
Proof. intros H E. apply lookup_In in E. eauto. Qed.

Lemma assoc_merge_allP l1 l2 :
  ssorted l1 -> ssorted l2 -> allP l1 -> allP l2 ->
  (forall x y, P x -> P y -> P (mf x y)) -> allP (assoc_merge mf l1 l2).
Proof.
  intros S1 S2 A1 A2 Hc k v Hin.
  apply In_lookup in Hin; [|now apply assoc_merge_sorted].
  rewrite assoc_merge_lookup in Hin by assumption.
  destruct (lookup k l1) as [x|] eqn:E1, (lookup k l2) as [y|] eqn:E2; cbn [opt_merge] in Hin;
    try discriminate; injection Hin as <-.
  - apply Hc; [exact (lookup_P _ _ _ A1 E1)|exact (lookup_P _ _ _ A2 E2)].
  - exact (lookup_P _ _ _ A1 E1).
  - exact (lookup_P _ _ _ A2 E2).
Qed.

Lemma assoc_merge_comm l1 l2 :
  ssorted l1 -> ssorted l2 -> allP l1 -> allP l2 ->
  (forall x y, P x -> P y -> mf x y = mf y x) ->
  assoc_merge mf l1 l2 = assoc_merge mf l2 l1.
Proof.
  intros S1 S2 A1 A2 Hc. apply ssorted_ext; try (apply assoc_merge_sorted; assumption).
  intros k. rewrite !assoc_merge_lookup by assumption.
  destruct (lookup k l1) as [x|] eqn:E1, (lookup k l2) as [y|] eqn:E2; cbn [opt_merge]; try reflexivity.
  f_equal. apply Hc; [exact (lookup_P _ _ _ A1 E1)|exact (lookup_P _ _ _ A2 E2)].
Qed.

Lemma assoc_merge_assoc l1 l2 l3 :
  ssorted l1 -> ssorted l2 -> ssorted l3 -> allP l1 -> allP l2 -> allP l3 ->
  (forall x y z, P x -> P y -> P z -> mf (mf x y) z = mf x (mf y z)) ->
  assoc_merge mf (assoc_merge mf l1 l2) l3 = assoc_merge mf l1 (assoc_merge mf l2 l3).
Proof.
  intros S1 S2 S3 A1 A2 A3 Ha.
  apply ssorted_ext; repeat (apply assoc_merge_sorted; try assumption).
  intros k. rewrite !assoc_merge_lookup; repeat (apply assoc_merge_sorted; try assumption); try assumption.
  destruct (lookup k l1) as [x|] eqn:E1, (lookup k l2) as [y|] eqn:E2, (lookup k l3) as [z|] eqn:E3;
    cbn [opt_merge]; try reflexivity.
  f_equal. apply Ha; [exact (lookup_P _ _ _ A1 E1)|exact (lookup_P _ _ _ A2 E2)|exact (lookup_P _ _ _ A3 E3)].
Qed.

Lemma assoc_merge_idem l :
  ssorted l -> allP l -> (forall x, P x -> mf x x = x) -> assoc_merge mf l l = l.
Proof.
  intros S A Hi. apply ssorted_ext; [now apply assoc_merge_sorted|assumption|].
  intros k. rewrite assoc_merge_lookup by assumption.
  destruct (lookup k l) as [x|] eqn:E; cbn [opt_merge]; [|reflexivity].
  f_equal. apply Hi. exact (lookup_P _ _ _ A E).
Qed.

(* two value-merge functions that agree on the occurring values give the same merge *)
End Laws.

Lemma assoc_merge_ext {V} (mf mg : V -> V -> V) (P : V -> Prop) l1 l2 :
  ssorted l1 -> ssorted l2 -> allP P l1 -> allP P l2 ->
  (forall x y, P x -> P y -> mf x y = mg x y) ->
  assoc_merge mf l1 l2 = assoc_merge mg l1 l2.
Proof.
  intros S1 S2 A1 A2 He. apply ssorted_ext; try (apply assoc_merge_sorted; assumption).
  intros k. rewrite !assoc_merge_lookup by assumption.
  destruct (lookup k l1) as [x|] eqn:E1, (lookup k l2) as [y|] eqn:E2; cbn [opt_merge]; try reflexivity.
  f_equal. apply He; [exact (lookup_P P _ _ _ A1 E1)|exact (lookup_P P _ _ _ A2 E2)].
Qed.
