(* Every source expression of the generators' shape elaborates to a well-formed tree: the
   hypothesis [wf] of the laws is discharged once and for all for [elab]. *)
From Coq Require Import List ZArith QArith Bool Lia.
Import ListNotations.
From NV Require Import Merge.Algebra Merge.Sorted Merge.Prio Merge.CsSet Merge.AlgebraProofs Merge.Rules.
Close Scope Q_scope.
Open Scope bool_scope.

(* ---- the syntactic side condition: arrays (and what is below them) hold plain data *)
Fixpoint nodupb (l : list N) : bool :=
  match l with
  | [] => true
  | a :: t => negb (existsb (N.eqb a) t) && nodupb t
  end.

Fixpoint plainE (e : expr) : bool :=
  match e with
  | EAtom _ => true
  | EVar _ a => plainE a
  | EArr es => forallb plainE es
  | ERec fs =>
      nodupb (map fkey fs) &&
      forallb (fun x => let '(_, p, o, h, cs, v) := x in
                        match p, o, h, cs, v with
                        | SNeutral, false, false, [], Some a => plainE a
                        | _, _, _, _, _ => false
                        end) fs
  | EMerge _ _ => false
  end.

Fixpoint wfE (e : expr) : bool :=
  match e with
  | EAtom _ => true
  | EVar _ a => wfE a
  | EArr es => forallb plainE es
  | ERec fs => forallb (fun x => let '(_, _, _, _, _, v) := x in
                                 match v with Some a => wfE a | None => true end) fs
  | EMerge a b => wfE a && wfE b
  end.

(* ---- Prop view of [wf] on records *)
Definition WFf (f : F) : Prop :=
  pwf (f_prio f) = true /\ csorted (f_cs f) /\
  match f_val f with Some v => wf v = true | None => f_prio f = PNum (0 # 1) end.

Lemma wf_rec_iff fs : wf (DRec fs) = true <-> ssorted fs /\ allP WFf fs.
Proof.
  split.
  - intros H. unfold wf in H. cbn [depth] in H. apply wfD_rec in H. destruct H as [Hs A]. split; [assumption|].
    intros k f Hin. destruct (A _ _ Hin) as [Hp [Hc Hv]]. repeat split; try assumption.
    destruct (f_val f) as [v|]; [|assumption]. eapply wfD_wf. eassumption.
  - intros [Hs A]. unfold wf. cbn [depth]. apply wfD_rec. split; [assumption|].
    intros k f Hin. destruct (A _ _ Hin) as [Hp [Hc Hv]]. repeat split; try assumption.
    destruct f as [p o h cs [v|]]; cbn [f_val f_prio] in *; [|assumption].
    apply wf_wfD; [assumption|].
    pose proof (fold_max_le (fun kf : N * F => match snd kf with mkF _ _ _ _ (Some v) => depth v | _ => 0 end) fs _ Hin) as Hm.
    cbn [snd] in Hm. lia.
Qed.

Lemma WFf_mergeF f g : WFf f -> WFf g -> WFf (mergeF merge f g).
Proof.
  destruct f as [p o h cs v], g as [p' o' h' cs' v']. unfold WFf. cbn [f_prio f_cs f_val mergeF].
  intros [Hp [Hc Hv]] [Hp' [Hc' Hv']].
  destruct v as [t|], v' as [t'|];
    repeat match goal with |- context [if ?c then _ else _] => destruct c end;
    cbn [f_prio f_cs f_val]; repeat split; auto using cs_union_sorted.
  now apply merge_wf.
Qed.

Lemma insert_field_In k f l k' f' :
  In (k', f') (insert_field k f l) ->
  (k' = k /\ (f' = f \/ exists g, In (k, g) l /\ f' = mergeF merge g f)) \/ In (k', f') l.
Proof.
  induction l as [|[k0 f0] t IH]; cbn [insert_field].
  - intros [E|[]]. injection E as <- <-. left. auto.
  - destruct (N.compare_spec k k0) as [->|Hlt|Hgt]; cbn [In].
    + intros [E|H]; [injection E as <- <-; left; split; [reflexivity|]; right; exists f0; split; [now left|reflexivity]|right; now right].
    + intros [E|H]; [injection E as <- <-; left; auto|right; assumption].
    + intros [E|H]; [right; now left|].
      destruct (IH H) as [[-> [->|[g [Hg ->]]]]|Hin].
      * left. auto.
      * left. split; [reflexivity|]. right. exists g. split; [now right|reflexivity].
      * right. now right.
Qed.

Lemma insert_field_sorted k f l : ssorted l -> ssorted (insert_field k f l).
Proof.
  induction l as [|[k0 f0] t IH]; cbn [insert_field ssorted]; intros H.
  - split; [intros ? ? []|exact I].
  - destruct H as [Hlt Hs]. destruct (N.compare_spec k k0) as [->|Hl|Hg]; cbn [ssorted].
    + split; assumption.
    + split; [|split; assumption]. intros k' v' [E|Hin]; [injection E as <- _; assumption|].
      specialize (Hlt _ _ Hin). lia.
    + split; [|now apply IH]. intros k' v' Hin. apply insert_field_In in Hin.
      destruct Hin as [[-> _]|Hin]; [assumption|eauto].
Qed.

Lemma insert_field_allP k f l : WFf f -> allP WFf l -> allP WFf (insert_field k f l).
Proof.
  intros Hf Hl k' f' Hin. apply insert_field_In in Hin.
  destruct Hin as [[-> [->|[g [Hg ->]]]]|Hin]; [assumption| |eauto].
  apply WFf_mergeF; [eauto|assumption].
Qed.

(* ---- plain data *)
Lemma plainD_wfD n : forall d, plainD n d = true -> wfD n d = true.
Proof.
  induction n as [|n IH]; intros d H.
  - destruct d; try discriminate. reflexivity.
  - destruct d as [a|t x|es| |fs]; cbn [plainD] in H; try discriminate; cbn [wfD]; auto.
    rewrite andb_true_iff in *. destruct H as [Hs Hf]. split; [assumption|].
    revert Hf. apply forallb_impl. intros [k f] _ P. cbn [snd] in *.
    apply plainF_inv in P. destruct P as [v [-> Pv]]. cbn [f_prio f_cs f_val pwf cs_sorted].
    rewrite (IH _ Pv). reflexivity.
Qed.

Definition plainT (d : D) : Prop := exists n, plainD n d = true.

Lemma plainT_wf d : plainT d -> wf d = true.
Proof. intros [n H]. eapply wfD_wf. apply plainD_wfD. eassumption. Qed.

Lemma plain_lift n m d : plainD n d = true -> plainD (Nat.max n m) d = true.
Proof. apply plainD_mono. lia. Qed.

Lemma plainT_list l : Forall plainT l -> exists n, forallb (plainD n) l = true.
Proof.
  induction 1 as [|d t [n Hd] _ [m Hm]]; [exists 0; reflexivity|].
  exists (Nat.max n m). cbn [forallb]. rewrite (plain_lift n m d Hd). cbn.
  revert Hm. apply forallb_impl. intros x _ Hx. rewrite Nat.max_comm. now apply plain_lift.
Qed.

(* inserting a fresh key into a plain record keeps it plain *)
Definition plain_fields (n : nat) (l : list (N * F)) : Prop :=
  ssorted l /\ forall k f, In (k, f) l -> plainF (plainD n) f = true.

Lemma insert_fresh_plain n k v l :
  plain_fields n l -> (forall f, ~ In (k, f) l) -> plainD n v = true ->
  plain_fields n (insert_field k (mkF (PNum 0%Q) false false [] (Some v)) l).
Proof.
  intros [Hs P] Hfresh Hv. split; [now apply insert_field_sorted|].
  intros k' f' Hin. apply insert_field_In in Hin.
  destruct Hin as [[-> [->|[g [Hg _]]]]|Hin].
  - cbn [plainF]. now rewrite Hv.
  - exfalso. eapply Hfresh. eassumption.
  - eauto.
Qed.

Lemma plain_fields_mono n m l : n <= m -> plain_fields n l -> plain_fields m l.
Proof.
  intros Hle [Hs P]. split; [assumption|]. intros k f Hin. specialize (P _ _ Hin).
  apply plainF_inv in P. destruct P as [v [-> Pv]]. cbn [plainF]. now rewrite (plainD_mono n m v Hle Pv).
Qed.

Lemma plain_fields_rec n l : plain_fields n l -> plainD (S n) (DRec l) = true.
Proof.
  intros [Hs P]. cbn [plainD]. rewrite andb_true_iff. split; [now apply sorted_keys_ssorted|].
  apply forallb_forall. intros [k f] Hin. cbn [snd]. eauto.
Qed.

(* ---- induction on the size of expressions (the type nests lists and options) *)
Fixpoint esize (e : expr) : nat :=
  match e with
  | EAtom _ => 1
  | EVar _ a => S (esize a)
  | EArr es => S (fold_right (fun x n => esize x + n) 0 es)
  | ERec fs => S (fold_right (fun x n => (let '(_, _, _, _, _, v) := x in match v with Some a => esize a | None => 0 end) + n) 0 fs)
  | EMerge a b => S (esize a + esize b)
  end.

Lemma esize_arr_In es x : In x es -> esize x < esize (EArr es).
Proof.
  cbn [esize]. induction es as [|a t IH]; [contradiction|]. cbn [fold_right]. intros [->|H]; [lia|]. specialize (IH H). lia.
Qed.

Lemma esize_rec_In fs k p o h cs a : In (k, p, o, h, cs, Some a) fs -> esize a < esize (ERec fs).
Proof.
  cbn [esize]. induction fs as [|x t IH]; [contradiction|]. cbn [fold_right]. intros [->|H]; [lia|]. specialize (IH H). lia.
Qed.

Lemma nodupb_notin k l : nodupb (k :: l) = true -> ~ In k l /\ nodupb l = true.
Proof.
  cbn [nodupb]. rewrite andb_true_iff, negb_true_iff. intros [H1 H2]. split; [|assumption].
  intros Hin. assert (existsb (N.eqb k) l = true) by (apply existsb_exists; exists k; split; [assumption|apply N.eqb_refl]). congruence.
Qed.

Lemma plainE_plainT : forall n e, esize e <= n -> plainE e = true -> plainT (elab e).
Proof.
  induction n as [|n IH]; intros e Hs H; [destruct e; cbn in Hs; lia|].
  destruct e as [a|t a|es|fs|a b]; cbn [plainE] in H; try discriminate.
  - exists 0. reflexivity.
  - cbn [esize] in Hs. destruct (IH a ltac:(lia) H) as [m Hm]. exists (S m). exact Hm.
  - assert (Hall : Forall plainT (map elab es)).
    { apply Forall_forall. intros d Hd. apply in_map_iff in Hd. destruct Hd as [x [<- Hx]].
      apply (IH x); [pose proof (esize_arr_In es x Hx); lia|]. rewrite forallb_forall in H. auto. }
    destruct (plainT_list _ Hall) as [m Hm]. exists (S m). exact Hm.
  - rewrite andb_true_iff in H. destruct H as [Hnd Hf]. rewrite elab_rec.
    (* fold from the left with an accumulator that stays a plain record over the keys seen so far *)
    assert (G : forall l acc m, (forall x, In x l -> In x fs) -> nodupb (map fkey l) = true ->
                  plain_fields m acc -> (forall x f, In x l -> ~ In (fkey x, f) acc) ->
                  exists m', plain_fields m' (fold_left field_step l acc)).
    { induction l as [|x l IHl]; intros acc m Hsub Hn Hacc Hfresh; [exists m; exact Hacc|].
      cbn [fold_left]. cbn [map] in Hn. apply nodupb_notin in Hn. destruct Hn as [Hnin Hn].
      assert (Hx : In x fs) by (apply Hsub; now left).
      pose proof (forallb_In _ _ _ Hf Hx) as Px.
      destruct x as [[[[[k p] o] h] cs] v]. destruct p; try discriminate. destruct o; try discriminate.
      destruct h; try discriminate. destruct cs; try discriminate. destruct v as [a|]; try discriminate.
      destruct (IH a ltac:(pose proof (esize_rec_In fs _ _ _ _ _ a Hx); lia) Px) as [ma Hma].
      cbn [field_step option_map pnorm cs_norm fold_right].
      eapply (IHl _ (Nat.max m ma)).
      - intros y Hy. apply Hsub. now right.
      - exact Hn.
      - apply insert_fresh_plain.
        + apply (plain_fields_mono m); [lia|assumption].
        + intros f. apply (Hfresh _ f (or_introl eq_refl)).
        + rewrite Nat.max_comm. now apply plain_lift.
      - intros y f Hy Hin. apply insert_field_In in Hin. destruct Hin as [[Hk _]|Hin].
        + apply Hnin. cbn [fkey]. cbn [fkey] in Hk. rewrite <- Hk. exact (in_map fkey l y Hy).
        + eapply Hfresh; [right; exact Hy|exact Hin]. }
    assert (P0 : plain_fields 0 (@nil (N * F))) by (split; [exact I|intros ? ? []]).
    destruct (G fs [] 0 (fun _ h => h) Hnd P0 (fun _ _ _ F => F)) as [m Hm].
    exists (S m). now apply plain_fields_rec.
Qed.

Theorem elab_wf : forall e, wfE e = true -> wf (elab e) = true.
Proof.
  intros e. remember (esize e) as n eqn:En. assert (Hs : esize e <= n) by lia. clear En.
  revert e Hs. induction n as [|n IH]; intros e Hs H; [destruct e; cbn in Hs; lia|].
  destruct e as [a|t a|es|fs|a b]; cbn [wfE] in H.
  - reflexivity.
  - cbn [esize] in Hs. specialize (IH a ltac:(lia) H). unfold wf in *. cbn [elab depth wfD]. exact IH.
  - assert (Hall : Forall plainT (map elab es)).
    { apply Forall_forall. intros d Hd. apply in_map_iff in Hd. destruct Hd as [x [<- Hx]].
      apply (plainE_plainT (esize x)); [lia|]. rewrite forallb_forall in H. auto. }
    destruct (plainT_list _ Hall) as [m Hm]. apply (wfD_wf _ (S m)). exact Hm.
  - rewrite elab_rec.
    assert (G : forall l acc, (forall x, In x l -> In x fs) -> ssorted acc -> allP WFf acc ->
                  ssorted (fold_left field_step l acc) /\ allP WFf (fold_left field_step l acc)).
    { induction l as [|x l IHl]; intros acc Hsub Sa Aa; [split; assumption|].
      cbn [fold_left]. assert (Hx : In x fs) by (apply Hsub; now left).
      pose proof (forallb_In _ _ _ H Hx) as Px.
      destruct x as [[[[[k p] o] h] cs] v]. cbn [field_step].
      apply IHl.
      - intros y Hy. apply Hsub. now right.
      - now apply insert_field_sorted.
      - apply insert_field_allP; [|assumption]. unfold WFf. cbn [f_prio f_cs f_val].
        destruct v as [a|]; cbn [option_map].
        + split; [apply pnorm_wf|split; [apply cs_norm_sorted|]].
          apply IH; [pose proof (esize_rec_In fs _ _ _ _ _ a Hx); lia|exact Px].
        + split; [reflexivity|split; [apply cs_norm_sorted|reflexivity]]. }
    apply wf_rec_iff. apply (G fs []); [auto|exact I|intros ? ? []].
  - rewrite andb_true_iff in H. destruct H as [Ha Hb]. cbn [esize] in Hs. cbn [elab].
    apply merge_wf; apply IH; (lia || assumption).
Qed.

(* the laws on source expressions, with no well-formedness hypothesis left *)
Corollary elab_merge_comm a b : wfE a = true -> wfE b = true ->
  elab (EMerge a b) = elab (EMerge b a).
Proof. intros Ha Hb. cbn [elab]. apply merge_comm; now apply elab_wf. Qed.

Corollary elab_merge_assoc a b c : wfE a = true -> wfE b = true -> wfE c = true ->
  elab (EMerge (EMerge a b) c) = elab (EMerge a (EMerge b c)).
Proof. intros Ha Hb Hc. cbn [elab]. apply merge_assoc_law; now apply elab_wf. Qed.

Corollary elab_merge_idem a : wfE a = true -> elab (EMerge a a) = elab a.
Proof. intros Ha. cbn [elab]. apply merge_idem. now apply elab_wf. Qed.
