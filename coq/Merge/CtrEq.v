(* Model of core/src/eval/contract_eq.rs: the contract equality used to deduplicate the contracts
   attached to a field when records are merged.

   Terms are the shapes the Rust code looks at; everything it refuses to compare structurally (a
   function, a let, a primop application, ...) is [KOpaque id]: such terms are only ever equal
   "physically", i.e. when both sides reach the same definition ([id] is the identity of the
   definition site).  A contract that refers to a field of its own recursive record (a revertible
   thunk with dependencies: its original expression has free variables that are not bound in its
   original environment) is also [KOpaque] with an id of its own: since fix 8bd83bf the code never
   compares such thunks structurally (before, it looked the field name up in the OUTER environment
   and could equate it with an unrelated binding of the same name).  An environment maps variables
   to closures.  [gas] bounds the number of
   variable links followed (MAX_GAS = 12); in the Rust code the gas counter is shared by the whole
   comparison, here it is per path (the model answers [true] at least as often as the code; the
   soundness theorem below therefore covers the code's answers).  [n] is structural fuel. *)
From Coq Require Import List NArith Bool Lia.
Import ListNotations.
Open Scope bool_scope.

Inductive ct : Type :=
| KNull
| KBool (b : bool)
| KTag (t : N)
| KVariant (t : N) (a : ct)
| KKey (k : N)                                   (* sealing key *)
| KStr (s : N)                                   (* plain string literal *)
| KVar (x : N)
| KRec (fs : list (N * kfield)) (open : bool)    (* record value or RecRecord term *)
| KArr (es : list ct)                            (* array without pending contracts *)
| KType (t : kty)
| KApp (f a : ct)
| KAccess (f : N) (e : ct)
| KOpaque (id : N)
with kfield : Type :=
| mkKF (pend : list ct) (annots : list kty) (opt hid : bool) (prio : N) (value : option ct)
with kty : Type :=
| TyDyn | TyNum | TyBool | TyStr | TySym
| TyArr (t : kty)
| TyDict (flav : bool) (t : kty)
| TyArrow (a b : kty)
| TyRec (rows : list (N * kty))                  (* closed rows only; anything else: TyOther *)
| TyEnum (rows : list (N * option kty))
| TyContract (c : ct)
| TyOther (id : N).                              (* foralls, open rows, ...: never equal *)

Inductive clo : Type := Clo (t : ct) (e : list (N * clo)).
Definition env := list (N * clo).

Fixpoint elookup (x : N) (e : env) : option clo :=
  match e with
  | [] => None
  | (y, c) :: t => if N.eqb x y then Some c else elookup x t
  end.

Fixpoint klookup {V} (x : N) (l : list (N * V)) : option V :=
  match l with
  | [] => None
  | (y, c) :: t => if N.eqb x y then Some c else klookup x t
  end.

Fixpoint all2 {X} (f : X -> X -> bool) (l1 l2 : list X) : bool :=
  match l1, l2 with
  | [], [] => true
  | a :: t, b :: u => f a b && all2 f t u
  | _, _ => false
  end.

(* [zip(..).all(..)]: stops at the shorter list *)
Fixpoint zipall {X} (f : X -> X -> bool) (l1 l2 : list X) : bool :=
  match l1, l2 with
  | a :: t, b :: u => f a b && zipall f t u
  | _, _ => true
  end.

(* [map_eq]: same number of entries and every key of the first map is in the second with an equal value *)
Definition map_eq {V} (f : V -> V -> bool) (m1 m2 : list (N * V)) : bool :=
  Nat.eqb (length m1) (length m2) &&
  forallb (fun kv => match klookup (fst kv) m2 with Some v2 => f (snd kv) v2 | None => false end) m1.

Section Eq.
(* [lenchk = true]: the code after commit 0d21c82 (lengths of the contract lists compared);
   [lenchk = false]: the code before it ([zip] only). *)
Variable lenchk : bool.

Definition list_cmp {X} (f : X -> X -> bool) (l1 l2 : list X) : bool :=
  if lenchk then Nat.eqb (length l1) (length l2) && zipall f l1 l2 else zipall f l1 l2.

Fixpoint ceq (n gas : nat) (t1 : ct) (e1 : env) (t2 : ct) (e2 : env) {struct n} : bool :=
  match n with
  | 0 => false
  | S n' =>
      match t1, t2 with
      | KNull, KNull => true
      | KBool a, KBool b => Bool.eqb a b
      | KTag a, KTag b => N.eqb a b
      | KVariant a x, KVariant b y => N.eqb a b && ceq n' gas x e1 y e2
      | KKey a, KKey b => N.eqb a b
      | KStr a, KStr b => N.eqb a b
      | KRec f1 o1, KRec f2 o2 => map_eq (fun a b => feq n' gas a e1 b e2) f1 f2 && Bool.eqb o1 o2
      | KArr l1, KArr l2 => all2 (fun a b => ceq n' gas a e1 b e2) l1 l2
      | KType a, KType b => tyeq n' gas a e1 b e2
      | KVar x, KVar y =>
          match elookup x e1, elookup y e2 with
          | Some (Clo a ea), Some (Clo b eb) =>
              match gas with 0 => false | S g => ceq n' g a ea b eb end
          | None, None => N.eqb x y
          | _, _ => false
          end
      | KVar x, _ =>
          match gas with
          | 0 => false
          | S g => match elookup x e1 with Some (Clo a ea) => ceq n' g a ea t2 e2 | None => false end
          end
      | _, KVar y =>
          match gas with
          | 0 => false
          | S g => match elookup y e2 with Some (Clo b eb) => ceq n' g t1 e1 b eb | None => false end
          end
      | KApp f a, KApp g b => ceq n' gas f e1 g e2 && ceq n' gas a e1 b e2
      | KAccess i a, KAccess j b => N.eqb i j && ceq n' gas a e1 b e2
      | KOpaque i, KOpaque j => N.eqb i j
      | _, _ => false
      end
  end
with feq (n gas : nat) (f1 : kfield) (e1 : env) (f2 : kfield) (e2 : env) {struct n} : bool :=
  match n with
  | 0 => false
  | S n' =>
      let '(mkKF p1 a1 o1 h1 q1 v1) := f1 in
      let '(mkKF p2 a2 o2 h2 q2 v2) := f2 in
      list_cmp (fun a b => ceq n' gas a e1 b e2) p1 p2 &&
      list_cmp (fun a b => tyeq n' gas a e1 b e2) a1 a2 &&
      (Bool.eqb o1 o2 && Bool.eqb h1 h2 && N.eqb q1 q2) &&
      match v1, v2 with
      | Some x, Some y => ceq n' gas x e1 y e2
      | None, None => true
      | _, _ => false
      end
  end
with tyeq (n gas : nat) (t1 : kty) (e1 : env) (t2 : kty) (e2 : env) {struct n} : bool :=
  match n with
  | 0 => false
  | S n' =>
      match t1, t2 with
      | TyDyn, TyDyn | TyNum, TyNum | TyBool, TyBool | TyStr, TyStr | TySym, TySym => true
      | TyArr a, TyArr b => tyeq n' gas a e1 b e2
      | TyDict f1 a, TyDict f2 b => Bool.eqb f1 f2 && tyeq n' gas a e1 b e2
      | TyArrow a b, TyArrow c d => tyeq n' gas a e1 c e2 && tyeq n' gas b e1 d e2
      | TyRec r1, TyRec r2 => map_eq (fun a b => tyeq n' gas a e1 b e2) r1 r2
      | TyEnum r1, TyEnum r2 =>
          map_eq (fun a b => match a, b with
                             | Some x, Some y => tyeq n' gas x e1 y e2
                             | None, None => true
                             | _, _ => false
                             end) r1 r2
      | TyContract a, TyContract b => ceq n' gas a e1 b e2
      | _, _ => false
      end
  end.
End Eq.

Definition MAX_GAS := 12.
Definition contract_eq (n : nat) (t1 : ct) (e1 : env) (t2 : ct) (e2 : env) : bool :=
  ceq true n MAX_GAS t1 e1 t2 e2.

(* [RuntimeContract::combine_dedup]: a contract of the second list is dropped when it is equal to
   one of the FIRST list's contracts *)
Definition combine_dedup (n : nat) (c1 : list ct) (e1 : env) (c2 : list ct) (e2 : env) : list ct :=
  c1 ++ filter (fun b => negb (existsb (fun a => contract_eq n a e1 b e2) c1)) c2.

(* ---------------------------------------------------------------- meaning: full unfolding
   [unf] replaces every bound variable by (the unfolding of) its definition.  Two contracts with the
   same unfolding (records compared as maps) behave the same. *)
Inductive ut : Type :=
| UNull | UBool (b : bool) | UTag (t : N) | UVariant (t : N) (a : ut) | UKey (k : N) | UStr (s : N)
| UFree (x : N)
| URec (fs : list (N * ufield)) (open : bool)
| UArr (es : list ut)
| UType (t : uty)
| UApp (f a : ut)
| UAccess (f : N) (e : ut)
| UOpaque (id : N)
with ufield : Type :=
| mkUF (pend : list ut) (annots : list uty) (opt hid : bool) (prio : N) (value : option ut)
with uty : Type :=
| UTyDyn | UTyNum | UTyBool | UTyStr | UTySym
| UTyArr (t : uty) | UTyDict (flav : bool) (t : uty) | UTyArrow (a b : uty)
| UTyRec (rows : list (N * uty)) | UTyEnum (rows : list (N * option uty))
| UTyContract (c : ut) | UTyOther (id : N).

Fixpoint mapM {X Y} (f : X -> option Y) (l : list X) : option (list Y) :=
  match l with
  | [] => Some []
  | a :: t => match f a, mapM f t with Some b, Some u => Some (b :: u) | _, _ => None end
  end.

Fixpoint kinsert {V} (k : N) (v : V) (l : list (N * V)) : list (N * V) :=
  match l with
  | [] => [(k, v)]
  | (k', v') :: t => if N.ltb k k' then (k, v) :: l else (k', v') :: kinsert k v t
  end.
Definition ksort {V} (l : list (N * V)) : list (N * V) := fold_right (fun kv acc => kinsert (fst kv) (snd kv) acc) [] l.

Fixpoint unf (n : nat) (e : env) (t : ct) {struct n} : option ut :=
  match n with
  | 0 => None
  | S n' =>
      match t with
      | KNull => Some UNull
      | KBool b => Some (UBool b)
      | KTag a => Some (UTag a)
      | KVariant a x => option_map (UVariant a) (unf n' e x)
      | KKey k => Some (UKey k)
      | KStr s => Some (UStr s)
      | KVar x => match elookup x e with
                  | Some (Clo a ea) => unf n' ea a
                  | None => Some (UFree x)
                  end
      | KRec fs o =>
          option_map (fun l => URec l o)
                     (mapM (fun kf => option_map (pair (fst kf)) (unff n' e (snd kf))) fs)
      | KArr es => option_map UArr (mapM (unf n' e) es)
      | KType ty => option_map UType (unft n' e ty)
      | KApp f a => match unf n' e f, unf n' e a with Some x, Some y => Some (UApp x y) | _, _ => None end
      | KAccess i a => option_map (UAccess i) (unf n' e a)
      | KOpaque i => Some (UOpaque i)
      end
  end
with unff (n : nat) (e : env) (f : kfield) {struct n} : option ufield :=
  match n with
  | 0 => None
  | S n' =>
      let '(mkKF p a o h q v) := f in
      match mapM (unf n' e) p, mapM (unft n' e) a,
            match v with Some x => option_map Some (unf n' e x) | None => Some None end with
      | Some p', Some a', Some v' => Some (mkUF p' a' o h q v')
      | _, _, _ => None
      end
  end
with unft (n : nat) (e : env) (t : kty) {struct n} : option uty :=
  match n with
  | 0 => None
  | S n' =>
      match t with
      | TyDyn => Some UTyDyn | TyNum => Some UTyNum | TyBool => Some UTyBool
      | TyStr => Some UTyStr | TySym => Some UTySym
      | TyArr a => option_map UTyArr (unft n' e a)
      | TyDict f a => option_map (UTyDict f) (unft n' e a)
      | TyArrow a b => match unft n' e a, unft n' e b with Some x, Some y => Some (UTyArrow x y) | _, _ => None end
      | TyRec r => option_map UTyRec
                              (mapM (fun kt => option_map (pair (fst kt)) (unft n' e (snd kt))) r)
      | TyEnum r => option_map UTyEnum
                               (mapM (fun kt => option_map (pair (fst kt))
                                                  (match snd kt with
                                                   | Some ty => option_map Some (unft n' e ty)
                                                   | None => Some None
                                                   end)) r)
      | TyContract c => option_map UTyContract (unf n' e c)
      | TyOther i => Some (UTyOther i)
      end
  end.
