(* C04 at the level of the algebra: a contract attached to a field by any operand of a chain of
   merges is attached to the field of the result, every attached contract is checked on the final
   value at export, and duplicates among the attached contracts are irrelevant. *)
From Coq Require Import List ZArith QArith Bool Lia.
Import ListNotations.
From NV Require Import Merge.Algebra Merge.Sorted Merge.Prio Merge.CsSet Merge.AlgebraProofs Merge.Rules.
Close Scope Q_scope.
Open Scope bool_scope.

Definition attached (k : N) (c : cid) (d : D) : Prop :=
  exists fs f, d = DRec fs /\ lookup k fs = Some f /\ In c (f_cs f).

Definition is_rec (d : D) : Prop := exists fs, d = DRec fs.

Lemma merge_records fs1 fs2 :
  wf (DRec fs1) = true -> wf (DRec fs2) = true ->
  exists n, merge (DRec fs1) (DRec fs2) = DRec (merge_assoc (mergeD_fuel n) fs1 fs2) /\
            ssorted fs1 /\ ssorted fs2.
Proof.
  intros H1 H2. set (n := Nat.max (depth (DRec fs1)) (depth (DRec fs2))).
  assert (K1 : wfD (S n) (DRec fs1) = true) by (apply wf_wfD; [assumption|unfold n; lia]).
  assert (K2 : wfD (S n) (DRec fs2) = true) by (apply wf_wfD; [assumption|unfold n; lia]).
  exists n. rewrite (merge_fuel (S n)) by assumption. cbn [mergeD_fuel].
  apply wfD_rec in K1, K2. destruct K1 as [S1 _], K2 as [S2 _]. auto.
Qed.

Theorem attached_merge k c a b :
  wf a = true -> wf b = true -> is_rec a -> is_rec b ->
  attached k c a \/ attached k c b -> attached k c (merge a b).
Proof.
  intros Wa Wb [fs1 ->] [fs2 ->] H.
  destruct (merge_records fs1 fs2 Wa Wb) as [n [E [S1 S2]]]. rewrite E.
  unfold attached. eexists. 
  pose proof (rule_record_fields (mergeD_fuel n) k fs1 fs2 S1 S2) as L.
  destruct H as [[fs [f [Eq [Lk Hc]]]]|[fs [f [Eq [Lk Hc]]]]]; injection Eq as <-; rewrite Lk in L.
  - destruct (lookup k fs2) as [f2|] eqn:L2.
    + exists (mergeF (mergeD_fuel n) f f2). repeat split; [assumption|]. apply rule_contracts_accumulate. now left.
    + exists f. repeat split; assumption.
  - destruct (lookup k fs1) as [f1|] eqn:L1.
    + exists (mergeF (mergeD_fuel n) f1 f). repeat split; [assumption|]. apply rule_contracts_accumulate. now right.
    + exists f. repeat split; assumption.
Qed.

Lemma merge_is_rec a b : wf a = true -> wf b = true -> is_rec a -> is_rec b -> is_rec (merge a b).
Proof.
  intros Wa Wb [fs1 ->] [fs2 ->]. destruct (merge_records fs1 fs2 Wa Wb) as [n [E _]]. rewrite E. eexists. reflexivity.
Qed.

(* chains: whatever the position of the operand that attaches the contract *)
Theorem attached_chain k c (l : list D) : forall acc,
  wf acc = true -> is_rec acc -> Forall (fun d => wf d = true /\ is_rec d) l ->
  attached k c acc \/ Exists (attached k c) l ->
  attached k c (fold_left merge l acc).
Proof.
  induction l as [|d t IH]; intros acc Wacc Racc Hl H; cbn [fold_left].
  - destruct H as [H|H]; [assumption|inversion H].
  - inversion Hl as [|? ? [Wd Rd] Ht]; subst. apply IH.
    + now apply merge_wf.
    + now apply merge_is_rec.
    + assumption.
    + destruct H as [H|H].
      * left. apply attached_merge; auto.
      * inversion H as [? ? Hd|? ? Hex]; subst.
        -- left. apply attached_merge; auto.
        -- now right.
Qed.

(* ---- export checks every attached contract on the final value *)
Section Enforced.
Variable sat : cid -> J -> bool.

Lemma combine_inl k r acc js :
  combine k r acc = inl (JObj js) ->
  (r = None /\ acc = inl (JObj js)) \/
  (exists j js', r = Some (inl j) /\ acc = inl (JObj js') /\ js = (k, j) :: js').
Proof.
  destruct r as [[j|e]|]; cbn [combine].
  - destruct acc as [[a|es|js']|e]; try discriminate. intros H. injection H as <-. right. eauto.
  - destruct acc; discriminate.
  - intros ->. left. auto.
Qed.

Lemma export_rec_fields n fs : forall js,
  exportD sat (S n) (DRec fs) = inl (JObj js) ->
  forall k p o cs d, In (k, mkF p o false cs (Some d)) fs ->
  exists j, In (k, j) js /\ exportD sat n d = inl j /\ forallb (fun c => sat c j) cs = true.
Proof.
  rewrite export_rec. induction fs as [|[k0 f0] t IH]; intros js H k p o cs d Hin; [contradiction|].
  cbn [fold_right fst snd] in H.
  assert (Hacc : exists js0, fold_right (fun kf acc => combine (fst kf) (field_result sat n (snd kf)) acc)
                                        (inl (JObj [])) t = inl (JObj js0) /\
                             (forall x, In x js0 -> In x js)).
  { apply combine_inl in H. destruct H as [[_ H]|[j [js' [_ [H ->]]]]]; eexists; split; try exact H; auto.
    intros x Hx. now right. }
  destruct Hacc as [js0 [Hacc Hsub]].
  destruct Hin as [Heq|Hin].
  - injection Heq as -> ->. cbn [field_result] in H.
    destruct (exportD sat n d) as [j|e] eqn:Ed.
    + destruct (forallb (fun c => sat c j) cs) eqn:Ef.
      * apply combine_inl in H. destruct H as [[H _]|[j' [js' [Hj [_ ->]]]]]; [discriminate|].
        injection Hj as <-. exists j. repeat split; auto. now left.
      * apply combine_inl in H. destruct H as [[H _]|[j' [js' [Hj _]]]]; discriminate.
    + apply combine_inl in H. destruct H as [[H _]|[j' [js' [Hj _]]]]; discriminate.
  - destruct (IH js0 Hacc k p o cs d Hin) as [j [Hj [He Hf]]]. exists j. repeat split; auto.
Qed.

(* the property's words: if export succeeds, every contract attached (by whichever operand) to an
   exported field holds of that field's exported value *)
Theorem attached_enforced n d js k c f dv :
  exportD sat (S n) d = inl (JObj js) ->
  forall fs, d = DRec fs -> ssorted fs ->
  lookup k fs = Some f -> f_hid f = false -> f_val f = Some dv -> In c (f_cs f) ->
  exists j, In (k, j) js /\ sat c j = true.
Proof.
  intros H fs -> S L Hh Hv Hc. destruct f as [p o h cs v]. cbn [f_hid f_val f_cs] in *. subst.
  apply lookup_In in L.
  destruct (export_rec_fields n fs js H k p o cs dv L) as [j [Hj [_ Hf]]].
  exists j. split; [assumption|]. rewrite forallb_forall in Hf. auto.
Qed.
End Enforced.

(* ---- duplicates are irrelevant (what a sound deduplication may rely on) *)
Definition cs_same (l l' : list cid) : Prop := forall c, In c l <-> In c l'.

Lemma forallb_same {X} (p : X -> bool) l l' : (forall c, In c l <-> In c l') -> forallb p l = forallb p l'.
Proof.
  intros H. destruct (forallb p l) eqn:E1, (forallb p l') eqn:E2; try reflexivity.
  - rewrite forallb_forall in E1. assert (forallb p l' = true) by (apply forallb_forall; intros x Hx; apply E1, H, Hx). congruence.
  - rewrite forallb_forall in E2. assert (forallb p l = true) by (apply forallb_forall; intros x Hx; apply E2, H, Hx). congruence.
Qed.

Theorem dedup_transparent_field sat n p o h cs cs' v :
  cs_same cs cs' ->
  field_result sat n (mkF p o h cs v) = field_result sat n (mkF p o h cs' v).
Proof.
  intros H. cbn [field_result]. destruct h; [reflexivity|]. destruct v as [d|]; [|reflexivity].
  destruct (exportD sat n d) as [j|e].
  - now rewrite (forallb_same _ cs cs' H).
  - destruct cs as [|c t], cs' as [|c' t']; try reflexivity.
    + exfalso. apply (proj2 (H c') (or_introl eq_refl)).
    + exfalso. apply (proj1 (H c) (or_introl eq_refl)).
Qed.

(* the set union used by the algebra holds exactly the contracts of the concatenation (no
   deduplication at all) *)
Theorem union_same_as_append c1 c2 : cs_same (cs_union c1 c2) (c1 ++ c2).
Proof. intros c. rewrite cs_union_In, in_app_iff. tauto. Qed.
