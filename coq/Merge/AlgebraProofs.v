(* Laws of the data-merge algebra: closure, commutativity, associativity, unit, idempotence. *)
From Coq Require Import List ZArith QArith Bool Lia.
Import ListNotations.
From NV Require Import Merge.Algebra Merge.Sorted Merge.Prio Merge.CsSet.
Close Scope Q_scope.
Open Scope bool_scope.

(* ------------------------------------------------------------------ plain data / equality *)
Lemma plainF_inv pl f : plainF pl f = true ->
  exists v, f = mkF (PNum (0 # 1)) false false [] (Some v) /\ pl v = true.
Proof.
  destruct f as [p o h cs v]. cbn [plainF].
  destruct p as [|q|]; try discriminate. destruct o; try discriminate. destruct h; try discriminate.
  destruct cs; try discriminate. destruct v as [v|]; try discriminate.
  rewrite !andb_true_iff, Z.eqb_eq, Pos.eqb_eq. intros [[Hn Hd] Hp].
  exists v. split; [|assumption]. destruct q as [qn qd]. cbn [Qnum Qden] in *. now subst.
Qed.

Lemma forallb_impl {X} (f g : X -> bool) l :
  (forall x, In x l -> f x = true -> g x = true) -> forallb f l = true -> forallb g l = true.
Proof.
  induction l as [|a t IH]; cbn [forallb]; [reflexivity|].
  intros H. rewrite !andb_true_iff. intros [Ha Ht]. split.
  - apply H; [now left|assumption].
  - apply IH; [|assumption]. intros x Hin. apply H. now right.
Qed.

Lemma plainD_mono n : forall m d, n <= m -> plainD n d = true -> plainD m d = true.
Proof.
  induction n as [|n IH]; intros m d Hle H.
  - destruct d; try discriminate. destruct m; reflexivity.
  - destruct m as [|m]; [lia|]. destruct d as [a|t x|es| |fs]; cbn [plainD] in *.
    + reflexivity.
    + apply IH with (m := m) in H; [assumption|lia].
    + revert H. apply forallb_impl. intros x _. apply IH. lia.
    + discriminate.
    + rewrite andb_true_iff in *. destruct H as [Hs Hf]. split; [assumption|].
      revert Hf. apply forallb_impl. intros [k f] _. cbn [snd].
      destruct f as [p o h cs v]. cbn [plainF]. destruct p; auto. destruct o; auto.
      destruct h; auto. destruct cs; auto. destruct v; auto.
      rewrite !andb_true_iff. intros [Hq Hp]. split; [assumption|]. apply IH with (m := m) in Hp; [assumption|lia].
Qed.

Lemma list_eqb_eq {X} (e : X -> X -> bool) (l1 : list X) : forall l2,
  (forall x y, In x l1 -> In y l2 -> (e x y = true <-> x = y)) ->
  (list_eqb e l1 l2 = true <-> l1 = l2).
Proof.
  induction l1 as [|a t IH]; intros [|b u] H; cbn [list_eqb].
  - tauto.
  - split; discriminate.
  - split; discriminate.
  - rewrite andb_true_iff, (H a b), IH.
    + split; [intros [E1 E2]; subst; reflexivity|intros E; injection E; auto].
    + intros x y Hx Hy. apply H; now right.
    + now left.
    + now left.
Qed.

Lemma forallb_In {X} (f : X -> bool) l x : forallb f l = true -> In x l -> f x = true.
Proof. rewrite forallb_forall. auto. Qed.

Lemma D_eqb_plain n : forall a b, plainD n a = true -> plainD n b = true ->
  (D_eqb n a b = true <-> a = b).
Proof.
  induction n as [|n IH]; intros a b Ha Hb.
  - destruct a; try discriminate. destruct b; try discriminate. cbn [D_eqb].
    split; [|intros E; injection E as ->].
    + intros H. f_equal. destruct a as [n1 d1|s1|b1| |t1], a0 as [n2 d2|s2|b2| |t2]; cbn [atom_eqb] in H; try discriminate; try reflexivity.
      * rewrite andb_true_iff, Z.eqb_eq, Pos.eqb_eq in H. destruct H; now subst.
      * apply N.eqb_eq in H. now subst.
      * apply eqb_prop in H. now subst.
      * apply N.eqb_eq in H. now subst.
    + destruct a0; cbn [atom_eqb]; rewrite ?Z.eqb_refl, ?Pos.eqb_refl, ?N.eqb_refl, ?eqb_reflx; reflexivity.
  - destruct a as [x|t x|l1| |f1], b as [y|u y|l2| |f2]; cbn [plainD] in Ha, Hb; try discriminate;
      cbn [D_eqb]; try (split; discriminate).
    + split; [|intros E; injection E as ->].
      * intros H. f_equal. destruct x as [n1 d1|s1|b1| |t1], y as [n2 d2|s2|b2| |t2]; cbn [atom_eqb] in H; try discriminate; try reflexivity.
        -- rewrite andb_true_iff, Z.eqb_eq, Pos.eqb_eq in H. destruct H; now subst.
        -- apply N.eqb_eq in H. now subst.
        -- apply eqb_prop in H. now subst.
        -- apply N.eqb_eq in H. now subst.
      * destruct y; cbn [atom_eqb]; rewrite ?Z.eqb_refl, ?Pos.eqb_refl, ?N.eqb_refl, ?eqb_reflx; reflexivity.
    + rewrite andb_true_iff, N.eqb_eq, (IH x y Ha Hb). split; [intros [E1 E2]; subst; reflexivity|intros E; injection E; auto].
    + rewrite list_eqb_eq.
      * split; [intros ->; reflexivity|intros E; injection E; auto].
      * intros x y Hx Hy. apply IH; [exact (forallb_In (plainD n) l1 x Ha Hx)|exact (forallb_In (plainD n) l2 y Hb Hy)].
    + rewrite andb_true_iff in Ha, Hb. destruct Ha as [_ Ha], Hb as [_ Hb].
      rewrite list_eqb_eq.
      * split; [intros ->; reflexivity|intros E; injection E; auto].
      * intros [k1 g1] [k2 g2] Hx Hy. cbn [fst snd].
        pose proof (forallb_In _ _ _ Ha Hx) as P1. pose proof (forallb_In _ _ _ Hb Hy) as P2.
        cbn [snd] in P1, P2. apply plainF_inv in P1, P2.
        destruct P1 as [v1 [-> Pv1]], P2 as [v2 [-> Pv2]]. cbn [f_val opt_eqb].
        rewrite andb_true_iff, N.eqb_eq, (IH v1 v2 Pv1 Pv2).
        split; [intros [E1 E2]; subst; reflexivity|intros E; injection E; auto].
Qed.

(* ------------------------------------------------------------------ well-formedness, Prop view *)
Definition wfF (n : nat) (f : F) : Prop :=
  pwf (f_prio f) = true /\ csorted (f_cs f) /\
  match f_val f with
  | Some v => wfD n v = true
  | None => f_prio f = PNum (0 # 1)
  end.

Lemma wfD_rec n fs :
  wfD (S n) (DRec fs) = true <-> ssorted fs /\ allP (wfF n) fs.
Proof.
  cbn [wfD]. rewrite andb_true_iff, sorted_keys_ssorted, forallb_forall.
  split; intros [Hs Hf]; (split; [assumption|]).
  - intros k f Hin. specialize (Hf _ Hin). cbn [snd] in Hf.
    rewrite !andb_true_iff, cs_sorted_iff in Hf. destruct Hf as [[Hp Hc] Hv].
    repeat split; try assumption.
    destruct (f_val f); [assumption|]. destruct (f_prio f) as [|q|]; try discriminate.
    rewrite andb_true_iff, Z.eqb_eq, Pos.eqb_eq in Hv. destruct Hv, q as [qn qd]. cbn in *. now subst.
  - intros [k f] Hin. specialize (Hf _ _ Hin). destruct Hf as [Hp [Hc Hv]]. cbn [snd].
    rewrite !andb_true_iff, cs_sorted_iff. repeat split; try assumption.
    destruct (f_val f); [assumption|]. rewrite Hv. reflexivity.
Qed.

Lemma wfD_mono n : forall m d, n <= m -> wfD n d = true -> wfD m d = true.
Proof.
  induction n as [|n IH]; intros m d Hle H.
  - destruct d; try discriminate; destruct m; reflexivity.
  - destruct m as [|m]; [lia|]. destruct d as [a|t x|es| |fs].
    + reflexivity.
    + cbn [wfD] in *. apply IH with (m := m) in H; [assumption|lia].
    + cbn [wfD] in *. revert H. apply forallb_impl. intros x _. apply plainD_mono. lia.
    + reflexivity.
    + apply wfD_rec in H. apply wfD_rec. destruct H as [Hs Ha]. split; [assumption|].
      intros k f Hin. specialize (Ha _ _ Hin). destruct Ha as [Hp [Hc Hv]]. repeat split; try assumption.
      destruct (f_val f); [|assumption]. apply IH with (m := m) in Hv; [assumption|lia].
Qed.

(* ------------------------------------------------------------------ field-level laws,
   parametric in a value-merge [md] that has the law on well-formed values one level down *)
Section FieldLaws.
Variable n : nat.
Variable md : D -> D -> D.
Let W (d : D) : Prop := wfD n d = true.

Ltac destF f := let p := fresh "p" in let o := fresh "o" in let h := fresh "h" in
                let cs := fresh "cs" in let v := fresh "v" in destruct f as [p o h cs v].

Ltac pcases :=
  repeat match goal with
         | |- context [peqb ?a ?b] => let E := fresh "E" in destruct (peqb a b) eqn:E
         | |- context [pltb ?a ?b] => let E := fresh "E" in destruct (pltb a b) eqn:E
         end.

Lemma mergeF_wf f1 f2 :
  (forall x y, W x -> W y -> W (md x y)) -> wfF n f1 -> wfF n f2 -> wfF n (mergeF md f1 f2).
Proof.
  intros Hc. destF f1. destF f2. unfold wfF. cbn [f_prio f_cs f_val mergeF].
  intros [Hp1 [Hc1 Hv1]] [Hp2 [Hc2 Hv2]].
  destruct v as [t1|], v0 as [t2|]; pcases; cbn [f_prio f_cs f_val];
    repeat split; auto using cs_union_sorted.
  apply Hc; assumption.
Qed.

Lemma peqb_sym a b : peqb a b = peqb b a.
Proof. unfold peqb. rewrite (pcmp_opp a b). destruct (pcmp a b); reflexivity. Qed.

Lemma pltb_asym a b : pltb a b = true -> pltb b a = false.
Proof. unfold pltb. rewrite (pcmp_opp a b). destruct (pcmp a b); cbn; congruence. Qed.

Lemma ptotal a b : peqb a b = false -> pltb a b = false -> pltb b a = true.
Proof. unfold peqb, pltb. rewrite (pcmp_opp a b). destruct (pcmp a b); cbn; congruence. Qed.

Lemma pltb_irrefl a : pltb a a = false.
Proof. unfold pltb. now rewrite pcmp_refl. Qed.

Lemma pltb_trans a b c : pltb a b = true -> pltb b c = true -> pltb a c = true.
Proof.
  unfold pltb. destruct (pcmp a b) eqn:E1; try discriminate. destruct (pcmp b c) eqn:E2; try discriminate.
  intros _ _. now rewrite (pcmp_lt_trans _ _ _ E1 E2).
Qed.

Lemma mergeF_comm f1 f2 :
  (forall x y, W x -> W y -> md x y = md y x) -> wfF n f1 -> wfF n f2 ->
  mergeF md f1 f2 = mergeF md f2 f1.
Proof.
  intros Hc. destF f1. destF f2. unfold wfF. cbn [f_prio f_cs f_val mergeF].
  intros [Hp1 [Hc1 Hv1]] [Hp2 [Hc2 Hv2]].
  rewrite (andb_comm o o0), (orb_comm h h0), (cs_union_comm cs cs0) by assumption.
  destruct v as [t1|], v0 as [t2|]; try reflexivity.
  rewrite (peqb_sym p0 p). destruct (peqb p p0) eqn:E.
  - apply peqb_true in E; [|assumption|assumption]. subst p0. now rewrite Hc.
  - destruct (pltb p0 p) eqn:E1.
    + now rewrite (pltb_asym _ _ E1).
    + rewrite peqb_sym in E. now rewrite (ptotal _ _ E E1).
Qed.

Lemma mergeF_idem f :
  (forall x, W x -> md x x = x) -> wfF n f -> mergeF md f f = f.
Proof.
  intros Hi. destF f. unfold wfF. cbn [f_prio f_cs f_val mergeF]. intros [Hp [Hc Hv]].
  rewrite andb_diag, orb_diag, cs_union_idem by assumption.
  destruct v as [t|]; [|now rewrite Hv].
  now rewrite peqb_refl, Hi.
Qed.

Lemma pcmp_flip a b c : pcmp a b = c -> pcmp b a = CompOpp c.
Proof. intros <-. apply pcmp_opp. Qed.

Ltac pfacts :=
  repeat match goal with
         | H : pcmp ?a ?b = ?c |- _ =>
             let c' := eval cbn in (CompOpp c) in
             lazymatch goal with
             | _ : pcmp b a = c' |- _ => fail
             | _ => assert (pcmp b a = c') by (exact (pcmp_flip _ _ _ H))
             end
         end;
  repeat match goal with
         | H1 : pcmp ?a ?b = Lt, H2 : pcmp ?b ?c = Lt |- _ =>
             lazymatch goal with
             | _ : pcmp a c = Lt |- _ => fail
             | _ => pose proof (pcmp_lt_trans _ _ _ H1 H2)
             end
         end.

Ltac psimp :=
  repeat (cbn [mergeF]; unfold peqb, pltb;
          repeat match goal with
                 | H : pcmp ?a ?b = _ |- context [pcmp ?a ?b] => rewrite H
                 end;
          rewrite ?pcmp_refl).

Lemma mergeF_assoc f1 f2 f3 :
  (forall x y, W x -> W y -> W (md x y)) ->
  (forall x y z, W x -> W y -> W z -> md (md x y) z = md x (md y z)) ->
  wfF n f1 -> wfF n f2 -> wfF n f3 ->
  mergeF md (mergeF md f1 f2) f3 = mergeF md f1 (mergeF md f2 f3).
Proof.
  intros Hcl Ha. destF f1. destF f2. destF f3. unfold wfF. cbn [f_prio f_cs f_val].
  intros [Hp1 [Hc1 Hv1]] [Hp2 [Hc2 Hv2]] [Hp3 [Hc3 Hv3]].
  assert (Hcs : cs_union (cs_union cs cs0) cs1 = cs_union cs (cs_union cs0 cs1))
    by (apply cs_union_assoc; assumption).
  destruct (pcmp p p0) eqn:C12, (pcmp p0 p1) eqn:C23, (pcmp p p1) eqn:C13.
  all: repeat match goal with
              | H : pcmp ?a ?b = Eq |- _ => apply pcmp_eq in H; [|assumption|assumption]
              end; subst.
  all: pfacts.
  all: try (rewrite pcmp_refl in *; discriminate).
  all: try congruence.
  all: destruct v as [t1|], v0 as [t2|], v1 as [t3|]; psimp;
       rewrite ?andb_assoc, ?orb_assoc, ?Hcs, ?andb_true_r, ?orb_false_r; try reflexivity.
  all: try (rewrite Ha by assumption; reflexivity).
Qed.
End FieldLaws.

(* ------------------------------------------------------------------ tree-level laws *)
Lemma atom_eqb_eq x y : atom_eqb x y = true <-> x = y.
Proof.
  destruct x as [n1 d1|s1|b1| |t1], y as [n2 d2|s2|b2| |t2]; cbn [atom_eqb]; try (split; discriminate); try tauto.
  - rewrite andb_true_iff, Z.eqb_eq, Pos.eqb_eq. split; [intros [-> ->]; reflexivity|intros E; injection E; auto].
  - rewrite N.eqb_eq. split; [intros ->; reflexivity|intros E; injection E; auto].
  - split; [intros H; apply eqb_prop in H; now subst|intros E; injection E as ->; apply eqb_reflx].
  - rewrite N.eqb_eq. split; [intros ->; reflexivity|intros E; injection E; auto].
Qed.

Lemma atom_eqb_refl x : atom_eqb x x = true.
Proof. now apply atom_eqb_eq. Qed.

Lemma wfD_arr_plain n es : wfD (S n) (DArr es) = true -> plainD (S n) (DArr es) = true.
Proof. cbn [wfD plainD]. auto. Qed.

Ltac ifs :=
  repeat match goal with
         | |- context [if ?c then _ else _] => let E := fresh "E" in destruct c eqn:E
         end.

Ltac eqs :=
  repeat match goal with
         | H : atom_eqb _ _ = true |- _ => apply atom_eqb_eq in H; subst
         | H : N.eqb _ _ = true |- _ => apply N.eqb_eq in H; subst
         | H : atom_eqb ?x ?x = false |- _ => rewrite atom_eqb_refl in H; discriminate
         | H : N.eqb ?x ?x = false |- _ => rewrite N.eqb_refl in H; discriminate
         end.

Record laws (n : nat) : Prop := {
  l_wf : forall a b, wfD n a = true -> wfD n b = true -> wfD n (mergeD_fuel n a b) = true;
  l_comm : forall a b, wfD n a = true -> wfD n b = true -> mergeD_fuel n a b = mergeD_fuel n b a;
  l_assoc : forall a b c, wfD n a = true -> wfD n b = true -> wfD n c = true ->
            mergeD_fuel n (mergeD_fuel n a b) c = mergeD_fuel n a (mergeD_fuel n b c);
  l_idem : forall a, wfD n a = true -> mergeD_fuel n a a = a
}.

Lemma laws_0 : laws 0.
Proof.
  split.
  - intros a b Ha Hb. destruct a, b; try discriminate; cbn [mergeD_fuel]; ifs; reflexivity.
  - intros a b Ha Hb. destruct a, b; try discriminate; cbn [mergeD_fuel]; ifs; eqs; try reflexivity.
  - intros a b c Ha Hb Hc. destruct a, b, c; try discriminate; cbn [mergeD_fuel]; ifs; cbn [mergeD_fuel]; ifs; eqs; try reflexivity; try congruence.
  - intros a Ha. destruct a; try discriminate; cbn [mergeD_fuel]; [now rewrite atom_eqb_refl|reflexivity].
Qed.

Lemma D_eqb_arr_true n l1 l2 :
  wfD (S n) (DArr l1) = true -> wfD (S n) (DArr l2) = true ->
  D_eqb (S n) (DArr l1) (DArr l2) = true -> l1 = l2.
Proof.
  intros H1 H2 E. apply wfD_arr_plain in H1, H2.
  apply (D_eqb_plain (S n) _ _ H1 H2) in E. now injection E.
Qed.

Lemma D_eqb_arr_refl n l : wfD (S n) (DArr l) = true -> D_eqb (S n) (DArr l) (DArr l) = true.
Proof. intros H. apply wfD_arr_plain in H. now apply (D_eqb_plain (S n) _ _ H H). Qed.

Lemma laws_S n : laws n -> laws (S n).
Proof.
  intros [IHwf IHcomm IHassoc IHidem].
  assert (Hwf : forall a b, wfD (S n) a = true -> wfD (S n) b = true ->
                            wfD (S n) (mergeD_fuel (S n) a b) = true).
  { intros a b Ha Hb.
    destruct a as [x|t x|l1| |f1], b as [y|u y|l2| |f2]; cbn [mergeD_fuel]; ifs; try reflexivity; try assumption.
    - cbn [wfD] in *. now apply IHwf.
    - apply wfD_rec in Ha, Hb. destruct Ha as [S1 A1], Hb as [S2 A2]. apply wfD_rec. split.
      + now apply assoc_merge_sorted.
      + apply assoc_merge_allP; try assumption. intros f g. now apply mergeF_wf. }
  split; [exact Hwf| | |].
  - intros a b Ha Hb.
    destruct a as [x|t x|l1| |f1], b as [y|u y|l2| |f2]; cbn [mergeD_fuel]; try reflexivity.
    + ifs; eqs; try reflexivity.
    + rewrite (N.eqb_sym u t). ifs; eqs; try reflexivity. cbn [wfD] in *. now rewrite IHcomm.
    + destruct (D_eqb (S n) (DArr l1) (DArr l2)) eqn:E.
      * pose proof (D_eqb_arr_true _ _ _ Ha Hb E). subst l2. now rewrite E.
      * destruct (D_eqb (S n) (DArr l2) (DArr l1)) eqn:E'; [|reflexivity].
        pose proof (D_eqb_arr_true _ _ _ Hb Ha E'). subst l2. congruence.
    + apply wfD_rec in Ha, Hb. destruct Ha as [S1 A1], Hb as [S2 A2]. f_equal.
      apply (assoc_merge_comm _ (wfF n)); try assumption.
      intros f g Hf Hg. now apply (mergeF_comm n).
  - intros a b c Ha Hb Hc.
    destruct a as [x|t x|l1| |f1], b as [y|u y|l2| |f2]; cbn [mergeD_fuel];
      destruct c as [z|w z|l3| |f3]; cbn [mergeD_fuel]; try reflexivity;
      ifs; cbn [mergeD_fuel]; ifs; eqs; try reflexivity; try congruence.
    all: try (cbn [wfD] in *; rewrite IHassoc by assumption; reflexivity).
    all: repeat match goal with
           | H : D_eqb _ (DArr ?a) (DArr ?b) = true |- _ =>
               apply D_eqb_arr_true in H; [subst|assumption|assumption]
           end; try reflexivity; try congruence.
    all: try (rewrite D_eqb_arr_refl in * by assumption; discriminate).
    all: try (apply wfD_rec in Ha, Hb, Hc; destruct Ha as [S1 A1], Hb as [S2 A2], Hc as [S3 A3]; f_equal;
              apply (assoc_merge_assoc _ (wfF n)); try assumption;
              intros f g k Hf Hg Hk; now apply (mergeF_assoc n)).
  - intros a Ha. destruct a as [x|t x|l1| |f1]; cbn [mergeD_fuel].
    + now rewrite atom_eqb_refl.
    + rewrite N.eqb_refl. cbn [wfD] in Ha. now rewrite IHidem.
    + now rewrite D_eqb_arr_refl.
    + reflexivity.
    + apply wfD_rec in Ha. destruct Ha as [S1 A1]. f_equal.
      apply (assoc_merge_idem _ (wfF n)); try assumption.
      intros f Hf. now apply (mergeF_idem n).
Qed.

Theorem laws_all n : laws n.
Proof. induction n; [exact laws_0|now apply laws_S]. Qed.

(* ------------------------------------------------------------------ fuel is irrelevant once it
   covers the depth; [merge]/[wf] (which compute their own fuel) inherit the laws *)
Lemma fold_max_le {X} (g : X -> nat) l x : In x l -> g x <= fold_right (fun e m => Nat.max (g e) m) 0 l.
Proof.
  induction l as [|a t IH]; cbn [fold_right In]; [contradiction|].
  intros [->|Hin]; [lia|]. specialize (IH Hin). lia.
Qed.

Lemma plainD_tight n : forall m d, plainD m d = true -> depth d <= n -> plainD n d = true.
Proof.
  induction n as [|n IH]; intros m d H Hd.
  - destruct d; cbn [depth] in Hd; try lia; destruct m; cbn [plainD] in *; try discriminate; reflexivity.
  - destruct d as [a|t x|es| |fs]; destruct m as [|m]; cbn [plainD] in H; try discriminate; cbn [plainD]; try reflexivity.
    + cbn [depth] in Hd. apply (IH m); [assumption|lia].
    + rewrite forallb_forall in *. intros x Hin. apply (IH m); [auto|].
      cbn [depth] in Hd. pose proof (fold_max_le depth es x Hin). lia.
    + rewrite andb_true_iff in *. destruct H as [Hs Hf]. split; [assumption|].
      rewrite forallb_forall in *. intros [k f] Hin. specialize (Hf _ Hin). cbn [snd] in *.
      pose proof (plainF_inv _ _ Hf) as [v [-> Pv]]. cbn [plainF]. cbn. apply (IH m); [assumption|].
      cbn [depth] in Hd.
      pose proof (fold_max_le (fun kf : N * F => match snd kf with mkF _ _ _ _ (Some v) => depth v | _ => 0 end) fs _ Hin).
      cbn [snd] in H. lia.
Qed.

Lemma wfD_tight n : forall m d, wfD m d = true -> depth d <= n -> wfD n d = true.
Proof.
  induction n as [|n IH]; intros m d H Hd.
  - destruct d; cbn [depth] in Hd; try lia; reflexivity.
  - destruct d as [a|t x|es| |fs]; destruct m as [|m]; try discriminate; try reflexivity.
    + cbn [wfD depth] in *. apply (IH m); [assumption|lia].
    + cbn [wfD] in *. rewrite forallb_forall in *. intros x Hin. apply (plainD_tight n m); [auto|].
      cbn [depth] in Hd. pose proof (fold_max_le depth es x Hin). lia.
    + apply wfD_rec in H. apply wfD_rec. destruct H as [Hs Ha]. split; [assumption|].
      intros k f Hin. specialize (Ha _ _ Hin). destruct Ha as [Hp [Hc Hv]]. repeat split; try assumption.
      destruct f as [p o h cs [v|]]; cbn [f_val f_prio] in *; [|assumption].
      apply (IH m); [assumption|]. cbn [depth] in Hd.
      pose proof (fold_max_le (fun kf : N * F => match snd kf with mkF _ _ _ _ (Some v) => depth v | _ => 0 end) fs _ Hin).
      cbn [snd] in H. lia.
Qed.

Lemma wf_wfD d n : wf d = true -> depth d <= n -> wfD n d = true.
Proof. unfold wf. intros H Hd. now apply (wfD_tight n (S (depth d))). Qed.

Lemma wfD_wf d n : wfD n d = true -> wf d = true.
Proof. unfold wf. intros H. apply (wfD_tight _ n); [assumption|lia]. Qed.

Lemma mergeF_ext n md1 md2 f g :
  (forall x y, wfD n x = true -> wfD n y = true -> md1 x y = md2 x y) ->
  wfF n f -> wfF n g -> mergeF md1 f g = mergeF md2 f g.
Proof.
  intros He. destruct f as [p o h cs [v|]], g as [p' o' h' cs' [v'|]]; unfold wfF; cbn [f_prio f_cs f_val mergeF];
    intros [_ [_ Hv]] [_ [_ Hv']]; try reflexivity.
  destruct (peqb p p'); [|reflexivity]. now rewrite He.
Qed.

Lemma fuel_stable n : forall m a b, wfD n a = true -> wfD n b = true -> n <= m ->
  mergeD_fuel m a b = mergeD_fuel n a b.
Proof.
  induction n as [|n IH]; intros m a b Ha Hb Hle.
  - destruct a, b; try discriminate; destruct m; reflexivity.
  - destruct m as [|m]; [lia|].
    destruct a as [x|t x|l1| |f1], b as [y|u y|l2| |f2]; cbn [mergeD_fuel]; try reflexivity.
    + cbn [wfD] in *. rewrite (IH m) by (assumption || lia). reflexivity.
    + assert (P1 : plainD (S m) (DArr l1) = true) by (apply (plainD_mono (S n)); [lia|now apply wfD_arr_plain]).
      assert (P2 : plainD (S m) (DArr l2) = true) by (apply (plainD_mono (S n)); [lia|now apply wfD_arr_plain]).
      apply wfD_arr_plain in Ha, Hb.
      destruct (D_eqb (S m) (DArr l1) (DArr l2)) eqn:E1, (D_eqb (S n) (DArr l1) (DArr l2)) eqn:E2; try reflexivity.
      * apply (D_eqb_plain _ _ _ P1 P2) in E1. apply (D_eqb_plain _ _ _ Ha Hb) in E1. congruence.
      * apply (D_eqb_plain _ _ _ Ha Hb) in E2. apply (D_eqb_plain _ _ _ P1 P2) in E2. congruence.
    + apply wfD_rec in Ha, Hb. destruct Ha as [S1 A1], Hb as [S2 A2]. f_equal.
      apply (assoc_merge_ext _ _ (wfF n)); try assumption.
      intros f g Hf Hg. apply (mergeF_ext n); try assumption.
      intros x y Hx Hy. apply IH; (assumption || lia).
Qed.

Lemma merge_fuel n a b : wfD n a = true -> wfD n b = true -> merge a b = mergeD_fuel n a b.
Proof.
  intros Ha Hb. unfold merge. set (k := S (Nat.max (depth a) (depth b))).
  assert (Ka : wfD k a = true) by (apply (wfD_tight k n); [assumption|unfold k; lia]).
  assert (Kb : wfD k b = true) by (apply (wfD_tight k n); [assumption|unfold k; lia]).
  destruct (Nat.le_ge_cases k n) as [Hle|Hge].
  - symmetry. now apply fuel_stable.
  - now apply fuel_stable.
Qed.

(* ---- the laws, fuel-free *)
Theorem merge_wf a b : wf a = true -> wf b = true -> wf (merge a b) = true.
Proof.
  intros Ha Hb. set (n := S (Nat.max (depth a) (depth b))).
  assert (Ka : wfD n a = true) by (apply wf_wfD; [assumption|unfold n; lia]).
  assert (Kb : wfD n b = true) by (apply wf_wfD; [assumption|unfold n; lia]).
  rewrite (merge_fuel n) by assumption. apply (wfD_wf _ n). now apply (l_wf n (laws_all n)).
Qed.

Theorem merge_comm a b : wf a = true -> wf b = true -> merge a b = merge b a.
Proof.
  intros Ha Hb. set (n := S (Nat.max (depth a) (depth b))).
  assert (Ka : wfD n a = true) by (apply wf_wfD; [assumption|unfold n; lia]).
  assert (Kb : wfD n b = true) by (apply wf_wfD; [assumption|unfold n; lia]).
  rewrite !(merge_fuel n) by assumption. now apply (l_comm n (laws_all n)).
Qed.

Theorem merge_assoc_law a b c : wf a = true -> wf b = true -> wf c = true ->
  merge (merge a b) c = merge a (merge b c).
Proof.
  intros Ha Hb Hc. set (n := S (Nat.max (depth a) (Nat.max (depth b) (depth c)))).
  assert (Ka : wfD n a = true) by (apply wf_wfD; [assumption|unfold n; lia]).
  assert (Kb : wfD n b = true) by (apply wf_wfD; [assumption|unfold n; lia]).
  assert (Kc : wfD n c = true) by (apply wf_wfD; [assumption|unfold n; lia]).
  pose proof (laws_all n) as L.
  rewrite (merge_fuel n a b), (merge_fuel n b c) by assumption.
  rewrite !(merge_fuel n); try assumption; try (apply (l_wf n L); assumption).
  now apply (l_assoc n L).
Qed.

Theorem merge_idem a : wf a = true -> merge a a = a.
Proof.
  intros Ha. set (n := S (depth a)).
  assert (Ka : wfD n a = true) by (apply wf_wfD; [assumption|unfold n; lia]).
  rewrite (merge_fuel n) by assumption. now apply (l_idem n (laws_all n)).
Qed.

Theorem merge_unit_r fs : merge (DRec fs) (DRec []) = DRec fs.
Proof. unfold merge. cbn [mergeD_fuel]. unfold Algebra.merge_assoc. now rewrite assoc_merge_nil_r. Qed.

Theorem merge_unit_l fs : merge (DRec []) (DRec fs) = DRec fs.
Proof. unfold merge. cbn [mergeD_fuel]. unfold Algebra.merge_assoc. destruct fs as [|[k f] t]; reflexivity. Qed.
