(* Contract sets as strictly increasing lists: [cs_union] is a commutative, associative,
   idempotent operation on them. *)
From Coq Require Import List NArith Bool Lia.
Import ListNotations.
From NV Require Import Merge.Algebra.

Fixpoint csorted (l : list N) : Prop :=
  match l with
  | [] => True
  | x :: t => (forall y, In y t -> (x < y)%N) /\ csorted t
  end.

Lemma cs_sorted_iff l : cs_sorted l = true <-> csorted l.
Proof.
  induction l as [|x t IH]; cbn [cs_sorted csorted]; [tauto|].
  destruct t as [|y t'].
  - split; [intros _; split; [intros ? []|exact I]|reflexivity].
  - rewrite andb_true_iff, IH, N.ltb_lt. split.
    + intros [Hlt Hs]. split; [|assumption]. intros z [<-|Hin]; [assumption|].
      cbn [csorted] in Hs. destruct Hs as [Hall _]. specialize (Hall _ Hin). lia.
    + intros [Hall Hs]. split; [|assumption]. apply Hall. now left.
Qed.

Lemma csorted_ext l1 l2 :
  csorted l1 -> csorted l2 -> (forall x, In x l1 <-> In x l2) -> l1 = l2.
Proof.
  revert l2. induction l1 as [|a t1 IH]; intros [|b t2] H1 H2 Hext.
  - reflexivity.
  - exfalso. apply (proj2 (Hext b)). now left.
  - exfalso. apply (proj1 (Hext a)). now left.
  - cbn [csorted] in H1, H2. destruct H1 as [Ha Hs1], H2 as [Hb Hs2].
    assert (a = b).
    { destruct (proj1 (Hext a) (or_introl eq_refl)) as [<-|Hin]; [reflexivity|].
      destruct (proj2 (Hext b) (or_introl eq_refl)) as [->|Hin']; [reflexivity|].
      specialize (Ha _ Hin'). specialize (Hb _ Hin). lia. }
    subst b. f_equal. apply IH; [assumption|assumption|].
    intros x. split; intros Hin.
    + destruct (proj1 (Hext x) (or_intror Hin)) as [<-|?]; [|assumption].
      specialize (Ha _ Hin). lia.
    + destruct (proj2 (Hext x) (or_intror Hin)) as [<-|?]; [|assumption].
      specialize (Hb _ Hin). lia.
Qed.

Lemma cs_union_nil_r l : cs_union l [] = l.
Proof. destruct l; reflexivity. Qed.

Lemma cs_union_In l1 : forall l2 x, In x (cs_union l1 l2) <-> In x l1 \/ In x l2.
Proof.
  induction l1 as [|a t1 IH1]; intros l2 x.
  - destruct l2; cbn; tauto.
  - induction l2 as [|b t2 IH2].
    + cbn. tauto.
    + cbn [cs_union]. destruct (N.compare a b) eqn:Hc.
      * apply N.compare_eq in Hc. subst b. cbn [In]. rewrite IH1. cbn [In]. tauto.
      * cbn [In]. rewrite IH1. cbn [In]. tauto.
      * change (In x (b :: cs_union (a :: t1) t2) <-> In x (a :: t1) \/ In x (b :: t2)).
        cbn [In]. rewrite IH2. cbn [In]. tauto.
Qed.

Lemma cs_union_sorted l1 : forall l2, csorted l1 -> csorted l2 -> csorted (cs_union l1 l2).
Proof.
  induction l1 as [|a t1 IH1]; intros l2 H1 H2.
  - destruct l2; exact H2.
  - induction l2 as [|b t2 IH2].
    + exact H1.
    + cbn [cs_union]. cbn [csorted] in H1, H2. destruct H1 as [Ha Hs1], H2 as [Hb Hs2].
      destruct (N.compare a b) eqn:Hc.
      * apply N.compare_eq in Hc. subst b. cbn [csorted]. split; [|now apply IH1].
        intros y Hin. apply cs_union_In in Hin. destruct Hin; auto.
      * pose proof (proj1 (N.compare_lt_iff _ _) Hc) as Hc'. cbn [csorted]. split.
        -- intros y Hin. apply cs_union_In in Hin. destruct Hin as [?|[<-|Hin]]; auto.
           specialize (Hb _ Hin). lia.
        -- apply IH1; [assumption|]. cbn [csorted]. now split.
      * pose proof (proj1 (N.compare_gt_iff _ _) Hc) as Hc'. cbn [csorted]. split.
        -- intros y Hin. change (In y (cs_union (a :: t1) t2)) in Hin.
           apply cs_union_In in Hin. destruct Hin as [[<-|Hin]|?]; auto.
           specialize (Ha _ Hin). lia.
        -- apply IH2. assumption.
Qed.

Lemma cs_union_comm l1 l2 : csorted l1 -> csorted l2 -> cs_union l1 l2 = cs_union l2 l1.
Proof.
  intros H1 H2. apply csorted_ext; try (apply cs_union_sorted; assumption).
  intros x. rewrite !cs_union_In. tauto.
Qed.

Lemma cs_union_assoc l1 l2 l3 : csorted l1 -> csorted l2 -> csorted l3 ->
  cs_union (cs_union l1 l2) l3 = cs_union l1 (cs_union l2 l3).
Proof.
  intros H1 H2 H3. apply csorted_ext; repeat (apply cs_union_sorted; try assumption).
  intros x. rewrite !cs_union_In. tauto.
Qed.

Lemma cs_union_idem l : csorted l -> cs_union l l = l.
Proof.
  intros H. apply csorted_ext; [apply cs_union_sorted; assumption|assumption|].
  intros x. rewrite cs_union_In. tauto.
Qed.

Lemma cs_insert_In c l x : In x (cs_insert c l) <-> x = c \/ In x l.
Proof.
  induction l as [|a t IH]; cbn [cs_insert In]; [intuition|].
  destruct (N.compare c a) eqn:Hc; cbn [In].
  - apply N.compare_eq in Hc. subst a. intuition.
  - intuition.
  - rewrite IH. intuition.
Qed.

Lemma cs_insert_sorted c l : csorted l -> csorted (cs_insert c l).
Proof.
  induction l as [|a t IH]; cbn [cs_insert csorted]; intros H.
  - split; [intros ? []|exact I].
  - destruct H as [Ha Hs]. destruct (N.compare c a) eqn:Hc.
    + cbn [csorted]. now split.
    + pose proof (proj1 (N.compare_lt_iff _ _) Hc) as Hc'. cbn [csorted]. split; [|now split].
      intros y [<-|Hin]; [assumption|]. specialize (Ha _ Hin). lia.
    + pose proof (proj1 (N.compare_gt_iff _ _) Hc) as Hc'. cbn [csorted]. split; [|now apply IH].
      intros y Hin. apply cs_insert_In in Hin. destruct Hin as [->|Hin]; [assumption|auto].
Qed.

Lemma cs_norm_sorted l : csorted (cs_norm l).
Proof. induction l as [|a t IH]; cbn [cs_norm fold_right]; [exact I|]. now apply cs_insert_sorted. Qed.

Lemma cs_norm_In l x : In x (cs_norm l) <-> In x l.
Proof.
  induction l as [|a t IH]; cbn [cs_norm fold_right In]; [tauto|].
  change (fold_right cs_insert [] t) with (cs_norm t). rewrite cs_insert_In, IH. intuition.
Qed.
