(* Order facts about canonical priorities, and [pnorm] vs [MergePriority::cmp]. *)
From Coq Require Import List ZArith QArith Bool Lia.
From NV Require Import Merge.Algebra.
Close Scope Q_scope.

Lemma pwf_canon q : pwf (PNum q) = true -> Qred q = q.
Proof.
  cbn [pwf]. rewrite andb_true_iff, Z.eqb_eq, Pos.eqb_eq. intros [H1 H2].
  destruct q as [n d], (Qred (n # d)) as [n' d'] eqn:E. cbn [Qnum Qden] in *. congruence.
Qed.

Lemma pcmp_refl p : pcmp p p = Eq.
Proof. destruct p; cbn [pcmp]; try reflexivity. apply Qeq_alt. reflexivity. Qed.

Lemma pcmp_eq p q : pwf p = true -> pwf q = true -> pcmp p q = Eq -> p = q.
Proof.
  destruct p as [|a|], q as [|b|]; cbn [pcmp]; try discriminate; try reflexivity.
  intros Ha Hb H. apply Qeq_alt in H. apply Qred_complete in H.
  rewrite (pwf_canon _ Ha), (pwf_canon _ Hb) in H. now f_equal.
Qed.

Lemma pcmp_opp p q : pcmp q p = CompOpp (pcmp p q).
Proof.
  destruct p as [|a|], q as [|b|]; cbn [pcmp CompOpp]; try reflexivity.
  unfold Qcompare. rewrite Z.compare_antisym. reflexivity.
Qed.

Lemma pcmp_lt_trans p q r : pcmp p q = Lt -> pcmp q r = Lt -> pcmp p r = Lt.
Proof.
  destruct p as [|a|], q as [|b|], r as [|c|]; cbn [pcmp]; try discriminate; try reflexivity.
  rewrite <- !Qlt_alt. apply Qlt_trans.
Qed.

Lemma peqb_true p q : pwf p = true -> pwf q = true -> peqb p q = true -> p = q.
Proof. unfold peqb. intros Hp Hq H. apply pcmp_eq; auto. destruct (pcmp p q); congruence. Qed.

Lemma peqb_refl p : peqb p p = true.
Proof. unfold peqb. now rewrite pcmp_refl. Qed.

(* [pnorm] is faithful to [MergePriority::cmp]: comparing the canonical forms gives the same
   answer as comparing the source priorities. *)
Lemma pnorm_cmp p q : pcmp (pnorm p) (pnorm q) = pcmp_src p q.
Proof.
  destruct p as [| |a|], q as [| |b|]; cbn [pnorm pcmp pcmp_src]; try reflexivity.
  - apply Qcompare_comp; [reflexivity|apply Qred_correct].
  - apply Qcompare_comp; [apply Qred_correct|reflexivity].
  - apply Qcompare_comp; apply Qred_correct.
Qed.

Lemma pnorm_wf p : pwf (pnorm p) = true.
Proof.
  destruct p as [| |a|]; cbn [pnorm pwf]; try reflexivity.
  assert (H : Qred (Qred a) = Qred a) by (apply Qred_complete, Qred_correct).
  rewrite H, Z.eqb_refl, Pos.eqb_refl. reflexivity.
Qed.
