(* The data-merge algebra: an executable reading of doc/manual/merging.md for records of data.

   A tree [D] is what a (non-recursive) Nickel record expression denotes once all merges have been
   pushed down to the leaves.  [DTop] is a *pending conflict*: in the implementation the merge of two
   fields of equal priority is a lazy thunk [v1 & v2], whose failure only surfaces if the field is
   still there, and forced, at export.  Field names are numbers (the generators use a..z), records
   are association lists strictly sorted by key, so the algebra has no notion of insertion order.

   Mirrors (by reading, tied by the correspondence run): core/src/eval/merge.rs [merge],
   [merge_fields]; parser/src/ast/mod.rs [MergePriority]; core/src/term/record.rs
   [iter_serializable]; core/src/eval/operation.rs [Force]. *)
From Coq Require Import List ZArith QArith Bool Lia.
Import ListNotations.
Close Scope Q_scope.
Open Scope bool_scope.

(* ---------------------------------------------------------------- atoms *)
Inductive atom : Type :=
| ANum (num : Z) (den : positive)      (* generators emit reduced fractions *)
| AStr (s : N)                         (* string literals are numbered *)
| ABool (b : bool)
| ANull
| AEnum (tag : N).

Definition atom_eqb (a b : atom) : bool :=
  match a, b with
  | ANum n d, ANum n' d' => Z.eqb n n' && Pos.eqb d d'
  | AStr s, AStr s' => N.eqb s s'
  | ABool x, ABool y => Bool.eqb x y
  | ANull, ANull => true
  | AEnum t, AEnum t' => N.eqb t t'
  | _, _ => false
  end.

(* ---------------------------------------------------------------- priorities
   Source priorities ([sprio]) are the four forms of [MergePriority]; [pcmp_src] is
   [MergePriority::cmp] (Neutral behaves as Numeral 0).  Inside the algebra priorities are kept in
   canonical form ([prio]: no Neutral, reduced fraction), so that "equal priority" is Leibniz
   equality and the laws below are plain equalities. *)
Inductive sprio : Type := SBot | SNeutral | SNum (q : Q) | STop.

Definition pcmp_src (p1 p2 : sprio) : comparison :=
  match p1, p2 with
  | SBot, SBot | STop, STop | SNeutral, SNeutral => Eq
  | SNum a, SNum b => Qcompare a b
  | SBot, _ => Lt
  | _, STop => Lt
  | STop, _ => Gt
  | _, SBot => Gt
  | SNeutral, SNum n => Qcompare 0%Q n
  | SNum n, SNeutral => Qcompare n 0%Q
  end.

Inductive prio : Type := PBot | PNum (q : Q) | PTop.

Definition pnorm (p : sprio) : prio :=
  match p with
  | SBot => PBot
  | SNeutral => PNum 0%Q
  | SNum q => PNum (Qred q)
  | STop => PTop
  end.

Definition pcmp (p1 p2 : prio) : comparison :=
  match p1, p2 with
  | PBot, PBot | PTop, PTop => Eq
  | PNum a, PNum b => Qcompare a b
  | PBot, _ => Lt
  | _, PTop => Lt
  | PTop, _ => Gt
  | _, PBot => Gt
  end.

Definition peqb (p1 p2 : prio) : bool := match pcmp p1 p2 with Eq => true | _ => false end.
Definition pltb (p1 p2 : prio) : bool := match pcmp p1 p2 with Lt => true | _ => false end.
Definition pwf (p : prio) : bool :=
  match p with PNum q => Z.eqb (Qnum (Qred q)) (Qnum q) && Pos.eqb (Qden (Qred q)) (Qden q) | _ => true end.

(* ---------------------------------------------------------------- contracts
   A validating contract is identified by a number; its meaning is a predicate on exported data,
   given by the parameter [sat] of [exportD] (the generators use: 0 Number, 1 String, 2 Bool,
   3 Pos (number > 0), 4 Even, 5 NonEmptyString, ...). *)
Definition cid := N.

(* ---------------------------------------------------------------- trees *)
Inductive D : Type :=
| DAtom (a : atom)
| DVar (tag : N) (arg : D)
| DArr (es : list D)
| DTop
| DRec (fs : list (N * F))
with F : Type :=
| mkF (p : prio) (opt hid : bool) (cs : list cid) (v : option D).

Definition f_prio (f : F) := let 'mkF p _ _ _ _ := f in p.
Definition f_opt (f : F) := let 'mkF _ o _ _ _ := f in o.
Definition f_hid (f : F) := let 'mkF _ _ h _ _ := f in h.
Definition f_cs (f : F) := let 'mkF _ _ _ c _ := f in c.
Definition f_val (f : F) := let 'mkF _ _ _ _ v := f in v.

(* depth, used as fuel *)
Fixpoint depth (d : D) : nat :=
  match d with
  | DAtom _ | DTop => 0
  | DVar _ a => S (depth a)
  | DArr es => S (fold_right (fun e m => Nat.max (depth e) m) 0 es)
  | DRec fs => S (fold_right (fun kf m => Nat.max (match snd kf with mkF _ _ _ _ (Some v) => depth v | _ => 0 end) m) 0 fs)
  end.

(* structural equality of trees (fuelled): what [==] / [contract.Equal] decide on plain data *)
Fixpoint list_eqb {X} (e : X -> X -> bool) (l1 l2 : list X) : bool :=
  match l1, l2 with
  | [], [] => true
  | a :: t, b :: u => e a b && list_eqb e t u
  | _, _ => false
  end.

Definition opt_eqb {X} (e : X -> X -> bool) (a b : option X) : bool :=
  match a, b with
  | None, None => true
  | Some x, Some y => e x y
  | _, _ => false
  end.

Fixpoint D_eqb (n : nat) (a b : D) : bool :=
  match n with
  | 0 => match a, b with
         | DAtom x, DAtom y => atom_eqb x y
         | DTop, DTop => true
         | _, _ => false
         end
  | S n' =>
      match a, b with
      | DAtom x, DAtom y => atom_eqb x y
      | DTop, DTop => true
      | DVar t x, DVar u y => N.eqb t u && D_eqb n' x y
      | DArr l1, DArr l2 => list_eqb (D_eqb n') l1 l2
      | DRec f1, DRec f2 =>
          list_eqb (fun kf1 kf2 => N.eqb (fst kf1) (fst kf2) &&
                                   opt_eqb (D_eqb n') (f_val (snd kf1)) (f_val (snd kf2))) f1 f2
      | _, _ => false
      end
  end.

(* contract sets: strictly increasing lists; union = merge of sorted lists (the model of an ideal
   deduplication: a contract attached twice is applied once) *)
Fixpoint cs_union (c1 : list cid) : list cid -> list cid :=
  fix aux (c2 : list cid) : list cid :=
    match c1, c2 with
    | [], _ => c2
    | _, [] => c1
    | x :: t1, y :: t2 =>
        match N.compare x y with
        | Lt => x :: cs_union t1 c2
        | Gt => y :: aux t2
        | Eq => x :: cs_union t1 t2
        end
    end.

Fixpoint cs_insert (c : cid) (l : list cid) : list cid :=
  match l with
  | [] => [c]
  | x :: t => match N.compare c x with
              | Lt => c :: l
              | Eq => l
              | Gt => x :: cs_insert c t
              end
  end.
Definition cs_norm (l : list cid) : list cid := fold_right cs_insert [] l.

Fixpoint cs_sorted (l : list cid) : bool :=
  match l with
  | [] => true
  | x :: t => match t with [] => true | y :: _ => N.ltb x y && cs_sorted t end
  end.

(* ---------------------------------------------------------------- merge *)
(* merge of two strictly sorted association lists *)
Fixpoint assoc_merge {V} (mf : V -> V -> V) (l1 : list (N * V)) : list (N * V) -> list (N * V) :=
  fix aux (l2 : list (N * V)) : list (N * V) :=
    match l1, l2 with
    | [], _ => l2
    | _, [] => l1
    | (k1, f1) :: t1, (k2, f2) :: t2 =>
        match N.compare k1 k2 with
        | Lt => (k1, f1) :: assoc_merge mf t1 l2
        | Gt => (k2, f2) :: aux t2
        | Eq => (k1, mf f1 f2) :: assoc_merge mf t1 t2
        end
    end.

Section Merge.
Variable mergeD : D -> D -> D.          (* the recursive call, one level down *)

(* [merge_fields]: value and priority selection, metadata combination *)
Definition mergeF (f1 f2 : F) : F :=
  let '(mkF p1 o1 h1 c1 v1) := f1 in
  let '(mkF p2 o2 h2 c2 v2) := f2 in
  let '(v, p) :=
    match v1, v2 with
    | Some t1, Some t2 =>
        if peqb p1 p2 then (Some (mergeD t1 t2), p1)
        else if pltb p2 p1 then (Some t1, p1)
        else (Some t2, p2)
    | Some t1, None => (Some t1, p1)
    | None, Some t2 => (Some t2, p2)
    | None, None => (None, PNum 0%Q)
    end in
  mkF p (o1 && o2) (h1 || h2) (cs_union c1 c2) v.

Definition merge_assoc : list (N * F) -> list (N * F) -> list (N * F) := assoc_merge mergeF.
End Merge.

Fixpoint mergeD_fuel (n : nat) (a b : D) : D :=
  match n with
  | 0 =>
      match a, b with
      | DAtom x, DAtom y => if atom_eqb x y then a else DTop
      | _, _ => DTop
      end
  | S n' =>
      match a, b with
      | DAtom x, DAtom y => if atom_eqb x y then a else DTop
      | DVar t x, DVar u y => if N.eqb t u then DVar t (mergeD_fuel n' x y) else DTop
      | DArr _, DArr _ => if D_eqb n a b then a else DTop
      | DRec f1, DRec f2 => DRec (merge_assoc (mergeD_fuel n') f1 f2)
      | _, _ => DTop
      end
  end.

Definition merge (a b : D) : D := mergeD_fuel (S (Nat.max (depth a) (depth b))) a b.

(* ---------------------------------------------------------------- export *)
Inductive J : Type :=
| JAtom (a : atom)
| JArr (es : list J)
| JObj (fs : list (N * J)).

Inductive errk : Type := ENonMergeable | EMissingDef | EBlame | ENotExportable | EFuel.

Definition errk_eqb (a b : errk) : bool :=
  match a, b with
  | ENonMergeable, ENonMergeable | EMissingDef, EMissingDef | EBlame, EBlame
  | ENotExportable, ENotExportable | EFuel, EFuel => true
  | _, _ => false
  end.

(* result of an export: the tree, or the set of error kinds present in what export forces (the
   implementation reports the first one it meets; which one is first depends on evaluation order,
   so the model only says which kinds are possible: when a contract guards a value whose own export
   fails, the contract may be the one that fails first, hence [EBlame] is added) *)
Definition res := (J + list errk)%type.

Definition add_err (e : errk) (l : list errk) : list errk :=
  if existsb (errk_eqb e) l then l else e :: l.
Definition union_err (l1 l2 : list errk) : list errk := fold_right add_err l2 l1.

(* a pending conflict that is still there at export: unequal atoms / incompatible shapes raise a
   non-mergeable error, unequal arrays a failed equality contract (arrays are merged by applying
   [contract.Equal]) *)
Definition conflict_errs : list errk := [ENonMergeable; EBlame].

Section Export.
Variable sat : cid -> J -> bool.

Fixpoint exportD (n : nat) (d : D) : res :=
  match n with
  | 0 => match d with
         | DAtom a => inl (JAtom a)
         | DTop => inr conflict_errs
         | _ => inr [EFuel]
         end
  | S n' =>
      match d with
      | DAtom a => inl (JAtom a)
      | DTop => inr conflict_errs
      | DVar _ a =>
          (* a variant with an argument is forced, then rejected by the serializer *)
          match exportD n' a with
          | inl _ => inr [ENotExportable]
          | inr e => inr (add_err ENotExportable e)
          end
      | DArr es =>
          fold_right (fun e acc =>
                        match exportD n' e, acc with
                        | inl j, inl (JArr js) => inl (JArr (j :: js))
                        | inl _, inl _ => inr [EFuel]
                        | inl _, inr er => inr er
                        | inr e1, inl _ => inr e1
                        | inr e1, inr e2 => inr (union_err e1 e2)
                        end) (inl (JArr [])) es
      | DRec fs =>
          fold_right (fun kf acc =>
                        let '(k, mkF _ o h cs v) := kf in
                        if h then acc
                        else
                          let r :=
                            match v with
                            | None => if o then None else Some (inr [EMissingDef])
                            | Some d' =>
                                match exportD n' d' with
                                | inl j => if forallb (fun c => sat c j) cs then Some (inl j)
                                           else Some (inr [EBlame])
                                | inr e => Some (inr (match cs with [] => e | _ => add_err EBlame e end))
                                end
                            end in
                          match r, acc with
                          | None, _ => acc
                          | Some (inl j), inl (JObj js) => inl (JObj ((k, j) :: js))
                          | Some (inl _), inl _ => inr [EFuel]
                          | Some (inl _), inr er => inr er
                          | Some (inr e1), inl _ => inr e1
                          | Some (inr e1), inr e2 => inr (union_err e1 e2)
                          end) (inl (JObj [])) fs
      end
  end.

Definition export (d : D) : res := exportD (S (depth d)) d.
End Export.

(* ---------------------------------------------------------------- well-formedness *)
Fixpoint sorted_keys (l : list (N * F)) : bool :=
  match l with
  | [] => true
  | (k1, _) :: t =>
      match t with
      | [] => true
      | (k2, _) :: _ => N.ltb k1 k2 && sorted_keys t
      end
  end.

(* plain data: what may sit inside an array (no metadata, no pending conflict) *)
Definition plainF (pl : D -> bool) (f : F) : bool :=
  match f with
  | mkF (PNum q) false false [] (Some v) => Z.eqb (Qnum q) 0 && Pos.eqb (Qden q) 1 && pl v
  | _ => false
  end.

Fixpoint plainD (n : nat) (d : D) : bool :=
  match n with
  | 0 => match d with DAtom _ => true | _ => false end
  | S n' =>
      match d with
      | DAtom _ => true
      | DTop => false
      | DVar _ a => plainD n' a
      | DArr es => forallb (plainD n') es
      | DRec fs => sorted_keys fs && forallb (fun kf => plainF (plainD n') (snd kf)) fs
      end
  end.

Fixpoint wfD (n : nat) (d : D) : bool :=
  match n with
  | 0 => match d with DAtom _ | DTop => true | _ => false end
  | S n' =>
      match d with
      | DAtom _ | DTop => true
      | DVar _ a => wfD n' a
      | DArr es => forallb (plainD n') es
      | DRec fs => sorted_keys fs &&
                   forallb (fun kf => pwf (f_prio (snd kf)) && cs_sorted (f_cs (snd kf)) &&
                                      match f_val (snd kf) with
                                      | Some v => wfD n' v
                                      | None => match f_prio (snd kf) with
                                                | PNum q => Z.eqb (Qnum q) 0 && Pos.eqb (Qden q) 1
                                                | _ => false end
                                      end) fs
      end
  end.

Definition wf (d : D) : bool := wfD (S (depth d)) d.

(* ---------------------------------------------------------------- source expressions
   What the generators emit and the Gallina printer prints as Nickel source.  A record literal lists
   its fields in *written* order; [elab] sorts them (insertion into the sorted list), which is where
   definition order disappears.  Two fields with the same name in one literal are a piecewise
   definition, i.e. a merge. *)
Inductive expr : Type :=
| EAtom (a : atom)
| EVar (tag : N) (arg : expr)
| EArr (es : list expr)
| ERec (fs : list (N * sprio * bool * bool * list cid * option expr))
| EMerge (a b : expr).

Fixpoint insert_field (k : N) (f : F) (l : list (N * F)) : list (N * F) :=
  match l with
  | [] => [(k, f)]
  | (k', f') :: t =>
      match N.compare k k' with
      | Lt => (k, f) :: l
      | Eq => (k, mergeF merge f' f) :: t
      | Gt => (k', f') :: insert_field k f t
      end
  end.

Fixpoint elab (e : expr) : D :=
  match e with
  | EAtom a => DAtom a
  | EVar t a => DVar t (elab a)
  | EArr es => DArr (map elab es)
  | ERec fs =>
      DRec (fold_left (fun acc x =>
                         let '(k, p, o, h, cs, v) := x in
                         insert_field k (mkF (match v with None => PNum 0%Q | Some _ => pnorm p end) o h (cs_norm cs)
                                         (option_map elab v)) acc) fs [])
  | EMerge a b => merge (elab a) (elab b)
  end.
