(* Model of [==] on data, /repo/core/src/eval/operation.rs: eq() and BinaryOp::Eq.

   [eq1] is one call of eq(): it either answers with a boolean or returns a non-empty list of
   sub-equalities (EqResult::Eqs: the first one to be evaluated next, the others to be pushed on
   the evaluation stack).  [run] is the loop that BinaryOp::Eq and the stack implement
   (pop_eq / push_eqs / clear_eqs).  [eqb] is the plain structural recursion the stack
   algorithm is meant to compute; [canon] is the exported tree (numbers in lowest terms, record
   fields sorted by key, as serializers and the harness print them). *)
From Coq Require Import ZArith QArith Qreduction List String Bool.
From NV Require Import Arith.Num Arith.Expr.
Import ListNotations.
Open Scope string_scope.
Open Scope nat_scope.

Inductive dv :=
| DNull
| DBool (b : bool)
| DNum (q : Q)
| DStr (s : string)
| DEnum (tag : string)
| DVariant (tag : string) (arg : dv)
| DArr (l : list dv)
| DRec (fs : list (string * dv)).

(* ---- the structural recursion *)
Fixpoint dv_eqb (a b : dv) {struct a} : bool :=
  match a, b with
  | DNull, DNull => true
  | DBool x, DBool y => Bool.eqb x y
  | DNum p, DNum q => neqb p q
  | DStr s, DStr t => String.eqb s t
  | DEnum s, DEnum t => String.eqb s t
  | DVariant s x, DVariant t y => String.eqb s t && dv_eqb x y
  | DArr l, DArr m =>
      (fix go (l m : list dv) {struct l} : bool :=
         match l, m with
         | [], [] => true
         | x :: l', y :: m' => dv_eqb x y && go l' m'
         | _, _ => false
         end) l m
  | DRec f, DRec g =>
      (fix go (f : list (string * dv)) {struct f} : bool :=
         match f with
         | [] => true
         | (k, v) :: f' =>
             match lookup k g with
             | Some w => dv_eqb v w && go f'
             | None => false
             end
         end) f
      && forallb (fun kv => match lookup (fst kv) f with Some _ => true | None => false end) g
  | _, _ => false
  end.

(* ---- one call of eq() *)
Inductive eqres :=
| RBool (b : bool)
| REqs (first : dv * dv) (rest : list (dv * dv)).

Definition has_key {A} (k : string) (l : list (string * A)) : bool :=
  match lookup k l with Some _ => true | None => false end.

(* merge::split::split_ref: the centre is listed in the order of the second map when the first
   one is strictly smaller, in the order of the first map otherwise *)
Fixpoint center (f g : list (string * dv)) : list (dv * dv) :=
  match f with
  | [] => []
  | (k, v) :: f' =>
      match lookup k g with
      | Some w => (v, w) :: center f' g
      | None => center f' g
      end
  end.

Definition swap_pairs (l : list (dv * dv)) : list (dv * dv) := map (fun p => (snd p, fst p)) l.

Definition split_center (f g : list (string * dv)) : list (dv * dv) :=
  if Nat.ltb (List.length f) (List.length g) then swap_pairs (center g f) else center f g.

Definition gen_eqs (l : list (dv * dv)) : eqres :=
  match l with
  | [] => RBool true
  | p :: rest => REqs p rest
  end.

Definition eq1 (a b : dv) : eqres :=
  match a, b with
  | DNull, DNull => RBool true
  | DBool x, DBool y => RBool (Bool.eqb x y)
  | DNum p, DNum q => RBool (neqb p q)
  | DStr s, DStr t => RBool (String.eqb s t)
  | DEnum s, DEnum t => RBool (String.eqb s t)
  | DVariant s x, DVariant t y => if String.eqb s t then gen_eqs [(x, y)] else RBool false
  | DRec f, DRec g =>
      (* left and right parts of the split must be empty (data: no empty optional fields) *)
      if forallb (fun kv => has_key (fst kv) g) f && forallb (fun kv => has_key (fst kv) f) g
      then gen_eqs (split_center f g)
      else RBool false
  | DArr l, DArr m =>
      if Nat.eqb (List.length l) (List.length m) then
        (* [eqs.pop()]: the LAST pair is evaluated first, the others are pushed in order *)
        match rev (combine l m) with
        | [] => RBool true
        | p :: before => REqs p (rev before)
        end
      else RBool false
  | _, _ => RBool false
  end.

(* ---- BinaryOp::Eq + the Eq items of the stack.  [stack]: head = top of the stack. *)
Fixpoint run (fuel : nat) (cur : dv * dv) (stack : list (dv * dv)) : option bool :=
  match fuel with
  | O => None
  | S n =>
      match eq1 (fst cur) (snd cur) with
      | RBool false => Some false                      (* clear_eqs *)
      | RBool true =>
          match stack with
          | [] => Some true
          | p :: st => run n p st                       (* pop_eq *)
          end
      | REqs p rest => run n p (rev rest ++ stack)      (* push_eqs pushes [rest] in order *)
      end
  end.

Fixpoint size (d : dv) : nat :=
  match d with
  | DVariant _ x => S (size x)
  | DArr l => S (fold_right (fun x n => size x + n) 0 l)
  | DRec f => S (fold_right (fun kv n => size (snd kv) + n) 0 f)
  | _ => 1
  end.

Definition eq_machine (a b : dv) : option bool := run (S (size a + size b)) (a, b) [].

(* ---- well-formed data: record keys are pairwise distinct, at every depth *)
Fixpoint nodupb (l : list string) : bool :=
  match l with
  | [] => true
  | x :: t => negb (existsb (String.eqb x) t) && nodupb t
  end.

Fixpoint wf (d : dv) : bool :=
  match d with
  | DVariant _ x => wf x
  | DArr l => forallb wf l
  | DRec f => nodupb (map fst f) && forallb (fun kv => wf (snd kv)) f
  | _ => true
  end.

(* ---- exported form *)
Inductive tree :=
| TNull
| TBool (b : bool)
| TNum (n : Z) (d : positive)
| TStr (s : string)
| TEnum (tag : string)
| TVariant (tag : string) (arg : tree)
| TArr (l : list tree)
| TObj (fs : list (string * tree)).

Definition str_ltb (s t : string) : bool :=
  match String.compare s t with Lt => true | _ => false end.

Fixpoint insert_kv {A} (k : string) (v : A) (l : list (string * A)) : list (string * A) :=
  match l with
  | [] => [(k, v)]
  | (k', v') :: t => if str_ltb k' k then (k', v') :: insert_kv k v t else (k, v) :: l
  end.

Definition sort_kv {A} (l : list (string * A)) : list (string * A) :=
  fold_right (fun kv acc => insert_kv (fst kv) (snd kv) acc) [] l.

(* the canonical tree the harness prints (evaluation mode "full": enum tags and variants are
   kept apart from strings) *)
Fixpoint canon (d : dv) : tree :=
  match d with
  | DNull => TNull
  | DBool b => TBool b
  | DNum q => let r := Qred q in TNum (Qnum r) (Qden r)
  | DStr s => TStr s
  | DEnum t => TEnum t
  | DVariant t x => TVariant t (canon x)
  | DArr l => TArr (map canon l)
  | DRec f => TObj (sort_kv (map (fun kv => (fst kv, canon (snd kv))) f))
  end.

(* what a serializer sees (JSON/YAML/TOML): an enum tag is written as a string, an enum variant
   cannot be exported *)
Fixpoint export (d : dv) : option tree :=
  match d with
  | DNull => Some TNull
  | DBool b => Some (TBool b)
  | DNum q => let r := Qred q in Some (TNum (Qnum r) (Qden r))
  | DStr s => Some (TStr s)
  | DEnum t => Some (TStr t)
  | DVariant _ _ => None
  | DArr l =>
      option_map TArr
        (fold_right (fun x acc => match export x, acc with
                                  | Some t, Some ts => Some (t :: ts)
                                  | _, _ => None end) (Some []) l)
  | DRec f =>
      option_map (fun l => TObj (sort_kv l))
        (fold_right (fun kv acc => match export (snd kv), acc with
                                   | Some t, Some ts => Some ((fst kv, t) :: ts)
                                   | _, _ => None end) (Some []) f)
  end.

Fixpoint enum_free (d : dv) : bool :=
  match d with
  | DEnum _ => false
  | DVariant _ _ => false
  | DArr l => forallb enum_free l
  | DRec f => forallb (fun kv => enum_free (snd kv)) f
  | _ => true
  end.
