(* Proofs about Arith/Num.v: truncation, modulo. *)
From Coq Require Import ZArith QArith Qround Qreduction Qpower Qabs List Lia Lqa.
From NV Require Import Arith.Num.
Open Scope Q_scope.

Lemma trunc_floor_ceil q : trunc q = if (Qnum q <? 0)%Z then Qceiling q else Qfloor q.
Proof.
  destruct q as [n d]. unfold trunc, Qceiling, Qfloor. cbn [Qnum Qden Qopp].
  destruct (Z.ltb_spec n 0).
  - rewrite <- (Z.opp_involutive n) at 1. rewrite Z.quot_opp_l by discriminate.
    rewrite Z.quot_div_nonneg by lia. reflexivity.
  - rewrite Z.quot_div_nonneg by lia. reflexivity.
Qed.

Lemma Qnum_neg_iff q : (Qnum q < 0)%Z <-> q < 0.
Proof. destruct q as [n d]. unfold Qlt. cbn. lia. Qed.

Lemma trunc_proper p q : p == q -> trunc p = trunc q.
Proof.
  intros E. rewrite !trunc_floor_ceil.
  assert (H : (Qnum p <? 0)%Z = (Qnum q <? 0)%Z).
  { destruct (Z.ltb_spec (Qnum p) 0) as [H|H], (Z.ltb_spec (Qnum q) 0) as [H'|H']; try reflexivity; exfalso.
    - apply Qnum_neg_iff in H. rewrite E in H. apply Qnum_neg_iff in H. lia.
    - apply Qnum_neg_iff in H'. rewrite <- E in H'. apply Qnum_neg_iff in H'. lia. }
  rewrite H. destruct (Qnum q <? 0)%Z; [apply Qceiling_comp|apply Qfloor_comp]; exact E.
Qed.

Lemma trunc_nonneg x : 0 <= x -> inject_Z (trunc x) <= x /\ x < inject_Z (trunc x) + 1 /\ (0 <= trunc x)%Z.
Proof.
  intros H. rewrite trunc_floor_ceil.
  assert (~ (Qnum x < 0)%Z) by (rewrite Qnum_neg_iff; lra).
  destruct (Z.ltb_spec (Qnum x) 0); [lia|].
  split; [apply Qfloor_le|]. split.
  - pose proof (Qlt_floor x) as L. rewrite inject_Z_plus in L. exact L.
  - change 0%Z with (Qfloor 0). apply Qfloor_resp_le. exact H.
Qed.

Lemma trunc_neg x : x < 0 -> x <= inject_Z (trunc x) /\ inject_Z (trunc x) - 1 < x /\ (trunc x <= 0)%Z.
Proof.
  intros H. rewrite trunc_floor_ceil.
  assert (Qnum x < 0)%Z by (rewrite Qnum_neg_iff; lra).
  destruct (Z.ltb_spec (Qnum x) 0); [|lia].
  split; [apply Qle_ceiling|]. split.
  - pose proof (Qceiling_lt x) as L. unfold Z.sub in L. rewrite inject_Z_plus in L.
    change (inject_Z (- (1))) with (- (1)) in L. lra.
  - change 0%Z with (Qceiling 0). apply Qceiling_resp_le. lra.
Qed.
Lemma qzero_iff q : qzero q = true <-> q == 0.
Proof. destruct q as [n d]. unfold qzero, Qeq. cbn. rewrite Z.eqb_eq. lia. Qed.

Lemma qzero_false q : qzero q = false <-> ~ q == 0.
Proof. rewrite <- qzero_iff. destruct (qzero q); intuition congruence. Qed.

(* bounds of the fractional part left by truncation *)
Lemma trunc_frac x :
  let f := x - inject_Z (trunc x) in
  (0 <= x -> 0 <= f /\ f < 1) /\ (x <= 0 -> -(1) < f /\ f <= 0).
Proof.
  cbv zeta. split; intros H.
  - destruct (trunc_nonneg x H) as (A & B & _). lra.
  - destruct (Qlt_le_dec x 0) as [L|L].
    + destruct (trunc_neg x L) as (A & B & _). lra.
    + destruct (trunc_nonneg x L) as (A & B & C).
      assert (E : x == 0) by lra.
      assert (T : trunc x = 0%Z).
      { rewrite (trunc_proper _ _ E). reflexivity. }
      rewrite T. change (inject_Z 0) with 0. lra.
Qed.

Definition nmod_val (a b : Q) : Q := a - inject_Z (trunc (a / b)) * b.

Lemma nmod_val_spec a b : ~ b == 0 ->
  let r := nmod_val a b in
  a == inject_Z (trunc (a / b)) * b + r
  /\ Qabs r < Qabs b
  /\ (0 <= a -> 0 <= r) /\ (a <= 0 -> r <= 0).
Proof.
  intros Hb. cbv zeta. unfold nmod_val.
  set (x := a / b). set (t := inject_Z (trunc x)).
  assert (Ea : a == x * b) by (unfold x; field; exact Hb).
  pose proof (trunc_frac x) as [F1 F2]. cbv zeta in F1, F2. fold t in F1, F2.
  split; [ring|].
  assert (Er : a - t * b == (x - t) * b) by (rewrite Ea at 1; ring).
  set (f := x - t) in *.
  destruct (Qlt_le_dec 0 b) as [Bp|Bn].
  - rewrite (Qabs_pos b) by lra.
    destruct (Qlt_le_dec x 0) as [Xn|Xp].
    + destruct (F2 (Qlt_le_weak _ _ Xn)) as [G1 G2].
      assert (a < 0) by nra.
      split; [apply Qabs_Qlt_condition; split; nra|]. split; intros; nra.
    + destruct (F1 Xp) as [G1 G2].
      assert (0 <= a) by nra.
      split; [apply Qabs_Qlt_condition; split; nra|]. split; intros; try nra.
  - assert (Bn' : b < 0) by (destruct (Qeq_dec b 0); [contradiction|lra]).
    rewrite (Qabs_neg b) by lra.
    destruct (Qlt_le_dec x 0) as [Xn|Xp].
    + destruct (F2 (Qlt_le_weak _ _ Xn)) as [G1 G2].
      assert (0 < a) by nra.
      split; [apply Qabs_Qlt_condition; split; nra|]. split; intros; nra.
    + destruct (F1 Xp) as [G1 G2].
      assert (a <= 0) by nra.
      split; [apply Qabs_Qlt_condition; split; nra|]. split; intros; try nra.
Qed.

Theorem modulo_spec a b : ~ b == 0 ->
  exists r, nmod a b = Ok r
    /\ a == inject_Z (trunc (a / b)) * b + r
    /\ Qabs r < Qabs b
    /\ (0 <= a -> 0 <= r) /\ (a <= 0 -> r <= 0).
Proof.
  intros Hb. exists (Qred (nmod_val a b)). split.
  - unfold nmod. apply qzero_false in Hb. rewrite Hb. reflexivity.
  - rewrite (Qred_correct (nmod_val a b)). exact (nmod_val_spec a b Hb).
Qed.

Theorem modulo_zero a b : b == 0 -> nmod a b = Err DivByZero.
Proof. intros H. unfold nmod. apply qzero_iff in H. rewrite H. reflexivity. Qed.

Example modulo_spec_nonvacuous : ~ (-(3) # 2) == 0 /\ nmod (7 # 2) (-(3) # 2) = Ok (1 # 2).
Proof. split; [discriminate|reflexivity]. Qed.
