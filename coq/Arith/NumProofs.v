(* Proofs about Arith/Num.v: truncation, modulo. *)
From Coq Require Import ZArith NArith Nnat Znat QArith Qround Qreduction Qpower Qabs List Lia Lqa.
Import ListNotations.
From NV Require Import Arith.Num.
Open Scope Q_scope.

Lemma trunc_floor_ceil q : trunc q = if (Qnum q <? 0)%Z then Qceiling q else Qfloor q.
Proof.
  destruct q as [n d]. unfold trunc, Qceiling, Qfloor. cbn [Qnum Qden Qopp].
  destruct (Z.ltb_spec n 0).
  - rewrite <- (Z.opp_involutive n) at 1. rewrite Z.quot_opp_l by discriminate.
    rewrite Z.quot_div_nonneg by lia. reflexivity.
  - rewrite Z.quot_div_nonneg by lia. reflexivity.
Qed.

Lemma Qnum_neg_iff q : (Qnum q < 0)%Z <-> q < 0.
Proof. destruct q as [n d]. unfold Qlt. cbn. lia. Qed.

Lemma trunc_proper p q : p == q -> trunc p = trunc q.
Proof.
  intros E. rewrite !trunc_floor_ceil.
  assert (H : (Qnum p <? 0)%Z = (Qnum q <? 0)%Z).
  { destruct (Z.ltb_spec (Qnum p) 0) as [H|H], (Z.ltb_spec (Qnum q) 0) as [H'|H']; try reflexivity; exfalso.
    - apply Qnum_neg_iff in H. rewrite E in H. apply Qnum_neg_iff in H. lia.
    - apply Qnum_neg_iff in H'. rewrite <- E in H'. apply Qnum_neg_iff in H'. lia. }
  rewrite H. destruct (Qnum q <? 0)%Z; [apply Qceiling_comp|apply Qfloor_comp]; exact E.
Qed.

Lemma trunc_nonneg x : 0 <= x -> inject_Z (trunc x) <= x /\ x < inject_Z (trunc x) + 1 /\ (0 <= trunc x)%Z.
Proof.
  intros H. rewrite trunc_floor_ceil.
  assert (~ (Qnum x < 0)%Z) by (rewrite Qnum_neg_iff; lra).
  destruct (Z.ltb_spec (Qnum x) 0); [lia|].
  split; [apply Qfloor_le|]. split.
  - pose proof (Qlt_floor x) as L. rewrite inject_Z_plus in L. exact L.
  - change 0%Z with (Qfloor 0). apply Qfloor_resp_le. exact H.
Qed.

Lemma trunc_neg x : x < 0 -> x <= inject_Z (trunc x) /\ inject_Z (trunc x) - 1 < x /\ (trunc x <= 0)%Z.
Proof.
  intros H. rewrite trunc_floor_ceil.
  assert (Qnum x < 0)%Z by (rewrite Qnum_neg_iff; lra).
  destruct (Z.ltb_spec (Qnum x) 0); [|lia].
  split; [apply Qle_ceiling|]. split.
  - pose proof (Qceiling_lt x) as L. unfold Z.sub in L. rewrite inject_Z_plus in L.
    change (inject_Z (- (1))) with (- (1)) in L. lra.
  - change 0%Z with (Qceiling 0). apply Qceiling_resp_le. lra.
Qed.
Lemma qzero_iff q : qzero q = true <-> q == 0.
Proof. destruct q as [n d]. unfold qzero, Qeq. cbn. rewrite Z.eqb_eq. lia. Qed.

Lemma qzero_false q : qzero q = false <-> ~ q == 0.
Proof. rewrite <- qzero_iff. destruct (qzero q); intuition congruence. Qed.

(* bounds of the fractional part left by truncation *)
Lemma trunc_frac x :
  let f := x - inject_Z (trunc x) in
  (0 <= x -> 0 <= f /\ f < 1) /\ (x <= 0 -> -(1) < f /\ f <= 0).
Proof.
  cbv zeta. split; intros H.
  - destruct (trunc_nonneg x H) as (A & B & _). lra.
  - destruct (Qlt_le_dec x 0) as [L|L].
    + destruct (trunc_neg x L) as (A & B & _). lra.
    + destruct (trunc_nonneg x L) as (A & B & C).
      assert (E : x == 0) by lra.
      assert (T : trunc x = 0%Z).
      { rewrite (trunc_proper _ _ E). reflexivity. }
      rewrite T. change (inject_Z 0) with 0. lra.
Qed.

Definition nmod_val (a b : Q) : Q := a - inject_Z (trunc (a / b)) * b.

Lemma nmod_val_spec a b : ~ b == 0 ->
  let r := nmod_val a b in
  a == inject_Z (trunc (a / b)) * b + r
  /\ Qabs r < Qabs b
  /\ (0 <= a -> 0 <= r) /\ (a <= 0 -> r <= 0).
Proof.
  intros Hb. cbv zeta. unfold nmod_val.
  set (x := a / b). set (t := inject_Z (trunc x)).
  assert (Ea : a == x * b) by (unfold x; field; exact Hb).
  pose proof (trunc_frac x) as [F1 F2]. cbv zeta in F1, F2. fold t in F1, F2.
  split; [ring|].
  assert (Er : a - t * b == (x - t) * b) by (rewrite Ea at 1; ring).
  set (f := x - t) in *.
  destruct (Qlt_le_dec 0 b) as [Bp|Bn].
  - rewrite (Qabs_pos b) by lra.
    destruct (Qlt_le_dec x 0) as [Xn|Xp].
    + destruct (F2 (Qlt_le_weak _ _ Xn)) as [G1 G2].
      assert (a < 0) by nra.
      split; [apply Qabs_Qlt_condition; split; nra|]. split; intros; nra.
    + destruct (F1 Xp) as [G1 G2].
      assert (0 <= a) by nra.
      split; [apply Qabs_Qlt_condition; split; nra|]. split; intros; try nra.
  - assert (Bn' : b < 0) by (destruct (Qeq_dec b 0); [contradiction|lra]).
    rewrite (Qabs_neg b) by lra.
    destruct (Qlt_le_dec x 0) as [Xn|Xp].
    + destruct (F2 (Qlt_le_weak _ _ Xn)) as [G1 G2].
      assert (0 < a) by nra.
      split; [apply Qabs_Qlt_condition; split; nra|]. split; intros; nra.
    + destruct (F1 Xp) as [G1 G2].
      assert (a <= 0) by nra.
      split; [apply Qabs_Qlt_condition; split; nra|]. split; intros; try nra.
Qed.

Theorem modulo_spec a b : ~ b == 0 ->
  exists r, nmod a b = Ok r
    /\ a == inject_Z (trunc (a / b)) * b + r
    /\ Qabs r < Qabs b
    /\ (0 <= a -> 0 <= r) /\ (a <= 0 -> r <= 0).
Proof.
  intros Hb. exists (Qred (nmod_val a b)). split.
  - unfold nmod. apply qzero_false in Hb. rewrite Hb. reflexivity.
  - rewrite (Qred_correct (nmod_val a b)). exact (nmod_val_spec a b Hb).
Qed.

Theorem modulo_zero a b : b == 0 -> nmod a b = Err DivByZero.
Proof. intros H. unfold nmod. apply qzero_iff in H. rewrite H. reflexivity. Qed.

Example modulo_spec_nonvacuous : ~ (-(3) # 2) == 0 /\ nmod (7 # 2) (-(3) # 2) = Ok (1 # 2).
Proof. split; [discriminate|reflexivity]. Qed.

(* ---------- canonical representatives *)
Lemma Qred_inject_Z n : Qred (inject_Z n) = inject_Z n.
Proof.
  unfold Qred, inject_Z.
  pose proof (Z.ggcd_gcd n 1) as G. pose proof (Z.ggcd_correct_divisors n 1) as D.
  destruct (Z.ggcd n 1) as [g [aa bb]]. cbn [fst snd] in *.
  rewrite Z.gcd_1_r in G. subst g. destruct D as [D1 D2].
  assert (A : aa = n) by lia. assert (B : bb = 1%Z) by lia. rewrite A, B. reflexivity.
Qed.

Theorem ops_canonical a b :
  Qred (nadd a b) = nadd a b /\ Qred (nsub a b) = nsub a b /\ Qred (nmul a b) = nmul a b.
Proof. unfold nadd, nsub, nmul. repeat split; apply Qred_complete, Qred_correct. Qed.

(* the operators do not depend on the representative of their operands *)
Theorem ops_proper a a' b b' : a == a' -> b == b' ->
  nadd a b = nadd a' b' /\ nsub a b = nsub a' b' /\ nmul a b = nmul a' b'
  /\ ndiv a b = ndiv a' b' /\ nmod a b = nmod a' b'.
Proof.
  intros Ea Eb. unfold nadd, nsub, nmul, ndiv, nmod.
  assert (Z : qzero b = qzero b').
  { destruct (qzero b) eqn:Z1, (qzero b') eqn:Z2; try reflexivity.
    - apply qzero_iff in Z1. apply qzero_false in Z2. exfalso. apply Z2. rewrite <- Eb. exact Z1.
    - apply qzero_iff in Z2. apply qzero_false in Z1. exfalso. apply Z1. rewrite Eb. exact Z2. }
  repeat split; try (apply Qred_complete; rewrite Ea, Eb; reflexivity).
  - rewrite Z. destruct (qzero b'); [reflexivity|]. f_equal. apply Qred_complete. rewrite Ea, Eb. reflexivity.
  - rewrite Z. destruct (qzero b'); [reflexivity|]. f_equal. apply Qred_complete.
    rewrite (trunc_proper (a / b) (a' / b')) by (rewrite Ea, Eb; reflexivity). rewrite Ea, Eb. reflexivity.
Qed.

(* ---------- field laws, on the canonical results the model computes *)
Ltac canon := unfold nadd, nsub, nmul; apply Qred_complete; rewrite ?Qred_correct.

Theorem nadd_comm a b : nadd a b = nadd b a.            Proof. canon. ring. Qed.
Theorem nadd_assoc a b c : nadd (nadd a b) c = nadd a (nadd b c). Proof. canon. ring. Qed.
Theorem nadd_0_l a : nadd 0 a = Qred a.                  Proof. canon. ring. Qed.
Theorem nsub_diag a : nsub a a = 0.
Proof. unfold nsub. rewrite (Qred_complete (a - a) 0) by ring. reflexivity. Qed.
Theorem nsub_nadd a b : nadd (nsub a b) b = Qred a.      Proof. canon. ring. Qed.
Theorem nmul_comm a b : nmul a b = nmul b a.            Proof. canon. ring. Qed.
Theorem nmul_assoc a b c : nmul (nmul a b) c = nmul a (nmul b c). Proof. canon. ring. Qed.
Theorem nmul_1_l a : nmul 1 a = Qred a.                  Proof. canon. ring. Qed.
Theorem nmul_nadd_distr a b c : nmul a (nadd b c) = nadd (nmul a b) (nmul a c). Proof. canon. ring. Qed.

Theorem ndiv_spec a b : ~ b == 0 -> exists q, ndiv a b = Ok q /\ nmul q b = Qred a.
Proof.
  intros Hb. exists (Qred (a / b)). split.
  - unfold ndiv. apply qzero_false in Hb. rewrite Hb. reflexivity.
  - canon. field. exact Hb.
Qed.

Theorem ndiv_zero a b : b == 0 -> ndiv a b = Err DivByZero.
Proof. intros H. unfold ndiv. apply qzero_iff in H. rewrite H. reflexivity. Qed.

Example ndiv_spec_nonvacuous : ~ (3 # 1) == 0 /\ ndiv 1 (3 # 1) = Ok (1 # 3) /\ nmul (1 # 3) (3 # 1) = 1.
Proof. split; [discriminate|split; reflexivity]. Qed.

(* no floating-point drift *)
Example exact_tenths : neqb (nadd (1 # 10) (2 # 10)) (3 # 10) = true.
Proof. reflexivity. Qed.

(* ---------- comparisons *)
Lemma nlt_iff a b : nlt a b = true <-> a < b.
Proof. unfold nlt. destruct (Qcompare_spec a b); split; intros; try discriminate; try reflexivity; lra. Qed.
Lemma nle_iff a b : nle a b = true <-> a <= b.
Proof. unfold nle. destruct (Qcompare_spec a b); split; intros; try discriminate; try reflexivity; lra. Qed.
Lemma ngt_iff a b : ngt a b = true <-> b < a.
Proof. unfold ngt. destruct (Qcompare_spec a b); split; intros; try discriminate; try reflexivity; lra. Qed.
Lemma nge_iff a b : nge a b = true <-> b <= a.
Proof. unfold nge. destruct (Qcompare_spec a b); split; intros; try discriminate; try reflexivity; lra. Qed.
Lemma neqb_iff a b : neqb a b = true <-> a == b.
Proof. apply Qeq_bool_iff. Qed.

Theorem cmp_trichotomy a b :
  (nlt a b = true /\ neqb a b = false /\ ngt a b = false)
  \/ (nlt a b = false /\ neqb a b = true /\ ngt a b = false)
  \/ (nlt a b = false /\ neqb a b = false /\ ngt a b = true).
Proof.
  assert (Hq : forall x, x = true \/ x = false) by (intros []; auto).
  pose proof (nlt_iff a b). pose proof (ngt_iff a b). pose proof (neqb_iff a b).
  destruct (Qcompare_spec a b) as [E|L|G].
  - right; left. repeat split; [destruct (nlt a b) eqn:X; [|reflexivity]|tauto|destruct (ngt a b) eqn:X; [|reflexivity]]; exfalso; intuition lra.
  - left. repeat split; [tauto|destruct (neqb a b) eqn:X; [|reflexivity]|destruct (ngt a b) eqn:X; [|reflexivity]]; exfalso; intuition lra.
  - right; right. repeat split; [destruct (nlt a b) eqn:X; [|reflexivity]|destruct (neqb a b) eqn:X; [|reflexivity]|tauto]; exfalso; intuition lra.
Qed.

Theorem cmp_duality a b :
  nlt a b = ngt b a /\ nle a b = nge b a /\ nle a b = negb (ngt a b) /\ nge a b = negb (nlt a b)
  /\ nle a b = (nlt a b || neqb a b)%bool.
Proof.
  unfold nlt, ngt, nle, nge, neqb. rewrite <- (Qcompare_antisym a b).
  pose proof (Qeq_bool_iff a b) as E.
  destruct (Qcompare_spec a b) as [H|H|H]; cbn; repeat split; try reflexivity;
    try (symmetry; apply Qeq_bool_iff; exact H);
    try (destruct (Qeq_bool a b) eqn:X; [|reflexivity]; exfalso; apply Qeq_bool_iff in X; lra).
Qed.

Theorem nlt_irrefl a : nlt a a = false.
Proof. destruct (nlt a a) eqn:X; [|reflexivity]. apply nlt_iff in X. lra. Qed.
Theorem nlt_trans a b c : nlt a b = true -> nlt b c = true -> nlt a c = true.
Proof. rewrite !nlt_iff. lra. Qed.
Theorem nle_antisym a b : nle a b = true -> nle b a = true -> neqb a b = true.
Proof. rewrite !nle_iff, neqb_iff. lra. Qed.
Theorem nle_total a b : nle a b = true \/ nle b a = true.
Proof. rewrite !nle_iff. lra. Qed.
Theorem nlt_nadd_compat a b c : nlt a b = nlt (nadd a c) (nadd b c).
Proof.
  apply Bool.eq_true_iff_eq. rewrite !nlt_iff. unfold nadd. rewrite Qred_lt. lra.
Qed.
Theorem nlt_nmul_compat a b c : 0 < c -> nlt a b = nlt (nmul a c) (nmul b c).
Proof.
  intros Hc. apply Bool.eq_true_iff_eq. rewrite !nlt_iff. unfold nmul. rewrite Qred_lt. split; intros; nra.
Qed.
Example nlt_nmul_compat_nonvacuous : 0 < (2 # 3) /\ nlt (-(1) # 2) (1 # 3) = true.
Proof. split; reflexivity. Qed.
(* comparisons do not depend on the representative either *)
Theorem cmp_proper a a' b b' : a == a' -> b == b' ->
  nlt a b = nlt a' b' /\ nle a b = nle a' b' /\ neqb a b = neqb a' b'.
Proof.
  intros Ea Eb. repeat split; apply Bool.eq_true_iff_eq; rewrite ?nlt_iff, ?nle_iff, ?neqb_iff, Ea, Eb; reflexivity.
Qed.

(* ---------- integer powers *)
Lemma as_i64_inject n : fits_i64 n = true -> as_i64 (inject_Z n) = Some n.
Proof. intros F. unfold as_i64. rewrite Qred_inject_Z. cbn. rewrite F. reflexivity. Qed.

Lemma as_i64_some q n : as_i64 q = Some n -> q == inject_Z n /\ fits_i64 n = true.
Proof.
  unfold as_i64. destruct (Pos.eqb_spec (Qden (Qred q)) 1) as [D|D]; [|discriminate].
  destruct (fits_i64 (Qnum (Qred q))) eqn:F; [|discriminate]. intros [= <-]. split; [|exact F].
  rewrite <- (Qred_correct q) at 1. destruct (Qred q) as [m d]. cbn in *. subst d. reflexivity.
Qed.

Lemma npow_int a n : fits_i64 n = true ->
  npow a (inject_Z n) = if (Z.ltb n 0 && qzero a)%bool then Err DivByZero else Ok (Qred (a ^ n)).
Proof. intros F. unfold npow. rewrite (as_i64_inject n F). reflexivity. Qed.

Lemma npow_ok a n x : fits_i64 n = true -> npow a (inject_Z n) = Ok x ->
  x = Qred (a ^ n) /\ (a == 0 -> (0 <= n)%Z).
Proof.
  intros F. rewrite (npow_int a n F).
  destruct (Z.ltb_spec n 0) as [L|L]; cbn [andb].
  - destruct (qzero a) eqn:Z; [discriminate|]. intros [= <-]. split; [reflexivity|].
    intros E. apply qzero_false in Z. contradiction.
  - intros [= <-]. split; [reflexivity|]. intros _. exact L.
Qed.

Lemma Qpower_zero_base a n : a == 0 -> (0 < n)%Z -> a ^ n == 0.
Proof. intros E L. rewrite E. apply Qpower_0. lia. Qed.

Theorem pow_add a m n x y :
  fits_i64 m = true -> fits_i64 n = true -> fits_i64 (m + n) = true ->
  npow a (inject_Z m) = Ok x -> npow a (inject_Z n) = Ok y ->
  npow a (inject_Z (m + n)) = Ok (nmul x y).
Proof.
  intros Fm Fn Fs Hx Hy.
  destruct (npow_ok _ _ _ Fm Hx) as [-> Zm]. destruct (npow_ok _ _ _ Fn Hy) as [-> Zn].
  rewrite (npow_int a _ Fs).
  destruct (Qeq_dec a 0) as [E|N].
  - specialize (Zm E). specialize (Zn E).
    destruct (Z.ltb_spec (m + n) 0) as [L|L]; [lia|]. cbn [andb]. f_equal.
    unfold nmul. apply Qred_complete. rewrite !Qred_correct.
    destruct (Z.eq_dec m 0) as [->|Nm].
    + rewrite Z.add_0_l. cbn [Qpower]. ring.
    + destruct (Z.eq_dec n 0) as [->|Nn].
      * rewrite Z.add_0_r. cbn [Qpower]. ring.
      * rewrite (Qpower_zero_base a (m + n) E) by lia. rewrite (Qpower_zero_base a m E) by lia. ring.
  - apply qzero_false in N. rewrite N, andb_false_r. f_equal.
    unfold nmul. apply Qred_complete. rewrite !Qred_correct. apply Qpower_plus. apply qzero_false. exact N.
Qed.

Theorem pow_mul a m n x y :
  fits_i64 m = true -> fits_i64 n = true -> fits_i64 (m * n) = true ->
  npow a (inject_Z m) = Ok x -> npow x (inject_Z n) = Ok y ->
  npow a (inject_Z (m * n)) = Ok y.
Proof.
  intros Fm Fn Fs Hx Hy.
  destruct (npow_ok _ _ _ Fm Hx) as [-> Zm]. destruct (npow_ok _ _ _ Fn Hy) as [-> Zn].
  rewrite (npow_int a _ Fs).
  assert (V : Qred (a ^ (m * n)) = Qred (Qred (a ^ m) ^ n)).
  { apply Qred_complete. rewrite Qpower_mult. apply Qpower_comp; [|reflexivity]. symmetry. apply Qred_correct. }
  destruct (Qeq_dec a 0) as [E|N].
  - specialize (Zm E).
    destruct (Z.ltb_spec (m * n) 0) as [L|L]; cbn [andb]; [|rewrite V; reflexivity]. exfalso.
    destruct (Z.eq_dec m 0) as [->|Nm]; [lia|].
    assert (X : Qred (a ^ m) == 0) by (rewrite Qred_correct; apply Qpower_zero_base; [exact E|lia]).
    specialize (Zn X). nia.
  - apply qzero_false in N. rewrite N, andb_false_r, V. reflexivity.
Qed.

Theorem pow_neg a n : ~ a == 0 -> fits_i64 n = true -> fits_i64 (- n) = true ->
  exists x, npow a (inject_Z n) = Ok x /\ npow a (inject_Z (- n)) = Ok (Qred (/ x)).
Proof.
  intros N Fn Fo. exists (Qred (a ^ n)). apply qzero_false in N.
  rewrite (npow_int a _ Fn), (npow_int a _ Fo), N, !andb_false_r. split; [reflexivity|]. f_equal.
  apply Qred_complete. rewrite Qpower_opp, Qred_correct. reflexivity.
Qed.

Theorem pow_zero_neg a n : a == 0 -> (n < 0)%Z -> fits_i64 n = true -> npow a (inject_Z n) = Err DivByZero.
Proof.
  intros E L F. rewrite (npow_int a n F). apply qzero_iff in E. rewrite E.
  destruct (Z.ltb_spec n 0); [reflexivity|lia].
Qed.

Theorem pow_0_r a : npow a 0 = Ok 1.
Proof. exact (npow_int a 0 eq_refl). Qed.

Theorem pow_1_r a : npow a 1 = Ok (Qred a).
Proof.
  exact (npow_int a 1 eq_refl).
Qed.

Theorem pow_succ a n x : (0 <= n)%Z -> fits_i64 n = true -> fits_i64 (n + 1) = true ->
  npow a (inject_Z n) = Ok x -> npow a (inject_Z (n + 1)) = Ok (nmul x a).
Proof.
  intros L Fn Fs Hx. rewrite (pow_add a n 1 x (Qred a) Fn eq_refl Fs Hx (pow_1_r a)).
  f_equal. unfold nmul. apply Qred_complete. rewrite Qred_correct. reflexivity.
Qed.

(* outside i64 the code goes through f64: no claim *)
Theorem pow_unspecified a b : as_i64 b = None -> npow a b = Unspec.
Proof. intros H. unfold npow. rewrite H. reflexivity. Qed.

(* the exact path ends at 2^63 - 1: exponents that only fit u64 go through f64 (the documentation
   of std.number.pow used to promise exactness up to 2^64-1; corrected in 9fa35f3) *)
Lemma pow_beyond_i64_unspecified :
  exists a n, (- 2 ^ 63 <= n <= 2 ^ 64 - 1)%Z /\ npow a (inject_Z n) = Unspec.
Proof. exists (-(1))%Q, (2 ^ 63 + 1)%Z. split; [lia|]. vm_compute. reflexivity. Qed.

Example pow_examples :
  fits_i64 (-3) = true /\ npow (2 # 1) (inject_Z (-3)) = Ok (1 # 8)
  /\ npow (-(1) # 2) (inject_Z 3) = Ok (-(1) # 8) /\ npow 0 (inject_Z (-1)) = Err DivByZero
  /\ npow (2 # 1) (1 # 2) = Unspec.
Proof. repeat split; reflexivity. Qed.

(* ---------- literals *)
Lemma digits_val_app_gen ds : forall acc,
  fold_left (fun acc d => (acc * 10 + d)%N) ds acc
  = (acc * 10 ^ N.of_nat (List.length ds) + digits_val ds)%N.
Proof.
  unfold digits_val. induction ds as [|d ds IH]; intros acc; cbn [fold_left List.length].
  - cbn. lia.
  - rewrite IH. rewrite (IH (0 * 10 + d)%N). rewrite Nat2N.inj_succ, N.pow_succ_r'. lia.
Qed.

Lemma digits_val_app i f :
  digits_val (i ++ f) = (digits_val i * 10 ^ N.of_nat (List.length f) + digits_val f)%N.
Proof. unfold digits_val at 1. rewrite fold_left_app. apply digits_val_app_gen. Qed.

Lemma ten_pow_nat k : inject_Z (Z.of_N (10 ^ N.of_nat k)) == (10 # 1) ^ Z.of_nat k.
Proof.
  rewrite N2Z.inj_pow. rewrite nat_N_Z. change (Z.of_N 10) with 10%Z.
  rewrite Zpower_Qpower by lia. reflexivity.
Qed.

Theorem from_sci_spec l :
  from_sci l ==
    (inject_Z (Z.of_N (digits_val (l_int l)))
     + inject_Z (Z.of_N (digits_val (l_frac l))) / (10 # 1) ^ Z.of_nat (List.length (l_frac l)))
    * (10 # 1) ^ l_exp l.
Proof.
  unfold from_sci. rewrite Qred_correct, digits_val_app.
  rewrite N2Z.inj_add, N2Z.inj_mul, inject_Z_plus, inject_Z_mult, ten_pow_nat.
  set (k := Z.of_nat (List.length (l_frac l))).
  assert (T : ~ (10 # 1) == 0) by discriminate.
  unfold Z.sub. rewrite (Qpower_plus _ _ _ T), Qpower_opp.
  field. apply Qpower_not_0. exact T.
Qed.

Theorem from_sci_canonical l : Qred (from_sci l) = from_sci l.
Proof. unfold from_sci. apply Qred_complete, Qred_correct. Qed.

(* leading zeros and trailing fractional zeros do not change the value *)
Theorem from_sci_leading_zero i f e : from_sci (mkLit (0%N :: i) f e) = from_sci (mkLit i f e).
Proof. reflexivity. Qed.

Theorem from_sci_trailing_zero i f e : from_sci (mkLit i (f ++ [0%N]) e) = from_sci (mkLit i f e).
Proof.
  rewrite <- (from_sci_canonical (mkLit i (f ++ [0%N]) e)), <- (from_sci_canonical (mkLit i f e)).
  apply Qred_complete. rewrite !from_sci_spec. cbn [l_int l_frac l_exp].
  rewrite app_length, digits_val_app. cbn [List.length digits_val fold_left].
  rewrite Nat.add_1_r, Nat2Z.inj_succ. unfold Z.succ.
  assert (T : ~ (10 # 1) == 0) by discriminate.
  rewrite (Qpower_plus _ _ _ T).
  rewrite N2Z.inj_add, N2Z.inj_mul, inject_Z_plus, inject_Z_mult.
  change (inject_Z (Z.of_N (10 ^ N.of_nat 1))) with (10 # 1). change (inject_Z (Z.of_N (0 * 10 + 0))) with 0.
  change ((10 # 1) ^ 1) with (10 # 1).
  field. apply Qpower_not_0; exact T.
Qed.

(* exponent and point are interchangeable: d.f e(x) = df e(x - |f|) *)
Theorem from_sci_shift i f e :
  from_sci (mkLit i f e) = from_sci (mkLit (i ++ f) [] (e - Z.of_nat (List.length f))).
Proof. unfold from_sci. cbn [l_int l_frac l_exp List.length]. rewrite app_nil_r, Z.sub_0_r. reflexivity. Qed.

Theorem from_sci_int ds : from_sci (mkLit ds [] 0) = inject_Z (Z.of_N (digits_val ds)).
Proof.
  unfold from_sci. cbn [l_int l_frac l_exp List.length]. rewrite app_nil_r.
  etransitivity; [|apply Qred_inject_Z]. apply Qred_complete. change ((10 # 1) ^ (0 - Z.of_nat 0)) with 1. ring.
Qed.

Example from_sci_examples :
  from_sci (mkLit [1%N] [] (-3)) = (1 # 1000) /\ from_sci (mkLit [0%N] [5%N] 1) = (5 # 1)
  /\ from_sci (mkLit [0%N; 0%N; 7%N] [] 0) = (7 # 1) /\ from_sci (mkLit [] [5%N] 0) = (1 # 2)
  /\ from_sci (mkLit [1%N; 2%N] [5%N; 0%N] 0) = (25 # 2).
Proof. repeat split; reflexivity. Qed.

Example pow_laws_nonvacuous :
  fits_i64 3 = true /\ fits_i64 (-5) = true /\ fits_i64 (3 + -5) = true /\ fits_i64 (3 * -5) = true
  /\ npow (2 # 3) (inject_Z 3) = Ok (8 # 27) /\ npow (2 # 3) (inject_Z (-5)) = Ok (243 # 32)
  /\ npow (8 # 27) (inject_Z (-5)) = Ok (14348907 # 32768) /\ ~ (2 # 3) == 0.
Proof. repeat split; try reflexivity. discriminate. Qed.

Example ops_proper_nonvacuous : (2 # 4) == (1 # 2) /\ (2 # 4) <> (1 # 2) /\ nadd (2 # 4) (3 # 9) = (5 # 6).
Proof. split; [reflexivity|split; [discriminate|reflexivity]]. Qed.
