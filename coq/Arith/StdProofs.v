(* Proofs about the std.number.* bodies as translated from std.ncl into Gen/StdNumber.v.
   These are re-checked against the current source on every run. *)
From Coq Require Import ZArith QArith Qround Qreduction Qpower Qabs Qminmax List String Lia Lqa.
From NV Require Import Arith.Num Arith.Expr Arith.NumProofs Gen.StdNumber.
Import ListNotations.
Open Scope Q_scope.

Definition std1 (f : string) (x : Q) : res val := call_std std_number_table f [okn x].
Definition std2 (f : string) (x y : Q) : res val := call_std std_number_table f [okn x; okn y].

Lemma from_sci_0 : from_sci (mkLit [0%N] [] 0) = 0. Proof. reflexivity. Qed.
Lemma from_sci_1 : from_sci (mkLit [1%N] [] 0) = 1. Proof. reflexivity. Qed.

Definition frac (x : Q) : Q := Qred (x - inject_Z (trunc (x / 1)) * 1).

Lemma nmod_1 x : nmod x 1 = Ok (frac x).
Proof. reflexivity. Qed.

Lemma frac_eq x : frac x == x - inject_Z (trunc x).
Proof.
  unfold frac. rewrite Qred_correct.
  rewrite (trunc_proper (x / 1) x) by (field). ring.
Qed.

Lemma Qfloor_unique x z : inject_Z z <= x -> x < inject_Z z + 1 -> Qfloor x = z.
Proof.
  intros A B.
  pose proof (Qfloor_le x) as C. pose proof (Qlt_floor x) as D.
  rewrite inject_Z_plus in D. change (inject_Z 1) with 1 in D.
  assert (E : inject_Z z < inject_Z (Qfloor x) + 1) by lra.
  assert (F : inject_Z (Qfloor x) < inject_Z z + 1) by lra.
  change 1 with (inject_Z 1) in E, F. rewrite <- inject_Z_plus in E, F.
  rewrite <- Zlt_Qlt in E, F. lia.
Qed.

Lemma inject_Z_sub1 z : inject_Z (z - 1) == inject_Z z - 1.
Proof. unfold Z.sub. rewrite inject_Z_plus, inject_Z_opp. reflexivity. Qed.

Lemma nge_true a b : nge a b = true <-> b <= a.
Proof.
  unfold nge. destruct (Qcompare_spec a b) as [E|L|G]; split; intros H; try discriminate; try reflexivity; try lra.
Qed.
Lemma nge_false a b : nge a b = false <-> a < b.
Proof.
  unfold nge. destruct (Qcompare_spec a b) as [E|L|G]; split; intros H; try discriminate; try reflexivity; try lra.
Qed.

Ltac std_reduce :=
  unfold std1, std2, call_std;
  cbn [lookup std_number_table String.eqb Ascii.eqb Bool.eqb];
  cbv delta [std_floor_params std_floor_body std_truncate_params std_truncate_body
             std_fract_params std_fract_body std_abs_params std_abs_body
             std_min_params std_min_body std_max_params std_max_body
             std_is_integer_params std_is_integer_body std_compare_params std_compare_body
             std_pow_params std_pow_body];
  cbn -[from_sci nmod nsub nadd nmul ndiv npow nge nle nlt ngt neqb Qred];
  cbv delta [zero_lit];
  rewrite ?from_sci_0, ?from_sci_1, ?nmod_1;
  cbn [lift bind okn okb num2 as_bool].

Theorem floor_spec x : std1 "floor" x = okn (Qred (inject_Z (Qfloor x))).
Proof.
  std_reduce.
  pose proof (frac_eq x) as Fr.
  destruct (nge (frac x) 0) eqn:G; cbn [bind]; unfold okn, nsub; do 2 f_equal; apply Qred_complete.
  - apply nge_true in G.
    rewrite (Qfloor_unique x (trunc x)).
    + lra.
    + destruct (Qlt_le_dec x 0) as [L|L]; [destruct (trunc_neg x L) | destruct (trunc_nonneg x L)]; lra.
    + destruct (Qlt_le_dec x 0) as [L|L]; [destruct (trunc_neg x L) as (?&?&?) | destruct (trunc_nonneg x L) as (?&?&?)]; lra.
  - apply nge_false in G. rewrite Qred_correct.
    assert (L : x < 0).
    { destruct (Qlt_le_dec x 0) as [L|L]; [exact L|]. destruct (trunc_nonneg x L) as (?&?&?). lra. }
    destruct (trunc_neg x L) as (A & B & C).
    rewrite (Qfloor_unique x (trunc x - 1)).
    + rewrite inject_Z_sub1. lra.
    + rewrite inject_Z_sub1. lra.
    + rewrite inject_Z_sub1. lra.
Qed.

Theorem truncate_spec x : std1 "truncate" x = okn (Qred (inject_Z (trunc x))).
Proof.
  std_reduce. unfold okn, nsub. do 2 f_equal. apply Qred_complete.
  pose proof (frac_eq x). lra.
Qed.

(* truncation rounds towards zero *)
Theorem trunc_towards_zero x :
  (0 <= x -> trunc x = Qfloor x) /\ (x <= 0 -> trunc x = Qceiling x).
Proof.
  rewrite trunc_floor_ceil. split; intros H.
  - destruct (Z.ltb_spec (Qnum x) 0) as [L|L]; [|reflexivity]. apply Qnum_neg_iff in L. lra.
  - destruct (Z.ltb_spec (Qnum x) 0) as [L|L]; [reflexivity|].
    assert (E : x == 0). { destruct (Qlt_le_dec x 0) as [X|X]; [apply Qnum_neg_iff in X; lia|lra]. }
    rewrite (Qfloor_comp _ _ E), (Qceiling_comp _ _ E). reflexivity.
Qed.

Theorem fract_spec x : std1 "fract" x = okn (Qred (x - inject_Z (trunc x))).
Proof.
  std_reduce. unfold okn. do 2 f_equal. unfold frac. apply Qred_complete.
  rewrite <- (frac_eq x). unfold frac. rewrite Qred_correct. reflexivity.
Qed.

(* x = truncate x + fract x, |fract x| < 1, and fract x has the sign of x *)
Theorem truncate_fract x : exists t f,
  std1 "truncate" x = okn t /\ std1 "fract" x = okn f /\ x == t + f /\ Qabs f < 1
  /\ (0 <= x -> 0 <= f) /\ (x <= 0 -> f <= 0).
Proof.
  exists (Qred (inject_Z (trunc x))), (Qred (x - inject_Z (trunc x))).
  split; [apply truncate_spec|]. split; [apply fract_spec|]. rewrite !Qred_correct.
  pose proof (trunc_frac x) as [F1 F2]. cbv zeta in F1, F2.
  split; [ring|]. split; [|split; intros H; [destruct (F1 H)|destruct (F2 H)]; lra].
  apply Qabs_Qlt_condition. destruct (Qlt_le_dec x 0) as [L|L]; [destruct (F2 (Qlt_le_weak _ _ L))|destruct (F1 L)]; lra.
Qed.

Lemma nlt_false a b : nlt a b = false <-> b <= a.
Proof.
  pose proof (nlt_iff a b) as I. destruct (nlt a b); split; intros H; try discriminate; try reflexivity.
  - exfalso. assert (T : true = true) by reflexivity. apply I in T. lra.
  - destruct (Qlt_le_dec a b) as [X|X]; [|lra]; try (apply I in X; discriminate); lra.
Qed.
Lemma nle_false a b : nle a b = false <-> b < a.
Proof.
  pose proof (nle_iff a b) as I. destruct (nle a b); split; intros H; try discriminate; try reflexivity.
  - exfalso. assert (T : true = true) by reflexivity. apply I in T. lra.
  - destruct (Qlt_le_dec b a) as [X|X]; [|lra]; try (apply I in X; discriminate); lra.
Qed.
Lemma ngt_false a b : ngt a b = false <-> a <= b.
Proof.
  pose proof (ngt_iff a b) as I. destruct (ngt a b); split; intros H; try discriminate; try reflexivity.
  - exfalso. assert (T : true = true) by reflexivity. apply I in T. lra.
  - destruct (Qlt_le_dec b a) as [X|X]; [|lra]; try (apply I in X; discriminate); lra.
Qed.
Lemma neqb_false a b : neqb a b = false <-> ~ a == b.
Proof. pose proof (neqb_iff a b). destruct (neqb a b); split; intros; try discriminate; intuition. Qed.

(* case analysis on every comparison a translated body makes, whatever its shape *)
Ltac cmp_cases :=
  repeat match goal with
  | |- context [nlt ?a ?b] => let H := fresh "C" in destruct (nlt a b) eqn:H; [apply nlt_iff in H|apply nlt_false in H]
  | |- context [nle ?a ?b] => let H := fresh "C" in destruct (nle a b) eqn:H; [apply nle_iff in H|apply nle_false in H]
  | |- context [ngt ?a ?b] => let H := fresh "C" in destruct (ngt a b) eqn:H; [apply ngt_iff in H|apply ngt_false in H]
  | |- context [nge ?a ?b] => let H := fresh "C" in destruct (nge a b) eqn:H; [apply nge_true in H|apply nge_false in H]
  | |- context [neqb ?a ?b] => let H := fresh "C" in destruct (neqb a b) eqn:H; [apply neqb_iff in H|apply neqb_false in H]
  end; cbn [bind].

Lemma nlt_true a b : nlt a b = true <-> a < b. Proof. apply nlt_iff. Qed.

Theorem abs_value x : exists y, std1 "abs" x = okn y /\ y == Qabs x.
Proof.
  std_reduce; cmp_cases; (eexists; split; [reflexivity|]); unfold nsub; rewrite ?Qred_correct;
    [rewrite Qabs_neg by lra|rewrite Qabs_pos by lra]; lra.
Qed.

Theorem compare_spec x y :
  std2 "compare" x y = Ok (VEnum (match (x ?= y)%Q with Lt => "Lesser" | Eq => "Equal" | Gt => "Greater" end)).
Proof.
  std_reduce; cmp_cases; destruct (Qcompare_spec x y); try reflexivity; exfalso; lra.
Qed.





Definition mn (x y : Q) : Q := if nle x y then x else y.
Definition mx (x y : Q) : Q := if nge x y then x else y.

Lemma mn_Qmin x y : mn x y == Qmin x y.
Proof.
  unfold mn. destruct (nle x y) eqn:L.
  - apply nle_iff in L. symmetry. apply Q.min_l. exact L.
  - assert (y < x). { destruct (Qlt_le_dec y x) as [X|X]; [exact X|]. apply nle_iff in X. congruence. }
    symmetry. apply Q.min_r. lra.
Qed.
Lemma mx_Qmax x y : mx x y == Qmax x y.
Proof.
  unfold mx. destruct (nge x y) eqn:L.
  - apply nge_iff in L. symmetry. apply Q.max_l. exact L.
  - assert (x < y). { destruct (Qlt_le_dec x y) as [X|X]; [exact X|]. apply nge_iff in X. congruence. }
    symmetry. apply Q.max_r. lra.
Qed.

(* whatever comparison the body uses, it returns one of its operands, a least / greatest one *)
Theorem min_spec x y : exists m, std2 "min" x y = okn m /\ m == mn x y /\ (m = x \/ m = y).
Proof.
  std_reduce; cmp_cases; (eexists; split; [reflexivity|]); rewrite mn_Qmin;
    (split; [|auto]); destruct (Q.min_spec x y) as [[? E]|[? E]]; rewrite E; lra.
Qed.

Theorem max_spec x y : exists m, std2 "max" x y = okn m /\ m == mx x y /\ (m = x \/ m = y).
Proof.
  std_reduce; cmp_cases; (eexists; split; [reflexivity|]); rewrite mx_Qmax;
    (split; [|auto]); destruct (Q.max_spec x y) as [[? E]|[? E]]; rewrite E; lra.
Qed.

(* lattice laws of the generated min / max (up to ==: the functions return one of their operands
   unchanged) *)
Theorem minmax_lattice x y z :
  mn x y == mn y x /\ mx x y == mx y x
  /\ mn (mn x y) z == mn x (mn y z) /\ mx (mx x y) z == mx x (mx y z)
  /\ mn x x == x /\ mx x x == x
  /\ mn x (mx x y) == x /\ mx x (mn x y) == x
  /\ mn x y <= x /\ mn x y <= y /\ x <= mx x y /\ y <= mx x y
  /\ (z <= x -> z <= y -> z <= mn x y) /\ (x <= z -> y <= z -> mx x y <= z)
  /\ (mn x y = x \/ mn x y = y) /\ (mx x y = x \/ mx x y = y).
Proof.
  assert (P1 : forall a b a' b', a == a' -> b == b' -> mn a b == mn a' b').
  { intros. rewrite !mn_Qmin. apply Q.min_compat; assumption. }
  assert (P2 : forall a b a' b', a == a' -> b == b' -> mx a b == mx a' b').
  { intros. rewrite !mx_Qmax. apply Q.max_compat; assumption. }
  repeat split.
  - rewrite !mn_Qmin. apply Q.min_comm.
  - rewrite !mx_Qmax. apply Q.max_comm.
  - rewrite (P1 (mn x y) z (Qmin x y) z (mn_Qmin x y) (Qeq_refl z)), (P1 x (mn y z) x (Qmin y z) (Qeq_refl x) (mn_Qmin y z)).
    rewrite !mn_Qmin. symmetry. apply Q.min_assoc.
  - rewrite (P2 (mx x y) z (Qmax x y) z (mx_Qmax x y) (Qeq_refl z)), (P2 x (mx y z) x (Qmax y z) (Qeq_refl x) (mx_Qmax y z)).
    rewrite !mx_Qmax. symmetry. apply Q.max_assoc.
  - rewrite mn_Qmin. apply Q.min_id.
  - rewrite mx_Qmax. apply Q.max_id.
  - rewrite (P1 x (mx x y) x (Qmax x y) (Qeq_refl x) (mx_Qmax x y)), mn_Qmin. apply Q.max_min_absorption.
  - rewrite (P2 x (mn x y) x (Qmin x y) (Qeq_refl x) (mn_Qmin x y)), mx_Qmax. apply Q.min_max_absorption.
  - rewrite mn_Qmin. apply Q.le_min_l.
  - rewrite mn_Qmin. apply Q.le_min_r.
  - rewrite mx_Qmax. apply Q.le_max_l.
  - rewrite mx_Qmax. apply Q.le_max_r.
  - intros. rewrite mn_Qmin. apply Q.min_glb; assumption.
  - intros. rewrite mx_Qmax. apply Q.max_lub; assumption.
  - unfold mn. destruct (nle x y); auto.
  - unfold mx. destruct (nge x y); auto.
Qed.

Theorem is_integer_spec x : std1 "is_integer" x = okb (Pos.eqb (Qden (Qred x)) 1).
Proof.
  std_reduce. cbn [val_eqb]. unfold okb. do 2 f_equal.
  apply Bool.eq_true_iff_eq. change (match Qden (Qred x) with 1%positive => true | _ => false end) with (Pos.eqb (Qden (Qred x)) 1). rewrite neqb_iff, Pos.eqb_eq, frac_eq. split.
  - intros H. assert (E : x == inject_Z (trunc x)) by lra.
    apply Qred_complete in E. rewrite Qred_inject_Z in E. rewrite E. reflexivity.
  - intros D. assert (E : x == inject_Z (Qnum (Qred x))).
    { rewrite <- (Qred_correct x) at 1. destruct (Qred x) as [n d]. cbn in *. subst d. reflexivity. }
    rewrite (trunc_proper _ _ E). unfold trunc, inject_Z. cbn [Qnum Qden]. rewrite Z.quot_1_r. fold (inject_Z (Qnum (Qred x))). lra.
Qed.


Theorem pow_spec x n : std2 "pow" x n = lift (npow x n).
Proof. std_reduce. reflexivity. Qed.

(* a non-number argument is blamed, whatever the function *)
Theorem std_blames_non_numbers f ps body v :
  lookup f std_number_table = Some (ps, body) -> ps = ["x"%string] ->
  (forall q, v <> VNum q) ->
  call_std std_number_table f [Ok v] = eval no_call [("x"%string, Err Blame)] body.
Proof.
  intros L -> N. unfold call_std. rewrite L. cbn [List.length Nat.eqb map combine].
  destruct v; cbn [guard_num]; try reflexivity. exfalso. apply (N q). reflexivity.
Qed.

(* floor, characterised without reference to Qfloor *)
Theorem floor_char x : exists z, std1 "floor" x = okn (inject_Z z) /\ inject_Z z <= x /\ x < inject_Z z + 1.
Proof.
  exists (Qfloor x). rewrite floor_spec, Qred_inject_Z. split; [reflexivity|]. split; [apply Qfloor_le|].
  pose proof (Qlt_floor x) as L. rewrite inject_Z_plus in L. exact L.
Qed.
