(* Proofs about the std.number.* bodies as translated from std.ncl into Gen/StdNumber.v.
   These are re-checked against the current source on every run. *)
From Coq Require Import ZArith QArith Qround Qreduction Qpower Qabs List String Lia Lqa.
From NV Require Import Arith.Num Arith.Expr Arith.NumProofs Gen.StdNumber.
Import ListNotations.
Open Scope Q_scope.

Definition std1 (f : string) (x : Q) : res val := call_std std_number_table f [okn x].
Definition std2 (f : string) (x y : Q) : res val := call_std std_number_table f [okn x; okn y].

Lemma from_sci_0 : from_sci (mkLit [0%N] [] 0) = 0. Proof. reflexivity. Qed.
Lemma from_sci_1 : from_sci (mkLit [1%N] [] 0) = 1. Proof. reflexivity. Qed.

Definition frac (x : Q) : Q := Qred (x - inject_Z (trunc (x / 1)) * 1).

Lemma nmod_1 x : nmod x 1 = Ok (frac x).
Proof. reflexivity. Qed.

Lemma frac_eq x : frac x == x - inject_Z (trunc x).
Proof.
  unfold frac. rewrite Qred_correct.
  rewrite (trunc_proper (x / 1) x) by (field). ring.
Qed.

Lemma Qfloor_unique x z : inject_Z z <= x -> x < inject_Z z + 1 -> Qfloor x = z.
Proof.
  intros A B.
  pose proof (Qfloor_le x) as C. pose proof (Qlt_floor x) as D.
  rewrite inject_Z_plus in D. change (inject_Z 1) with 1 in D.
  assert (E : inject_Z z < inject_Z (Qfloor x) + 1) by lra.
  assert (F : inject_Z (Qfloor x) < inject_Z z + 1) by lra.
  change 1 with (inject_Z 1) in E, F. rewrite <- inject_Z_plus in E, F.
  rewrite <- Zlt_Qlt in E, F. lia.
Qed.

Lemma inject_Z_sub1 z : inject_Z (z - 1) == inject_Z z - 1.
Proof. unfold Z.sub. rewrite inject_Z_plus, inject_Z_opp. reflexivity. Qed.

Lemma nge_true a b : nge a b = true <-> b <= a.
Proof.
  unfold nge. destruct (Qcompare_spec a b) as [E|L|G]; split; intros H; try discriminate; try reflexivity; try lra.
Qed.
Lemma nge_false a b : nge a b = false <-> a < b.
Proof.
  unfold nge. destruct (Qcompare_spec a b) as [E|L|G]; split; intros H; try discriminate; try reflexivity; try lra.
Qed.

Ltac std_reduce :=
  unfold std1, std2, call_std;
  cbn [lookup std_number_table String.eqb Ascii.eqb Bool.eqb];
  cbv delta [std_floor_params std_floor_body std_truncate_params std_truncate_body
             std_fract_params std_fract_body std_abs_params std_abs_body
             std_min_params std_min_body std_max_params std_max_body
             std_is_integer_params std_is_integer_body std_compare_params std_compare_body
             std_pow_params std_pow_body];
  cbn -[from_sci nmod nsub nadd nmul ndiv npow nge nle nlt ngt neqb Qred];
  rewrite ?from_sci_0, ?from_sci_1, ?nmod_1;
  cbn [lift bind okn okb num2 as_bool].

Theorem floor_spec x : std1 "floor" x = okn (Qred (inject_Z (Qfloor x))).
Proof.
  std_reduce.
  pose proof (frac_eq x) as Fr.
  destruct (nge (frac x) 0) eqn:G; cbn [bind]; unfold okn, nsub; do 2 f_equal; apply Qred_complete.
  - apply nge_true in G.
    rewrite (Qfloor_unique x (trunc x)).
    + lra.
    + destruct (Qlt_le_dec x 0) as [L|L]; [destruct (trunc_neg x L) | destruct (trunc_nonneg x L)]; lra.
    + destruct (Qlt_le_dec x 0) as [L|L]; [destruct (trunc_neg x L) as (?&?&?) | destruct (trunc_nonneg x L) as (?&?&?)]; lra.
  - apply nge_false in G. rewrite Qred_correct.
    assert (L : x < 0).
    { destruct (Qlt_le_dec x 0) as [L|L]; [exact L|]. destruct (trunc_nonneg x L) as (?&?&?). lra. }
    destruct (trunc_neg x L) as (A & B & C).
    rewrite (Qfloor_unique x (trunc x - 1)).
    + rewrite inject_Z_sub1. lra.
    + rewrite inject_Z_sub1. lra.
    + rewrite inject_Z_sub1. lra.
Qed.
