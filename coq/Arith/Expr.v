(* The expression fragment in which (a) the bodies of std.number.* are written in
   /repo/core/stdlib/std.ncl (translated into Gen/StdNumber.v on every check run) and (b) the
   correspondence cases are generated.  [eval] follows the evaluator's behaviour on this
   fragment: lazy [let] / [if] / [&&] / [||] (an erroring sub-expression only matters if it is
   demanded), [-e] is [0 - e] and [a != b] is [!(a == b)] (grammar.lalrpop), arithmetic and
   comparison primops demand both operands, first then second, and raise a type error on
   non-numbers; [==] on the scalar values of this fragment is eq() of operation.rs. *)
From Coq Require Import ZArith QArith List String Bool.
From NV Require Import Arith.Num.
Import ListNotations.
Open Scope string_scope.

Inductive binop :=
| OAdd | OSub | OMul | ODiv | OMod | OPow | OLt | OLe | OGt | OGe | OEq | ONe | OAnd | OOr.

Inductive expr :=
| ELit (l : lit)
| EBool (b : bool)
| EEnum (tag : string)
| EStr (s : string)
| EVar (x : string)
| ELet (x : string) (e1 e2 : expr)
| EIf (c t e : expr)
| EBin (op : binop) (a b : expr)
| ENeg (e : expr)
| ENot (e : expr)
| ECall (f : string) (args : list expr).

Inductive val :=
| VNum (q : Q)
| VBool (b : bool)
| VEnum (tag : string)
| VStr (s : string).

Definition env := list (string * res val).

Fixpoint lookup {A} (x : string) (l : list (string * A)) : option A :=
  match l with
  | [] => None
  | (y, a) :: t => if String.eqb x y then Some a else lookup x t
  end.

(* eq() of operation.rs on the scalar values of this fragment *)
Definition val_eqb (a b : val) : bool :=
  match a, b with
  | VNum p, VNum q => neqb p q
  | VBool x, VBool y => Bool.eqb x y
  | VEnum s, VEnum t => String.eqb s t
  | VStr s, VStr t => String.eqb s t
  | _, _ => false
  end.

Definition as_num (r : res val) : res Q :=
  bind r (fun v => match v with VNum q => Ok q | _ => Err TypeErr end).

Definition as_bool (r : res val) : res bool :=
  bind r (fun v => match v with VBool b => Ok b | _ => Err TypeErr end).

(* strict binary primop on numbers: operand 1 is forced first, then operand 2 *)
Definition num2 (f : Q -> Q -> res val) (r1 r2 : res val) : res val :=
  match r1 with
  | Ok v1 =>
      match r2 with
      | Ok v2 =>
          match v1, v2 with
          | VNum a, VNum b => f a b
          | _, _ => Err TypeErr
          end
      | Err e => Err e
      | Unspec => Unspec
      end
  | Err e => Err e
  | Unspec => Unspec
  end.

Definition okn (q : Q) : res val := Ok (VNum q).
Definition okb (b : bool) : res val := Ok (VBool b).
Definition lift (r : res Q) : res val := bind r okn.

Definition arith (op : binop) (r1 r2 : res val) : res val :=
  match op with
  | OAdd => num2 (fun a b => okn (nadd a b)) r1 r2
  | OSub => num2 (fun a b => okn (nsub a b)) r1 r2
  | OMul => num2 (fun a b => okn (nmul a b)) r1 r2
  | ODiv => num2 (fun a b => lift (ndiv a b)) r1 r2
  | OMod => num2 (fun a b => lift (nmod a b)) r1 r2
  | OPow => num2 (fun a b => lift (npow a b)) r1 r2
  | OLt => num2 (fun a b => okb (nlt a b)) r1 r2
  | OLe => num2 (fun a b => okb (nle a b)) r1 r2
  | OGt => num2 (fun a b => okb (ngt a b)) r1 r2
  | OGe => num2 (fun a b => okb (nge a b)) r1 r2
  | OEq => bind r1 (fun v1 => bind r2 (fun v2 => okb (val_eqb v1 v2)))
  | ONe => bind r1 (fun v1 => bind r2 (fun v2 => okb (negb (val_eqb v1 v2))))
  | OAnd | OOr => Err OtherErr   (* lazy: handled in [eval] *)
  end.

Definition zero_lit : lit := mkLit [0%N] [] 0.

Section Eval.
(* how a call [std.number.f a1 .. an] is answered (arguments already evaluated, as results) *)
Variable call : string -> list (res val) -> res val.

Fixpoint eval (rho : env) (e : expr) : res val :=
  match e with
  | ELit l => okn (from_sci l)
  | EBool b => okb b
  | EEnum t => Ok (VEnum t)
  | EStr s => Ok (VStr s)
  | EVar x => match lookup x rho with Some r => r | None => Err UnboundId end
  | ELet x e1 e2 => eval ((x, eval rho e1) :: rho) e2
  | EIf c t f =>
      bind (as_bool (eval rho c)) (fun b => if b then eval rho t else eval rho f)
  | EBin OAnd a b =>
      bind (as_bool (eval rho a)) (fun x => if x then eval rho b else okb false)
  | EBin OOr a b =>
      bind (as_bool (eval rho a)) (fun x => if x then okb true else eval rho b)
  | EBin op a b => arith op (eval rho a) (eval rho b)
  | ENeg a => arith OSub (okn (from_sci zero_lit)) (eval rho a)
  | ENot a => bind (as_bool (eval rho a)) (fun b => okb (negb b))
  | ECall f args => call f (map (eval rho) args)
  end.
End Eval.

(* std.number.* functions are statically typed [Number -> ...]: a non-number argument is
   blamed (lazily, when the body demands it). *)
Definition guard_num (r : res val) : res val :=
  match r with
  | Ok (VNum q) => Ok (VNum q)
  | Ok _ => Err Blame
  | other => other
  end.

Definition no_call : string -> list (res val) -> res val := fun _ _ => Err OtherErr.

Definition std_table := list (string * (list string * expr)).

Definition call_std (tbl : std_table) (f : string) (args : list (res val)) : res val :=
  match lookup f tbl with
  | Some (params, body) =>
      if Nat.eqb (List.length params) (List.length args)
      then eval no_call (combine params (map guard_num args)) body
      else Err OtherErr
  | None => Err UnboundId
  end.

Definition eval_top (tbl : std_table) (e : expr) : res val := eval (call_std tbl) [] e.
