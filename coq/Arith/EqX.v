(* Extended model of [==] (operation.rs: eq() after fix 8cabe79, BinaryOp::Eq, the Eq items of the
   stack) on values as the evaluator sees them, beyond plain data:
     - record fields carry metadata: optional or not, a list of pending contracts, and may have no
       definition;
     - arrays carry pending contracts that eq() applies to every element before comparing;
     - [XBot] is an expression whose evaluation raises an error (e.g. [1/0]): values are lazy, an
       element / field is only forced when its sub-equality is evaluated, so the ORDER in which
       eq() schedules sub-equalities is observable.
   Contracts are the validating ones of a small universe: a value either passes unchanged (an
   array contract is pushed onto the array's pending contracts) or the check blames. *)
From Coq Require Import ZArith QArith Qreduction List String Bool.
From NV Require Import Arith.Num Arith.Expr Arith.Eq.
Import ListNotations.
Open Scope string_scope.
Open Scope nat_scope.

Inductive ctr := CNum | CStr | CBool | CDyn | CArr (c : ctr).

(* field metadata: (optional?, pending contracts) *)
Notation fmeta := (bool * list ctr)%type (only parsing).

Inductive xv :=
| XNull
| XBool (b : bool)
| XNum (q : Q)
| XStr (s : string)
| XEnum (tag : string)
| XVariant (tag : string) (arg : xv)
| XArr (pending : list ctr) (l : list xv)
| XRec (fs : list (string * (fmeta * option xv)))
| XBot.

Notation xfield := ((bool * list ctr) * option xv)%type (only parsing).
Notation clo := (list ctr * xv)%type (only parsing).   (* a value with contracts still to be applied *)

(* ---- applying a contract to a value in weak head normal form *)
Definition check (c : ctr) (w : xv) : res xv :=
  match c, w with
  | CDyn, _ => Ok w
  | CNum, XNum _ => Ok w
  | CStr, XStr _ => Ok w
  | CBool, XBool _ => Ok w
  | CArr c', XArr cs l => Ok (XArr (cs ++ [c']) l)
  | _, _ => Err Blame
  end.

Fixpoint apply_ctrs (cs : list ctr) (w : xv) : res xv :=
  match cs with
  | [] => Ok w
  | c :: cs' => bind (check c w) (apply_ctrs cs')
  end.

Definition force (cl : clo) : res xv :=
  match snd cl with
  | XBot => Err DivByZero
  | w => apply_ctrs (fst cl) w
  end.

(* ---- one call of eq() *)
Inductive xeqres :=
| XB (b : bool)
| XE (first : clo * clo) (rest : list (clo * clo)).

Definition is_empty_optional (f : xfield) : bool :=
  match f with ((opt, _), None) => opt | _ => false end.
Definition is_defined (f : xfield) : bool :=
  match f with (_, Some _) => true | _ => false end.

Definition has_only_empty_opts (fs : list (string * xfield)) : bool :=
  forallb (fun kf => is_empty_optional (snd kf)) fs.

(* the centre of split_ref, keyed; listed in the order of [f] *)
Fixpoint kcenter (f g : list (string * xfield)) : list (string * (xfield * xfield)) :=
  match f with
  | [] => []
  | (k, m1) :: f' =>
      match lookup k g with
      | Some m2 => (k, (m1, m2)) :: kcenter f' g
      | None => kcenter f' g
      end
  end.

Definition kswap (x : string * (xfield * xfield)) : string * (xfield * xfield) :=
  (fst x, (snd (snd x), fst (snd x))).

(* split_ref clones the smaller map: the centre follows the order of the second map when the
   first is strictly smaller *)
Definition xsplit_center (f g : list (string * xfield)) : list (string * (xfield * xfield)) :=
  if Nat.ltb (List.length f) (List.length g) then map kswap (kcenter g f) else kcenter f g.

(* fix 8cabe79: an empty optional field facing a defined one makes the records different *)
Definition mixed_optional (p : xfield * xfield) : bool :=
  (is_empty_optional (fst p) && is_defined (snd p)) || (is_empty_optional (snd p) && is_defined (fst p)).

(* a field without definition (and not optional) facing a defined one: MissingFieldDef *)
Definition missing_def (p : xfield * xfield) : bool :=
  negb (Bool.eqb (is_defined (fst p)) (is_defined (snd p))).

Definition field_pairs (p : xfield * xfield) : list (clo * clo) :=
  match p with
  | ((_, cs1), Some v1, ((_, cs2), Some v2)) => [((cs1, v1), (cs2, v2))]
  | _ => []
  end.

Definition xgen_eqs (l : list (clo * clo)) : xeqres :=
  match l with
  | [] => XB true
  | p :: rest => XE p rest
  end.

Definition xeq1 (a b : xv) : res xeqres :=
  match a, b with
  | XNull, XNull => Ok (XB true)
  | XBool x, XBool y => Ok (XB (Bool.eqb x y))
  | XNum p, XNum q => Ok (XB (neqb p q))
  | XStr s, XStr t => Ok (XB (String.eqb s t))
  | XEnum s, XEnum t => Ok (XB (String.eqb s t))
  | XVariant s x, XVariant t y =>
      if String.eqb s t then Ok (xgen_eqs [(([], x), ([], y))]) else Ok (XB false)
  | XRec f, XRec g =>
      if has_only_empty_opts f && has_only_empty_opts g then Ok (XB true)
      else if negb (forallb (fun kf => has_key (fst kf) g || is_empty_optional (snd kf)) f)
              || negb (forallb (fun kf => has_key (fst kf) f || is_empty_optional (snd kf)) g)
      then Ok (XB false)
      else
        let c := map snd (xsplit_center f g) in
        match c with
        | [] => Ok (XB true)
        | _ =>
            if existsb mixed_optional c then Ok (XB false)
            else if existsb missing_def c then Err MissingDef
            else Ok (xgen_eqs (flat_map field_pairs c))
        end
  | XArr c1 l, XArr c2 m =>
      if Nat.eqb (List.length l) (List.length m) then
        match rev (combine (map (fun x => (c1, x)) l) (map (fun y => (c2, y)) m)) with
        | [] => Ok (XB true)
        | p :: before => Ok (XE p (rev before))
        end
      else Ok (XB false)
  | _, _ => Ok (XB false)
  end.

(* ---- BinaryOp::Eq: both operands are forced (first, then second), eq() is called, its
   sub-equalities go through the stack *)
Fixpoint xrun (fuel : nat) (cur : clo * clo) (stack : list (clo * clo)) : res bool :=
  match fuel with
  | O => Err OtherErr
  | S n =>
      bind (force (fst cur)) (fun w1 =>
      bind (force (snd cur)) (fun w2 =>
      bind (xeq1 w1 w2) (fun r =>
        match r with
        | XB false => Ok false
        | XB true =>
            match stack with
            | [] => Ok true
            | p :: st => xrun n p st
            end
        | XE p rest => xrun n p (rev rest ++ stack)
        end)))
  end.

Fixpoint xsize (x : xv) : nat :=
  match x with
  | XVariant _ a => S (xsize a)
  | XArr _ l => S (fold_right (fun y n => xsize y + n) 0 l)
  | XRec f => S (fold_right (fun kf n => match snd (snd kf) with Some y => xsize y | None => 0 end + n) 0 f)
  | _ => 1
  end.

Definition xeq_machine (a b : xv) : res bool := xrun (S (xsize a + xsize b)) (([], a), ([], b)) [].

(* ---- the data a value stands for, when it stands for data: contracts all pass, nothing
   raises, every field without a definition is optional (and is dropped, as export does) *)
Inductive kind := KNull | KBool | KNum | KStr | KEnum | KVariant | KArr | KRec.

Definition accepts (k : kind) (c : ctr) : bool :=
  match c, k with
  | CDyn, _ => true
  | CNum, KNum => true
  | CStr, KStr => true
  | CBool, KBool => true
  | CArr _, KArr => true
  | _, _ => false
  end.

Definition elem_ctrs (cs : list ctr) : list ctr :=
  flat_map (fun c => match c with CArr c' => [c'] | _ => [] end) cs.

Fixpoint norm (cs : list ctr) (x : xv) {struct x} : option dv :=
  match x with
  | XBot => None
  | XNull => if forallb (accepts KNull) cs then Some DNull else None
  | XBool b => if forallb (accepts KBool) cs then Some (DBool b) else None
  | XNum q => if forallb (accepts KNum) cs then Some (DNum q) else None
  | XStr s => if forallb (accepts KStr) cs then Some (DStr s) else None
  | XEnum t => if forallb (accepts KEnum) cs then Some (DEnum t) else None
  | XVariant t a =>
      if forallb (accepts KVariant) cs then option_map (DVariant t) (norm [] a) else None
  | XArr cs' l =>
      if forallb (accepts KArr) cs then
        option_map DArr
          ((fix go (l : list xv) : option (list dv) :=
              match l with
              | [] => Some []
              | y :: t =>
                  match norm (cs' ++ elem_ctrs cs) y, go t with
                  | Some d, Some ds => Some (d :: ds)
                  | _, _ => None
                  end
              end) l)
      else None
  | XRec f =>
      if forallb (accepts KRec) cs then
        option_map DRec
          ((fix go (f : list (string * (fmeta * option xv))) : option (list (string * dv)) :=
              match f with
              | [] => Some []
              | (k, (m, v)) :: t =>
                  match v with
                  | Some y =>
                      match norm (snd m) y, go t with
                      | Some d, Some ds => Some ((k, d) :: ds)
                      | _, _ => None
                      end
                  | None => if fst m then go t else None
                  end
              end) f)
      else None
  end.

(* keys are pairwise distinct at every depth (a Nickel record cannot have two fields of one name) *)
Fixpoint xwf (x : xv) : bool :=
  match x with
  | XVariant _ a => xwf a
  | XArr _ l => forallb xwf l
  | XRec f =>
      nodupb (map fst f)
      && forallb (fun kf => match snd (snd kf) with Some y => xwf y | None => true end) f
  | _ => true
  end.

(* plain data as an extended value *)
Fixpoint embed (d : dv) : xv :=
  match d with
  | DNull => XNull
  | DBool b => XBool b
  | DNum q => XNum q
  | DStr s => XStr s
  | DEnum t => XEnum t
  | DVariant t a => XVariant t (embed a)
  | DArr l => XArr [] (map embed l)
  | DRec f => XRec (map (fun kv => (fst kv, ((false, []), Some (embed (snd kv))))) f)
  end.
