(* Proofs about Arith/EqX.v: on values that stand for data (validating pending contracts, empty
   optional fields, no erroring element) the extended == never errors and is == of the data they
   stand for, whatever order eq() schedules the sub-equalities in. *)
From Coq Require Import ZArith QArith Qreduction List String Bool Lia Permutation.
From NV Require Import Arith.Num Arith.Expr Arith.Eq Arith.EqProofs Arith.EqX.
Import ListNotations.
Open Scope string_scope.
Open Scope nat_scope.

Definition kind_of (x : xv) : option kind :=
  match x with
  | XNull => Some KNull | XBool _ => Some KBool | XNum _ => Some KNum | XStr _ => Some KStr
  | XEnum _ => Some KEnum | XVariant _ _ => Some KVariant | XArr _ _ => Some KArr | XRec _ => Some KRec
  | XBot => None
  end.

Definition push_ctrs (cs : list ctr) (x : xv) : xv :=
  match x with XArr cs' l => XArr (cs' ++ elem_ctrs cs) l | _ => x end.

Lemma apply_ctrs_ok cs : forall x k, kind_of x = Some k -> forallb (accepts k) cs = true ->
  apply_ctrs cs x = Ok (push_ctrs cs x).
Proof.
  induction cs as [|c cs IH]; intros x k K A.
  - cbn [apply_ctrs]. destruct x; cbn [push_ctrs elem_ctrs flat_map]; rewrite ?app_nil_r; reflexivity.
  - cbn [forallb] in A. apply andb_true_iff in A. destruct A as [A1 A2]. cbn [apply_ctrs].
    destruct x as [| | | | | | p l | |]; cbn [kind_of] in K; try discriminate; injection K as <-;
      destruct c; cbn [accepts] in A1; try discriminate; cbn [check bind];
      (erewrite IH; [|reflexivity|exact A2]); cbn [push_ctrs elem_ctrs flat_map app]; try reflexivity.
    rewrite <- app_assoc. reflexivity.
Qed.

Lemma norm_kind cs x d : norm cs x = Some d -> exists k, kind_of x = Some k /\ forallb (accepts k) cs = true.
Proof.
  destruct x; cbn [norm kind_of]; try discriminate;
    match goal with |- context [forallb (accepts ?k) cs] => destruct (forallb (accepts k) cs) eqn:A; [|discriminate] end;
    intros _; (eexists; split; [reflexivity|exact A]).
Qed.

Lemma norm_push cs x k : kind_of x = Some k -> forallb (accepts k) cs = true ->
  norm [] (push_ctrs cs x) = norm cs x.
Proof.
  intros K A. destruct x; cbn [kind_of] in K; try discriminate; injection K as <-;
    cbn [push_ctrs norm forallb]; rewrite A; try reflexivity.
  cbn [elem_ctrs flat_map]. rewrite app_nil_r. reflexivity.
Qed.

Lemma xsize_push cs x : xsize (push_ctrs cs x) = xsize x.
Proof. destruct x; reflexivity. Qed.
Lemma xwf_push cs x : xwf (push_ctrs cs x) = xwf x.
Proof. destruct x; reflexivity. Qed.

Lemma force_spec cs x d : norm cs x = Some d ->
  force (cs, x) = Ok (push_ctrs cs x) /\ norm [] (push_ctrs cs x) = Some d.
Proof.
  intros N. destruct (norm_kind _ _ _ N) as (k & K & A). split.
  - unfold force. cbn [fst snd]. rewrite <- (apply_ctrs_ok cs x k K A).
    destruct x; cbn [kind_of] in K; try discriminate; reflexivity.
  - rewrite (norm_push cs x k K A). exact N.
Qed.

Definition norm_list (cs : list ctr) := fix go (l : list xv) : option (list dv) :=
  match l with
  | [] => Some []
  | y :: t => match norm cs y, go t with Some d, Some ds => Some (d :: ds) | _, _ => None end
  end.

Definition norm_fields := fix go (f : list (string * (fmeta * option xv))) : option (list (string * dv)) :=
  match f with
  | [] => Some []
  | (k, (m, v)) :: t =>
      match v with
      | Some y => match norm (snd m) y, go t with Some d, Some ds => Some ((k, d) :: ds) | _, _ => None end
      | None => if fst m then go t else None
      end
  end.

Lemma norm_arr_eq cs l : norm [] (XArr cs l) = option_map DArr (norm_list cs l).
Proof. cbn [norm forallb elem_ctrs flat_map]. rewrite app_nil_r. reflexivity. Qed.
Lemma norm_rec_eq f : norm [] (XRec f) = option_map DRec (norm_fields f).
Proof. reflexivity. Qed.
Lemma norm_var_eq t a : norm [] (XVariant t a) = option_map (DVariant t) (norm [] a).
Proof. reflexivity. Qed.

Lemma norm_list_spec cs l ds : norm_list cs l = Some ds <-> Forall2 (fun y d => norm cs y = Some d) l ds.
Proof.
  revert ds. induction l as [|y l IH]; intros ds; cbn [norm_list].
  - split; [intros [= <-]; constructor|intros H; inversion H; reflexivity].
  - fold (norm_list cs). destruct (norm cs y) as [d|] eqn:N.
    + destruct (norm_list cs l) as [ds'|] eqn:L.
      * split.
        -- intros [= <-]. constructor; [exact N|]. apply IH. reflexivity.
        -- intros H. inversion H as [|? d0 ? ds0 N0 H0]; subst. apply IH in H0. congruence.
      * split; [discriminate|]. intros H. inversion H as [|? d0 ? ds0 N0 H0]; subst. apply IH in H0. discriminate.
    + split; [discriminate|]. intros H. inversion H; subst. congruence.
Qed.

Lemma norm_fields_in f : forall f', norm_fields f = Some f' ->
  forall k d, In (k, d) f' <-> exists m y, In (k, (m, Some y)) f /\ norm (snd m) y = Some d.
Proof.
  induction f as [|[k0 [m0 v0]] f IH]; intros f' N k d; cbn [norm_fields] in N.
  - injection N as <-. split; [intros []|intros (m & y & [] & _)].
  - fold norm_fields in N. destruct v0 as [y0|].
    + destruct (norm (snd m0) y0) as [d0|] eqn:N0; [|discriminate].
      destruct (norm_fields f) as [t'|] eqn:NT; [|discriminate]. injection N as <-.
      cbn [In]. rewrite (IH t' eq_refl k d). split.
      * intros [E|(m & y & I & Ny)].
        -- injection E as <- <-. exists m0, y0. split; [left; reflexivity|exact N0].
        -- exists m, y. split; [right; exact I|exact Ny].
      * intros (m & y & [E|I] & Ny).
        -- injection E as <- <- <-. left. congruence.
        -- right. exists m, y. split; assumption.
    + destruct (fst m0); [|discriminate]. rewrite (IH f' N k d). split.
      * intros (m & y & I & Ny). exists m, y. split; [right; exact I|exact Ny].
      * intros (m & y & [E|I] & Ny); [discriminate E|]. exists m, y. split; assumption.
Qed.

Lemma norm_fields_undef f : forall f', norm_fields f = Some f' ->
  forall k m, In (k, (m, None)) f -> fst m = true.
Proof.
  induction f as [|[k0 [m0 v0]] f IH]; intros f' N k m I; cbn [norm_fields] in N; [destruct I|].
  fold norm_fields in N. destruct v0 as [y0|].
  - destruct (norm (snd m0) y0); [|discriminate]. destruct (norm_fields f) as [t'|] eqn:NT; [|discriminate].
    destruct I as [E|I]; [discriminate E|]. apply (IH t' eq_refl k m I).
  - destruct (fst m0) eqn:O; [|discriminate]. destruct I as [E|I].
    + injection E as <- <-. exact O.
    + apply (IH f' N k m I).
Qed.

Lemma norm_fields_keys f : forall f', norm_fields f = Some f' -> incl (keys f') (keys f).
Proof.
  intros f' N k I. apply in_map_iff in I. destruct I as [[k' d] [<- I]]. cbn [fst].
  apply (norm_fields_in f f' N) in I. destruct I as (m & y & I & _).
  apply (in_map fst) in I. exact I.
Qed.

Lemma norm_fields_nodup f : forall f', norm_fields f = Some f' -> NoDup (keys f) -> NoDup (keys f').
Proof.
  induction f as [|[k0 [m0 v0]] f IH]; intros f' N ND; cbn [norm_fields] in N.
  - injection N as <-. constructor.
  - fold norm_fields in N. inversion ND as [|? ? NI ND']; subst. destruct v0 as [y0|].
    + destruct (norm (snd m0) y0) as [d0|]; [|discriminate].
      destruct (norm_fields f) as [t'|] eqn:NT; [|discriminate]. injection N as <-.
      cbn [keys map fst]. constructor; [|apply (IH t' eq_refl ND')].
      intros I. apply NI. apply (norm_fields_keys f t' NT). exact I.
    + destruct (fst m0); [|discriminate]. apply (IH f' N ND').
Qed.

Lemma xwf_rec f : xwf (XRec f) = true <->
  NoDup (keys f) /\ Forall (fun kf => match snd (snd kf) with Some y => xwf y = true | None => True end) f.
Proof.
  cbn [xwf]. rewrite andb_true_iff, nodupb_iff, forallb_forall, Forall_forall. split; intros [A B]; (split; [exact A|]).
  - intros x I. specialize (B x I). destruct (snd (snd x)); [exact B|exact Logic.I].
  - intros x I. specialize (B x I). destruct (snd (snd x)); [exact B|reflexivity].
Qed.

Lemma norm_wf : forall x cs d, norm cs x = Some d -> xwf x = true -> wf d = true.
Proof.
  fix IH 1. intros x cs d N W. destruct x; cbn [norm] in N; try discriminate;
    match type of N with context [forallb ?a cs] => destruct (forallb a cs); [|discriminate] end.
  1-5: injection N as <-; reflexivity.
  - destruct (norm [] x) as [a|] eqn:Na; [|discriminate]. injection N as <-. cbn [wf]. cbn [xwf] in W. exact (IH x [] a Na W).
  - fold (norm_list (pending ++ elem_ctrs cs)) in N.
    destruct (norm_list (pending ++ elem_ctrs cs) l) as [ds|] eqn:L; [|discriminate]. injection N as <-.
    cbn [wf]. cbn [xwf] in W. revert ds L W. induction l as [|y l IHl]; intros ds L W; cbn [norm_list] in L.
    + injection L as <-. reflexivity.
    + fold (norm_list (pending ++ elem_ctrs cs)) in L.
      destruct (norm (pending ++ elem_ctrs cs) y) as [dy|] eqn:Ny; [|discriminate].
      destruct (norm_list (pending ++ elem_ctrs cs) l) as [ds'|] eqn:L'; [|discriminate]. injection L as <-.
      cbn [forallb] in W |- *. apply andb_true_iff in W. destruct W as [Wy Wl].
      rewrite (IH y _ dy Ny Wy), (IHl ds' eq_refl Wl). reflexivity.
  - fold norm_fields in N. destruct (norm_fields fs) as [f'|] eqn:NF; [|discriminate]. injection N as <-.
    apply wf_rec. apply xwf_rec in W. destruct W as [ND WF]. split; [apply (norm_fields_nodup fs f' NF ND)|].
    clear ND. revert f' NF. induction fs as [|[k0 [m0 v0]] fs IHf]; intros f' NF; cbn [norm_fields] in NF.
    + injection NF as <-. constructor.
    + fold norm_fields in NF. inversion WF as [|? ? W0 WF']; subst. cbn [snd] in W0. destruct v0 as [y0|].
      * destruct (norm (snd m0) y0) as [d0|] eqn:N0; [|discriminate].
        destruct (norm_fields fs) as [t'|] eqn:NT; [|discriminate]. injection NF as <-.
        constructor; [cbn [snd]; exact (IH y0 _ d0 N0 W0)|apply (IHf WF' t' eq_refl)].
      * destruct (fst m0); [|discriminate]. apply (IHf WF' f' NF).
Qed.

Definition cn (cl : clo) : option dv := norm (fst cl) (snd cl).
Definition eqp2 (p : clo * clo) : bool :=
  match cn (fst p), cn (snd p) with Some a, Some b => dv_eqb a b | _, _ => false end.
Definition good (cl : clo) : Prop := (exists d, cn cl = Some d) /\ xwf (snd cl) = true.
Definition goodp (p : clo * clo) : Prop := good (fst p) /\ good (snd p).
Definition xlsize (l : list (clo * clo)) : nat := fold_right (fun p n => xsize (snd (fst p)) + n) 0 l.

Lemma xlsize_cons p l : xlsize (p :: l) = xsize (snd (fst p)) + xlsize l.
Proof. reflexivity. Qed.
Lemma xlsize_app l1 l2 : xlsize (l1 ++ l2) = xlsize l1 + xlsize l2.
Proof. induction l1 as [|p l1 IH]; [reflexivity|]. cbn [app]. rewrite !xlsize_cons, IH. lia. Qed.
Lemma xlsize_perm l1 l2 : Permutation l1 l2 -> xlsize l1 = xlsize l2.
Proof. induction 1; rewrite ?xlsize_cons in *; lia. Qed.

Lemma forallb_false_ex {A} (p : A -> bool) l : forallb p l = false -> exists x, In x l /\ p x = false.
Proof.
  induction l as [|x l IH]; cbn [forallb]; [discriminate|].
  destruct (p x) eqn:P; cbn [andb].
  - intros H. destruct (IH H) as (y & I & Py). exists y. split; [right; exact I|exact Py].
  - intros _. exists x. split; [left; reflexivity|exact P].
Qed.

Lemma existsb_false_all {A} (p : A -> bool) l : existsb p l = false -> forall x, In x l -> p x = false.
Proof.
  intros H x I. destruct (p x) eqn:P; [|reflexivity].
  assert (E : existsb p l = true) by (apply existsb_exists; exists x; split; assumption). congruence.
Qed.

(* ---------- lookups in the normalised record *)
Lemma in_lookup_iff {A} k (v : A) l : NoDup (keys l) -> (In (k, v) l <-> lookup k l = Some v).
Proof. intros N. split; [apply in_lookup_nodup; exact N|apply lookup_some_in]. Qed.

Lemma nf_lookup f f' : norm_fields f = Some f' -> NoDup (keys f) ->
  forall k d, lookup k f' = Some d <-> exists m y, lookup k f = Some (m, Some y) /\ norm (snd m) y = Some d.
Proof.
  intros N ND k d. pose proof (norm_fields_nodup f f' N ND) as ND'.
  rewrite <- (in_lookup_iff k d f' ND'), (norm_fields_in f f' N k d). split; intros (m & y & I & Ny); exists m, y; (split; [|exact Ny]).
  - apply in_lookup_iff; assumption.
  - apply in_lookup_iff in I; assumption.
Qed.

Lemma nf_undef f f' : norm_fields f = Some f' -> forall k m, lookup k f = Some (m, None) -> fst m = true.
Proof. intros N k m L. apply lookup_some_in in L. apply (norm_fields_undef f f' N k m L). Qed.

Lemma nf_defined f : forall f', norm_fields f = Some f' ->
  forall k m y, In (k, (m, Some y)) f -> exists d, norm (snd m) y = Some d.
Proof.
  induction f as [|[k0 [m0 v0]] f IH]; intros f' N k m y I; cbn [norm_fields] in N; [destruct I|].
  fold norm_fields in N. destruct v0 as [y0|].
  - destruct (norm (snd m0) y0) as [d0|] eqn:N0; [|discriminate].
    destruct (norm_fields f) as [t'|] eqn:NT; [|discriminate].
    destruct I as [E|I]; [injection E as <- <- <-; exists d0; exact N0|apply (IH t' Logic.eq_refl k m y I)].
  - destruct (fst m0); [|discriminate]. destruct I as [E|I]; [discriminate E|apply (IH f' N k m y I)].
Qed.

Lemma nf_only_empty f f' : has_only_empty_opts f = true -> norm_fields f = Some f' -> f' = [].
Proof.
  revert f'. induction f as [|[k0 [m0 v0]] f IH]; intros f' H N; cbn [norm_fields] in N.
  - injection N as <-. reflexivity.
  - fold norm_fields in N. cbn [has_only_empty_opts forallb snd] in H. apply andb_true_iff in H. destruct H as [H0 H].
    destruct v0 as [y0|]; [destruct m0; discriminate H0|]. destruct (fst m0); [|discriminate]. apply (IH f' H N).
Qed.

Lemma rec_eq_iff f' g' : NoDup (keys f') -> NoDup (keys g') ->
  (dv_eqb (DRec f') (DRec g') = true <->
   (forall k d1, lookup k f' = Some d1 -> exists d2, lookup k g' = Some d2 /\ dv_eqb d1 d2 = true)
   /\ (forall k, has_key k g' = true -> has_key k f' = true)).
Proof.
  intros Nf Ng. rewrite eqb_rec, andb_true_iff, rec_go_spec, forallb_forall. split; intros [H1 H2]; split.
  - intros k d1 L. apply H1. apply lookup_some_in. exact L.
  - intros k K. unfold has_key in K. destruct (lookup k g') as [w|] eqn:L; [|discriminate].
    apply lookup_some_in in L. specialize (H2 _ L). cbn [fst] in H2. unfold has_key. exact H2.
  - intros k v I. apply H1. apply in_lookup_nodup; assumption.
  - intros [k w] I. cbn [fst]. apply (in_lookup_nodup _ _ _ Ng) in I.
    specialize (H2 k). unfold has_key in H2. rewrite I in H2. apply H2. reflexivity.
Qed.

(* ---------- the centre of the split *)
Lemma kcenter_in f g k m1 m2 : In (k, (m1, m2)) (kcenter f g) <-> In (k, m1) f /\ lookup k g = Some m2.
Proof.
  induction f as [|[k0 m0] f IH]; cbn [kcenter In]; [tauto|].
  destruct (lookup k0 g) as [m2'|] eqn:L; cbn [In]; rewrite IH; split.
  - intros [E|[I Lg]]; [injection E as <- <- <-; split; [left; reflexivity|exact L]|split; [right; exact I|exact Lg]].
  - intros [[E|I] Lg]; [injection E as <- <-; left; congruence|right; split; assumption].
  - intros [I Lg]. split; [right; exact I|exact Lg].
  - intros [[E|I] Lg]; [injection E as <- <-; congruence|split; assumption].
Qed.

Lemma kcenter_keys_incl f g : incl (map fst (kcenter f g)) (keys f).
Proof.
  intros k I. apply in_map_iff in I. destruct I as [[k' [m1 m2]] [<- I]]. apply kcenter_in in I.
  destruct I as [I _]. apply (in_map fst) in I. exact I.
Qed.

Lemma kcenter_keys_nodup f g : NoDup (keys f) -> NoDup (map fst (kcenter f g)).
Proof.
  induction f as [|[k0 m0] f IH]; cbn [kcenter keys map fst]; intros ND; [constructor|].
  inversion ND as [|? ? NI ND']; subst. destruct (lookup k0 g); [|apply IH; exact ND'].
  cbn [map fst]. constructor; [|apply IH; exact ND']. intros I. apply NI. apply (kcenter_keys_incl f g). exact I.
Qed.

Lemma center_in f g : NoDup (keys f) -> NoDup (keys g) -> forall k m1 m2,
  In (k, (m1, m2)) (xsplit_center f g) <-> lookup k f = Some m1 /\ lookup k g = Some m2.
Proof.
  intros Nf Ng k m1 m2. unfold xsplit_center. destruct (Nat.ltb (List.length f) (List.length g)).
  - rewrite in_map_iff. split.
    + intros [[k' [a b]] [E I]]. unfold kswap in E. cbn [fst snd] in E. injection E as -> -> ->.
      apply kcenter_in in I. destruct I as [I L]. split; [exact L|apply in_lookup_nodup; assumption].
    + intros [L1 L2]. exists (k, (m2, m1)). split; [reflexivity|]. apply kcenter_in. split; [apply lookup_some_in; exact L2|exact L1].
  - rewrite kcenter_in. rewrite (in_lookup_iff k m1 f Nf). reflexivity.
Qed.

Lemma center_nodup f g : NoDup (keys f) -> NoDup (keys g) -> NoDup (xsplit_center f g).
Proof.
  intros Nf Ng. apply (NoDup_map_inv fst). unfold xsplit_center. destruct (Nat.ltb (List.length f) (List.length g)).
  - rewrite map_map. cbn [kswap fst]. apply kcenter_keys_nodup. exact Ng.
  - apply kcenter_keys_nodup. exact Nf.
Qed.

Lemma center_perm f g : NoDup (keys f) -> NoDup (keys g) -> Permutation (xsplit_center f g) (kcenter f g).
Proof.
  intros Nf Ng. apply NoDup_Permutation.
  - apply center_nodup; assumption.
  - apply (NoDup_map_inv fst). apply kcenter_keys_nodup. exact Nf.
  - intros [k [m1 m2]]. rewrite (center_in f g Nf Ng), kcenter_in, (in_lookup_iff k m1 f Nf). reflexivity.
Qed.

Definition cpairs (c : list (string * (xfield * xfield))) : list (clo * clo) := flat_map field_pairs (map snd c).

Lemma field_pairs_in p m1 m2 : In p (field_pairs (m1, m2)) <->
  exists o1 cs1 y1 o2 cs2 y2, m1 = ((o1, cs1), Some y1) /\ m2 = ((o2, cs2), Some y2) /\ p = ((cs1, y1), (cs2, y2)).
Proof.
  destruct m1 as [[o1 cs1] [y1|]], m2 as [[o2 cs2] [y2|]]; cbn [field_pairs In].
  - split.
    + intros [<-|[]]. exists o1, cs1, y1, o2, cs2, y2. auto.
    + intros (? & ? & ? & ? & ? & ? & E1 & E2 & ->). injection E1 as <- <- <-. injection E2 as <- <- <-. left. reflexivity.
  - split; [intros []|intros (? & ? & ? & ? & ? & ? & E1 & E2 & _); discriminate].
  - split; [intros []|intros (? & ? & ? & ? & ? & ? & E1 & E2 & _); discriminate].
  - split; [intros []|intros (? & ? & ? & ? & ? & ? & E1 & E2 & _); discriminate].
Qed.

Lemma xlsize_cpairs_kcenter f g :
  xlsize (cpairs (kcenter f g)) <= fold_right (fun kf n => match snd (snd kf) with Some y => xsize y | None => 0 end + n) 0 f.
Proof.
  induction f as [|[k0 m0] f IH]; cbn [kcenter fold_right snd]; [cbn; lia|].
  destruct (lookup k0 g) as [m2|]; [|lia].
  unfold cpairs in *. cbn [map snd flat_map]. rewrite xlsize_app.
  destruct m0 as [[o1 cs1] [y1|]], m2 as [[o2 cs2] [y2|]]; cbn [field_pairs xlsize fold_right fst snd]; lia.
Qed.

Definition xeq1_post (d1 d2 : dv) (w1 : xv) (r : res xeqres) : Prop :=
  match r with
  | Ok (XB x) => dv_eqb d1 d2 = x
  | Ok (XE p rest) =>
      dv_eqb d1 d2 = forallb eqp2 (p :: rest) /\ xlsize (p :: rest) < xsize w1 /\ Forall goodp (p :: rest)
  | _ => False
  end.

Lemma xgen_post d1 d2 w1 l :
  dv_eqb d1 d2 = forallb eqp2 l -> xlsize l < xsize w1 -> Forall goodp l ->
  xeq1_post d1 d2 w1 (Ok (xgen_eqs l)).
Proof.
  intros E L G. destruct l as [|p rest]; cbn [xgen_eqs xeq1_post]; [exact E|auto].
Qed.

Lemma has_key_lookup {A} k (l : list (string * A)) : has_key k l = true <-> exists v, lookup k l = Some v.
Proof. unfold has_key. destruct (lookup k l) as [v|]; split; try discriminate; eauto. intros [v E]; discriminate. Qed.

Section RecCase.
Variables (f g : list (string * xfield)) (f' g' : list (string * dv)).
Hypothesis (NFf : norm_fields f = Some f') (NFg : norm_fields g = Some g').
Hypothesis (Nf : NoDup (keys f)) (Ng : NoDup (keys g)).
Hypothesis (Wf : Forall (fun kf => match snd (snd kf) with Some y => xwf y = true | None => True end) f).
Hypothesis (Wg : Forall (fun kf => match snd (snd kf) with Some y => xwf y = true | None => True end) g).

Let Nf' : NoDup (keys f') := norm_fields_nodup f f' NFf Nf.
Let Ng' : NoDup (keys g') := norm_fields_nodup g g' NFg Ng.

(* a field defined in [f] whose key exists in [g] and is not "mixed"/"missing" there *)
Lemma defined_lookup_f k m y : lookup k f = Some (m, Some y) -> exists d, norm (snd m) y = Some d /\ lookup k f' = Some d.
Proof.
  intros L. destruct (nf_defined f f' NFf k m y (lookup_some_in _ _ _ L)) as [d N].
  exists d. split; [exact N|]. apply (nf_lookup f f' NFf Nf). exists m, y. auto.
Qed.
Lemma defined_lookup_g k m y : lookup k g = Some (m, Some y) -> exists d, norm (snd m) y = Some d /\ lookup k g' = Some d.
Proof.
  intros L. destruct (nf_defined g g' NFg k m y (lookup_some_in _ _ _ L)) as [d N].
  exists d. split; [exact N|]. apply (nf_lookup g g' NFg Ng). exists m, y. auto.
Qed.

Lemma undefined_is_empty_opt_f k m : lookup k f = Some (m, None) -> is_empty_optional (m, None) = true.
Proof. intros L. pose proof (nf_undef f f' NFf k m L) as O. destruct m as [o cs]. cbn in *. exact O. Qed.
Lemma undefined_is_empty_opt_g k m : lookup k g = Some (m, None) -> is_empty_optional (m, None) = true.
Proof. intros L. pose proof (nf_undef g g' NFg k m L) as O. destruct m as [o cs]. cbn in *. exact O. Qed.

Lemma eqb_false_by (P : Prop) : (dv_eqb (DRec f') (DRec g') = true -> False) -> dv_eqb (DRec f') (DRec g') = false.
Proof. intros H. destruct (dv_eqb (DRec f') (DRec g')); [exfalso; apply H; reflexivity|reflexivity]. Qed.

Lemma xeq1_rec_spec : xeq1_post (DRec f') (DRec g') (XRec f) (xeq1 (XRec f) (XRec g)).
Proof.
  cbn [xeq1].
  destruct (has_only_empty_opts f && has_only_empty_opts g) eqn:A.
  { apply andb_true_iff in A. destruct A as [A1 A2].
    rewrite (nf_only_empty f f' A1 NFf), (nf_only_empty g g' A2 NFg). reflexivity. }
  match goal with |- context [negb (forallb ?p f) || _] => destruct (forallb p f) eqn:LC end; cbn [negb orb].
  2:{ (* a defined field of f has no counterpart in g *)
    cbn [xeq1_post]. apply (eqb_false_by True). intros E. apply (rec_eq_iff f' g' Nf' Ng') in E. destruct E as [E1 _].
    apply forallb_false_ex in LC. destruct LC as ([k [m v]] & I & H). cbn [fst snd] in H.
    apply orb_false_iff in H. destruct H as [HK HE].
    apply (in_lookup_nodup _ _ _ Nf) in I. destruct v as [y|].
    - destruct (defined_lookup_f k m y I) as (d & _ & L). destruct (E1 k d L) as (d2 & L2 & _).
      apply (nf_lookup g g' NFg Ng) in L2. destruct L2 as (m2 & y2 & L2 & _).
      assert (K : has_key k g = true) by (apply has_key_lookup; eauto). exact (eq_true_false_abs _ K HK).
    - rewrite (undefined_is_empty_opt_f k m I) in HE. discriminate. }
  match goal with |- context [negb (forallb ?p g)] => destruct (forallb p g) eqn:RC end; cbn [negb orb].
  2:{ cbn [xeq1_post]. apply (eqb_false_by True). intros E. apply (rec_eq_iff f' g' Nf' Ng') in E. destruct E as [_ E2].
    apply forallb_false_ex in RC. destruct RC as ([k [m v]] & I & H). cbn [fst snd] in H.
    apply orb_false_iff in H. destruct H as [HK HE].
    apply (in_lookup_nodup _ _ _ Ng) in I. destruct v as [y|].
    - destruct (defined_lookup_g k m y I) as (d & _ & L).
      assert (K : has_key k f' = true) by (apply E2; apply has_key_lookup; eauto).
      apply has_key_lookup in K. destruct K as [d1 L1].
      apply (nf_lookup f f' NFf Nf) in L1. destruct L1 as (m1 & y1 & L1 & _).
      assert (K : has_key k f = true) by (apply has_key_lookup; eauto). exact (eq_true_false_abs _ K HK).
    - rewrite (undefined_is_empty_opt_g k m I) in HE. discriminate. }
  rewrite forallb_forall in LC, RC.
  (* facts about common keys *)
  assert (CIN : forall m1 m2, In (m1, m2) (map snd (xsplit_center f g)) <->
                              exists k, lookup k f = Some m1 /\ lookup k g = Some m2).
  { intros m1 m2. rewrite in_map_iff. split.
    - intros [[k [a b]] [E I]]. cbn [snd] in E. injection E as -> ->. exists k. apply (center_in f g Nf Ng). exact I.
    - intros [k L]. exists (k, (m1, m2)). split; [reflexivity|]. apply (center_in f g Nf Ng). exact L. }
  assert (LCK : forall k m y, lookup k f = Some (m, Some y) -> exists m2, lookup k g = Some m2).
  { intros k m y L. specialize (LC (k, (m, Some y)) (lookup_some_in _ _ _ L)). cbn [fst snd] in LC.
    destruct m as [o cs]. cbn [is_empty_optional] in LC. rewrite orb_false_r in LC. apply has_key_lookup. exact LC. }
  assert (RCK : forall k m y, lookup k g = Some (m, Some y) -> exists m1, lookup k f = Some m1).
  { intros k m y L. specialize (RC (k, (m, Some y)) (lookup_some_in _ _ _ L)). cbn [fst snd] in RC.
    destruct m as [o cs]. cbn [is_empty_optional] in RC. rewrite orb_false_r in RC. apply has_key_lookup. exact RC. }
  destruct (map snd (xsplit_center f g)) as [|p0 c0] eqn:C.
  { (* no common key: neither side defines anything *)
    cbn [xeq1_post]. apply (rec_eq_iff f' g' Nf' Ng'). split.
    - intros k d1 L. apply (nf_lookup f f' NFf Nf) in L. destruct L as (m & y & L & _).
      destruct (LCK k m y L) as [m2 L2]. assert (I : In ((m, Some y), m2) []) by (apply CIN; eauto). destruct I.
    - intros k K. apply has_key_lookup in K. destruct K as [d2 L]. apply (nf_lookup g g' NFg Ng) in L.
      destruct L as (m & y & L & _). destruct (RCK k m y L) as [m1 L1].
      assert (I : In (m1, (m, Some y)) []) by (apply CIN; eauto). destruct I. }
  rewrite <- C in *. clear C p0 c0. set (c := map snd (xsplit_center f g)) in *.
  destruct (existsb mixed_optional c) eqn:MX.
  { (* fix 8cabe79 *)
    cbn [xeq1_post]. apply (eqb_false_by True). intros E. apply (rec_eq_iff f' g' Nf' Ng') in E. destruct E as [E1 E2].
    apply existsb_exists in MX. destruct MX as ([m1 m2] & I & H). apply CIN in I. destruct I as (k & L1 & L2).
    unfold mixed_optional in H. cbn [fst snd] in H. apply orb_true_iff in H.
    destruct H as [H|H]; apply andb_true_iff in H; destruct H as [HE HD].
    - destruct m2 as [mm2 [y2|]]; [|discriminate]. destruct (defined_lookup_g k mm2 y2 L2) as (d & _ & L).
      assert (K : has_key k f' = true) by (apply E2; apply has_key_lookup; eauto).
      apply has_key_lookup in K. destruct K as [d1 Ld]. apply (nf_lookup f f' NFf Nf) in Ld.
      destruct Ld as (mm & yy & Ld & _). pose proof (Logic.eq_trans (Logic.eq_sym L1) Ld) as EQ. injection EQ as ->. destruct mm; discriminate.
    - destruct m1 as [mm1 [y1|]]; [|discriminate]. destruct (defined_lookup_f k mm1 y1 L1) as (d & _ & L).
      destruct (E1 k d L) as (d2 & Ld & _). apply (nf_lookup g g' NFg Ng) in Ld.
      destruct Ld as (mm & yy & Ld & _). pose proof (Logic.eq_trans (Logic.eq_sym L2) Ld) as EQ. injection EQ as ->. destruct mm; discriminate. }
  pose proof (existsb_false_all _ _ MX) as NMX.
  destruct (existsb missing_def c) eqn:MD.
  { (* impossible on values that stand for data: an undefined field is optional *)
    cbn [xeq1_post]. apply existsb_exists in MD. destruct MD as ([m1 m2] & I & H). pose proof (NMX _ I) as NM.
    apply CIN in I. destruct I as (k & L1 & L2). unfold missing_def, mixed_optional in *. cbn [fst snd] in *.
    destruct m1 as [mm1 [y1|]], m2 as [mm2 [y2|]]; cbn [is_defined Bool.eqb negb] in H; try discriminate.
    - rewrite (undefined_is_empty_opt_g k mm2 L2) in NM. cbn in NM. rewrite orb_true_r in NM. discriminate.
    - rewrite (undefined_is_empty_opt_f k mm1 L1) in NM. cbn in NM. discriminate. }
  pose proof (existsb_false_all _ _ MD) as NMD.
  (* the scheduled sub-equalities *)
  assert (PIN : forall p, In p (flat_map field_pairs c) <->
            exists k o1 cs1 y1 o2 cs2 y2, lookup k f = Some ((o1, cs1), Some y1) /\ lookup k g = Some ((o2, cs2), Some y2)
                                          /\ p = ((cs1, y1), (cs2, y2))).
  { intros p. rewrite in_flat_map. split.
    - intros ([m1 m2] & I & P). apply CIN in I. destruct I as (k & L1 & L2). apply field_pairs_in in P.
      destruct P as (o1 & cs1 & y1 & o2 & cs2 & y2 & -> & -> & ->). exists k, o1, cs1, y1, o2, cs2, y2. auto.
    - intros (k & o1 & cs1 & y1 & o2 & cs2 & y2 & L1 & L2 & ->).
      exists (((o1, cs1), Some y1), ((o2, cs2), Some y2)). split; [apply CIN; eauto|]. left. reflexivity. }
  apply xgen_post.
  - (* the answer *)
    apply eq_true_iff_eq. rewrite (rec_eq_iff f' g' Nf' Ng'), forallb_forall. split.
    + intros [E1 E2] p I. apply PIN in I. destruct I as (k & o1 & cs1 & y1 & o2 & cs2 & y2 & L1 & L2 & ->).
      destruct (defined_lookup_f _ _ _ L1) as (d1 & N1 & Ld1). destruct (defined_lookup_g _ _ _ L2) as (d2 & N2 & Ld2).
      destruct (E1 k d1 Ld1) as (d2' & Ld2' & E). assert (d2' = d2) by congruence. subst d2'.
      unfold eqp2, cn. cbn [fst snd] in *. rewrite N1, N2. exact E.
    + intros H. split.
      * intros k d1 Ld1. apply (nf_lookup f f' NFf Nf) in Ld1. destruct Ld1 as ([o1 cs1] & y1 & L1 & N1).
        destruct (LCK _ _ _ L1) as [m2 L2].
        assert (I : In (((o1, cs1), Some y1), m2) c) by (apply CIN; eauto).
        pose proof (NMX _ I) as NM. pose proof (NMD _ I) as ND. unfold mixed_optional, missing_def in NM, ND. cbn [fst snd is_defined] in NM, ND.
        destruct m2 as [[o2 cs2] [y2|]]; [|cbn in ND; discriminate].
        assert (P : In ((cs1, y1), (cs2, y2)) (flat_map field_pairs c)) by (apply PIN; exists k, o1, cs1, y1, o2, cs2, y2; auto).
        specialize (H _ P). unfold eqp2, cn in H. cbn [fst snd] in H, N1. rewrite N1 in H.
        destruct (norm cs2 y2) as [d2|] eqn:N2; [|discriminate]. exists d2. split; [|exact H].
        apply (nf_lookup g g' NFg Ng). exists (o2, cs2), y2. auto.
      * intros k K. apply has_key_lookup in K. destruct K as [d2 Ld2]. apply (nf_lookup g g' NFg Ng) in Ld2.
        destruct Ld2 as ([o2 cs2] & y2 & L2 & N2). destruct (RCK _ _ _ L2) as [m1 L1].
        assert (I : In (m1, ((o2, cs2), Some y2)) c) by (apply CIN; eauto).
        pose proof (NMD _ I) as ND. unfold missing_def in ND. cbn [fst snd is_defined] in ND.
        destruct m1 as [mm1 [y1|]]; [|cbn in ND; discriminate].
        destruct (defined_lookup_f _ _ _ L1) as (d1 & _ & Ld1). apply has_key_lookup. eauto.
  - (* the measure *)
    change (flat_map field_pairs c) with (cpairs (xsplit_center f g)).
    assert (P : Permutation (cpairs (xsplit_center f g)) (cpairs (kcenter f g))).
    { unfold cpairs. apply Permutation_flat_map. apply Permutation_map. apply center_perm; assumption. }
    rewrite (xlsize_perm _ _ P). pose proof (xlsize_cpairs_kcenter f g). cbn [xsize]. lia.
  - (* sub-equalities are between values that stand for data *)
    apply Forall_forall. intros p I. apply PIN in I. destruct I as (k & o1 & cs1 & y1 & o2 & cs2 & y2 & L1 & L2 & ->).
    destruct (defined_lookup_f _ _ _ L1) as (d1 & N1 & _). destruct (defined_lookup_g _ _ _ L2) as (d2 & N2 & _).
    rewrite Forall_forall in Wf, Wg.
    pose proof (Wf _ (lookup_some_in _ _ _ L1)) as W1. pose proof (Wg _ (lookup_some_in _ _ _ L2)) as W2. cbn [snd] in W1, W2.
    split; (split; [eexists; unfold cn; cbn [fst snd]; eassumption|assumption]).
Qed.
End RecCase.

Lemma Forall2_len {A B} (R : A -> B -> Prop) l m : Forall2 R l m -> List.length l = List.length m.
Proof. induction 1; cbn; congruence. Qed.

Lemma xwf_arr cs l : xwf (XArr cs l) = true <-> Forall (fun y => xwf y = true) l.
Proof. cbn [xwf]. rewrite forallb_forall, Forall_forall. reflexivity. Qed.

(* arrays: the scheduled pairs, element by element *)
Definition apairs (c1 c2 : list ctr) (l m : list xv) : list (clo * clo) :=
  combine (map (fun x => (c1, x)) l) (map (fun y => (c2, y)) m).

Lemma apairs_spec c1 c2 : forall l m ds1 ds2,
  Forall2 (fun y d => norm c1 y = Some d) l ds1 -> Forall2 (fun y d => norm c2 y = Some d) m ds2 ->
  forallb eqp2 (apairs c1 c2 l m) = forallb eqp (combine ds1 ds2).
Proof.
  intros l m ds1 ds2 H1. revert m ds2. induction H1 as [|y d l ds1 Ny H1 IH]; intros m ds2 H2.
  - reflexivity.
  - destruct H2 as [|y2 d2 m ds2 Ny2 H2]; [reflexivity|].
    unfold apairs in *. cbn [map combine forallb]. rewrite (IH m ds2 H2).
    unfold eqp2, cn, eqp. cbn [fst snd]. rewrite Ny, Ny2. reflexivity.
Qed.

Lemma apairs_size c1 c2 l m : xlsize (apairs c1 c2 l m) <= fold_right (fun y n => xsize y + n) 0 l.
Proof.
  revert m. induction l as [|y l IH]; intros [|y2 m]; unfold apairs in *; cbn [map combine fold_right]; try (cbn; lia).
  rewrite xlsize_cons. cbn [fst snd]. specialize (IH m). lia.
Qed.

Lemma apairs_good c1 c2 : forall l m ds1 ds2,
  Forall2 (fun y d => norm c1 y = Some d) l ds1 -> Forall2 (fun y d => norm c2 y = Some d) m ds2 ->
  Forall (fun y => xwf y = true) l -> Forall (fun y => xwf y = true) m -> Forall goodp (apairs c1 c2 l m).
Proof.
  intros l m ds1 ds2 H1. revert m ds2. induction H1 as [|y d l ds1 Ny H1 IH]; intros m ds2 H2 W1 W2.
  - constructor.
  - destruct H2 as [|y2 d2 m ds2 Ny2 H2]; [constructor|].
    inversion W1; subst. inversion W2; subst. unfold apairs in *. cbn [map combine]. constructor.
    + split; (split; [eexists; unfold cn; cbn [fst snd]; eassumption|assumption]).
    + apply (IH m ds2); assumption.
Qed.

Lemma xeq1_spec w1 w2 d1 d2 : norm [] w1 = Some d1 -> norm [] w2 = Some d2 -> xwf w1 = true -> xwf w2 = true ->
  xeq1_post d1 d2 w1 (xeq1 w1 w2).
Proof.
  intros N1 N2 W1 W2.
  destruct w1 as [|b1|q1|s1|t1|t1 a1|c1 l1|f1|]; try discriminate N1.
  1-5: (cbn in N1; injection N1 as <-;
        destruct w2 as [|b2|q2|s2|t2|t2 a2|c2 l2|f2|]; try discriminate N2;
        try (cbn in N2; injection N2 as <-; reflexivity);
        [rewrite norm_var_eq in N2; destruct (norm [] a2); [injection N2 as <-; reflexivity|discriminate]
        |rewrite norm_arr_eq in N2; destruct (norm_list c2 l2); [injection N2 as <-; reflexivity|discriminate]
        |rewrite norm_rec_eq in N2; destruct (norm_fields f2); [injection N2 as <-; reflexivity|discriminate]]).
  - (* variant *)
    rewrite norm_var_eq in N1. destruct (norm [] a1) as [da1|] eqn:Na1; [|discriminate]. injection N1 as <-.
    destruct w2 as [|b2|q2|s2|t2|t2 a2|c2 l2|f2|]; try discriminate N2;
      try (cbn in N2; injection N2 as <-; reflexivity).
    + rewrite norm_var_eq in N2. destruct (norm [] a2) as [da2|] eqn:Na2; [|discriminate]. injection N2 as <-.
      cbn [xeq1]. destruct (String.eqb t1 t2) eqn:ET; cbn [xgen_eqs xeq1_post dv_eqb]; rewrite ET; cbn [andb]; [|reflexivity].
      cbn [forallb]. unfold eqp2 at 1, cn. cbn [fst snd]. rewrite Na1, Na2, andb_true_r.
      split; [reflexivity|]. split; [cbn; lia|]. cbn [xwf] in W1, W2.
      constructor; [|constructor]. split; (split; [eexists; unfold cn; cbn [fst snd]; eassumption|assumption]).
    + rewrite norm_arr_eq in N2. destruct (norm_list c2 l2); [injection N2 as <-; reflexivity|discriminate].
    + rewrite norm_rec_eq in N2. destruct (norm_fields f2); [injection N2 as <-; reflexivity|discriminate].
  - (* array *)
    rewrite norm_arr_eq in N1. destruct (norm_list c1 l1) as [ds1|] eqn:L1; [|discriminate]. injection N1 as <-.
    destruct w2 as [|b2|q2|s2|t2|t2 a2|c2 l2|f2|]; try discriminate N2;
      try (cbn in N2; injection N2 as <-; reflexivity).
    + rewrite norm_var_eq in N2. destruct (norm [] a2); [injection N2 as <-; reflexivity|discriminate].
    + rewrite norm_arr_eq in N2. destruct (norm_list c2 l2) as [ds2|] eqn:L2; [|discriminate]. injection N2 as <-.
      apply norm_list_spec in L1. apply norm_list_spec in L2.
      apply xwf_arr in W1. apply xwf_arr in W2.
      pose proof (eqb_arr ds1 ds2) as EA. rewrite arr_go_combine in EA.
      rewrite <- (Forall2_len _ _ _ L1), <- (Forall2_len _ _ _ L2) in EA.
      cbn [xeq1]. fold (apairs c1 c2 l1 l2).
      destruct (Nat.eqb (List.length l1) (List.length l2)); cbn [andb] in EA; [|exact EA].
      rewrite <- (apairs_spec c1 c2 l1 l2 ds1 ds2 L1 L2) in EA.
      match goal with |- context [match ?r with nil => _ | cons _ _ => _ end] => remember r as rv eqn:R end. symmetry in R. destruct rv as [|p before]; cbn [xeq1_post].
      * apply (f_equal (@rev _)) in R. rewrite rev_involutive in R. rewrite R in EA. exact EA.
      * assert (P : Permutation (p :: rev before) (apairs c1 c2 l1 l2)).
        { apply (f_equal (@rev _)) in R. rewrite rev_involutive in R. rewrite R. cbn [rev]. apply Permutation_cons_append. }
        cbn [xeq1_post]. split; [rewrite EA; symmetry; apply forallb_perm; exact P|]. split.
        -- rewrite (xlsize_perm _ _ P). pose proof (apairs_size c1 c2 l1 l2). cbn [xsize]. lia.
        -- eapply Permutation_Forall; [apply Permutation_sym; exact P|]. apply (apairs_good c1 c2 l1 l2 ds1 ds2); assumption.
    + rewrite norm_rec_eq in N2. destruct (norm_fields f2); [injection N2 as <-; reflexivity|discriminate].
  - (* record *)
    rewrite norm_rec_eq in N1. destruct (norm_fields f1) as [f1'|] eqn:F1; [|discriminate]. injection N1 as <-.
    destruct w2 as [|b2|q2|s2|t2|t2 a2|c2 l2|f2|]; try discriminate N2;
      try (cbn in N2; injection N2 as <-; reflexivity).
    + rewrite norm_var_eq in N2. destruct (norm [] a2); [injection N2 as <-; reflexivity|discriminate].
    + rewrite norm_arr_eq in N2. destruct (norm_list c2 l2); [injection N2 as <-; reflexivity|discriminate].
    + rewrite norm_rec_eq in N2. destruct (norm_fields f2) as [f2'|] eqn:F2; [|discriminate]. injection N2 as <-.
      apply xwf_rec in W1. apply xwf_rec in W2. destruct W1 as [ND1 WF1]. destruct W2 as [ND2 WF2].
      apply (xeq1_rec_spec f1 f2 f1' f2' F1 F2 ND1 ND2 WF1 WF2).
Qed.

Lemma xrun_spec fuel : forall cur stack,
  xlsize (cur :: stack) < fuel -> Forall goodp (cur :: stack) ->
  xrun fuel cur stack = Ok (forallb eqp2 (cur :: stack)).
Proof.
  induction fuel as [|n IH]; intros cur stack L W; [lia|].
  inversion W as [|? ? [[[d1 C1] W1] [[d2 C2] W2]] Ws]; subst.
  destruct cur as [[cs1 x1] [cs2 x2]]. unfold cn in C1, C2. cbn [fst snd] in *.
  destruct (force_spec cs1 x1 d1 C1) as [F1 N1]. destruct (force_spec cs2 x2 d2 C2) as [F2 N2].
  cbn [xrun fst snd]. rewrite F1, F2. cbn [bind].
  pose proof (xeq1_spec _ _ d1 d2 N1 N2) as S.
  rewrite !xwf_push in S. specialize (S W1 W2).
  cbn [forallb]. unfold eqp2 at 1, cn. cbn [fst snd]. rewrite C1, C2.
  destruct (xeq1 (push_ctrs cs1 x1) (push_ctrs cs2 x2)) as [[[|]|p rest]|e|]; cbn [xeq1_post bind] in S |- *; try contradiction.
  - rewrite S. cbn [andb]. destruct stack as [|p st]; [reflexivity|].
    apply IH; [|exact Ws]. rewrite !xlsize_cons in *. cbn [fst snd] in L.
    assert (1 <= xsize x1) by (destruct x1; cbn; lia). lia.
  - rewrite S. reflexivity.
  - destruct S as (E & LS & WP). rewrite xsize_push in LS. rewrite E. rewrite IH.
    + f_equal. cbn [forallb]. rewrite forallb_app.
      rewrite (forallb_perm eqp2 (rev rest) rest) by (apply Permutation_sym, Permutation_rev).
      rewrite andb_assoc. reflexivity.
    + rewrite !xlsize_cons in *. rewrite xlsize_app. cbn [fst snd] in L.
      rewrite (xlsize_perm (rev rest) rest) by (apply Permutation_sym, Permutation_rev). lia.
    + inversion WP; subst. constructor; [assumption|]. apply Forall_app. split; [|exact Ws].
      eapply Permutation_Forall; [apply Permutation_rev|]. assumption.
Qed.

(* == on values that stand for data is == of the data: pending (validating) contracts, empty
   optional fields and the order of evaluation are irrelevant, and no error is raised *)
Theorem xeq_norm a b da db : norm [] a = Some da -> norm [] b = Some db -> xwf a = true -> xwf b = true ->
  xeq_machine a b = Ok (dv_eqb da db).
Proof.
  intros Na Nb Wa Wb. unfold xeq_machine. rewrite xrun_spec.
  - cbn [forallb]. unfold eqp2, cn. cbn [fst snd]. rewrite Na, Nb, andb_true_r. reflexivity.
  - cbn. lia.
  - constructor; [|constructor]. split; (split; [eexists; unfold cn; cbn [fst snd]; eassumption|assumption]).
Qed.

Theorem xeq_ignores_pending a b a' b' da db :
  norm [] a = Some da -> norm [] a' = Some da -> norm [] b = Some db -> norm [] b' = Some db ->
  xwf a = true -> xwf a' = true -> xwf b = true -> xwf b' = true ->
  xeq_machine a b = xeq_machine a' b'.
Proof. intros. rewrite (xeq_norm a b da db), (xeq_norm a' b' da db); auto. Qed.

(* plain data embeds *)
Lemma norm_embed : forall d, norm [] (embed d) = Some d.
Proof.
  fix IH 1. intros d. destruct d; try reflexivity.
  - change (embed (DVariant tag d)) with (XVariant tag (embed d)).
    rewrite norm_var_eq, (IH d). reflexivity.
  - change (embed (DArr l)) with (XArr [] (map embed l)). rewrite norm_arr_eq.
    assert (E : norm_list [] (map embed l) = Some l).
    { induction l as [|x l IHl]; [reflexivity|]. cbn [map norm_list]. fold (norm_list []). rewrite (IH x), IHl. reflexivity. }
    rewrite E. reflexivity.
  - change (embed (DRec fs)) with (XRec (map (fun kv => (fst kv, ((false, []), Some (embed (snd kv))))) fs)). rewrite norm_rec_eq.
    assert (E : norm_fields (map (fun kv => (fst kv, ((false, []), Some (embed (snd kv))))) fs) = Some fs).
    { induction fs as [|[k v] fs IHf]; [reflexivity|]. cbn [map norm_fields fst snd]. fold norm_fields. rewrite (IH v), IHf. reflexivity. }
    rewrite E. reflexivity.
Qed.

Lemma xwf_embed : forall d, xwf (embed d) = wf d.
Proof.
  fix IH 1. intros d. destruct d; try reflexivity.
  - cbn [embed xwf wf]. apply IH.
  - cbn [embed xwf wf]. induction l as [|x l IHl]; [reflexivity|]. cbn [map forallb]. rewrite (IH x), IHl. reflexivity.
  - cbn [embed xwf wf]. rewrite map_map. cbn [fst]. f_equal.
    induction fs as [|[k v] fs IHf]; [reflexivity|]. cbn [map forallb fst snd]. rewrite (IH v), IHf. reflexivity.
Qed.

Theorem xeq_embed a b : wf a = true -> wf b = true -> xeq_machine (embed a) (embed b) = Ok (dv_eqb a b).
Proof. intros Wa Wb. apply xeq_norm; try apply norm_embed; rewrite xwf_embed; assumption. Qed.

(* ---------- behaviour outside data, pinned on witnesses *)
Definition xf (opt : bool) (v : option xv) : xfield := ((opt, []), v).

(* fix 8cabe79: an empty optional field against a defined one *)
Example xeq_optional_vs_defined :
  xeq_machine (XRec [("a", xf true None)]) (XRec [("a", xf false (Some (XNum 1)))]) = Ok false
  /\ xeq_machine (XRec [("a", xf false (Some (XNum 1)))]) (XRec [("a", xf true None)]) = Ok false
  /\ xeq_machine (XRec [("a", xf true None)]) (XRec []) = Ok true.
Proof. repeat split; reflexivity. Qed.

(* a required field without definition against a defined one is still an error *)
Example xeq_missing_definition :
  xeq_machine (XRec [("a", xf false None)]) (XRec [("a", xf false (Some (XNum 1)))]) = Err MissingDef
  /\ xeq_machine (XRec [("a", xf false None)]) (XRec [("a", xf false None)]) = Ok true.
Proof. split; reflexivity. Qed.

(* the order in which eq() schedules sub-equalities is observable through erroring elements:
   arrays are compared from the last element, records from the first field then from the last *)
Example xeq_order_observable :
  xeq_machine (XArr [] [XBot; XNum 1]) (XArr [] [XNum 1; XNum (2 # 1)]) = Ok false
  /\ xeq_machine (XArr [] [XNum 1; XBot]) (XArr [] [XNum (2 # 1); XNum 1]) = Err DivByZero
  /\ xeq_machine (XRec [("a", xf false (Some (XNum 1))); ("b", xf false (Some XBot))])
                 (XRec [("a", xf false (Some (XNum (2 # 1)))); ("b", xf false (Some (XNum 1)))]) = Ok false
  /\ xeq_machine (XRec [("b", xf false (Some XBot)); ("a", xf false (Some (XNum 1)))])
                 (XRec [("b", xf false (Some (XNum 1))); ("a", xf false (Some (XNum (2 # 1))))]) = Err DivByZero.
Proof. repeat split; reflexivity. Qed.

(* a failing pending contract blames when (and only when) its element is compared *)
Example xeq_blame :
  xeq_machine (XArr [CNum] [XStr "x"]) (XArr [] [XStr "x"]) = Err Blame
  /\ xeq_machine (XArr [CNum] [XStr "x"]) (XArr [] []) = Ok false.
Proof. split; reflexivity. Qed.

Example xeq_norm_nonvacuous :
  let a := XRec [("a", ((false, [CArr CNum]), Some (XArr [CDyn] [XNum 1; XNum (4 # 2)]))); ("o", xf true None)] in
  let b := XRec [("z", ((true, [CNum]), None)); ("a", xf true (Some (XArr [] [XNum (2 # 2); XNum (2 # 1)])))] in
  norm [] a = Some (DRec [("a", DArr [DNum 1; DNum (4 # 2)])]) /\ norm [] b = Some (DRec [("a", DArr [DNum (2 # 2); DNum (2 # 1)])])
  /\ xwf a = true /\ xwf b = true /\ xeq_machine a b = Ok true.
Proof. repeat split; reflexivity. Qed.
