(* Executable model of Nickel's arithmetic on [Number] (= malachite [Rational]).

   Mirrors /repo/core/src/eval/operation.rs (BinaryOp::{Plus,Sub,Mult,Div,Modulo,Pow},
   number_cmp2) and the literal reader /repo/parser/src/utils.rs: parse_number_sci
   (= malachite [Rational::from_sci_string]).

   A number is a Coq [Q]; every operation returns its result through [Qred], i.e. the model
   computes on the canonical representative (lowest terms, positive denominator), which is also
   how malachite stores a Rational and how the harness prints it ([p/q]).

   Out-of-contract behaviour is explicit: [Err DivByZero] where the Rust code returns
   [EvalErrorKind::Other("division by zero")], [Unspec] where the Rust code leaves exact
   arithmetic and goes through [f64] (the theorems say nothing about those results). *)
From Coq Require Import ZArith QArith Qround Qreduction Qpower List.
Import ListNotations.
Open Scope Q_scope.

Inductive err :=
| DivByZero | TypeErr | UnboundId | MissingDef | Incomparable | Blame | OtherErr.

Inductive res (A : Type) :=
| Ok (a : A)
| Err (e : err)
| Unspec.
Arguments Ok {A} a.
Arguments Err {A} e.
Arguments Unspec {A}.

Definition bind {A B} (r : res A) (f : A -> res B) : res B :=
  match r with Ok a => f a | Err e => Err e | Unspec => Unspec end.

(* [n == &Number::ZERO]: zero test, independent of the representative *)
Definition qzero (q : Q) : bool := Z.eqb (Qnum q) 0.

Definition nadd (a b : Q) : Q := Qred (a + b).
Definition nsub (a b : Q) : Q := Qred (a - b).
Definition nmul (a b : Q) : Q := Qred (a * b).

Definition ndiv (a b : Q) : res Q :=
  if qzero b then Err DivByZero else Ok (Qred (a / b)).

(* [Integer::rounding_from(q, RoundingMode::Down)]: malachite's [Down] rounds towards zero *)
Definition trunc (q : Q) : Z := Z.quot (Qnum q) (Zpos (Qden q)).

(* BinaryOp::Modulo: [n1 - Number::from(Integer::rounding_from(n1 / n2, Down)) * n2] *)
Definition nmod (a b : Q) : res Q :=
  if qzero b then Err DivByZero
  else Ok (Qred (a - inject_Z (trunc (a / b)) * b)).

Definition nlt (a b : Q) : bool := match a ?= b with Lt => true | _ => false end.
Definition nle (a b : Q) : bool := match a ?= b with Gt => false | _ => true end.
Definition ngt (a b : Q) : bool := match a ?= b with Gt => true | _ => false end.
Definition nge (a b : Q) : bool := match a ?= b with Lt => false | _ => true end.
Definition neqb (a b : Q) : bool := Qeq_bool a b.

(* [i64::try_from(&Rational)]: succeeds iff the rational is an integer in [-2^63, 2^63) *)
Definition i64_min : Z := (- 2 ^ 63)%Z.
Definition i64_max : Z := (2 ^ 63 - 1)%Z.
Definition fits_i64 (z : Z) : bool := (Z.leb i64_min z && Z.leb z i64_max)%bool.

Definition as_i64 (q : Q) : option Z :=
  let r := Qred q in
  if Pos.eqb (Qden r) 1 then (if fits_i64 (Qnum r) then Some (Qnum r) else None) else None.

(* BinaryOp::Pow, three ways: exponent fits i64 -> exact power (base 0 with a negative exponent
   is the division-by-zero error since c4c4d42); otherwise the f64 path, not specified here. *)
Definition npow (a b : Q) : res Q :=
  match as_i64 b with
  | Some n => if (Z.ltb n 0 && qzero a)%bool then Err DivByZero else Ok (Qred (Qpower a n))
  | None => Unspec
  end.

(* ---- literals.  The lexer token is [0-9]*\.?[0-9]+([eE][+-]?[0-9]+)?; malachite's
   from_sci_string removes the point, reads the digits as one integer m, lowers the exponent by
   the number of fractional digits and returns m * 10^exponent. *)
Record lit := mkLit { l_int : list N; l_frac : list N; l_exp : Z }.

Definition digits_val (ds : list N) : N := fold_left (fun acc d => (acc * 10 + d)%N) ds 0%N.

Definition from_sci (l : lit) : Q :=
  Qred (inject_Z (Z.of_N (digits_val (l_int l ++ l_frac l)))
        * Qpower (10 # 1) (l_exp l - Z.of_nat (List.length (l_frac l)))).

Definition lit_of_Z (z : Z) : lit := mkLit [Z.to_N z] [] 0.
