(* Proofs about Arith/Eq.v: == on data is an equivalence, ignores field order and the
   representative of a number, coincides with equality of the canonical exported tree, and the
   explicit-stack algorithm of operation.rs computes the structural recursion. *)
From Coq Require Import ZArith QArith Qreduction List String Bool Lia Permutation Sorted.
From Coq Require Import OrderedTypeEx.
From NV Require Import Arith.Num Arith.Expr Arith.Eq.
Import ListNotations.
Open Scope string_scope.
Open Scope nat_scope.
(* ---------- induction principle for the nested type *)
Fixpoint dv_rect' (P : dv -> Prop)
  (Hnull : P DNull) (Hbool : forall b, P (DBool b)) (Hnum : forall q, P (DNum q))
  (Hstr : forall s, P (DStr s)) (Henum : forall t, P (DEnum t))
  (Hvar : forall t x, P x -> P (DVariant t x))
  (Harr : forall l, Forall P l -> P (DArr l))
  (Hrec : forall f, Forall (fun kv => P (snd kv)) f -> P (DRec f))
  (d : dv) {struct d} : P d :=
  let rec := dv_rect' P Hnull Hbool Hnum Hstr Henum Hvar Harr Hrec in
  match d with
  | DNull => Hnull
  | DBool b => Hbool b
  | DNum q => Hnum q
  | DStr s => Hstr s
  | DEnum t => Henum t
  | DVariant t x => Hvar t x (rec x)
  | DArr l => Harr l ((fix go (l : list dv) : Forall P l :=
                         match l with [] => Forall_nil _ | x :: t => Forall_cons x (rec x) (go t) end) l)
  | DRec f => Hrec f ((fix go (f : list (string * dv)) : Forall (fun kv => P (snd kv)) f :=
                         match f with [] => Forall_nil _ | kv :: t => Forall_cons kv (rec (snd kv)) (go t) end) f)
  end.

(* ---------- strings: the order used to sort exported record fields *)
Lemma str_ltb_irrefl s : str_ltb s s = false.
Proof. unfold str_ltb. assert (H : String.compare s s = Eq) by (apply String_as_OT.cmp_eq; reflexivity). rewrite H. reflexivity. Qed.

Lemma str_ltb_lt s t : str_ltb s t = true <-> String_as_OT.lt s t.
Proof.
  unfold str_ltb. rewrite <- String_as_OT.cmp_lt. unfold String_as_OT.cmp.
  destruct (String.compare s t); split; intros H; try discriminate; reflexivity.
Qed.

Lemma str_ltb_trans s t u : str_ltb s t = true -> str_ltb t u = true -> str_ltb s u = true.
Proof. rewrite !str_ltb_lt. apply String_as_OT.lt_trans. Qed.

Lemma str_ltb_total s t : str_ltb s t = false -> s <> t -> str_ltb t s = true.
Proof.
  unfold str_ltb. intros H N.
  pose proof (String_as_OT.cmp_antisym t s) as A. unfold String_as_OT.cmp in A. rewrite A.
  destruct (String.compare s t) eqn:E; try discriminate; try reflexivity.
  exfalso. apply N. apply String_as_OT.cmp_eq. exact E.
Qed.

Lemma str_ltb_neq s t : str_ltb s t = true -> s <> t.
Proof. intros H E. subst. rewrite str_ltb_irrefl in H. discriminate. Qed.

(* ---------- association lists *)
Section Assoc.
Context {A : Type}.
Implicit Types l : list (string * A).

Lemma lookup_cons k k' (v : A) l :
  lookup k ((k', v) :: l) = if String.eqb k k' then Some v else lookup k l.
Proof. reflexivity. Qed.

Lemma lookup_insert k k' (v : A) l :
  lookup k (insert_kv k' v l) = if String.eqb k k' then Some v else lookup k l.
Proof.
  induction l as [|[k2 v2] l IH]; cbn [insert_kv lookup].
  - reflexivity.
  - destruct (str_ltb k2 k') eqn:L; cbn [lookup].
    + destruct (String.eqb_spec k k2) as [->|N].
      * destruct (String.eqb_spec k2 k') as [->|_]; [rewrite str_ltb_irrefl in L; discriminate|reflexivity].
      * exact IH.
    + reflexivity.
Qed.

Lemma lookup_sort k l : lookup k (sort_kv l) = lookup k l.
Proof.
  induction l as [|[k1 v1] l IH]; cbn [sort_kv fold_right fst snd]; [reflexivity|].
  fold (sort_kv l). rewrite lookup_insert, IH. reflexivity.
Qed.

Definition keys l : list string := map fst l.
Definition klt (a b : string * A) : Prop := str_ltb (fst a) (fst b) = true.
Definition ssorted l : Prop := StronglySorted klt l.

Lemma lookup_none_notin k l : lookup k l = None <-> ~ In k (keys l).
Proof.
  induction l as [|[k1 v1] l IH]; cbn [lookup keys map fst In].
  - tauto.
  - destruct (String.eqb_spec k k1) as [->|N].
    + split; [discriminate|intros H; exfalso; apply H; left; reflexivity].
    + unfold keys in IH. rewrite IH. split; [intros H [E|I]; [congruence|tauto]|tauto].
Qed.

Lemma lookup_some_in k v l : lookup k l = Some v -> In (k, v) l.
Proof.
  induction l as [|[k1 v1] l IH]; cbn [lookup In]; [discriminate|].
  destruct (String.eqb_spec k k1) as [->|N]; [intros [= ->]; left; reflexivity|auto].
Qed.

Lemma in_lookup_nodup k v l : NoDup (keys l) -> In (k, v) l -> lookup k l = Some v.
Proof.
  induction l as [|[k1 v1] l IH]; cbn [keys map fst lookup In]; [tauto|].
  intros ND [E|I].
  - inversion E; subst. rewrite String.eqb_refl. reflexivity.
  - inversion ND as [|? ? NI ND']; subst.
    destruct (String.eqb_spec k k1) as [->|N].
    + exfalso. apply NI. apply (in_map fst) in I. exact I.
    + apply IH; assumption.
Qed.

Lemma keys_insert k (v : A) l x : In x (keys (insert_kv k v l)) <-> x = k \/ In x (keys l).
Proof.
  induction l as [|[k2 v2] l IH]; cbn [insert_kv keys map fst In].
  - intuition.
  - destruct (str_ltb k2 k); cbn [keys map fst In].
    + unfold keys in IH. rewrite IH. intuition.
    + intuition.
Qed.

Lemma insert_sorted k (v : A) l : ssorted l -> ~ In k (keys l) -> ssorted (insert_kv k v l).
Proof.
  unfold ssorted. induction l as [|[k2 v2] l IH]; cbn [insert_kv]; intros S NI.
  - constructor; [constructor|constructor].
  - inversion S as [|? ? S' F]; subst.
    destruct (str_ltb k2 k) eqn:L.
    + constructor.
      * apply IH; [exact S'|]. intros I. apply NI. right. exact I.
      * rewrite Forall_forall in *. intros [k3 v3] I.
        assert (I' : In k3 (keys (insert_kv k v l))) by (apply (in_map fst) in I; exact I).
        apply keys_insert in I'. destruct I' as [->|I'].
        -- exact L.
        -- unfold keys in I'. apply in_map_iff in I'. destruct I' as [[k4 v4] [E I4]]. cbn in E. subst k4.
           apply (F _ I4).
    + assert (L' : str_ltb k k2 = true).
      { apply str_ltb_total; [exact L|]. intros E. apply NI. left. cbn. congruence. }
      constructor; [constructor; assumption|].
      constructor; [exact L'|].
      rewrite Forall_forall in *. intros x I. unfold klt in *. cbn [fst] in *.
      eapply str_ltb_trans; [exact L'|]. apply (F _ I).
Qed.

Lemma keys_sort l x : In x (keys (sort_kv l)) <-> In x (keys l).
Proof.
  induction l as [|[k1 v1] l IH]; cbn [sort_kv fold_right fst snd keys map In]; [tauto|].
  fold (sort_kv l). rewrite keys_insert. unfold keys in IH. rewrite IH. intuition.
Qed.

Lemma sort_sorted l : NoDup (keys l) -> ssorted (sort_kv l).
Proof.
  induction l as [|[k1 v1] l IH]; cbn [sort_kv fold_right fst snd keys map]; intros ND.
  - constructor.
  - fold (sort_kv l). inversion ND; subst. apply insert_sorted; [apply IH; assumption|].
    rewrite keys_sort. assumption.
Qed.

Lemma sorted_head_lookup k (v : A) l k0 :
  ssorted ((k, v) :: l) -> str_ltb k0 k = true -> lookup k0 ((k, v) :: l) = None.
Proof.
  intros S L. apply lookup_none_notin. cbn [keys map fst In]. intros [E|I].
  - subst. rewrite str_ltb_irrefl in L. discriminate.
  - inversion S as [|? ? S' F]; subst. rewrite Forall_forall in F.
    apply in_map_iff in I. destruct I as [[k4 v4] [E I4]]. cbn in E. subst k4.
    specialize (F _ I4). unfold klt in F. cbn in F.
    pose proof (str_ltb_trans _ _ _ L F) as T. rewrite str_ltb_irrefl in T. discriminate.
Qed.

Lemma sorted_tail_nolookup k (v : A) l : ssorted ((k, v) :: l) -> lookup k l = None.
Proof.
  intros S. apply lookup_none_notin. intros I.
  inversion S as [|? ? S' F]; subst. rewrite Forall_forall in F.
  apply in_map_iff in I. destruct I as [[k4 v4] [E I4]]. cbn in E. subst k4.
  specialize (F _ I4). unfold klt in F. cbn in F. rewrite str_ltb_irrefl in F. discriminate.
Qed.

Lemma sorted_ext l1 l2 :
  ssorted l1 -> ssorted l2 -> (forall k, lookup k l1 = lookup k l2) -> l1 = l2.
Proof.
  revert l2. induction l1 as [|[k1 v1] l1 IH]; intros [|[k2 v2] l2] S1 S2 H.
  - reflexivity.
  - specialize (H k2). cbn in H. rewrite String.eqb_refl in H. discriminate.
  - specialize (H k1). cbn in H. rewrite String.eqb_refl in H. discriminate.
  - assert (E : k1 = k2).
    { destruct (String.eqb_spec k1 k2) as [E|N]; [exact E|exfalso].
      destruct (str_ltb k1 k2) eqn:L.
      - pose proof (H k1) as H1. rewrite (sorted_head_lookup _ _ _ _ S2 L) in H1.
        cbn in H1. rewrite String.eqb_refl in H1. discriminate.
      - pose proof (str_ltb_total _ _ L N) as L'.
        pose proof (H k2) as H2. rewrite (sorted_head_lookup _ _ _ _ S1 L') in H2.
        cbn in H2. rewrite String.eqb_refl in H2. discriminate. }
    subst k2.
    pose proof (H k1) as H1. cbn in H1. rewrite String.eqb_refl in H1. injection H1 as ->.
    f_equal. apply IH.
    + inversion S1; assumption.
    + inversion S2; assumption.
    + intros k. destruct (String.eqb_spec k k1) as [->|N].
      * rewrite (sorted_tail_nolookup _ _ _ S1), (sorted_tail_nolookup _ _ _ S2). reflexivity.
      * specialize (H k). cbn in H. apply String.eqb_neq in N. rewrite N in H. exact H.
Qed.

Lemma sort_ext l1 l2 : NoDup (keys l1) -> NoDup (keys l2) ->
  ((forall k, lookup k l1 = lookup k l2) <-> sort_kv l1 = sort_kv l2).
Proof.
  intros N1 N2. split.
  - intros H. apply sorted_ext; try (apply sort_sorted; assumption).
    intros k. rewrite !lookup_sort. apply H.
  - intros E k. rewrite <- (lookup_sort k l1), <- (lookup_sort k l2), E. reflexivity.
Qed.
End Assoc.
Lemma nodupb_iff l : nodupb l = true <-> NoDup l.
Proof.
  induction l as [|x l IH]; cbn [nodupb].
  - split; [constructor|reflexivity].
  - rewrite andb_true_iff, negb_true_iff, IH. split.
    + intros [E N]. constructor; [|exact N]. intros I.
      assert (X : existsb (String.eqb x) l = true) by (apply existsb_exists; exists x; split; [exact I|apply String.eqb_refl]).
      congruence.
    + intros N. inversion N as [|? ? NI N']; subst. split; [|exact N'].
      destruct (existsb (String.eqb x) l) eqn:E; [|reflexivity].
      apply existsb_exists in E. destruct E as [y [I E]]. apply String.eqb_eq in E. subst. contradiction.
Qed.

Lemma wf_rec f : wf (DRec f) = true <-> NoDup (keys f) /\ Forall (fun kv => wf (snd kv) = true) f.
Proof. cbn [wf]. rewrite andb_true_iff, nodupb_iff, forallb_forall, Forall_forall. reflexivity. Qed.

Lemma wf_arr l : wf (DArr l) = true <-> Forall (fun x => wf x = true) l.
Proof. cbn [wf]. rewrite forallb_forall, Forall_forall. reflexivity. Qed.

Definition cf (kv : string * dv) : string * tree := (fst kv, canon (snd kv)).

Lemma keys_map_cf f : keys (map cf f) = keys f.
Proof. unfold keys. rewrite map_map. reflexivity. Qed.

Lemma lookup_map_cf k f : lookup k (map cf f) = option_map canon (lookup k f).
Proof.
  induction f as [|[k1 v1] f IH]; cbn [map cf lookup fst snd option_map]; [reflexivity|].
  destruct (String.eqb k k1); [reflexivity|exact IH].
Qed.

Lemma neqb_canon p q : neqb p q = true <-> Qred p = Qred q.
Proof.
  unfold neqb. rewrite Qeq_bool_iff. split.
  - apply Qred_complete.
  - intros E. rewrite <- (Qred_correct p), <- (Qred_correct q), E. reflexivity.
Qed.

Lemma tnum_inj p q : TNum (Qnum (Qred p)) (Qden (Qred p)) = TNum (Qnum (Qred q)) (Qden (Qred q)) <-> Qred p = Qred q.
Proof.
  split; [|intros ->; reflexivity]. intros E. injection E as E1 E2.
  destruct (Qred p), (Qred q). cbn in *. congruence.
Qed.

(* the inner loops of [dv_eqb], named *)
Definition arr_go := fix go (l m : list dv) {struct l} : bool :=
  match l, m with
  | [], [] => true
  | x :: l', y :: m' => dv_eqb x y && go l' m'
  | _, _ => false
  end.

Definition rec_go (g : list (string * dv)) := fix go (f : list (string * dv)) {struct f} : bool :=
  match f with
  | [] => true
  | (k, v) :: f' => match lookup k g with Some w => dv_eqb v w && go f' | None => false end
  end.

Lemma eqb_arr l m : dv_eqb (DArr l) (DArr m) = arr_go l m.
Proof. reflexivity. Qed.

Lemma eqb_rec f g : dv_eqb (DRec f) (DRec g) =
  rec_go g f && forallb (fun kv => match lookup (fst kv) f with Some _ => true | None => false end) g.
Proof. reflexivity. Qed.

Lemma rec_go_spec g f : rec_go g f = true <->
  forall k v, In (k, v) f -> exists w, lookup k g = Some w /\ dv_eqb v w = true.
Proof.
  induction f as [|[k1 v1] f IH]; cbn [rec_go In].
  - split; [intros _ k v []|reflexivity].
  - fold (rec_go g). destruct (lookup k1 g) as [w|] eqn:L.
    + rewrite andb_true_iff, IH. split.
      * intros [E H] k v [I|I]; [inversion I; subst; exists w; auto|apply H; exact I].
      * intros H. split.
        -- destruct (H k1 v1 (or_introl eq_refl)) as [w' [L' E]]. congruence.
        -- intros k v I. apply H. right. exact I.
    + split; [discriminate|]. intros H. destruct (H k1 v1 (or_introl eq_refl)) as [w' [L' E]]. congruence.
Qed.

Definition P_canon (a : dv) : Prop :=
  forall b, wf a = true -> wf b = true -> (dv_eqb a b = true <-> canon a = canon b).

Lemma eqb_canon_arr l : Forall P_canon l -> P_canon (DArr l).
Proof.
  intros IH b Wa Wb. destruct b; try (cbn; split; discriminate).
  rename l0 into m. rewrite eqb_arr. cbn [canon].
  apply wf_arr in Wa. apply wf_arr in Wb.
  revert m Wb. induction l as [|x l IHl]; intros [|y m] Wb; cbn [arr_go map]; try (split; (discriminate || reflexivity)).
  inversion IH as [|? ? Px IH']; subst. inversion Wa as [|? ? Wx Wa']; subst. inversion Wb as [|? ? Wy Wb']; subst.
  rewrite andb_true_iff, (Px y Wx Wy), (IHl IH' Wa' m Wb'). split.
  - intros [E1 E2]. injection E2 as E2. rewrite E1, E2. reflexivity.
  - intros E. injection E as E1 E2. split; [exact E1|rewrite E2; reflexivity].
Qed.

Lemma eqb_canon_rec f : Forall (fun kv => P_canon (snd kv)) f -> P_canon (DRec f).
Proof.
  intros IH b Wa Wb. destruct b; try (cbn; split; discriminate).
  rename fs into g. rewrite eqb_rec. cbn [canon]. fold cf.
  apply wf_rec in Wa. destruct Wa as [Nf Wf]. apply wf_rec in Wb. destruct Wb as [Ng Wg].
  rewrite Forall_forall in IH, Wf, Wg.
  assert (S : sort_kv (map cf f) = sort_kv (map cf g) <-> TObj (sort_kv (map cf f)) = TObj (sort_kv (map cf g))).
  { split; [intros ->; reflexivity|intros E; injection E as E; exact E]. }
  rewrite <- S. rewrite <- sort_ext by (rewrite keys_map_cf; assumption).
  rewrite andb_true_iff, rec_go_spec, forallb_forall. split.
  - intros [H1 H2] k. rewrite !lookup_map_cf.
    destruct (lookup k f) as [v|] eqn:Lf.
    + apply lookup_some_in in Lf. destruct (H1 k v Lf) as [w [Lg E]]. rewrite Lg. cbn [option_map]. f_equal.
      apply (IH (k, v) Lf w); [apply (Wf _ Lf)|apply (Wg (k, w)); apply lookup_some_in; exact Lg|exact E].
    + destruct (lookup k g) as [w|] eqn:Lg; [|reflexivity]. exfalso.
      apply lookup_some_in in Lg. specialize (H2 _ Lg). cbn [fst] in H2. rewrite Lf in H2. discriminate.
  - intros H. split.
    + intros k v I. pose proof (in_lookup_nodup _ _ _ Nf I) as Lf.
      pose proof (H k) as Hk. rewrite !lookup_map_cf, Lf in Hk. cbn [option_map] in Hk.
      destruct (lookup k g) as [w|] eqn:Lg; [|discriminate]. cbn [option_map] in Hk. injection Hk as Hk.
      exists w. split; [reflexivity|].
      apply (IH (k, v) I w); [apply (Wf _ I)|apply (Wg (k, w)); apply lookup_some_in; exact Lg|exact Hk].
    + intros [k w] I. cbn [fst]. pose proof (in_lookup_nodup _ _ _ Ng I) as Lg.
      pose proof (H k) as Hk. rewrite !lookup_map_cf, Lg in Hk.
      destruct (lookup k f); [reflexivity|discriminate].
Qed.

Theorem eqb_iff_canon a : P_canon a.
Proof.
  induction a using dv_rect';
    try (apply eqb_canon_arr; assumption); try (apply eqb_canon_rec; assumption);
    try (intros b' Wa Wb; destruct b'; cbn; try (split; (discriminate || reflexivity))).
  - (* bool *) rewrite Bool.eqb_true_iff. split; [intros ->; reflexivity|intros [= ->]; reflexivity].
  - (* num *) rewrite neqb_canon, tnum_inj. reflexivity.
  - (* str *) rewrite String.eqb_eq. split; [intros ->; reflexivity|intros [= ->]; reflexivity].
  - (* enum *) rewrite String.eqb_eq. split; [intros ->; reflexivity|intros [= ->]; reflexivity].
  - (* variant *) cbn in Wa, Wb. rewrite andb_true_iff, String.eqb_eq, (IHa b' Wa Wb).
    split; [intros [-> ->]; reflexivity|intros [= -> ->]; auto].
Qed.
Theorem eq_iff_canon a b : wf a = true -> wf b = true -> (dv_eqb a b = true <-> canon a = canon b).
Proof. intros Wa Wb. apply eqb_iff_canon; assumption. Qed.

Theorem dv_eq_refl a : wf a = true -> dv_eqb a a = true.
Proof. intros W. apply eq_iff_canon; auto. Qed.

Theorem dv_eq_sym a b : wf a = true -> wf b = true -> dv_eqb a b = dv_eqb b a.
Proof.
  intros Wa Wb. apply eq_true_iff_eq. rewrite !eq_iff_canon by assumption. split; congruence.
Qed.

Theorem dv_eq_trans a b c : wf a = true -> wf b = true -> wf c = true ->
  dv_eqb a b = true -> dv_eqb b c = true -> dv_eqb a c = true.
Proof.
  intros Wa Wb Wc. rewrite !eq_iff_canon by assumption. congruence.
Qed.

(* field order is irrelevant *)
Lemma perm_lookup {A} (l1 l2 : list (string * A)) : Permutation l1 l2 -> NoDup (keys l1) ->
  forall k, lookup k l1 = lookup k l2.
Proof.
  intros P N k.
  assert (N2 : NoDup (keys l2)).
  { eapply Permutation_NoDup; [|exact N]. unfold keys. apply Permutation_map. exact P. }
  destruct (lookup k l1) as [v|] eqn:L1.
  - apply lookup_some_in in L1. symmetry. apply in_lookup_nodup; [exact N2|].
    eapply Permutation_in; eassumption.
  - destruct (lookup k l2) as [w|] eqn:L2; [|reflexivity].
    apply lookup_some_in in L2. apply Permutation_sym in P.
    pose proof (Permutation_in _ P L2) as I. apply (in_lookup_nodup _ _ _ N) in I. congruence.
Qed.

Lemma wf_perm f g : Permutation f g -> wf (DRec f) = true -> wf (DRec g) = true.
Proof.
  intros P W. apply wf_rec in W. destruct W as [N F]. apply wf_rec. split.
  - eapply Permutation_NoDup; [|exact N]. unfold keys. apply Permutation_map. exact P.
  - eapply Permutation_Forall; eassumption.
Qed.

Theorem eq_perm f g : Permutation f g -> wf (DRec f) = true -> dv_eqb (DRec f) (DRec g) = true.
Proof.
  intros P W. pose proof (wf_perm _ _ P W) as W'.
  apply eq_iff_canon; [assumption..|]. cbn [canon]. fold cf. f_equal.
  apply wf_rec in W. destruct W as [N _]. apply wf_rec in W'. destruct W' as [N' _].
  apply sort_ext; try (rewrite keys_map_cf; assumption).
  apply perm_lookup; [apply Permutation_map; exact P|rewrite keys_map_cf; exact N].
Qed.

(* the representative of a number is irrelevant *)
Theorem eq_num_repr p q : (p == q)%Q -> dv_eqb (DNum p) (DNum q) = true.
Proof. intros E. cbn. unfold neqb. apply Qeq_bool_iff. exact E. Qed.

(* ---------- == and the serialized form *)
Lemma export_enum_free a : enum_free a = true -> export a = Some (canon a).
Proof.
  induction a using dv_rect'; cbn [enum_free export canon]; intros E; try reflexivity; try discriminate.
  - (* arr *) rewrite forallb_forall in E. rewrite Forall_forall in H.
    assert (X : fold_right (fun x acc => match export x, acc with Some t, Some ts => Some (t :: ts) | _, _ => None end) (Some []) l
                = Some (map canon l)).
    { induction l as [|x l IHl]; cbn [fold_right map]; [reflexivity|].
      rewrite IHl.
      - rewrite (H x (or_introl Logic.eq_refl)) by (apply E; left; reflexivity). reflexivity.
      - intros y I. apply H. right. exact I.
      - intros y I. apply E. right. exact I. }
    rewrite X. reflexivity.
  - (* rec *) rewrite forallb_forall in E. rewrite Forall_forall in H.
    assert (X : fold_right (fun kv acc => match export (snd kv), acc with Some t, Some ts => Some ((fst kv, t) :: ts) | _, _ => None end) (Some []) f
                = Some (map cf f)).
    { induction f as [|x f IHf]; cbn [fold_right map]; [reflexivity|].
      rewrite IHf.
      - rewrite (H x (or_introl Logic.eq_refl)) by (apply E; left; reflexivity). reflexivity.
      - intros y I. apply H. right. exact I.
      - intros y I. apply E. right. exact I. }
    rewrite X. reflexivity.
Qed.

Theorem eq_iff_export a b : wf a = true -> wf b = true -> enum_free a = true -> enum_free b = true ->
  (dv_eqb a b = true <-> export a = export b).
Proof.
  intros Wa Wb Ea Eb. rewrite (export_enum_free a Ea), (export_enum_free b Eb), (eq_iff_canon a b Wa Wb).
  split; [intros ->; reflexivity|intros [= ->]; reflexivity].
Qed.

(* an enum tag is serialized as a string: on values with enum tags == is strictly finer than
   equality of the serialized form *)
Lemma eq_export_enum_refuted :
  exists a b, wf a = true /\ wf b = true /\ export a = export b /\ dv_eqb a b = false.
Proof. exists (DEnum "a"), (DStr "a"). vm_compute. auto. Qed.
Definition eqp (p : dv * dv) : bool := dv_eqb (fst p) (snd p).
Definition wfp (p : dv * dv) : Prop := wf (fst p) = true /\ wf (snd p) = true.
Definition lsize (l : list (dv * dv)) : nat := fold_right (fun p n => size (fst p) + n) 0 l.

Lemma size_pos d : 1 <= size d.
Proof. destruct d; cbn; lia. Qed.

Lemma lsize_cons p l : lsize (p :: l) = size (fst p) + lsize l.
Proof. reflexivity. Qed.

Lemma lsize_app l1 l2 : lsize (l1 ++ l2) = lsize l1 + lsize l2.
Proof. induction l1 as [|p l1 IH]; [reflexivity|]. change (size (fst p) + lsize (l1 ++ l2) = size (fst p) + lsize l1 + lsize l2). lia. Qed.

Lemma lsize_perm l1 l2 : Permutation l1 l2 -> lsize l1 = lsize l2.
Proof.
  induction 1 as [|p l l' _ IH|p q l|l l' l'' _ IH1 _ IH2]; [reflexivity| | |lia].
  - change (size (fst p) + lsize l = size (fst p) + lsize l'). lia.
  - change (size (fst q) + (size (fst p) + lsize l) = size (fst p) + (size (fst q) + lsize l)). lia.
Qed.

Lemma forallb_perm {A} (f : A -> bool) l1 l2 : Permutation l1 l2 -> forallb f l1 = forallb f l2.
Proof.
  induction 1; cbn [forallb]; try congruence.
  destruct (f x), (f y); reflexivity.
Qed.

Lemma arr_go_combine l m :
  arr_go l m = Nat.eqb (List.length l) (List.length m) && forallb eqp (combine l m).
Proof.
  revert m. induction l as [|x l IH]; intros [|y m]; cbn [arr_go List.length Nat.eqb combine forallb andb]; try reflexivity.
  rewrite IH. unfold eqp at 2. cbn [fst snd].
  destruct (Nat.eqb (List.length l) (List.length m)); cbn [andb]; [reflexivity|].
  rewrite andb_false_r. reflexivity.
Qed.

Lemma lsize_combine l m : lsize (combine l m) <= fold_right (fun x n => size x + n) 0 l.
Proof.
  revert m. induction l as [|x l IH]; intros [|y m]; cbn [combine lsize fold_right fst]; try lia.
  fold (lsize (combine l m)). specialize (IH m). lia.
Qed.

Lemma wfp_combine l m : Forall (fun x => wf x = true) l -> Forall (fun x => wf x = true) m -> Forall wfp (combine l m).
Proof.
  intros Hl. revert m. induction Hl as [|x l Wx Hl IH]; intros m Hm; [constructor|].
  destruct Hm as [|y m Wy Hm]; [constructor|]. cbn [combine]. constructor; [split; assumption|apply IH; assumption].
Qed.

Lemma rec_go_center g f :
  forallb (fun kv => has_key (fst kv) g) f = true -> rec_go g f = forallb eqp (center f g).
Proof.
  induction f as [|[k v] f IH]; cbn [forallb rec_go center fst]; [reflexivity|].
  fold (rec_go g). unfold has_key at 1. destruct (lookup k g) as [w|]; [|discriminate].
  cbn [andb forallb]. intros H. rewrite (IH H). reflexivity.
Qed.

Lemma rec_go_missing g f :
  forallb (fun kv => has_key (fst kv) g) f = false -> rec_go g f = false.
Proof.
  induction f as [|[k v] f IH]; cbn [forallb rec_go fst]; [discriminate|].
  fold (rec_go g). unfold has_key at 1. destruct (lookup k g) as [w|]; [|reflexivity].
  cbn [andb]. intros H. rewrite (IH H). apply andb_false_r.
Qed.

Lemma lsize_center f g : lsize (center f g) <= fold_right (fun kv n => size (snd kv) + n) 0 f.
Proof.
  induction f as [|[k v] f IH]; cbn [center fold_right snd]; [cbn; lia|].
  destruct (lookup k g); cbn [lsize fold_right fst]; fold (lsize (center f g)); lia.
Qed.

Lemma wfp_center f g :
  Forall (fun kv => wf (snd kv) = true) f -> Forall (fun kv => wf (snd kv) = true) g -> Forall wfp (center f g).
Proof.
  intros Hf Hg. induction Hf as [|[k v] f Wv Hf IH]; cbn [center]; [constructor|].
  destruct (lookup k g) as [w|] eqn:L; [|exact IH].
  constructor; [|exact IH]. split; [exact Wv|].
  apply lookup_some_in in L. rewrite Forall_forall in Hg. apply (Hg _ L).
Qed.

Lemma has_key_in {A} k (l : list (string * A)) : has_key k l = true <-> In k (keys l).
Proof.
  unfold has_key. destruct (lookup k l) eqn:L.
  - split; [intros _|reflexivity]. apply lookup_some_in in L. apply (in_map fst) in L. exact L.
  - split; [discriminate|]. intros I. apply lookup_none_notin in L. contradiction.
Qed.

Lemma same_keys_length (f g : list (string * dv)) :
  NoDup (keys f) -> NoDup (keys g) ->
  forallb (fun kv => has_key (fst kv) g) f = true -> forallb (fun kv => has_key (fst kv) f) g = true ->
  List.length f = List.length g.
Proof.
  intros Nf Ng H1 H2. rewrite forallb_forall in H1, H2.
  assert (I1 : incl (keys f) (keys g)).
  { intros k I. apply in_map_iff in I. destruct I as [kv [<- I]]. apply has_key_in. apply H1. exact I. }
  assert (I2 : incl (keys g) (keys f)).
  { intros k I. apply in_map_iff in I. destruct I as [kv [<- I]]. apply has_key_in. apply H2. exact I. }
  pose proof (NoDup_incl_length Nf I1) as L1. pose proof (NoDup_incl_length Ng I2) as L2.
  unfold keys in L1, L2. rewrite !map_length in L1, L2. lia.
Qed.

Definition eq1_post (a b : dv) (r : eqres) : Prop :=
  match r with
  | RBool x => dv_eqb a b = x
  | REqs p rest => dv_eqb a b = forallb eqp (p :: rest) /\ lsize (p :: rest) < size a /\ Forall wfp (p :: rest)
  end.

Lemma eq1_spec a b : wf a = true -> wf b = true -> eq1_post a b (eq1 a b).
Proof.
  intros Wa Wb. destruct a, b; try (cbn; reflexivity).
  - (* variant *) cbn [eq1]. destruct (String.eqb tag tag0) eqn:E; cbn [gen_eqs eq1_post].
    + cbn [dv_eqb]. rewrite E. cbn [forallb eqp fst snd andb]. rewrite andb_true_r.
      split; [reflexivity|]. split; [cbn; lia|]. constructor; [split; assumption|constructor].
    + cbn [dv_eqb]. rewrite E. reflexivity.
  - (* arrays *) cbn [eq1]. pose proof (eqb_arr l l0) as EA. rewrite arr_go_combine in EA.
    apply wf_arr in Wa. apply wf_arr in Wb.
    destruct (Nat.eqb (List.length l) (List.length l0)); cbn [andb] in EA; [|exact EA].
    destruct (rev (combine l l0)) as [|p before] eqn:R.
    + apply (f_equal (@rev _)) in R. rewrite rev_involutive in R. rewrite R in EA. exact EA.
    + assert (P : Permutation (p :: rev before) (combine l l0)).
      { apply (f_equal (@rev _)) in R. rewrite rev_involutive in R. rewrite R. cbn [rev].
        apply Permutation_cons_append. }
      cbn [eq1_post]. split; [rewrite EA; symmetry; apply forallb_perm; exact P|]. split.
      * rewrite (lsize_perm _ _ P). pose proof (lsize_combine l l0). cbn [size]. lia.
      * eapply Permutation_Forall; [apply Permutation_sym; exact P|]. apply wfp_combine; assumption.
  - (* records *) cbn [eq1]. pose proof (eqb_rec fs fs0) as ER.
    change (forallb (fun kv => match lookup (fst kv) fs with Some _ => true | None => false end) fs0)
      with (forallb (fun kv => has_key (fst kv) fs) fs0) in ER.
    apply wf_rec in Wa. destruct Wa as [Nf Wf]. apply wf_rec in Wb. destruct Wb as [Ng Wg].
    destruct (forallb (fun kv => has_key (fst kv) fs0) fs) eqn:K1; cbn [andb].
    + destruct (forallb (fun kv => has_key (fst kv) fs) fs0) eqn:K2.
      * rewrite (rec_go_center _ _ K1), andb_true_r in ER.
        unfold split_center. rewrite (same_keys_length _ _ Nf Ng K1 K2), Nat.ltb_irrefl.
        pose proof (lsize_center fs fs0) as LS. pose proof (wfp_center fs fs0 Wf Wg) as WP.
        destruct (center fs fs0) as [|p rest]; cbn [gen_eqs eq1_post]; [exact ER|].
        split; [exact ER|]. split; [cbn [size]; lia|exact WP].
      * cbn [eq1_post]. rewrite ER. apply andb_false_r.
    + cbn [eq1_post]. rewrite ER, (rec_go_missing _ _ K1). reflexivity.
Qed.

Lemma run_spec fuel : forall cur stack,
  lsize (cur :: stack) < fuel -> Forall wfp (cur :: stack) ->
  run fuel cur stack = Some (forallb eqp (cur :: stack)).
Proof.
  induction fuel as [|n IH]; intros cur stack L W; [lia|].
  inversion W as [|? ? [Wa Wb] Ws]; subst.
  cbn [run]. pose proof (eq1_spec _ _ Wa Wb) as S.
  cbn [forallb]. unfold eqp at 1.
  destruct (eq1 (fst cur) (snd cur)) as [[|]|p rest]; cbn [eq1_post] in S.
  - rewrite S. cbn [andb]. destruct stack as [|p st]; [reflexivity|].
    apply IH; [|exact Ws]. rewrite !lsize_cons in *. pose proof (size_pos (fst cur)). lia.
  - rewrite S. reflexivity.
  - destruct S as (E & LS & WP). rewrite E.
    rewrite IH.
    + f_equal. cbn [forallb]. rewrite forallb_app.
      rewrite (forallb_perm eqp (rev rest) rest) by (apply Permutation_sym, Permutation_rev).
      rewrite andb_assoc. reflexivity.
    + rewrite !lsize_cons in *. rewrite lsize_app.
      rewrite (lsize_perm (rev rest) rest) by (apply Permutation_sym, Permutation_rev). lia.
    + inversion WP; subst. constructor; [assumption|]. apply Forall_app. split; [|exact Ws].
      eapply Permutation_Forall; [apply Permutation_rev|]. assumption.
Qed.

Theorem eq_stack_equiv a b : wf a = true -> wf b = true -> eq_machine a b = Some (dv_eqb a b).
Proof.
  intros Wa Wb. unfold eq_machine. rewrite run_spec.
  - cbn [forallb eqp fst snd]. rewrite andb_true_r. reflexivity.
  - cbn. lia.
  - constructor; [split; assumption|constructor].
Qed.

(* ---------- non-vacuity: well-formed values exercising every constructor *)
Definition ex_a : dv :=
  DRec [("a", DNum (2 # 4)); ("b", DArr [DNull; DVariant "T" (DStr "s")]); ("c", DRec [("x", DBool true); ("y", DEnum "E")])].
Definition ex_b : dv :=
  DRec [("c", DRec [("y", DEnum "E"); ("x", DBool true)]); ("a", DNum (1 # 2)); ("b", DArr [DNull; DVariant "T" (DStr "s")])].
Definition ex_c : dv :=
  DRec [("b", DArr [DNull; DVariant "T" (DStr "s")]); ("c", DRec [("x", DBool true); ("y", DEnum "E")]); ("a", DNum (3 # 6))].

Example ex_wf : wf ex_a = true /\ wf ex_b = true /\ wf ex_c = true.
Proof. vm_compute. auto. Qed.
Example ex_eq : dv_eqb ex_a ex_b = true /\ dv_eqb ex_b ex_c = true /\ ex_a <> ex_b.
Proof. split; [reflexivity|split; [reflexivity|discriminate]]. Qed.
Example ex_perm : Permutation [("a", DNull); ("b", DBool true)] [("b", DBool true); ("a", DNull)]
  /\ wf (DRec [("a", DNull); ("b", DBool true)]) = true.
Proof. split; [apply perm_swap|reflexivity]. Qed.
Example ex_enum_free : enum_free (DRec [("a", DArr [DNum 1; DStr "x"])]) = true.
Proof. reflexivity. Qed.
