(* C19 — the theorems about whole histories, assembled from the invariant of [Lsp.Inv]. *)
From Coq Require Import List Arith Bool Lia Permutation.
Import ListNotations.
From NV Require Import Lsp.World Lsp.Spec Lsp.Facts Lsp.Inv Lsp.Witness.

(* hypotheses shared by the theorems: [pick] only reorders; every import goes down in [rank],
   ranks are below the recursion bound [fuel]; the client changes only open documents *)
Record good (pick : list fid -> list fid) (disk : docs) (rank : path -> nat) (fuel : nat) (h : list op) : Prop := {
  gd_pick : forall l, Permutation (pick l) l;
  gd_rank : forall p, rank p < fuel;
  gd_resp : hist_respects rank disk h;
  gd_client : client_ok no_bufs h = true
}.

Lemma good_pick_nodup : forall pick disk rank fuel h, good pick disk rank fuel h ->
  forall l, NoDup l -> NoDup (pick l).
Proof.
  intros pick disk rank fuel h G l H. eapply Permutation_NoDup; [|exact H].
  apply Permutation_sym. apply (gd_pick _ _ _ _ _ G).
Qed.

Lemma good_pick_in : forall pick disk rank fuel h, good pick disk rank fuel h ->
  forall l x, In x (pick l) <-> In x l.
Proof.
  intros pick disk rank fuel h G l x. pose proof (gd_pick _ _ _ _ _ G l) as P. split; intros H.
  - eapply Permutation_in; eauto.
  - eapply Permutation_in; [apply Permutation_sym|]; eauto.
Qed.

Definition final_docs (disk : docs) (h : list op) : docs := cur disk (bufs_after no_bufs h).

Lemma run_winv : forall cf pick disk rank fuel h, good pick disk rank fuel h ->
  exists w, run cf pick disk fuel h = Ok w /\
            WInv disk rank fuel (final_docs disk h) (bufs_after no_bufs h) w.
Proof.
  intros cf pick disk rank fuel h G. destruct (gd_resp _ _ _ _ _ G) as [Hd Hh].
  apply (run_spec cf pick disk rank fuel (good_pick_in _ _ _ _ _ G) (good_pick_nodup _ _ _ _ _ G) (gd_rank _ _ _ _ _ G) Hd h
           (cur disk no_bufs) no_bufs empty_world).
  - apply WInv_empty. exact Hd.
  - exact Hh.
  - exact (gd_client _ _ _ _ _ G).
Qed.

(* the server never terminates abnormally *)
Theorem no_crash : forall cf pick disk rank fuel h, good pick disk rank fuel h ->
  exists w, run cf pick disk fuel h = Ok w.
Proof. intros. destruct (run_winv cf pick disk rank fuel h H) as [w [E _]]. eauto. Qed.

(* nothing stale survives any history: every cached analysis of a current file was computed from
   the current text, and its diagnostics are those recomputed from the current documents *)
Theorem analysis_fresh : forall cf pick disk rank fuel h w, good pick disk rank fuel h ->
  run cf pick disk fuel h = Ok w ->
  forall p f a, live_id w p = Some f -> w_an w f = Some a ->
    final_docs disk h p = Some (a_src a) /\ a_state a <> Typechecking /\
    (a_state a = Typechecked ->
       same_diags (a_tdiags a) (expect_t (final_docs disk h) fuel p) /\ NoDup (a_tdiags a)).
Proof.
  intros cf pick disk rank fuel h w G E p f a Hl Ha.
  destruct (run_winv cf pick disk rank fuel h G) as [w' [E' W]]. rewrite E in E'. inv E'.
  destruct W as [[Gi L R B A] _ _ _].
  pose proof (L p) as Lp. rewrite Hl in Lp. destruct Lp as [c [Fc Cc]].
  pose proof (A f a Ha) as S. destruct (s_src _ _ _ _ _ S) as [p' Fp]. rewrite Fc in Fp. injection Fp as E1 E2. subst p' c.
  split; [exact Cc|]. split.
  - destruct (s_state _ _ _ _ _ S) as [H|[H _]]; congruence.
  - intros Hs. split; [|apply (s_nodup _ _ _ _ _ S Hs)].
    rewrite (expect_t_unfold rank fuel (gd_rank _ _ _ _ _ G) (final_docs disk h) p (a_src a) R Cc).
    apply (s_diags _ _ _ _ _ S Hs).
Qed.

(* every open document has a completed analysis *)
Theorem open_analysed : forall cf pick disk rank fuel h w, good pick disk rank fuel h ->
  run cf pick disk fuel h = Ok w ->
  forall p, bufs_after no_bufs h p <> None ->
    exists f a, live_id w p = Some f /\ w_an w f = Some a /\ a_state a = Typechecked.
Proof.
  intros cf pick disk rank fuel h w G E p Hp.
  destruct (run_winv cf pick disk rank fuel h G) as [w' [E' W]]. rewrite E in E'. inv E'.
  destruct W as [_ _ Ho Ht]. apply Ho in Hp. destruct Hp as [id Hid].
  destruct (Ht p id Hid) as [a [A1 A2]]. exists id, a. split; [|auto]. unfold live_id. rewrite Hid. reflexivity.
Qed.

(* supporting invariants: rev_imports and failed_imports cover what the cached analyses read *)
Theorem rev_imports_complete : forall cf pick disk rank fuel h w, good pick disk rank fuel h ->
  run cf pick disk fuel h = Ok w ->
  forall f a q, w_an w f = Some a -> a_state a = Typechecked ->
    In q (fst (reach (final_docs disk h) (c_imports (a_src a)))) ->
    exists t, live_id w q = Some t /\ w_an w t <> None /\ In f (w_rev w t) /\ In t (w_imports w f).
Proof.
  intros cf pick disk rank fuel h w G E f a q Ha Hs Hq.
  destruct (run_winv cf pick disk rank fuel h G) as [w' [E' W]]. rewrite E in E'. inv E'.
  destruct W as [[Gi L R B A] _ _ _]. apply (s_targets _ _ _ _ _ (A f a Ha) Hs q Hq).
Qed.

Theorem failed_imports_complete : forall cf pick disk rank fuel h w, good pick disk rank fuel h ->
  run cf pick disk fuel h = Ok w ->
  forall f a q, w_an w f = Some a -> a_state a = Typechecked ->
    snd (reach (final_docs disk h) (c_imports (a_src a))) = Some q -> In f (w_failed w q).
Proof.
  intros cf pick disk rank fuel h w G E f a q Ha Hs Hq.
  destruct (run_winv cf pick disk rank fuel h G) as [w' [E' W]]. rewrite E in E'. inv E'.
  destruct W as [[Gi L R B A] _ _ _]. apply (s_stop _ _ _ _ _ (A f a Ha) Hs q Hq).
Qed.

Lemma expect_t_no_parse : forall cu n p, ~ In DParse (expect_t cu n p).
Proof.
  intros cu n p. destruct n as [|k]; cbn; [intros []|]. destruct (cu p) as [c|]; [|intros []].
  unfold expect_c. rewrite in_app_iff. intros [H|H].
  - unfold own_diags in H. destruct (snd (reach cu (c_imports c))); [destruct H as [H|[]]; discriminate|].
    destruct (is_terr c); [destruct H as [H|[]]; discriminate|destruct H].
  - apply in_flat_map in H. destruct H as [q [_ H]]. unfold imp_diag in H. destruct (cu q) as [cq|]; [|destruct H].
    destruct (is_perr cq); [destruct H as [H|[]]; discriminate|].
    destruct (is_nil (expect_t cu k q)); [destruct H|destruct H as [H|[]]; discriminate].
Qed.

Lemma expect_t_ext : forall cu cu' n p, (forall q, cu' q = cu q) -> expect_t cu' n p = expect_t cu n p.
Proof.
  intros cu cu' n. induction n as [|k IH]; intros p E; [reflexivity|].
  cbn. rewrite E. destruct (cu p) as [c|]; [|reflexivity].
  apply expect_c_frame. intros. apply E.
Qed.

(* what a request can see of the document at [p] *)
Definition view (w : world) (p : path) : option analysis :=
  match live_id w p with Some f => w_an w f | None => None end.

(* history independence: two histories that end with the same open buffers (over the same disk)
   leave analyses that agree wherever both have one, and both have one for every open document *)
Theorem answers_history_independent :
  forall cf pick1 pick2 disk rank fuel h1 h2 w1 w2,
  good pick1 disk rank fuel h1 -> good pick2 disk rank fuel h2 ->
  (forall p, bufs_after no_bufs h1 p = bufs_after no_bufs h2 p) ->
  run cf pick1 disk fuel h1 = Ok w1 -> run cf pick2 disk fuel h2 = Ok w2 ->
  forall p,
    (bufs_after no_bufs h1 p <> None -> exists a1 a2, view w1 p = Some a1 /\ view w2 p = Some a2) /\
    (forall a1 a2, view w1 p = Some a1 -> view w2 p = Some a2 ->
       a_src a1 = a_src a2 /\
       (a_state a1 = Typechecked -> a_state a2 = Typechecked -> same_diags (a_tdiags a1) (a_tdiags a2))).
Proof.
  intros cf pick1 pick2 disk rank fuel h1 h2 w1 w2 G1 G2 Eb E1 E2 p.
  assert (Ec : forall q, final_docs disk h2 q = final_docs disk h1 q).
  { intros q. unfold final_docs, cur. rewrite Eb. reflexivity. }
  split.
  - intros Hp. destruct (open_analysed cf pick1 disk rank fuel h1 w1 G1 E1 p Hp) as [f1 [a1 [L1 [A1 _]]]].
    rewrite Eb in Hp. destruct (open_analysed cf pick2 disk rank fuel h2 w2 G2 E2 p Hp) as [f2 [a2 [L2 [A2 _]]]].
    exists a1, a2. unfold view. rewrite L1, L2. auto.
  - intros a1 a2 V1 V2. unfold view in V1, V2.
    destruct (live_id w1 p) as [f1|] eqn:L1; [|discriminate]. destruct (live_id w2 p) as [f2|] eqn:L2; [|discriminate].
    destruct (analysis_fresh cf pick1 disk rank fuel h1 w1 G1 E1 p f1 a1 L1 V1) as [S1 [_ D1]].
    destruct (analysis_fresh cf pick2 disk rank fuel h2 w2 G2 E2 p f2 a2 L2 V2) as [S2 [_ D2]].
    rewrite Ec in S2. split; [congruence|]. intros T1 T2 d.
    rewrite (proj1 (D1 T1) d), (proj1 (D2 T2) d). rewrite (expect_t_ext (final_docs disk h1) (final_docs disk h2) fuel p Ec). tauto.
Qed.

Lemma run_pinv : forall cf pick disk rank fuel h w, good pick disk rank fuel h ->
  (purge_closed cf = true \/ no_close h) ->
  run cf pick disk fuel h = Ok w -> PInv disk w.
Proof.
  intros cf pick disk rank fuel h w G Hp E. destruct (gd_resp _ _ _ _ _ G) as [Hd Hh].
  apply (run_pub cf pick disk rank fuel (good_pick_in _ _ _ _ _ G) (good_pick_nodup _ _ _ _ _ G) (gd_rank _ _ _ _ _ G) Hd h
           (cur disk no_bufs) no_bufs empty_world w); auto.
  - apply WInv_empty. exact Hd.
  - apply PInv_empty.
  - exact (gd_client _ _ _ _ _ G).
Qed.

(* no stale and no missing diagnostics: what was last published for a current file is what a
   fresh server computes from the final documents, and every open document has been published.
   Holds for the code with the proposed close_file patch, and for the code as it is on histories
   without didClose (see [closed_buffer_refuted]). *)
Theorem diagnostics_fresh : forall cf pick disk rank fuel h w, good pick disk rank fuel h ->
  (purge_closed cf = true \/ no_close h) ->
  run cf pick disk fuel h = Ok w ->
  (forall p ds, w_pub w p = Some ds -> live_id w p <> None ->
     same_diags ds (expect (final_docs disk h) fuel p) /\ NoDup ds) /\
  (forall p, bufs_after no_bufs h p <> None -> w_pub w p <> None).
Proof.
  intros cf pick disk rank fuel h w G Hp E.
  pose proof (run_pinv cf pick disk rank fuel h w G Hp E) as [A P1 P6 PO].
  split.
  - intros p ds Hds Hl. destruct (live_id w p) as [f|] eqn:El; [|congruence].
    destruct (P1 p ds f Hds El) as [[]|[a [Ha [Hs ->]]]].
    destruct (analysis_fresh cf pick disk rank fuel h w G E p f a El Ha) as [Hc [_ Hd]].
    destruct (Hd Hs) as [Hd1 Hd2]. split.
    + unfold expect. rewrite Hc. unfold pdiags. intros d. rewrite !in_app_iff. rewrite (Hd1 d). tauto.
    + unfold pdiags. apply NoDup_app_intro; [destruct (is_perr (a_src a)); repeat constructor; intros []|exact Hd2|].
      intros d Hdd Hi. destruct (is_perr (a_src a)); [|destruct Hdd]. destruct Hdd as [<-|[]].
      apply Hd1 in Hi. apply (expect_t_no_parse _ _ _ Hi).
  - intros p Hb. destruct (run_winv cf pick disk rank fuel h G) as [w' [E' W]]. rewrite E in E'. inv E'.
    destruct W as [_ _ Ho _]. apply Ho in Hb. destruct Hb as [id Hid]. apply (PO p id Hid).
Qed.

(* the hypotheses are satisfiable by a history with an import, a close and a type error *)
Example good_example : good idpick disk1 rank1 2 hist1.
Proof.
  constructor.
  - intros l. apply Permutation_refl.
  - intros p. unfold rank1. destruct (Nat.eqb p 0); lia.
  - exact hist1_respects.
  - reflexivity.
Qed.
