(* C19 — specification side: what a freshly started server answers about given documents.

   [expect] is a pure function of the current contents (open buffers over the fixed disk); the
   theorems say that after every history the cached analyses and the published diagnostics of the
   model of the server ([Lsp.World]) coincide with it. *)
From Coq Require Import List Arith Bool.
Import ListNotations.
From NV Require Import Lsp.World.
Open Scope bool_scope.

Definition docs := path -> option content.

(* the documents a server sees: the open buffer if there is one, else the file on disk *)
Definition cur (disk bufs : docs) : docs :=
  fun p => match bufs p with Some c => Some c | None => disk p end.

(* open buffers after a history *)
Definition bufs_step (b : docs) (o : op) : docs :=
  match o with
  | Open p c => upd b p (Some c)
  | Change p c => upd b p (Some c)
  | Close p => upd b p None
  end.
Definition bufs_after (b : docs) (h : list op) : docs := fold_left bufs_step h b.
Definition no_bufs : docs := fun _ => None.

(* a conforming client changes only documents that are open *)
Fixpoint client_ok (b : docs) (h : list op) : bool :=
  match h with
  | [] => true
  | o :: t =>
      (match o with
       | Change p _ => match b p with Some _ => true | None => false end
       | _ => true
       end) && client_ok (bufs_step b o) t
  end.

Section Expect.
Variable cu : docs.

(* imports the typechecker reaches (in source order) and the import that stops it *)
Fixpoint reach (l : list path) : list path * option path :=
  match l with
  | [] => ([], None)
  | q :: t => match cu q with
              | None => ([], Some q)
              | Some _ => let '(r, e) := reach t in (q :: r, e)
              end
  end.

Definition own_diags (c : content) : list diag :=
  match snd (reach (c_imports c)) with
  | Some q => [DMissing q]
  | None => if is_terr c then [DType] else []
  end.

(* diagnostic that a failing import of [q] adds to the importing document; [et q] are the
   typecheck diagnostics of the document at [q] *)
Definition imp_diag (et : path -> list diag) (q : path) : list diag :=
  match cu q with
  | Some cq => if is_perr cq then [DImpParse q]
               else if is_nil (et q) then [] else [DImpType q]
  | None => []
  end.

(* typecheck diagnostics of a document with text [c] *)
Definition expect_c (et : path -> list diag) (c : content) : list diag :=
  own_diags c ++ flat_map (imp_diag et) (nodup Nat.eq_dec (fst (reach (c_imports c)))).

(* typecheck diagnostics of the document at [p]; [n] bounds the depth of the import graph *)
Fixpoint expect_t (n : nat) (p : path) : list diag :=
  match n with
  | 0 => []
  | S k => match cu p with
           | None => []
           | Some c => expect_c (expect_t k) c
           end
  end.

(* the diagnostics published for the document at [p] *)
Definition expect (n : nat) (p : path) : list diag :=
  match cu p with
  | None => []
  | Some c => (if is_perr c then [DParse] else []) ++ expect_t n p
  end.

End Expect.

(* every import goes to a document of strictly smaller rank: the import graph is a DAG, and stays
   compatible with one order over the whole history *)
Definition content_respects (rank : path -> nat) (p : path) (c : content) : Prop :=
  forall q, In q (c_imports c) -> rank q < rank p.

Definition op_respects (rank : path -> nat) (o : op) : Prop :=
  match o with
  | Open p c => content_respects rank p c
  | Change p c => content_respects rank p c
  | Close _ => True
  end.

Definition hist_respects (rank : path -> nat) (disk : docs) (h : list op) : Prop :=
  (forall p c, disk p = Some c -> content_respects rank p c) /\ Forall (op_respects rank) h.

Definition no_close (h : list op) : Prop :=
  Forall (fun o => match o with Close _ => False | _ => True end) h.

(* same diagnostics up to the iteration order of the server's hash sets *)
Definition same_diags (l l' : list diag) : Prop := forall d, In d l <-> In d l'.

(* the FileId under which path [p] is currently known, if it is not a closed buffer *)
Definition live_id (w : world) (p : path) : option fid :=
  match w_ids w p with
  | Some (f, KMem) => Some f
  | Some (f, KFs) => Some f
  | _ => None
  end.

Definition live (w : world) (f : fid) : Prop :=
  exists p c, w_files w f = Some (p, c) /\ live_id w p = Some f.

Definition is_open (w : world) (p : path) : Prop := exists f, w_ids w p = Some (f, KMem).
