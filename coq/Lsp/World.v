(* C19 — model of the bookkeeping of the Nickel language server's [World]
   (lsp/nls/src/world.rs, files.rs, server.rs, analysis.rs; core/src/cache.rs SourceCache).

   What is kept of a document is what matters for dependency tracking: a document version is a
   [content] = (identifier of the text, list of import targets in source order, ok / type error /
   parse error).  Everything else mirrors the code step by step, at the level of [FileId]s:

     SourceCache      files (FileId -> path * text), file_ids (path -> FileId * Memory/MemoryClosed/
                      Filesystem), get_or_add_file, replace_string, close_in_memory_file
     World            analysis_reg, import_data.{imports,rev_imports}, failed_imports, file_uris,
                      add_file / update_file / close_file / invalidate / parse / typecheck /
                      typecheck_uncached (fill_analysis + WorldImportResolver::resolve +
                      associate_failed_import + the loop over imported files)
     Server / files   handle_open / handle_save / handle_close, issue_diagnostics, last_diagnostics

   The disk is fixed for a whole history (didChange does not write files); so time stamps of
   Filesystem entries never change.  All documents live in one directory, so a path is its base
   name ([failed_imports] is keyed by base name in the code).

   The iteration order of the code's HashMap/HashSet-s is a parameter [pick] of the model (any
   function returning a permutation of its argument); the theorems hold for every such [pick].

   Out-of-contract behaviour is explicit: [Crash Overflow] is unbounded recursion (every [fuel] is
   exhausted), [Crash Panic] an [unwrap] on [None].

   [cfg] selects between two versions of the code: [cfg_patched] is the code as it is now (after
   the fixes 36b39fb "close_file forgets the closed file id" and 257606a "resolve does not
   re-parse the file being analysed", found by this model); [cfg_code] is the code before them,
   kept so that the refuted statements of Props/C19.v stay expressible and a regression is
   recognised (checks/c19.py detects which configuration the code under test follows). *)
From Coq Require Import List Arith Bool.
Import ListNotations.
Open Scope bool_scope.

Definition path := nat.
Definition fid := nat.

Inductive status : Type := SOk | STerr | SPerr.
Record content : Type := mkC { c_vid : nat; c_imports : list path; c_status : status }.

Inductive kind : Type := KMem | KClosed | KFs.
Inductive astate : Type := Parsed | Typechecking | Typechecked.

(* diagnostics, as classes *)
Inductive diag : Type :=
| DParse                      (* parse error of the file itself *)
| DType                       (* type error of the file itself *)
| DMissing (p : path)         (* import of p failed: could not find import *)
| DImpParse (p : path)        (* import of p could not be resolved: content could not be parsed *)
| DImpType (p : path).        (* import of p could not be resolved: content failed to typecheck *)

(* PackedAnalysis: state, the text that was parsed (its AST), cached typecheck diagnostics *)
Record analysis : Type := mkA { a_state : astate; a_src : content; a_tdiags : list diag }.

Inductive crash : Type := Overflow | Panic.
Inductive res (A : Type) : Type := Ok (a : A) | Crash (c : crash).
Arguments Ok {A} a.
Arguments Crash {A} c.

Record cfg : Type := mkCfg {
  purge_closed : bool;   (* fix 36b39fb: close_file forgets the closed FileId everywhere *)
  self_guard : bool      (* fix 257606a: resolve does not re-parse the file being analysed *)
}.
Definition cfg_code : cfg := mkCfg false false.
Definition cfg_patched : cfg := mkCfg true true.

Record world : Type := mkW {
  w_next : fid;                                (* next fresh FileId *)
  w_files : fid -> option (path * content);    (* sources.files + sources.file_paths *)
  w_ids : path -> option (fid * kind);         (* sources.file_ids *)
  w_an : fid -> option analysis;               (* analysis_reg.analyses *)
  w_imports : fid -> list fid;                 (* import_data.imports *)
  w_rev : fid -> list fid;                     (* import_data.rev_imports *)
  w_failed : path -> list fid;                 (* failed_imports *)
  w_uris : fid -> option path;                 (* file_uris *)
  w_pub : path -> option (list diag);          (* Server::last_diagnostics *)
  w_log : list (path * list diag)              (* publishDiagnostics sent during the last step, oldest first *)
}.

Definition empty_world : world :=
  mkW 0 (fun _ => None) (fun _ => None) (fun _ => None) (fun _ => []) (fun _ => [])
      (fun _ => []) (fun _ => None) (fun _ => None) [].

Definition upd {A} (m : nat -> A) (k : nat) (v : A) : nat -> A :=
  fun x => if Nat.eqb x k then v else m x.

Definition mem (x : nat) (l : list nat) : bool := existsb (Nat.eqb x) l.
Definition add_set (x : nat) (l : list nat) : list nat := if mem x l then l else l ++ [x].
Fixpoint union_set (l l' : list nat) : list nat :=
  match l' with [] => l | x :: t => union_set (add_set x l) t end.
Definition remove_nat (x : nat) (l : list nat) : list nat := filter (fun y => negb (Nat.eqb y x)) l.

Definition set_next w v := mkW v (w_files w) (w_ids w) (w_an w) (w_imports w) (w_rev w) (w_failed w) (w_uris w) (w_pub w) (w_log w).
Definition set_files w v := mkW (w_next w) v (w_ids w) (w_an w) (w_imports w) (w_rev w) (w_failed w) (w_uris w) (w_pub w) (w_log w).
Definition set_ids w v := mkW (w_next w) (w_files w) v (w_an w) (w_imports w) (w_rev w) (w_failed w) (w_uris w) (w_pub w) (w_log w).
Definition set_an w v := mkW (w_next w) (w_files w) (w_ids w) v (w_imports w) (w_rev w) (w_failed w) (w_uris w) (w_pub w) (w_log w).
Definition set_imports w v := mkW (w_next w) (w_files w) (w_ids w) (w_an w) v (w_rev w) (w_failed w) (w_uris w) (w_pub w) (w_log w).
Definition set_rev w v := mkW (w_next w) (w_files w) (w_ids w) (w_an w) (w_imports w) v (w_failed w) (w_uris w) (w_pub w) (w_log w).
Definition set_failed w v := mkW (w_next w) (w_files w) (w_ids w) (w_an w) (w_imports w) (w_rev w) v (w_uris w) (w_pub w) (w_log w).
Definition set_uris w v := mkW (w_next w) (w_files w) (w_ids w) (w_an w) (w_imports w) (w_rev w) (w_failed w) v (w_pub w) (w_log w).
Definition set_pub w v := mkW (w_next w) (w_files w) (w_ids w) (w_an w) (w_imports w) (w_rev w) (w_failed w) (w_uris w) v (w_log w).
Definition set_log w v := mkW (w_next w) (w_files w) (w_ids w) (w_an w) (w_imports w) (w_rev w) (w_failed w) (w_uris w) (w_pub w) v.

Definition is_perr (c : content) : bool := match c_status c with SPerr => true | _ => false end.
Definition is_terr (c : content) : bool := match c_status c with STerr => true | _ => false end.
Definition is_nil {A} (l : list A) : bool := match l with [] => true | _ => false end.

Definition path_of (w : world) (f : fid) : path :=
  match w_files w f with Some (p, _) => p | None => 0 end.

Section Model.
Variable cf : cfg.
Variable pick : list fid -> list fid.       (* HashMap / HashSet iteration order *)
Variable disk : path -> option content.     (* the file system, fixed *)

(* ------------------------------------------------------------------ SourceCache *)

(* add_string / add_normalized_file: a fresh FileId for [p] *)
Definition alloc (w : world) (p : path) (c : content) (k : kind) : world * fid :=
  let id := w_next w in
  (set_next (set_ids (set_files w (upd (w_files w) id (Some (p, c)))) (upd (w_ids w) p (Some (id, k)))) (S id), id).

(* id_of / id_or_new_timestamp_of: the up-to-date id of a path, if any *)
Definition id_of (w : world) (p : path) : option fid :=
  match w_ids w p with
  | Some (id, KMem) => Some id
  | Some (id, KFs) => match disk p with Some _ => Some id | None => None end
  | Some (_, KClosed) | None => None
  end.

(* get_or_add_file *)
Definition get_or_add_file (w : world) (p : path) : world * option fid :=
  match id_of w p with
  | Some id => (w, Some id)
  | None => match disk p with
            | Some c => let '(w', id) := alloc w p c KFs in (w', Some id)
            | None => (w, None)
            end
  end.

(* replace_string *)
Definition replace_string (w : world) (p : path) (c : content) : world * fid :=
  match id_of w p with
  | Some id => (set_files (set_ids w (upd (w_ids w) p (Some (id, KMem)))) (upd (w_files w) id (Some (p, c))), id)
  | None => alloc w p c KMem
  end.

(* close_in_memory_file: None = Err(FileIdNotFound | FileNotOpen) *)
Definition close_in_memory_file (w : world) (p : path) : option (world * fid * option fid) :=
  match w_ids w p with
  | Some (id, KMem) =>
      let w1 := set_ids w (upd (w_ids w) p (Some (id, KClosed))) in
      let '(w2, r) := get_or_add_file w1 p in
      Some (w2, id, r)
  | _ => None
  end.

(* ------------------------------------------------------------------ World::invalidate *)

Fixpoint inv_rec (fuel : nat) (w : world) (acc : list fid) (f : fid) : option (world * list fid) :=
  match fuel with
  | 0 => None
  | S k =>
      let w1 := set_an (set_imports w (upd (w_imports w) f [])) (upd (w_an w) f None) in
      let rd := pick (w_rev w1 f) in
      let w2 := set_rev w1 (upd (w_rev w1) f []) in
      fold_left (fun st g => match st with
                             | Some (w', acc') => inv_rec k w' acc' g
                             | None => None
                             end) rd (Some (w2, acc ++ rd))
  end.

Definition invalidate (fuel : nat) (w : world) (f : fid) : res (world * list fid) :=
  match inv_rec fuel w [] f with Some r => Ok r | None => Crash Overflow end.

Definition remove_analyses (w : world) (l : list fid) : world :=
  fold_left (fun w' g => set_an w' (upd (w_an w') g None)) l w.

(* ------------------------------------------------------------------ add_file / update_file / close_file *)

(* one more invalidation, accumulated in the HashSet of invalidated files *)
Definition inv_step (fuel : nat) (st : res (world * list fid)) (g : fid) : res (world * list fid) :=
  match st with
  | Crash x => Crash x
  | Ok (w', inv) => match invalidate fuel w' g with
                    | Crash x => Crash x
                    | Ok (w'', l) => Ok (w'', union_set inv l)
                    end
  end.

Definition add_file (fuel : nat) (w : world) (p : path) (c : content) : res (world * fid * list fid) :=
  let failed_to_import := w_failed w p in
  let w0 := set_failed w (upd (w_failed w) p []) in
  let '(w1, id) := replace_string w0 p c in
  match invalidate fuel w1 id with
  | Crash x => Crash x
  | Ok (w2, l1) =>
      match fold_left (inv_step fuel) (pick failed_to_import) (Ok (w2, union_set failed_to_import l1)) with
      | Crash x => Crash x
      | Ok (w3, inv) =>
          let w4 := remove_analyses w3 inv in
          Ok (set_uris w4 (upd (w_uris w4) id (Some p)), id, pick inv)
      end
  end.

Definition update_file (fuel : nat) (w : world) (p : path) (c : content) : res (world * fid * list fid) :=
  let '(w1, id) := replace_string w p c in
  match invalidate fuel w1 id with
  | Crash x => Crash x
  | Ok (w2, inv) => Ok (remove_analyses w2 inv, id, inv)
  end.

(* None = the handler returns an error, which the server ignores *)
Definition close_file (fuel : nat) (w : world) (p : path) : res (option (world * option fid * list fid)) :=
  match close_in_memory_file w p with
  | None => Ok None
  | Some (w1, closed, repl) =>
      let w2 := set_an w1 (upd (w_an w1) closed None) in
      match invalidate fuel w2 closed with
      | Crash x => Crash x
      | Ok (w3, inv) =>
          let w4 := remove_analyses w3 inv in
          let w5 := match repl with Some id => set_uris w4 (upd (w_uris w4) id (Some p)) | None => w4 end in
          if purge_closed cf then
            let w6 := set_failed (set_rev w5 (fun k => remove_nat closed (w_rev w5 k)))
                                 (fun k => remove_nat closed (w_failed w5 k)) in
            Ok (Some (w6, repl, remove_nat closed inv))
          else Ok (Some (w5, repl, inv))
      end
  end.

(* ------------------------------------------------------------------ parse / typecheck *)

Definition parse (w : world) (f : fid) : res (world * list diag) :=
  match w_files w f with
  | None => Crash Panic                                   (* file_format(file_id).unwrap() *)
  | Some (_, c) =>
      Ok (set_an w (upd (w_an w) f (Some (mkA Parsed c []))), if is_perr c then [DParse] else [])
  end.

(* WorldImportResolver::resolve for the imports of [f], in source order; stops at the first
   import that cannot be found.  [news] are the freshly parsed analyses (new_imports). *)
Definition resolve_one (f : fid) (st : world * list (fid * analysis) * option diag) (p : path)
  : world * list (fid * analysis) * option diag :=
  let '(w, news, err) := st in
  match err with
  | Some _ => st
  | None =>
      let '(w1, r) := get_or_add_file w p in
      match r with
      | None => (w1, news, Some (DMissing p))
      | Some t =>
          let w2 := set_uris w1 (upd (w_uris w1) t (Some p)) in
          let w3 := set_imports w2 (upd (w_imports w2) f (add_set t (w_imports w2 f))) in
          let w4 := set_rev w3 (upd (w_rev w3) t (add_set f (w_rev w3 t))) in
          (* the registry seen by the resolver does not contain [f] itself *)
          let cached := if Nat.eqb t f then self_guard cf
                        else match w_an w4 t with Some _ => true | None => false end in
          if cached then (w4, news, None)
          else match w_files w4 t with
               | Some (_, c) => (w4, news ++ [(t, mkA Parsed c [])], None)
               | None => (w4, news, None)
               end
      end
  end.

Definition add_tdiags (w : world) (f : fid) (ds : list diag) : world :=
  match w_an w f with
  | Some a => set_an w (upd (w_an w) f (Some (mkA (a_state a) (a_src a) (a_tdiags a ++ ds))))
  | None => w
  end.

Definition complete_typechecking (w : world) (f : fid) : world :=
  match w_an w f with
  | Some a => set_an w (upd (w_an w) f (Some (mkA Typechecked (a_src a) (a_tdiags a))))
  | None => w
  end.

(* typecheck_uncached, first half: fill_analysis (the resolver walks the imports of the parsed
   text [src]), the analysis goes to state Typechecking, the freshly parsed imports are inserted,
   associate_failed_import, and the file's own diagnostics are cached *)
Definition own_of (src : content) (err : option diag) : list diag :=
  match err with
  | Some d => [d]
  | None => if is_terr src then [DType] else []
  end.

Definition ins_news (w : world) (news : list (fid * analysis)) : world :=
  fold_left (fun w' (ta : fid * analysis) => set_an w' (upd (w_an w') (fst ta) (Some (snd ta)))) news w.

Definition fill_block (w : world) (f : fid) (src : content) : world * list diag :=
  let '(w1, news, err) := fold_left (resolve_one f) (c_imports src) (w, [], None) in
  let own := own_of src err in
  let w2 := set_an w1 (upd (w_an w1) f (Some (mkA Typechecking src []))) in
  let w3 := ins_news w2 news in
  let w4 := match err with
            | Some (DMissing p) => set_failed w3 (upd (w_failed w3) p (add_set f (w_failed w3 p)))
            | _ => w3
            end in
  (add_tdiags w4 f own, own).

(* typecheck_uncached, second half: one iteration of the loop over import_data.imports(file_id);
   [tc] is the recursive call World::typecheck *)
Definition loop_step (tc : world -> fid -> res (world * list diag))
                     (st : res (world * list diag)) (t : fid) : res (world * list diag) :=
  match st with
  | Crash x => Crash x
  | Ok (w', ds) =>
      match w_files w' t with
      | None => Ok (w', ds)
      | Some (pt, _) =>
          match w_an w' t with
          | None => Crash Panic                            (* has_parsing_errors.unwrap() (debug build) *)
          | Some at_ =>
              if is_perr (a_src at_) then Ok (w', ds ++ [DImpParse pt])
              else match tc w' t with
                   | Crash x => Crash x
                   | Ok (w'', dt) => Ok (w'', if is_nil dt then ds else ds ++ [DImpType pt])
                   end
          end
      end
  end.

Fixpoint typecheck (fuel : nat) (w : world) (f : fid) : res (world * list diag) :=
  match fuel with
  | 0 => Crash Overflow
  | S k =>
      match w_files w f with
      | None => Crash Panic                               (* file_format(file_id).unwrap() *)
      | Some _ =>
          match w_an w f with
          | None => Crash Panic                           (* modify_and_insert(..).unwrap().unwrap() *)
          | Some a =>
              match a_state a with
              | Typechecking | Typechecked => Ok (w, a_tdiags a)
              | Parsed =>
                  let '(w5, own) := fill_block w f (a_src a) in
                  match fold_left (loop_step (typecheck k)) (pick (w_imports w5 f)) (Ok (w5, [])) with
                  | Crash x => Crash x
                  | Ok (w6, idiags) =>
                      match w_an w6 f with
                      | None => Crash Panic                (* analysis_reg.get(file_id).unwrap() *)
                      | Some _ => Ok (complete_typechecking (add_tdiags w6 f idiags) f, own ++ idiags)
                      end
                  end
              end
          end
      end
  end.

Definition parse_and_typecheck (fuel : nat) (w : world) (f : fid) : res (world * list diag) :=
  match parse w f with
  | Crash x => Crash x
  | Ok (w1, pd) => match typecheck fuel w1 f with
                   | Crash x => Crash x
                   | Ok (w2, td) => Ok (w2, pd ++ td)
                   end
  end.

(* ------------------------------------------------------------------ Server: handlers *)

(* issue_diagnostics + publish_diagnostics *)
Definition publish (w : world) (f : fid) (ds : list diag) : world :=
  match w_uris w f with
  | Some p => set_log (set_pub w (upd (w_pub w) p (Some ds))) (w_log w ++ [(p, ds)])
  | None => w
  end.

Definition check_and_publish (fuel : nat) (st : res world) (f : fid) : res world :=
  match st with
  | Crash x => Crash x
  | Ok w => match parse_and_typecheck fuel w f with
            | Crash x => Crash x
            | Ok (w', ds) => Ok (publish w' f ds)
            end
  end.

Inductive op : Type := Open (p : path) (c : content) | Change (p : path) (c : content) | Close (p : path).

Definition step (fuel : nat) (w0 : world) (o : op) : res world :=
  let w := set_log w0 [] in
  match o with
  | Open p c =>
      match add_file fuel w p c with
      | Crash x => Crash x
      | Ok (w1, id, inv) => fold_left (check_and_publish fuel) (id :: inv) (Ok w1)
      end
  | Change p c =>
      match update_file fuel w p c with
      | Crash x => Crash x
      | Ok (w1, id, inv) => fold_left (check_and_publish fuel) (id :: inv) (Ok w1)
      end
  | Close p =>
      match close_file fuel w p with
      | Crash x => Crash x
      | Ok None => Ok w
      | Ok (Some (w1, repl, inv)) =>
          fold_left (check_and_publish fuel)
                    (match repl with Some id => id :: inv | None => inv end) (Ok w1)
      end
  end.

Definition run_from (fuel : nat) (w : world) (h : list op) : res world :=
  fold_left (fun st o => match st with Crash x => Crash x | Ok w' => step fuel w' o end) h (Ok w).

Definition run (fuel : nat) (h : list op) : res world := run_from fuel empty_world h.

(* all intermediate results, for the correspondence driver *)
Fixpoint trace_from (fuel : nat) (w : world) (h : list op) : list (res world) :=
  match h with
  | [] => []
  | o :: t => match step fuel w o with
              | Crash x => [Crash x]
              | Ok w' => Ok w' :: trace_from fuel w' t
              end
  end.

End Model.
