(* C19 — basic facts: finite maps as functions, list sets, and the specification [expect]. *)
From Coq Require Import List Arith Bool Lia.
Import ListNotations.
From NV Require Import Lsp.World Lsp.Spec.

Lemma upd_eq : forall A (m : nat -> A) k v, upd m k v k = v.
Proof. intros. unfold upd. rewrite Nat.eqb_refl. reflexivity. Qed.

Lemma upd_neq : forall A (m : nat -> A) k v x, x <> k -> upd m k v x = m x.
Proof. intros. unfold upd. destruct (Nat.eqb_spec x k); [contradiction|reflexivity]. Qed.

Lemma upd_cases : forall A (m : nat -> A) k v x,
  (x = k /\ upd m k v x = v) \/ (x <> k /\ upd m k v x = m x).
Proof. intros. destruct (Nat.eq_dec x k); [left|right]; split; auto; subst; [apply upd_eq|apply upd_neq; auto]. Qed.

Lemma mem_In : forall x l, mem x l = true <-> In x l.
Proof.
  intros. unfold mem. rewrite existsb_exists. split.
  - intros [y [Hy He]]. apply Nat.eqb_eq in He. subst. exact Hy.
  - intros H. exists x. split; [exact H|apply Nat.eqb_refl].
Qed.

Lemma In_add_set : forall y x l, In y (add_set x l) <-> y = x \/ In y l.
Proof.
  intros. unfold add_set. destruct (mem x l) eqn:E.
  - apply mem_In in E. split; [auto|]. intros [->|H]; auto.
  - rewrite in_app_iff. cbn. split; [intros [H|[H|[]]]; auto|intros [H|H]; auto].
Qed.

Lemma In_union_set : forall l' l y, In y (union_set l l') <-> In y l \/ In y l'.
Proof.
  induction l' as [|x t IH]; intros; cbn.
  - tauto.
  - rewrite IH, In_add_set. intuition.
Qed.

Lemma In_remove_nat : forall y x l, In y (remove_nat x l) <-> In y l /\ y <> x.
Proof.
  intros. unfold remove_nat. rewrite filter_In. rewrite negb_true_iff, Nat.eqb_neq. tauto.
Qed.


Lemma NoDup_snoc : forall (x : nat) l, NoDup l -> ~ In x l -> NoDup (l ++ [x]).
Proof.
  induction l as [|a l IH]; intros H Hx; cbn.
  - constructor; [intros []|constructor].
  - inversion H; subst. constructor.
    + rewrite in_app_iff. intros [H'|[H'|[]]]; [contradiction|]. subst. apply Hx. left. reflexivity.
    + apply IH; [assumption|]. intros H'. apply Hx. right. exact H'.
Qed.

Lemma NoDup_add_set : forall x l, NoDup l -> NoDup (add_set x l).
Proof.
  intros x l H. unfold add_set. destruct (mem x l) eqn:E; [exact H|].
  apply NoDup_snoc; [exact H|]. intros Hin. apply mem_In in Hin. congruence.
Qed.

Lemma is_nil_true : forall A (l : list A), is_nil l = true <-> l = [].
Proof. intros A [|]; cbn; split; congruence. Qed.

Lemma flat_map_ext_In : forall A B (f g : A -> list B) l,
  (forall x, In x l -> f x = g x) -> flat_map f l = flat_map g l.
Proof.
  induction l as [|a l IH]; intros H; cbn; [reflexivity|].
  rewrite H by (left; reflexivity). rewrite IH; [reflexivity|]. intros. apply H. right. assumption.
Qed.

(* ------------------------------------------------------------------ reach *)
Section Reach.
Variable cu : docs.

Lemma reach_In : forall l q, In q (fst (reach cu l)) -> In q l /\ cu q <> None.
Proof.
  induction l as [|a l IH]; intros q H; cbn in H; [contradiction|].
  destruct (cu a) eqn:E; cbn in H; [|contradiction].
  destruct (reach cu l) as [r e] eqn:R. cbn in H. destruct H as [<-|H].
  - split; [left; reflexivity|congruence].
  - destruct (IH q H). split; [right; assumption|assumption].
Qed.

Lemma reach_stop : forall l q, snd (reach cu l) = Some q -> In q l /\ cu q = None.
Proof.
  induction l as [|a l IH]; intros q H; cbn in H; [discriminate|].
  destruct (cu a) eqn:E; cbn in H.
  - destruct (reach cu l) as [r e] eqn:R. cbn in H. destruct (IH q H). split; [right|]; assumption.
  - inversion H; subst. split; [left; reflexivity|assumption].
Qed.

(* a reached import, or the one that stops the walk *)
Definition touched (l : list path) (q : path) : Prop :=
  In q (fst (reach cu l)) \/ snd (reach cu l) = Some q.

Lemma reach_ext : forall cu' l,
  (forall q, touched l q -> cu' q = cu q) -> reach cu' l = reach cu l.
Proof.
  induction l as [|a l IH]; intros H; cbn; [reflexivity|].
  assert (Ha : cu' a = cu a).
  { apply H. unfold touched. cbn. destruct (cu a); [|right; reflexivity].
    destruct (reach cu l). left. left. reflexivity. }
  rewrite Ha. destruct (cu a) eqn:E; [|reflexivity].
  rewrite IH; [reflexivity|].
  intros q Hq. apply H. unfold touched in *. cbn. rewrite E.
  destruct (reach cu l) as [r e]. cbn in *. destruct Hq; [left; right|right]; assumption.
Qed.

End Reach.


Lemma fold_left_inv : forall A S (step : S -> A -> S) (I : list A -> S -> Prop) l s0,
  I [] s0 ->
  (forall pre x s, I pre s -> I (pre ++ [x]) (step s x)) ->
  I l (fold_left step l s0).
Proof.
  intros A S step I l s0 H0 Hs.
  assert (G : forall l pre s, I pre s -> I (pre ++ l) (fold_left step l s)).
  { induction l0 as [|x l0 IH]; intros pre s H; cbn.
    - rewrite app_nil_r. exact H.
    - replace (pre ++ x :: l0) with ((pre ++ [x]) ++ l0) by (rewrite <- app_assoc; reflexivity).
      apply IH. apply Hs. exact H. }
  apply (G l [] s0 H0).
Qed.


Lemma fold_left_inv_in : forall A S (step : S -> A -> S) (I : list A -> S -> Prop) l s0,
  I [] s0 ->
  (forall pre x s, In x l -> I pre s -> I (pre ++ [x]) (step s x)) ->
  I l (fold_left step l s0).
Proof.
  intros A S step I l s0 H0 Hs.
  assert (G : forall l1 pre s, (forall x, In x l1 -> In x l) -> I pre s -> I (pre ++ l1) (fold_left step l1 s)).
  { induction l1 as [|x l1 IH]; intros pre s Hin H; cbn.
    - rewrite app_nil_r. exact H.
    - replace (pre ++ x :: l1) with ((pre ++ [x]) ++ l1) by (rewrite <- app_assoc; reflexivity).
      apply IH; [intros; apply Hin; right; assumption|]. apply Hs; [apply Hin; left; reflexivity|exact H]. }
  apply (G l [] s0); auto.
Qed.

Lemma fold_left_inv_nodup : forall A S (step : S -> A -> S) (I : list A -> S -> Prop) l s0,
  NoDup l -> I [] s0 ->
  (forall pre x s, In x l -> ~ In x pre -> I pre s -> I (pre ++ [x]) (step s x)) ->
  I l (fold_left step l s0).
Proof.
  intros A S step I l s0 Hnd H0 Hs.
  assert (G : forall l1 pre s, NoDup (pre ++ l1) -> (forall x, In x l1 -> In x l) -> I pre s -> I (pre ++ l1) (fold_left step l1 s)).
  { induction l1 as [|x l1 IH]; intros pre s Hn Hin H; cbn.
    - rewrite app_nil_r. exact H.
    - replace (pre ++ x :: l1) with ((pre ++ [x]) ++ l1) by (rewrite <- app_assoc; reflexivity).
      apply IH.
      + rewrite <- app_assoc. exact Hn.
      + intros; apply Hin; right; assumption.
      + apply Hs; [apply Hin; left; reflexivity| |exact H].
        apply NoDup_remove_2 in Hn. intros Hp. apply Hn. apply in_or_app. left. exact Hp. }
  apply (G l [] s0); auto.
Qed.

Lemma NoDup_app_intro : forall A (l1 l2 : list A), NoDup l1 -> NoDup l2 ->
  (forall x, In x l1 -> ~ In x l2) -> NoDup (l1 ++ l2).
Proof.
  induction l1 as [|a l1 IH]; intros l2 H1 H2 Hd; cbn; [exact H2|].
  inversion H1; subst. constructor.
  - rewrite in_app_iff. intros [H|H]; [contradiction|]. apply (Hd a); [left; reflexivity|exact H].
  - apply IH; auto. intros x Hx. apply Hd. right. exact Hx.
Qed.

Lemma NoDup_snoc_gen : forall A (x : A) l, NoDup l -> ~ In x l -> NoDup (l ++ [x]).
Proof.
  intros A x l H Hx. apply NoDup_app_intro; auto.
  - constructor; [intros []|constructor].
  - intros y Hy [<-|[]]. contradiction.
Qed.

Section ReachSnoc.
Variable cu : docs.
Lemma reach_snoc : forall l q,
  reach cu (l ++ [q]) =
  match snd (reach cu l) with
  | Some _ => reach cu l
  | None => match cu q with
            | Some _ => (fst (reach cu l) ++ [q], None)
            | None => (fst (reach cu l), Some q)
            end
  end.
Proof.
  induction l as [|a l IH]; intros q; cbn.
  - destruct (cu q); reflexivity.
  - destruct (cu a) eqn:E; cbn; [|reflexivity].
    rewrite IH. destruct (reach cu l) as [r e]. cbn. destruct e; [reflexivity|].
    destruct (cu q); reflexivity.
Qed.
End ReachSnoc.

(* ------------------------------------------------------------------ expect: what it depends on *)
Section Dep.
Variable cu : docs.

(* the documents the diagnostics of a document with text [c] depend on *)
Fixpoint dep (n : nat) (c : content) (p0 : path) : Prop :=
  touched cu (c_imports c) p0 \/
  match n with
  | 0 => False
  | S k => exists q cq, In q (fst (reach cu (c_imports c))) /\ cu q = Some cq /\
                        is_perr cq = false /\ dep k cq p0
  end.

Lemma expect_c_ext : forall et et' c,
  (forall q, In q (fst (reach cu (c_imports c))) -> et q = et' q) ->
  expect_c cu et c = expect_c cu et' c.
Proof.
  intros et et' c H. unfold expect_c. f_equal. apply flat_map_ext_In.
  intros q Hq. apply nodup_In in Hq. unfold imp_diag. rewrite (H q Hq). reflexivity.
Qed.

Lemma expect_c_frame : forall cu' n c,
  (forall p0, dep n c p0 -> cu' p0 = cu p0) ->
  expect_c cu' (expect_t cu' n) c = expect_c cu (expect_t cu n) c.
Proof.
  intros cu'. induction n as [|k IH]; intros c H.
  - assert (R : reach cu' (c_imports c) = reach cu (c_imports c)).
    { apply reach_ext. intros q Hq. apply H. cbn. left. exact Hq. }
    unfold expect_c, own_diags. rewrite R. f_equal. apply flat_map_ext_In.
    intros q Hq. apply nodup_In in Hq. unfold imp_diag.
    rewrite (H q) by (cbn; left; left; exact Hq). reflexivity.
  - assert (R : reach cu' (c_imports c) = reach cu (c_imports c)).
    { apply reach_ext. intros q Hq. apply H. cbn. left. exact Hq. }
    unfold expect_c, own_diags. rewrite R. f_equal. apply flat_map_ext_In.
    intros q Hq. apply nodup_In in Hq. unfold imp_diag.
    rewrite (H q) by (cbn; left; left; exact Hq).
    destruct (cu q) as [cq|] eqn:Eq; [|reflexivity].
    destruct (is_perr cq) eqn:Ep; [reflexivity|].
    assert (E : expect_t cu' (S k) q = expect_t cu (S k) q).
    { cbn. rewrite (H q) by (cbn; left; left; exact Hq). rewrite Eq.
      apply IH. intros p0 Hp0. apply H. cbn. right. exists q, cq. auto. }
    rewrite E. reflexivity.
Qed.

(* with an acyclic import relation the depth bound does not matter once it exceeds the rank *)
Variable rank : path -> nat.
Hypothesis cu_resp : forall p c, cu p = Some c -> content_respects rank p c.

Lemma expect_t_fuel : forall n n' p, rank p < n -> rank p < n' -> expect_t cu n p = expect_t cu n' p.
Proof.
  induction n as [|k IH]; intros n' p H H'; [lia|].
  destruct n' as [|k']; [lia|]. cbn. destruct (cu p) as [c|] eqn:E; [|reflexivity].
  apply expect_c_ext. intros q Hq. apply reach_In in Hq. destruct Hq as [Hq _].
  pose proof (cu_resp p c E q Hq). apply IH; lia.
Qed.

Lemma dep_rank : forall n p c p0, cu p = Some c \/ content_respects rank p c ->
  content_respects rank p c -> dep n c p0 -> rank p0 < rank p.
Proof.
  induction n as [|k IH]; intros p c p0 _ Hc H; cbn in H.
  - destruct H as [[H|H]|[]].
    + apply reach_In in H. apply Hc. tauto.
    + apply reach_stop in H. apply Hc. tauto.
  - destruct H as [[H|H]|[q [cq [Hq [Eq [_ Hd]]]]]].
    + apply reach_In in H. apply Hc. tauto.
    + apply reach_stop in H. apply Hc. tauto.
    + apply reach_In in Hq. destruct Hq as [Hq _]. pose proof (Hc q Hq).
      assert (rank p0 < rank q) by (apply (IH q cq p0); auto; eapply cu_resp; eauto). lia.
Qed.

End Dep.
