(* C19 — a document that imports itself: [typecheck_uncached] recurses without bound, for every
   recursion budget (the model's rendering of the stack overflow observed on the real server). *)
From Coq Require Import List Arith Bool Lia.
Import ListNotations.
From NV Require Import Lsp.World Lsp.Spec Lsp.Witness.

Definition cself : content := mkC 1 [0] SOk.

Definition self_state (w : world) : Prop :=
  w_files w 0 = Some (0, cself) /\ w_an w 0 = Some (mkA Parsed cself []) /\
  w_ids w 0 = Some (0, KMem) /\ (w_imports w 0 = [] \/ w_imports w 0 = [0]).

Lemma typecheck_self_loop : forall k w, self_state w ->
  typecheck cfg_code idpick nodisk k w 0 = Crash Overflow.
Proof.
  induction k as [|k IH]; intros w [Hf [Ha [Hi Hm]]]; [reflexivity|].
  cbn [typecheck]. rewrite Hf, Ha. cbn [a_state a_src].
  unfold fill_block. cbn [c_imports cself fold_left]. unfold resolve_one at 1.
  unfold get_or_add_file, id_of. rewrite Hi. cbn [self_guard cfg_code Nat.eqb].
  cbn [w_an w_files set_rev set_imports set_uris upd Nat.eqb].
  rewrite Hf. cbn -[typecheck].
  assert (E : add_set 0 (w_imports w 0) = [0]).
  { destruct Hm as [-> | ->]; reflexivity. }
  rewrite E.
  cbn -[typecheck].
  rewrite Hf. cbn -[typecheck].
  match goal with |- context [typecheck _ _ _ k ?w' 0] => assert (S' : self_state w') end.
  { unfold self_state. cbn. rewrite Hf, Hi. auto. }
  rewrite (IH _ S'). reflexivity.
Qed.

Lemma self_import_overflows : forall fuel, run cfg_code idpick nodisk fuel hist3 = Crash Overflow.
Proof.
  intros [|k]; [reflexivity|].
  unfold run, run_from, hist3. cbn [fold_left]. unfold step, add_file. cbn -[typecheck].
  rewrite typecheck_self_loop; [reflexivity|].
  unfold self_state. cbn. auto.
Qed.
