(* C19 — concrete histories on which the model of the code as it is ([cfg_code]) violates the
   property.  Each was replayed on the real server (corpus/C19/*.case). *)
From Coq Require Import List Arith Bool Lia.
Import ListNotations.
From NV Require Import Lsp.World Lsp.Spec.

Definition idpick (l : list fid) : list fid := l.

(* paths: a = 0, b = 1, c = 2 *)

(* ---- 1. a closed buffer is re-analysed and its diagnostics are published for the closed file *)
Definition disk1 : docs := fun p => if Nat.eqb p 0 then Some (mkC 100 [] SOk) else None.
Definition hist1 : list op :=
  [Open 0 (mkC 1 [1] SOk); Open 1 (mkC 2 [] SOk); Close 0; Change 1 (mkC 3 [] STerr)].
Definition rank1 : path -> nat := fun p => if Nat.eqb p 0 then 1 else 0.

Lemma hist1_respects : hist_respects rank1 disk1 hist1.
Proof.
  split.
  - intros p c H. unfold disk1 in H. destruct (Nat.eqb p 0); inversion H; subst.
    intros q [].
  - unfold hist1. repeat (apply Forall_cons; [cbn; try exact I; intros q Hq; cbn in Hq;
      repeat (destruct Hq as [Hq | Hq]; [subst; cbn; lia |]); try contradiction |]).
    apply Forall_nil.
Qed.

Lemma closed_buffer_refuted :
  exists rank disk h w ds,
    hist_respects rank disk h /\ client_ok no_bufs h = true /\
    run cfg_code idpick disk 50 h = Ok w /\
    w_pub w 0 = Some ds /\ live_id w 0 <> None /\
    ~ same_diags ds (expect (cur disk (bufs_after no_bufs h)) 50 0).
Proof.
  exists rank1, disk1, hist1.
  destruct (run cfg_code idpick disk1 50 hist1) as [w|] eqn:E; [|vm_compute in E; discriminate].
  exists w, [DImpType 1].
  split; [exact hist1_respects|]. split; [reflexivity|]. split; [reflexivity|].
  assert (Hp : w_pub w 0 = Some [DImpType 1]).
  { vm_compute in E. injection E as <-. reflexivity. }
  split; [exact Hp|]. split.
  - vm_compute in E. injection E as <-. vm_compute. discriminate.
  - intros H. destruct (H (DImpType 1)) as [H1 _]. specialize (H1 (or_introl eq_refl)).
    vm_compute in H1. exact H1.
Qed.

(* the proposed patch repairs this history *)
Lemma closed_buffer_patched :
  exists w, run cfg_patched idpick disk1 50 hist1 = Ok w /\ w_pub w 0 = Some [].
Proof.
  destruct (run cfg_patched idpick disk1 50 hist1) as [w|] eqn:E; [|vm_compute in E; discriminate].
  exists w. split; [reflexivity|]. vm_compute in E. injection E as <-. reflexivity.
Qed.

(* ---- 2. with cyclic imports the cached diagnostics depend on the order of the history *)
Definition nodisk : docs := fun _ => None.
Definition hist2a : list op :=
  [Open 2 (mkC 1 [] STerr); Open 0 (mkC 2 [1; 2] SOk); Open 1 (mkC 3 [0] SOk)].
Definition hist2b : list op :=
  [Open 2 (mkC 1 [] STerr); Open 1 (mkC 3 [0] SOk); Open 0 (mkC 2 [1; 2] SOk)].

Lemma cycle_order_refuted :
  exists h1 h2 w1 w2 d1 d2,
    (forall p, bufs_after no_bufs h1 p = bufs_after no_bufs h2 p) /\
    run cfg_code idpick nodisk 50 h1 = Ok w1 /\ run cfg_code idpick nodisk 50 h2 = Ok w2 /\
    w_pub w1 0 = Some d1 /\ w_pub w2 0 = Some d2 /\ ~ same_diags d1 d2.
Proof.
  exists hist2a, hist2b.
  destruct (run cfg_code idpick nodisk 50 hist2a) as [w1|] eqn:E1; [|vm_compute in E1; discriminate].
  destruct (run cfg_code idpick nodisk 50 hist2b) as [w2|] eqn:E2; [|vm_compute in E2; discriminate].
  exists w1, w2, [DImpType 1; DImpType 2], [DImpType 2].
  split.
  { intro p. unfold hist2a, hist2b, bufs_after, no_bufs, bufs_step, upd; cbn.
    destruct p as [|[|[|p]]]; reflexivity. }
  split; [reflexivity|]. split; [reflexivity|].
  split. { vm_compute in E1. injection E1 as <-. reflexivity. }
  split. { vm_compute in E2. injection E2 as <-. reflexivity. }
  intros H. destruct (H (DImpType 1)) as [H1 _]. specialize (H1 (or_introl eq_refl)).
  cbn in H1. destruct H1 as [H1|[]]. discriminate.
Qed.

(* ---- 3. a document that imports itself makes typecheck_uncached recurse without bound *)
Definition hist3 : list op := [Open 0 (mkC 1 [0] SOk)].

Lemma self_import_overflows_50 : run cfg_code idpick nodisk 50 hist3 = Crash Overflow.
Proof. vm_compute. reflexivity. Qed.

Lemma self_import_patched : exists w, run cfg_patched idpick nodisk 50 hist3 = Ok w /\ w_pub w 0 = Some [].
Proof.
  destruct (run cfg_patched idpick nodisk 50 hist3) as [w|] eqn:E; [|vm_compute in E; discriminate].
  exists w. split; [reflexivity|]. vm_compute in E. injection E as <-. reflexivity.
Qed.
