(* C19 — the invariant of the model of [World] and its preservation by every operation.

   All documents' imports respect one rank function (import graph = DAG); [M] bounds the ranks
   and is also the bound on recursion depth ([fuel]) that is shown to suffice. *)
From Coq Require Import List Arith Bool Lia.
Import ListNotations.
From NV Require Import Lsp.World Lsp.Spec Lsp.Facts.

Ltac inv H := inversion H; subst; clear H.

Section Inv.
Variable cf : cfg.
Variable pick : list fid -> list fid.
Variable disk : docs.
Variable rank : path -> nat.
Variable M : nat.
Hypothesis pick_in : forall l x, In x (pick l) <-> In x l.
Hypothesis pick_nodup : forall l, NoDup l -> NoDup (pick l).
Hypothesis rank_lt : forall p, rank p < M.
Hypothesis disk_resp : forall p c, disk p = Some c -> content_respects rank p c.

Definition rk (w : world) (f : fid) : nat := rank (path_of w f).

(* ------------------------------------------------------------------ structural invariant *)
(* [g_imp] with an escape for files that are about to be invalidated / re-analysed *)
Record GInvP (P : fid -> Prop) (w : world) : Prop := {
  gp_next : forall f, w_files w f <> None -> f < w_next w;
  gp_resp : forall f p c, w_files w f = Some (p, c) -> content_respects rank p c;
  gp_ids : forall p f k, w_ids w p = Some (f, k) ->
          exists c, w_files w f = Some (p, c) /\ (k = KFs -> disk p = Some c);
  gp_an : forall f, w_an w f <> None -> w_files w f <> None;
  gp_rev : forall t g, In g (w_rev w t) -> w_files w g <> None /\ w_files w t <> None /\ rk w t < rk w g;
  gp_imp : forall f t, In t (w_imports w f) ->
          w_files w t <> None /\ rk w t < rk w f /\ (P f \/ (In f (w_rev w t) /\ w_an w t <> None));
  gp_failed : forall q g, In g (w_failed w q) -> w_files w g <> None;
  gp_uris : forall f p, w_uris w f = Some p -> exists c, w_files w f = Some (p, c);
  gp_none : forall f, w_an w f = None -> w_imports w f = [];
  gp_nd : forall f, NoDup (w_imports w f)
}.

Lemma GInvP_weaken : forall (P Q : fid -> Prop) w, (forall x, P x -> Q x) -> GInvP P w -> GInvP Q w.
Proof.
  intros P Q w H []. constructor; auto.
  intros f t Hi. destruct (gp_imp0 f t Hi) as [A [B [C|C]]]; auto.
Qed.

Definition GInv (w : world) : Prop := GInvP (fun _ => False) w.

Lemma GInv_GInvP : forall w P, GInv w -> GInvP P w.
Proof. intros w P. apply GInvP_weaken. intros x []. Qed.

(* the documents as the server sees them *)
Definition Link (cu : docs) (w : world) : Prop :=
  forall p, match live_id w p with
            | Some f => exists c, w_files w f = Some (p, c) /\ cu p = Some c
            | None => cu p = disk p
            end.

Definition settled (a : analysis) : Prop :=
  a_state a = Typechecked \/ (a_state a = Parsed /\ is_perr (a_src a) = true).

(* ------------------------------------------------------------------ semantic invariant, per cached analysis *)
Record SInv1 (cu : docs) (w : world) (g : fid) (a : analysis) : Prop := {
  s_src : exists p, w_files w g = Some (p, a_src a);
  s_state : settled a;
  s_imp : forall t, In t (w_imports w g) ->
          exists q, In q (fst (reach cu (c_imports (a_src a)))) /\ live_id w q = Some t;
  s_parsed : a_state a = Parsed -> w_imports w g = [];
  s_diags : a_state a = Typechecked ->
            same_diags (a_tdiags a) (expect_c cu (expect_t cu M) (a_src a));
  s_nodup : a_state a = Typechecked -> NoDup (a_tdiags a);
  s_targets : a_state a = Typechecked ->
              forall q, In q (fst (reach cu (c_imports (a_src a)))) ->
              exists t, live_id w q = Some t /\ w_an w t <> None /\ In g (w_rev w t) /\ In t (w_imports w g);
  s_stop : a_state a = Typechecked ->
           forall q, snd (reach cu (c_imports (a_src a))) = Some q -> In g (w_failed w q)
}.

Definition SInvP (P : fid -> Prop) (cu : docs) (w : world) : Prop :=
  forall g a, w_an w g = Some a -> P g \/ SInv1 cu w g a.

Definition cu_resp (cu : docs) : Prop := forall p c, cu p = Some c -> content_respects rank p c.

Lemma Link_resp : forall cu w, GInv w -> Link cu w -> cu_resp cu.
Proof.
  intros cu w G L p c H. specialize (L p). destruct (live_id w p) as [f|].
  - destruct L as [c' [Hf Hc]]. rewrite H in Hc. inv Hc. eapply gp_resp; eauto.
  - rewrite L in H. eapply disk_resp; eauto.
Qed.

Lemma live_id_ids : forall w p f, live_id w p = Some f -> exists k, w_ids w p = Some (f, k) /\ k <> KClosed.
Proof.
  intros w p f H. unfold live_id in H. destruct (w_ids w p) as [[f' k]|]; [|discriminate].
  destruct k; inv H; eexists; split; eauto; discriminate.
Qed.

Lemma live_id_file : forall w p f, GInv w -> live_id w p = Some f -> exists c, w_files w f = Some (p, c).
Proof.
  intros w p f G H. apply live_id_ids in H. destruct H as [k [H _]].
  destruct (gp_ids _ w G p f k H) as [c [Hc _]]. eauto.
Qed.

Lemma path_of_file : forall w f p c, w_files w f = Some (p, c) -> path_of w f = p.
Proof. intros. unfold path_of. rewrite H. reflexivity. Qed.

(* ------------------------------------------------------------------ SourceCache *)

(* extension of the source cache: new files only *)
Record fext (w w' : world) : Prop := {
  fx_next : w_next w <= w_next w';
  fx_files : forall f x, w_files w f = Some x -> w_files w' f = Some x;
  fx_new : forall f, w_files w f = None -> w_files w' f <> None -> w_next w <= f;
  fx_live : forall p t, live_id w p = Some t -> live_id w' p = Some t;
  fx_closed : forall p t, w_ids w p = Some (t, KClosed) -> live_id w' p = None -> w_ids w' p = Some (t, KClosed);
  fx_kind : forall p f k, w_ids w' p = Some (f, k) -> w_ids w p = Some (f, k) \/ (k = KFs /\ live_id w p = None)
}.

Lemma fext_refl : forall w, fext w w.
Proof. intros. constructor; auto. intros. congruence. Qed.

Lemma fext_same : forall w w', w_files w' = w_files w -> w_ids w' = w_ids w -> w_next w' = w_next w -> fext w w'.
Proof.
  intros w w' F I N. constructor; rewrite ?F, ?I, ?N; auto; unfold live_id; rewrite ?I; auto. intros; congruence.
Qed.

Lemma fext_trans : forall w1 w2 w3, fext w1 w2 -> fext w2 w3 -> fext w1 w3.
Proof.
  intros w1 w2 w3 [] []. constructor; auto; try lia.
  - intros f H1 H3. destruct (w_files w2 f) eqn:E.
    + apply fx_new0; congruence.
    + pose proof (fx_new1 f E H3). lia.
  - intros p t H1 H3. apply fx_closed1; auto. apply fx_closed0; auto.
    destruct (live_id w2 p) eqn:E; [|reflexivity]. apply fx_live1 in E. congruence.
  - intros p f k H. destruct (fx_kind1 p f k H) as [H2|[-> H2]].
    + apply fx_kind0. exact H2.
    + right. split; [reflexivity|]. destruct (live_id w1 p) eqn:E; [|reflexivity]. apply fx_live0 in E. congruence.
Qed.

Lemma fx_files_ne : forall w w' f, fext w w' -> w_files w f <> None -> w_files w' f <> None.
Proof.
  intros w w' f X H. destruct (w_files w f) as [x|] eqn:E; [|congruence]. rewrite (fx_files _ _ X f x E). discriminate.
Qed.

Lemma fext_path : forall w w' f, fext w w' -> w_files w f <> None -> path_of w' f = path_of w f.
Proof.
  intros w w' f X H. unfold path_of. destruct (w_files w f) as [[p c]|] eqn:E; [|congruence].
  rewrite (fx_files _ _ X f _ E). reflexivity.
Qed.

Lemma fext_rk : forall w w' f, fext w w' -> w_files w f <> None -> rk w' f = rk w f.
Proof. intros. unfold rk. rewrite (fext_path w w' f); auto. Qed.

Lemma id_of_live : forall P w p, GInvP P w -> id_of disk w p = live_id w p.
Proof.
  intros P w p G. unfold id_of, live_id. destruct (w_ids w p) as [[f k]|] eqn:E; [|reflexivity].
  destruct k; try reflexivity.
  destruct (gp_ids _ _ G p f KFs E) as [c [_ Hd]]. rewrite (Hd eq_refl). reflexivity.
Qed.

Lemma alloc_fresh : forall P w, GInvP P w -> w_files w (w_next w) = None.
Proof.
  intros P w G. destruct (w_files w (w_next w)) eqn:E; [|reflexivity].
  assert (w_next w < w_next w) by (apply (gp_next _ _ G); congruence). lia.
Qed.

(* everything but files / ids / next is untouched *)
Definition same_reg (w w' : world) : Prop :=
  w_an w' = w_an w /\ w_imports w' = w_imports w /\ w_rev w' = w_rev w /\ w_failed w' = w_failed w /\
  w_uris w' = w_uris w /\ w_pub w' = w_pub w /\ w_log w' = w_log w.

Lemma alloc_spec : forall P w p c k w' id,
  GInvP P w -> content_respects rank p c -> live_id w p = None ->
  (k = KFs -> disk p = Some c) -> k <> KClosed ->
  alloc w p c k = (w', id) ->
  GInvP P w' /\ (k = KFs -> fext w w') /\ same_reg w w' /\ id = w_next w /\ w_files w id = None /\
  w_files w' id = Some (p, c) /\ live_id w' p = Some id /\ w_ids w' p = Some (id, k) /\
  (forall q, q <> p -> w_ids w' q = w_ids w q) /\
  (forall f, f <> id -> w_files w' f = w_files w f) /\ w_next w' = S (w_next w).
Proof.
  intros P w p c k w' id G Hc Hl Hk Hk' A. unfold alloc in A. inv A.
  pose proof (alloc_fresh P w G) as Fr.
  set (w' := set_next (set_ids (set_files w (upd (w_files w) (w_next w) (Some (p, c))))
                                   (upd (w_ids w) p (Some (w_next w, k)))) (S (w_next w))).
  assert (FX : forall f x, w_files w f = Some x -> w_files w' f = Some x).
  { intros f x H. unfold w'. cbn. rewrite upd_neq; auto. intros ->. congruence. }
  assert (RK : forall f, w_files w f <> None -> rk w' f = rk w f).
  { intros f H. unfold rk, path_of. destruct (w_files w f) as [[p0 c0]|] eqn:E; [|congruence]. rewrite (FX f _ E). reflexivity. }
  assert (NE : forall f, w_files w f <> None -> w_files w' f <> None).
  { intros f H. destruct (w_files w f) eqn:E; [|congruence]. rewrite (FX f _ E). discriminate. }
  split; [|split].
  - constructor; fold w'.
    + intros f H. unfold w' in *. cbn in *. destruct (upd_cases _ (w_files w) (w_next w) (Some (p, c)) f) as [[-> _]|[_ E]]; [lia|].
      rewrite E in H. pose proof (gp_next _ _ G f H). lia.
    + intros f p0 c0 H. unfold w' in H. cbn in H. destruct (upd_cases _ (w_files w) (w_next w) (Some (p, c)) f) as [[-> E]|[_ E]]; rewrite E in H.
      * inv H. exact Hc.
      * eapply gp_resp; eauto.
    + intros q f k0 H. unfold w' in H. cbn in H. destruct (upd_cases _ (w_ids w) p (Some (w_next w, k)) q) as [[-> E]|[_ E]]; rewrite E in H.
      * inv H. exists c. unfold w'. cbn. rewrite upd_eq. split; [reflexivity|exact Hk].
      * destruct (gp_ids _ _ G q f k0 H) as [c0 [A B]]. exists c0. split; [|exact B]. apply FX. exact A.
    + intros f H. apply NE. apply (gp_an _ _ G f H).
    + intros t g H. destruct (gp_rev _ _ G t g H) as [A [B C]]. rewrite !RK by auto. auto.
    + intros f t H. change (w_imports w' f) with (w_imports w f) in H. destruct (gp_imp _ _ G f t H) as [A [B C]].
      assert (Ff : w_files w f <> None).
      { apply (gp_an _ _ G). intros E. rewrite (gp_none _ _ G f E) in H. contradiction. }
      rewrite !RK by auto. auto.
    + intros q g H. apply NE. apply (gp_failed _ _ G q g H).
    + intros f q H. destruct (gp_uris _ _ G f q H) as [c0 H0]. exists c0. apply FX. exact H0.
    + exact (gp_none _ _ G).
    + exact (gp_nd _ _ G).
  - intros ->. constructor; fold w'.
    + unfold w'. cbn. lia.
    + exact FX.
    + intros f H H'. unfold w' in H'. cbn in H'. destruct (upd_cases _ (w_files w) (w_next w) (Some (p, c)) f) as [[-> _]|[_ E]]; [lia|].
      rewrite E in H'. contradiction.
    + intros q t H. unfold live_id in *. unfold w'. cbn. destruct (upd_cases _ (w_ids w) p (Some (w_next w, KFs)) q) as [[-> _]|[_ E]].
      * rewrite Hl in H. discriminate.
      * rewrite E. exact H.
    + intros q t H H'. unfold live_id in H'. unfold w' in *. cbn in *.
      destruct (upd_cases _ (w_ids w) p (Some (w_next w, KFs)) q) as [[-> E]|[_ E]]; rewrite E in *; [discriminate|auto].
    + intros q f k0 H. unfold w' in H. cbn in H. destruct (upd_cases _ (w_ids w) p (Some (w_next w, KFs)) q) as [[-> E]|[_ E]]; rewrite E in H.
      * inv H. right. auto.
      * left. exact H.
  - split; [repeat split|]. split; [reflexivity|]. split; [exact Fr|]. unfold w'. cbn.
    split; [apply upd_eq|]. split.
    { unfold live_id. cbn. rewrite upd_eq. destruct k; try reflexivity. contradiction. }
    split; [apply upd_eq|]. split.
    { intros q Hq. apply upd_neq; auto. }
    split; [|reflexivity]. intros f Hf. apply upd_neq; auto.
Qed.

Lemma goaf_spec : forall P cu w p w' r,
  GInvP P w -> Link cu w -> cu_resp cu ->
  get_or_add_file disk w p = (w', r) ->
  GInvP P w' /\ Link cu w' /\ fext w w' /\ same_reg w w' /\
  match r with
  | None => cu p = None /\ w' = w
  | Some t => live_id w' p = Some t /\ cu p <> None /\
              (live_id w p = Some t /\ w' = w \/
               live_id w p = None /\ w_files w t = None /\ t = w_next w /\ exists c, disk p = Some c /\ w_files w' t = Some (p, c))
  end.
Proof.
  intros P cu w p w' r G L R H. unfold get_or_add_file in H.
  rewrite (id_of_live P w p G) in H. pose proof (L p) as Lp.
  destruct (live_id w p) as [t|] eqn:E.
  - inv H. split; [exact G|]. split; [exact L|]. split; [apply fext_refl|]. split; [repeat split|].
    destruct Lp as [c [_ Hc]]. split; [exact E|]. split; [congruence|]. left. auto.
  - destruct (disk p) as [c|] eqn:D.
    + destruct (alloc w p c KFs) as [w1 id] eqn:A. inv H.
      assert (Hc : content_respects rank p c) by (eapply disk_resp; eauto).
      destruct (alloc_spec P w p c KFs w' id G Hc E (fun _ => D) ltac:(discriminate) A)
        as [G' [X0 [S [-> [Fr [Fn [Ln [In_ [Io [Fo _]]]]]]]]]].
      pose proof (X0 eq_refl) as X.
      split; [exact G'|]. split.
      { intros q. destruct (Nat.eq_dec q p) as [->|Hq].
        - rewrite Ln. exists c. split; [exact Fn|congruence].
        - assert (live_id w' q = live_id w q) by (unfold live_id; rewrite (Io q Hq); reflexivity).
          rewrite H. specialize (L q). destruct (live_id w q) as [f|] eqn:Eq; [|exact L].
          destruct L as [c0 [A0 B0]]. exists c0. split; [|exact B0]. rewrite Fo; [exact A0|].
          intros ->. congruence. }
      split; [exact X|]. split; [exact S|]. split; [exact Ln|]. split; [congruence|].
      right. split; [reflexivity|]. split; [exact Fr|]. split; [reflexivity|]. exists c. auto.
    + inv H. split; [exact G|]. split; [exact L|]. split; [apply fext_refl|]. split; [repeat split|].
      split; [congruence|reflexivity].
Qed.

(* ------------------------------------------------------------------ the import resolver *)

Record walk_post (P : fid -> Prop) (cu : docs) (f : fid) (w0 : world) (l : list path)
                 (w : world) (news : list (fid * analysis)) (err : option diag) : Prop := {
  wk_fext : fext w0 w;
  wk_link : Link cu w;
  wk_an : w_an w = w_an w0;
  wk_failed : w_failed w = w_failed w0;
  wk_pub : w_pub w = w_pub w0;
  wk_log : w_log w = w_log w0;
  wk_err : err = option_map DMissing (snd (reach cu l));
  wk_tgt : forall q, In q (fst (reach cu l)) ->
           exists t, live_id w q = Some t /\ In t (w_imports w f) /\ In f (w_rev w t) /\ w_uris w t <> None /\
                     (w_an w0 t <> None \/ exists c, In (t, mkA Parsed c []) news /\ w_files w t = Some (q, c));
  wk_imp_f : forall t, In t (w_imports w f) ->
             In t (w_imports w0 f) \/ exists q, In q (fst (reach cu l)) /\ live_id w q = Some t;
  wk_imp_mono : forall t, In t (w_imports w0 f) -> In t (w_imports w f);
  wk_imp_o : forall x, x <> f -> w_imports w x = w_imports w0 x;
  wk_rev : forall t g, In g (w_rev w t) -> In g (w_rev w0 t) \/ (g = f /\ In t (w_imports w f));
  wk_rev_mono : forall t g, In g (w_rev w0 t) -> In g (w_rev w t);
  wk_uris : forall x p, w_uris w x = Some p -> w_uris w0 x = Some p \/ exists c, w_files w x = Some (p, c);
  wk_uris_mono : forall x p, w_uris w0 x = Some p -> w_uris w x = Some p;
  wk_news : forall t a, In (t, a) news ->
            w_an w0 t = None /\ t <> f /\
            exists q c, w_files w t = Some (q, c) /\ a = mkA Parsed c [] /\ In t (w_imports w f);
  wk_ginv : GInvP (fun x => P x \/ x = f) w
}.

Lemma resolve_fold_err : forall f l w news d,
  fold_left (resolve_one cf disk f) l (w, news, Some d) = (w, news, Some d).
Proof. induction l as [|a l IH]; intros; cbn; [reflexivity|apply IH]. Qed.

Lemma walk_spec : forall P cu f pf c0 w0 l,
  GInvP P w0 -> Link cu w0 -> cu_resp cu ->
  w_files w0 f = Some (pf, c0) -> w_an w0 f <> None -> (forall q, In q l -> rank q < rank pf) ->
  forall w news err, fold_left (resolve_one cf disk f) l (w0, [], None) = (w, news, err) ->
  walk_post P cu f w0 l w news err.
Proof.
  intros P cu f pf c0 w0 l G0 L0 R Ff Haf Hl.
  set (I := fun (pre : list path) (st : world * list (fid * analysis) * option diag) =>
              (forall q, In q pre -> rank q < rank pf) ->
              let '(w, news, err) := st in walk_post P cu f w0 pre w news err).
  assert (HI : I l (fold_left (resolve_one cf disk f) l (w0, [], None))).
  { apply fold_left_inv; unfold I.
    - intros _. constructor; try reflexivity; auto using fext_refl;
        try (intros; cbn in *; tauto); try (intros; left; assumption).
      eapply GInvP_weaken; [|exact G0]. auto.
    - intros pre q [[w news] err] IHs Hpre.
      assert (Hpre' : forall q0, In q0 pre -> rank q0 < rank pf).
      { intros. apply Hpre. apply in_or_app. auto. }
      assert (Hq : rank q < rank pf) by (apply Hpre; apply in_or_app; right; left; reflexivity).
      specialize (IHs Hpre'). destruct IHs.
      unfold resolve_one. destruct err as [d|].
      { (* already stopped *)
        assert (E : reach cu (pre ++ [q]) = reach cu pre).
        { rewrite reach_snoc. destruct (snd (reach cu pre)); [reflexivity|discriminate]. }
        constructor; auto; rewrite ?E; auto. }
      assert (En : snd (reach cu pre) = None).
      { destruct (snd (reach cu pre)); [discriminate|reflexivity]. }
      destruct (get_or_add_file disk w q) as [w1 r] eqn:Eg.
      destruct (goaf_spec _ cu w q w1 r wk_ginv0 wk_link0 R Eg) as [G1 [L1 [X1 [[Sa [Si [Sr [Sf [Su [Sp Sl]]]]]] Hr]]]].
      assert (RS : reach cu (pre ++ [q]) =
                   match cu q with Some _ => (fst (reach cu pre) ++ [q], None) | None => (fst (reach cu pre), Some q) end).
      { rewrite reach_snoc, En. reflexivity. }
      destruct r as [t|].
      2:{ (* import not found *)
          destruct Hr as [Hc ->]. rewrite Hc in RS.
          constructor; auto; rewrite ?RS; cbn; auto. }
      destruct Hr as [Lt [Hc Hnew]].
      destruct (cu q) as [cq|] eqn:Ecq; [|congruence]. clear Hc.
      assert (Ft1 : exists c, w_files w1 t = Some (q, c)).
      { apply live_id_ids in Lt. destruct Lt as [k [Lt _]]. destruct (gp_ids _ _ G1 q t k Lt) as [c [A _]]. eauto. }
      destruct Ft1 as [ct Ft1].
      assert (Ff1 : w_files w1 f = Some (pf, c0)).
      { apply (fx_files _ _ X1). apply (fx_files _ _ wk_fext0). exact Ff. }
      assert (Htf : t <> f).
      { intros ->. rewrite Ff1 in Ft1. inv Ft1. lia. }
      (* the world after the bookkeeping of [resolve] *)
      set (w2 := set_uris w1 (upd (w_uris w1) t (Some q))).
      set (w3 := set_imports w2 (upd (w_imports w2) f (add_set t (w_imports w2 f)))).
      set (w4 := set_rev w3 (upd (w_rev w3) t (add_set f (w_rev w3 t)))).
      assert (Efe : (Nat.eqb t f) = false) by (apply Nat.eqb_neq; exact Htf).
      rewrite Efe.
      assert (X4 : fext w0 w4).
      { eapply fext_trans; [exact wk_fext0|]. destruct X1. constructor; auto. }
      assert (L4 : Link cu w4) by exact L1.
      assert (RK : forall x, w_files w1 x <> None -> rk w4 x = rk w1 x) by (intros; reflexivity).
      assert (G4 : GInvP (fun x => P x \/ x = f) w4).
      { destruct G1. constructor; cbn; auto.
        - intros t0 g H. unfold upd in H. destruct (Nat.eqb_spec t0 t) as [->|Hn].
          + apply In_add_set in H. destruct H as [->|H]; [|apply gp_rev0; exact H].
            split; [congruence|]. split; [congruence|].
            unfold rk, path_of. cbn. rewrite Ft1, Ff1. exact Hq.
          + apply gp_rev0; exact H.
        - intros f0 t0 H. unfold upd in H. destruct (Nat.eqb_spec f0 f) as [->|Hn].
          + apply In_add_set in H. destruct H as [->|H].
            * split; [congruence|]. split; [|left; right; reflexivity].
              unfold rk, path_of. cbn. rewrite Ft1, Ff1. exact Hq.
            * destruct (gp_imp0 f t0 H) as [A [B C]]. split; [exact A|]. split; [exact B|]. left. right. reflexivity.
          + destruct (gp_imp0 f0 t0 H) as [A [B C]]. split; [exact A|]. split; [exact B|].
            destruct C as [C|[C D]]; [left; exact C|]. right. split; [|exact D].
            unfold upd. destruct (Nat.eqb_spec t0 t) as [->|]; [apply In_add_set; right|]; exact C.
        - intros f0 p0 H. unfold upd in H. destruct (Nat.eqb_spec f0 t) as [->|]; [|apply gp_uris0; exact H].
          inv H. eauto.
        - intros f0 H. unfold upd. destruct (Nat.eqb_spec f0 f) as [->|]; [|apply gp_none0; exact H].
          exfalso. rewrite Sa, wk_an0 in H. contradiction.
        - intros f0. unfold upd. destruct (Nat.eqb_spec f0 f) as [->|]; [apply NoDup_add_set|]; apply gp_nd0. }
      assert (Im4 : forall x, In x (w_imports w4 f) <-> x = t \/ In x (w_imports w f)).
      { intros x. unfold w4, w3, w2. cbn. rewrite upd_eq. rewrite In_add_set. rewrite Si. tauto. }
      assert (Rv4 : forall t0 g, In g (w_rev w4 t0) <-> (t0 = t /\ g = f) \/ In g (w_rev w t0)).
      { intros t0 g. unfold w4, w3, w2. cbn. unfold upd. destruct (Nat.eqb_spec t0 t) as [->|Hn].
        - rewrite In_add_set. rewrite Sr. tauto.
        - rewrite Sr. split; [auto|]. intros [[? _]|?]; [contradiction|assumption]. }
      assert (Lv4 : forall q0 t0, live_id w q0 = Some t0 -> live_id w4 q0 = Some t0).
      { intros q0 t0 H. apply (fx_live _ _ X1) in H. exact H. }
      assert (RS' : reach cu (pre ++ [q]) = (fst (reach cu pre) ++ [q], None)) by exact RS.
      assert (Core : forall news',
                 (news' = news /\ w_an w0 t <> None) \/
                 (news' = news ++ [(t, mkA Parsed ct [])] /\ w_an w0 t = None) ->
                 walk_post P cu f w0 (pre ++ [q]) w4 news' None).
      { intros news' Hn'. constructor; auto.
        - cbn. rewrite Sa. exact wk_an0.
        - cbn. rewrite Sf. exact wk_failed0.
        - cbn. rewrite Sp. exact wk_pub0.
        - cbn. rewrite Sl. exact wk_log0.
        - rewrite RS'. reflexivity.
        - rewrite RS'. cbn. intros q' Hq'. apply in_app_or in Hq'. destruct Hq' as [Hq'|[<-|[]]].
          + destruct (wk_tgt0 q' Hq') as [t' [A [B [C [U D]]]]]. exists t'.
            split; [apply Lv4; exact A|]. split; [apply Im4; right; exact B|].
            split; [apply Rv4; right; exact C|].
            split. { unfold w4, w3, w2. cbn. unfold upd. destruct (Nat.eqb t' t); [discriminate|]. rewrite Su. exact U. }
            destruct D as [D|[c [D1 D2]]]; [left; exact D|]. right. exists c. split.
            * destruct Hn' as [[-> _]|[-> _]]; [exact D1|apply in_or_app; left; exact D1].
            * apply (fx_files _ _ X1). exact D2.
          + exists t. split; [exact Lt|]. split; [apply Im4; left; reflexivity|].
            split; [apply Rv4; left; auto|].
            split. { unfold w4, w3, w2. cbn. rewrite upd_eq. discriminate. }
            destruct Hn' as [[-> Ha]|[-> Ha]]; [left; exact Ha|]. right. exists ct. split.
            * apply in_or_app. right. left. reflexivity.
            * exact Ft1.
        - rewrite RS'. cbn. intros t' Ht'. apply Im4 in Ht'. destruct Ht' as [->|Ht'].
          + right. exists q. split; [apply in_or_app; right; left; reflexivity|exact Lt].
          + destruct (wk_imp_f0 t' Ht') as [A|[q' [A B]]]; [left; exact A|]. right. exists q'.
            split; [apply in_or_app; left; exact A|apply Lv4; exact B].
        - intros t' Ht'. apply Im4. right. apply wk_imp_mono0. exact Ht'.
        - intros x Hx. cbn. rewrite upd_neq by exact Hx. rewrite Si. apply wk_imp_o0. exact Hx.
        - intros t0 g Hg. apply Rv4 in Hg. destruct Hg as [[-> ->]|Hg].
          + right. split; [reflexivity|apply Im4; left; reflexivity].
          + destruct (wk_rev0 t0 g Hg) as [A|[A B]]; [left; exact A|]. right. split; [exact A|apply Im4; right; exact B].
        - intros t0 g Hg. apply Rv4. right. apply wk_rev_mono0. exact Hg.
        - intros x p Hx. cbn in Hx. unfold upd in Hx. destruct (Nat.eqb_spec x t) as [->|Hn].
          + inv Hx. right. exists ct. exact Ft1.
          + rewrite Su in Hx. destruct (wk_uris0 x p Hx) as [A|[c A]]; [left; exact A|]. right. exists c.
            apply (fx_files _ _ X1). exact A.
        - intros x p Hx. apply wk_uris_mono0 in Hx. cbn. unfold upd. destruct (Nat.eqb_spec x t) as [->|Hn].
          + destruct (gp_uris _ _ wk_ginv0 t p Hx) as [c A]. apply (fx_files _ _ X1) in A.
            rewrite Ft1 in A. inv A. reflexivity.
          + rewrite Su. exact Hx.
        - intros t' a Ha. 
          assert (Old : In (t', a) news -> w_an w0 t' = None /\ t' <> f /\
                   exists q1 c, w_files w4 t' = Some (q1, c) /\ a = mkA Parsed c [] /\ In t' (w_imports w4 f)).
          { intros Hin. destruct (wk_news0 t' a Hin) as [A [B [q1 [c [C [D E]]]]]].
            split; [exact A|]. split; [exact B|]. exists q1, c. split; [apply (fx_files _ _ X1); exact C|].
            split; [exact D|apply Im4; right; exact E]. }
          destruct Hn' as [[-> _]|[-> Hnone]]; [apply Old; exact Ha|].
          apply in_app_or in Ha. destruct Ha as [Ha|[Ha|[]]]; [apply Old; exact Ha|].
          inv Ha. split; [exact Hnone|]. split; [exact Htf|]. exists q, ct.
          split; [exact Ft1|]. split; [reflexivity|apply Im4; left; reflexivity]. }
      assert (Ea : w_an w4 t = w_an w0 t) by (cbn; rewrite Sa; rewrite wk_an0; reflexivity).
      rewrite Ea. destruct (w_an w0 t) eqn:Eat.
      + apply Core. left. split; [reflexivity|discriminate].
      + assert (Ef4 : w_files w4 t = Some (q, ct)) by exact Ft1.
        rewrite Ef4. apply Core. right. split; reflexivity.
  }
  intros w news err E. rewrite E in HI. apply HI. exact Hl.
Qed.

(* ------------------------------------------------------------------ typecheck: auxiliary facts *)

Definition NoTC (w : world) (r : nat) : Prop :=
  forall x ax, w_an w x = Some ax -> a_state ax = Typechecking -> r < rk w x.

Definition BInv (cu : docs) (w : world) : Prop :=
  forall x ax, w_an w x = Some ax ->
    (exists p, w_files w x = Some (p, a_src ax)) /\
    (forall t, In t (w_imports w x) ->
       exists q, In q (fst (reach cu (c_imports (a_src ax)))) /\ live_id w q = Some t).

(* semantic invariant while analyses are being recomputed: [Q] = still to be typechecked *)
Definition SInvT (Q : fid -> Prop) (cu : docs) (w : world) : Prop :=
  forall g a, w_an w g = Some a -> (Q g /\ a_state a <> Typechecked) \/ SInv1 cu w g a.

Lemma SInv1_frame : forall cu w w' x ax,
  SInv1 cu w x ax -> fext w w' ->
  (forall t, In t (w_imports w' x) <-> In t (w_imports w x)) ->
  (forall t, w_an w t <> None -> w_an w' t <> None) ->
  (forall t g, In g (w_rev w t) -> In g (w_rev w' t)) ->
  (forall q g, In g (w_failed w q) -> In g (w_failed w' q)) ->
  SInv1 cu w' x ax.
Proof.
  intros cu w w' x ax [] X Hi Ha Hr Hf. constructor; auto.
  - destruct s_src0 as [p Hp]. exists p. apply (fx_files _ _ X). exact Hp.
  - intros t Ht. apply Hi in Ht. destruct (s_imp0 t Ht) as [q [A B]]. exists q. split; [exact A|].
    apply (fx_live _ _ X). exact B.
  - intros Hs. specialize (s_parsed0 Hs). destruct (w_imports w' x) as [|t l] eqn:E; [reflexivity|].
    assert (In t (w_imports w x)) by (apply Hi; left; reflexivity). rewrite s_parsed0 in H. destruct H.
  - intros Hs q Hq. destruct (s_targets0 Hs q Hq) as [t [A [B [C D]]]]. exists t.
    split; [apply (fx_live _ _ X); exact A|]. split; [apply Ha; exact B|]. split; [apply Hr; exact C|].
    apply Hi. exact D.
Qed.

Lemma expect_t_unfold : forall cu p c, cu_resp cu -> cu p = Some c ->
  expect_t cu M p = expect_c cu (expect_t cu M) c.
Proof.
  intros cu p c R H. pose proof (rank_lt p) as Hp. destruct M as [|m] eqn:EM; [lia|].
  replace (expect_t cu (S m) p) with (expect_c cu (expect_t cu m) c) by (cbn; rewrite H; reflexivity).
  apply expect_c_ext. intros q Hq. apply reach_In in Hq. destruct Hq as [Hq _].
  pose proof (R p c H q Hq). apply (expect_t_fuel cu rank R); lia.
Qed.

Lemma same_diags_nil : forall l l', same_diags l l' -> is_nil l = is_nil l'.
Proof.
  intros l l' H. destruct l as [|a l], l' as [|b l']; cbn; try reflexivity.
  - destruct (H b) as [_ H2]. destruct (H2 (or_introl eq_refl)).
  - destruct (H a) as [H1 _]. destruct (H1 (or_introl eq_refl)).
Qed.

Lemma ins_news_spec : forall news w,
  let w' := ins_news w news in
  w_next w' = w_next w /\ w_files w' = w_files w /\ w_ids w' = w_ids w /\ w_imports w' = w_imports w /\
  w_rev w' = w_rev w /\ w_failed w' = w_failed w /\ w_uris w' = w_uris w /\ w_pub w' = w_pub w /\ w_log w' = w_log w /\
  (forall x, (exists a, In (x, a) news /\ w_an w' x = Some a) \/
             ((forall a, ~ In (x, a) news) /\ w_an w' x = w_an w x)).
Proof.
  induction news as [|[t a] news IH]; intros w; cbn.
  - repeat split; auto.
  - specialize (IH (set_an w (upd (w_an w) t (Some a)))). cbn in IH.
    destruct IH as [A1 [A2 [A3 [A4 [A5 [A6 [A7 [A8 [A9 A10]]]]]]]]].
    repeat split; auto. intros x. destruct (A10 x) as [[a' [H1 H2]]|[H1 H2]].
    + left. exists a'. split; [right; exact H1|exact H2].
    + cbn in H2. unfold upd in H2. destruct (Nat.eqb_spec x t) as [->|Hn].
      * left. exists a. split; [left; reflexivity|exact H2].
      * right. split; [|exact H2]. intros a' [E|Hin]; [inv E; contradiction|]. apply (H1 a'). exact Hin.
Qed.

Lemma own_of_spec : forall cu src, own_of src (option_map DMissing (snd (reach cu (c_imports src)))) = own_diags cu src.
Proof. intros. unfold own_of, own_diags. destruct (snd (reach cu (c_imports src))); reflexivity. Qed.

(* [g] is the current id of some path *)
Definition lvi (w : world) (g : fid) : Prop := exists q, live_id w q = Some g.

Lemma lvi_fext : forall w w' g, fext w w' -> lvi w g -> lvi w' g.
Proof. intros w w' g X [q H]. exists q. apply (fx_live _ _ X). exact H. Qed.

Record fill_post (Q : fid -> Prop) (cu : docs) (w : world) (f : fid) (src : content) (w5 : world) (own : list diag) : Prop := {
  fp_ginv : GInv w5;
  fp_link : Link cu w5;
  fp_binv : BInv cu w5;
  fp_fext : fext w w5;
  fp_own : own = own_diags cu src;
  fp_f : w_an w5 f = Some (mkA Typechecking src own);
  fp_sinv : forall g ag, w_an w5 g = Some ag -> g <> f ->
            (Q g /\ a_state ag <> Typechecked /\ w_an w g <> None) \/ SInv1 cu w5 g ag \/
            (w_an w g = None /\ a_state ag = Parsed /\ is_perr (a_src ag) = false /\ In g (w_imports w5 f));
  fp_tgt : forall q, In q (fst (reach cu (c_imports src))) ->
           exists t, live_id w5 q = Some t /\ In t (w_imports w5 f) /\ In f (w_rev w5 t) /\ w_an w5 t <> None /\ w_uris w5 t <> None;
  fp_stop : forall q, snd (reach cu (c_imports src)) = Some q -> In f (w_failed w5 q);
  fp_old : forall x ax, x <> f -> w_an w x = Some ax -> w_an w5 x = Some ax;
  fp_imp_o : forall x, x <> f -> w_imports w5 x = w_imports w x;
  fp_imp_mono : forall t, In t (w_imports w f) -> In t (w_imports w5 f);
  fp_rev : forall t g, In g (w_rev w t) -> In g (w_rev w5 t);
  fp_failed : forall q g, In g (w_failed w q) -> In g (w_failed w5 q);
  fp_uris : forall x p, w_uris w x = Some p -> w_uris w5 x = Some p;
  fp_pub : w_pub w5 = w_pub w;
  fp_log : w_log w5 = w_log w;
  fp_notc : forall r, NoTC w r -> r < rk w f -> NoTC w5 r;
  fp_tc_old : forall x ax, x <> f -> w_an w5 x = Some ax -> a_state ax = Typechecking -> w_an w x = Some ax;
  fp_rev_new : forall t g, In g (w_rev w5 t) -> In g (w_rev w t) \/ g = f;
  fp_failed_new : forall q g, In g (w_failed w5 q) -> In g (w_failed w q) \/ g = f;
  fp_an_new : forall g, w_an w5 g <> None -> w_an w g <> None \/ (lvi w5 g /\ w_uris w5 g <> None)
}.

Lemma fill_block_spec : forall Q cu w f pf a w5 own,
  GInv w -> Link cu w -> cu_resp cu -> BInv cu w ->
  SInvT (fun x => Q x \/ x = f) cu w ->
  w_files w f = Some (pf, a_src a) -> w_an w f = Some a -> a_state a = Parsed ->
  fill_block cf disk w f (a_src a) = (w5, own) ->
  fill_post Q cu w f (a_src a) w5 own.
Proof.
  intros Q cu w f pf a w5 own G L R B S Ff Ha Hst E.
  unfold fill_block in E.
  destruct (fold_left (resolve_one cf disk f) (c_imports (a_src a)) (w, [], None)) as [[w1 news] err] eqn:EW.
  assert (Hl : forall q, In q (c_imports (a_src a)) -> rank q < rank pf).
  { intros q Hq. eapply (gp_resp _ _ G); eauto. }
  assert (Haf : w_an w f <> None) by congruence.
  pose proof (walk_spec (fun _ => False) cu f pf (a_src a) w (c_imports (a_src a)) G L R Ff Haf Hl w1 news err EW) as W.
  destruct W.
  set (src := a_src a) in *.
  set (w2 := set_an w1 (upd (w_an w1) f (Some (mkA Typechecking src [])))) in *.
  destruct (ins_news_spec news w2) as [N1 [N2 [N3 [N4 [N5 [N6 [N7 [N8 [N9 N10]]]]]]]]].
  set (w3 := ins_news w2 news) in *.
  set (w4 := match err with
             | Some (DMissing p) => set_failed w3 (upd (w_failed w3) p (add_set f (w_failed w3 p)))
             | _ => w3 end) in *.
  assert (Eo : own_of src err = own_diags cu src) by (rewrite wk_err0; apply own_of_spec).
  (* facts about w4 *)
  assert (F4 : w_files w4 = w_files w1 /\ w_ids w4 = w_ids w1 /\ w_next w4 = w_next w1 /\ w_an w4 = w_an w3 /\
               w_imports w4 = w_imports w1 /\ w_rev w4 = w_rev w1 /\ w_uris w4 = w_uris w1 /\
               w_pub w4 = w_pub w1 /\ w_log w4 = w_log w1).
  { unfold w4. destruct err as [[]|]; cbn; rewrite ?N1, ?N2, ?N3, ?N4, ?N5, ?N7, ?N8, ?N9; repeat split; reflexivity. }
  destruct F4 as [F4f [F4i [F4n [F4a [F4m [F4r [F4u [F4p F4l]]]]]]]].
  assert (Fl4 : forall q g, In g (w_failed w4 q) <-> In g (w_failed w q) \/ (g = f /\ snd (reach cu (c_imports src)) = Some q)).
  { intros q g. unfold w4. rewrite wk_err0. destruct (snd (reach cu (c_imports src))) as [q0|] eqn:Es; cbn.
    - unfold upd. rewrite N6. cbn. rewrite wk_failed0. destruct (Nat.eqb_spec q q0) as [->|Hn].
      + rewrite In_add_set. split; [intros [->|H]; auto|intros [H|[-> _]]; auto].
      + split; [auto|]. intros [H|[_ H]]; [exact H|]. inv H. contradiction.
    - rewrite N6. cbn. rewrite wk_failed0. split; [auto|]. intros [H|[_ H]]; [exact H|discriminate]. }
  (* news are not f *)
  assert (Nf : forall a', ~ In (f, a') news).
  { intros a' Hin. destruct (wk_news0 f a' Hin) as [_ [Hne _]]. contradiction. }
  assert (A3f : w_an w3 f = Some (mkA Typechecking src [])).
  { destruct (N10 f) as [[a' [H1 _]]|[_ H2]]; [destruct (Nf a' H1)|]. rewrite H2. cbn. apply upd_eq. }
  assert (A4f : w_an w4 f = Some (mkA Typechecking src [])) by (rewrite F4a; exact A3f).
  unfold add_tdiags in E. rewrite A4f in E. cbn in E. injection E as E5 Eown.
  subst w5 own.
  set (w5 := set_an w4 (upd (w_an w4) f (Some (mkA Typechecking src (own_of src err))))).
  (* analyses of w5 *)
  assert (A5 : forall x, x <> f ->
               (exists a', In (x, a') news /\ w_an w5 x = Some a') \/
               ((forall a', ~ In (x, a') news) /\ w_an w5 x = w_an w x)).
  { intros x Hx. unfold w5. cbn. rewrite upd_neq by exact Hx. rewrite F4a.
    destruct (N10 x) as [[a' [H1 H2]]|[H1 H2]]; [left; eauto|]. right. split; [exact H1|].
    rewrite H2. cbn. rewrite upd_neq by exact Hx. rewrite wk_an0. reflexivity. }
  assert (A5f : w_an w5 f = Some (mkA Typechecking src (own_of src err))) by (unfold w5; cbn; apply upd_eq).
  assert (X5 : fext w w5).
  { eapply fext_trans; [exact wk_fext0|]. apply fext_same; unfold w5; cbn; assumption. }
  assert (Pres : forall x, w_an w x <> None -> w_an w5 x <> None).
  { intros x Hx. destruct (Nat.eq_dec x f) as [->|Hn]; [congruence|].
    destruct (A5 x Hn) as [[a' [_ H]]|[_ H]]; congruence. }
  assert (Lv : forall q, live_id w5 q = live_id w1 q).
  { intros. unfold live_id, w5. cbn. rewrite F4i. reflexivity. }
  assert (Im5 : w_imports w5 = w_imports w1) by (unfold w5; cbn; exact F4m).
  assert (Rv5 : w_rev w5 = w_rev w1) by (unfold w5; cbn; exact F4r).
  assert (Fi5 : w_files w5 = w_files w1) by (unfold w5; cbn; exact F4f).
  assert (Ur5 : w_uris w5 = w_uris w1) by (unfold w5; cbn; exact F4u).
  assert (Fl5 : w_failed w5 = w_failed w4) by reflexivity.
  assert (RK5 : forall x, rk w5 x = rk w1 x).
  { intros. unfold rk, path_of. rewrite Fi5. reflexivity. }
  assert (Ff1 : w_files w1 f = Some (pf, src)) by (apply (fx_files _ _ wk_fext0); exact Ff).
  (* every target has an analysis in w5 *)
  assert (Tg : forall q, In q (fst (reach cu (c_imports src))) ->
               exists t, live_id w5 q = Some t /\ In t (w_imports w5 f) /\ In f (w_rev w5 t) /\ w_an w5 t <> None /\ w_uris w5 t <> None).
  { intros q Hq. destruct (wk_tgt0 q Hq) as [t [A1 [A2 [A3 [AU A4]]]]]. exists t.
    rewrite Lv. rewrite Im5, Rv5, Ur5. split; [exact A1|]. split; [exact A2|]. split; [exact A3|]. split; [|exact AU].
    destruct A4 as [A4|[c [A4 _]]].
    - apply Pres. exact A4.
    - destruct (wk_news0 _ _ A4) as [_ [Hne _]]. destruct (A5 t Hne) as [[a' [_ H]]|[H _]]; [congruence|].
      destruct (H _ A4). }
  assert (G5 : GInv w5).
  { destruct wk_ginv0. constructor; unfold GInv; rewrite ?Fi5, ?Im5, ?Rv5, ?Ur5; auto.
    - unfold w5. cbn. rewrite F4n. exact gp_next0.
    - unfold w5. cbn. rewrite F4i. exact gp_ids0.
    - intros x Hx. destruct (Nat.eq_dec x f) as [->|Hn]; [congruence|].
      destruct (A5 x Hn) as [[a' [H1 _]]|[_ H2]].
      + destruct (wk_news0 _ _ H1) as [_ [_ [q [c [H3 _]]]]]. congruence.
      + rewrite H2 in Hx. apply (fx_files_ne w w1); auto. apply (gp_an _ _ G). exact Hx.
    - intros t g H. rewrite !RK5. apply gp_rev0. exact H.
    - intros x t H. rewrite !RK5. destruct (gp_imp0 x t H) as [C1 [C2 C3]]. split; [exact C1|]. split; [exact C2|].
      right. destruct C3 as [[[]| ->]|[C3 C4]].
      + (* x = f: a target *)
        destruct (wk_imp_f0 t H) as [Ho|[q [Hq Hl']]].
        * destruct (gp_imp _ _ G f t Ho) as [_ [_ [[]|[D1 D2]]]]. split; [apply wk_rev_mono0; exact D1|apply Pres; exact D2].
        * destruct (Tg q Hq) as [t' [T1 [T2 [T3 [T4 _]]]]]. rewrite Lv in T1. rewrite Hl' in T1. inv T1.
          rewrite Rv5 in T3. split; [exact T3|exact T4].
      + split; [exact C3|]. apply Pres. rewrite <- wk_an0. exact C4.
    - intros q g H. rewrite Fl5 in H. apply Fl4 in H. destruct H as [H|[-> _]]; [|congruence].
      apply (fx_files_ne w w1); auto. apply (gp_failed _ _ G q g H).
    - intros x Hx. destruct (Nat.eq_dec x f) as [->|Hn]; [congruence|].
      destruct (A5 x Hn) as [[a' [_ H]]|[_ H]]; [congruence|]. rewrite H in Hx.
      rewrite wk_imp_o0 by exact Hn. apply (gp_none _ _ G). exact Hx. }
  assert (Old : forall x ax, x <> f -> w_an w x = Some ax -> w_an w5 x = Some ax).
  { intros x ax Hx Hax. destruct (A5 x Hx) as [[a' [H1 _]]|[_ H2]]; [|congruence].
    destruct (wk_news0 _ _ H1) as [Hn _]. congruence. }
  assert (RKw : forall x, w_files w x <> None -> rk w5 x = rk w x).
  { intros x Hx. rewrite RK5. apply fext_rk; auto. }
  constructor; auto.
  - (* Link *) intros p. rewrite Lv, Fi5. apply wk_link0.
  - (* BInv *) intros x ax Hax. destruct (Nat.eq_dec x f) as [->|Hn].
    + rewrite A5f in Hax. inv Hax. cbn [a_src a_state a_tdiags]. split; [exists pf; rewrite Fi5; exact Ff1|].
      intros t Ht. rewrite Im5 in Ht. destruct (wk_imp_f0 t Ht) as [Ho|[q [Hq Hl']]].
      * destruct (B f a Ha) as [_ Bi]. destruct (Bi t Ho) as [q [Hq Hl']]. exists q. split; [exact Hq|].
        rewrite Lv. apply (fx_live _ _ wk_fext0). exact Hl'.
      * exists q. split; [exact Hq|]. rewrite Lv. exact Hl'.
    + destruct (A5 x Hn) as [[a' [H1 H2]]|[_ H2]].
      * rewrite H2 in Hax. inv Hax. destruct (wk_news0 _ _ H1) as [Hnone [_ [q [c [H3 [-> _]]]]]]. cbn [a_src a_state a_tdiags].
        split; [exists q; rewrite Fi5; exact H3|]. intros t Ht. rewrite Im5, wk_imp_o0 in Ht by exact Hn.
        rewrite (gp_none _ _ G x Hnone) in Ht. destruct Ht.
      * rewrite H2 in Hax. destruct (B x ax Hax) as [[p Hp] Bi]. split.
        { exists p. rewrite Fi5. apply (fx_files _ _ wk_fext0). exact Hp. }
        intros t Ht. rewrite Im5, wk_imp_o0 in Ht by exact Hn. destruct (Bi t Ht) as [q [Hq Hl']].
        exists q. split; [exact Hq|]. rewrite Lv. apply (fx_live _ _ wk_fext0). exact Hl'.
  - (* sinv *) intros g ag Hag Hn. destruct (A5 g Hn) as [[a' [H1 H2]]|[_ H2]].
    + rewrite H2 in Hag. inv Hag. destruct (wk_news0 _ _ H1) as [Hnone [_ [q [c [H3 [-> H4]]]]]].
      destruct (is_perr c) eqn:Ep.
      * right. left. constructor; cbn [a_src a_state a_tdiags]; try discriminate.
        -- exists q. rewrite Fi5. exact H3.
        -- right. split; [reflexivity|exact Ep].
        -- intros t Ht. rewrite Im5, wk_imp_o0 in Ht by exact Hn. rewrite (gp_none _ _ G g Hnone) in Ht. destruct Ht.
        -- intros _. rewrite Im5, wk_imp_o0 by exact Hn. apply (gp_none _ _ G g Hnone).
      * right. right. split; [exact Hnone|]. split; [reflexivity|]. split; [exact Ep|]. rewrite Im5. exact H4.
    + rewrite H2 in Hag. destruct (S g ag Hag) as [[[Hq| ->] Hs]|Hs]; [left|contradiction|right; left].
      * split; [exact Hq|]. split; [exact Hs|congruence].
      * apply (SInv1_frame cu w w5 g ag Hs X5).
        -- intros t. rewrite Im5, wk_imp_o0 by exact Hn. tauto.
        -- exact Pres.
        -- intros t g0 H. rewrite Rv5. apply wk_rev_mono0. exact H.
        -- intros q g0 H. rewrite Fl5. apply Fl4. left. exact H.
  - (* stop *) intros q Hq. rewrite Fl5. apply Fl4. right. auto.
  - intros x Hx. rewrite Im5. apply wk_imp_o0. exact Hx.
  - intros t Ht. rewrite Im5. apply wk_imp_mono0. exact Ht.
  - intros t g H. rewrite Rv5. apply wk_rev_mono0. exact H.
  - intros q g H. rewrite Fl5. apply Fl4. left. exact H.
  - intros x p H. rewrite Ur5. apply wk_uris_mono0. exact H.
  - unfold w5. cbn. rewrite F4p. exact wk_pub0.
  - unfold w5. cbn. rewrite F4l. exact wk_log0.
  - (* NoTC *) intros r Hr Hrf x ax Hax Hs. destruct (Nat.eq_dec x f) as [->|Hn].
    + rewrite RKw by congruence. exact Hrf.
    + destruct (A5 x Hn) as [[a' [H1 H2]]|[_ H2]].
      * rewrite H2 in Hax. inv Hax. destruct (wk_news0 _ _ H1) as [_ [_ [q [c [_ [-> _]]]]]]. discriminate.
      * rewrite H2 in Hax. rewrite RKw by (apply (gp_an _ _ G); congruence). apply (Hr x ax Hax Hs).
  - intros x ax Hn Hax Hs. destruct (A5 x Hn) as [[a' [H1 H2]]|[_ H2]].
    + rewrite H2 in Hax. inv Hax. destruct (wk_news0 _ _ H1) as [_ [_ [q [c [_ [-> _]]]]]]. discriminate.
    + congruence.
  - intros t g H. rewrite Rv5 in H. destruct (wk_rev0 t g H) as [H'|[H' _]]; auto.
  - intros q g H. rewrite Fl5 in H. apply Fl4 in H. destruct H as [H|[H _]]; auto.
  - intros g Hg. destruct (Nat.eq_dec g f) as [->|Hn]; [left; exact Haf|].
    destruct (A5 g Hn) as [[a' [H1 _]]|[_ H2]]; [|left; congruence].
    destruct (wk_news0 _ _ H1) as [_ [_ [q0 [c [_ [_ Hin]]]]]].
    destruct (wk_imp_f0 g Hin) as [Ho|[q [Hq Hl']]].
    + left. destruct (gp_imp _ _ G f g Ho) as [_ [_ [[]|[_ D]]]]. exact D.
    + right. destruct (wk_tgt0 q Hq) as [t [T1 [_ [_ [T4 _]]]]]. rewrite Hl' in T1. inv T1.
      split; [exists q; rewrite Lv; exact Hl'|rewrite Ur5; exact T4].
Qed.

(* ------------------------------------------------------------------ typecheck *)

Record tc_post (Q : fid -> Prop) (cu : docs) (w : world) (f : fid) (w' : world) (ds : list diag) : Prop := {
  tp_ginv : GInv w';
  tp_link : Link cu w';
  tp_binv : BInv cu w';
  tp_fext : fext w w';
  tp_res : exists a', w_an w' f = Some a' /\ a_state a' = Typechecked /\ ds = a_tdiags a' /\ SInv1 cu w' f a';
  tp_sinv : forall g a, w_an w' g = Some a -> g <> f -> (Q g /\ a_state a <> Typechecked) \/ SInv1 cu w' g a;
  tp_tc_old : forall x ax, w_an w' x = Some ax -> a_state ax = Typechecking -> w_an w x = Some ax;
  tp_stable : forall x ax, w_an w x = Some ax ->
              (a_state ax <> Parsed \/ (is_perr (a_src ax) = true /\ x <> f)) ->
              w_an w' x = Some ax /\ w_imports w' x = w_imports w x;
  tp_pres : forall x, w_an w x <> None -> w_an w' x <> None;
  tp_rev : forall t g, In g (w_rev w t) -> In g (w_rev w' t);
  tp_failed : forall q g, In g (w_failed w q) -> In g (w_failed w' q);
  tp_imports : forall x t, In t (w_imports w x) -> In t (w_imports w' x);
  tp_uris : forall x p, w_uris w x = Some p -> w_uris w' x = Some p;
  tp_pub : w_pub w' = w_pub w;
  tp_log : w_log w' = w_log w;
  tp_rev_new : forall t g, In g (w_rev w' t) -> In g (w_rev w t) \/ g = f \/ (lvi w' g /\ w_uris w' g <> None);
  tp_failed_new : forall q g, In g (w_failed w' q) -> In g (w_failed w q) \/ g = f \/ (lvi w' g /\ w_uris w' g <> None);
  tp_an_new : forall g, w_an w' g <> None -> w_an w g <> None \/ (lvi w' g /\ w_uris w' g <> None)
}.

Lemma NoTC_mono : forall w r r', NoTC w r -> r' <= r -> NoTC w r'.
Proof. intros w r r' H Hr x ax Hx Hs. specialize (H x ax Hx Hs). lia. Qed.

Lemma tc_post_notc : forall Q cu w f w' ds r, GInv w -> tc_post Q cu w f w' ds -> NoTC w r -> NoTC w' r.
Proof.
  intros Q cu w f w' ds r G T H x ax Hx Hs.
  pose proof (tp_tc_old _ _ _ _ _ _ T x ax Hx Hs) as Ho.
  rewrite (fext_rk w w' x (tp_fext _ _ _ _ _ _ T)); [apply (H x ax Ho Hs)|].
  apply (gp_an _ _ G). congruence.
Qed.

(* changing the analysis of [f] (which has one) does not disturb the structural invariant *)
Lemma GInv_set_an : forall w f a, GInv w -> w_an w f <> None ->
  GInv (set_an w (upd (w_an w) f (Some a))).
Proof.
  intros w f a [] Hf. constructor; cbn; auto.
  - intros x Hx. destruct (Nat.eq_dec x f) as [E|E]; [subst x; auto|]. rewrite upd_neq in Hx by exact E. auto.
  - intros x t H. destruct (gp_imp0 x t H) as [A [B [[]|[C D]]]]. split; [exact A|]. split; [exact B|]. right.
    split; [exact C|]. destruct (Nat.eq_dec t f) as [E|E]; [subst t; rewrite upd_eq; discriminate|].
    rewrite upd_neq by exact E. exact D.
  - intros x Hx. destruct (Nat.eq_dec x f) as [E|E]; [subst x; rewrite upd_eq in Hx; discriminate|].
    rewrite upd_neq in Hx by exact E. auto.
Qed.

Lemma finish_spec : forall w f st src ds0 ids,
  w_an w f = Some (mkA st src ds0) ->
  let w' := complete_typechecking (add_tdiags w f ids) f in
  w_an w' f = Some (mkA Typechecked src (ds0 ++ ids)) /\
  (forall x, x <> f -> w_an w' x = w_an w x) /\
  w_next w' = w_next w /\ w_files w' = w_files w /\ w_ids w' = w_ids w /\ w_imports w' = w_imports w /\
  w_rev w' = w_rev w /\ w_failed w' = w_failed w /\ w_uris w' = w_uris w /\ w_pub w' = w_pub w /\ w_log w' = w_log w.
Proof.
  intros w f st src ds0 ids H. unfold add_tdiags. rewrite H. unfold complete_typechecking. cbn.
  rewrite upd_eq. cbn. rewrite upd_eq. split; [reflexivity|]. split; [|repeat split; reflexivity].
  intros x Hx. rewrite !upd_neq by exact Hx. reflexivity.
Qed.

Definition contrib (cu : docs) (w : world) (t : fid) : list diag :=
  imp_diag cu (expect_t cu M) (path_of w t).

Lemma typecheck_spec : forall k Q cu w f,
  GInv w -> Link cu w -> cu_resp cu -> BInv cu w ->
  SInvT (fun x => Q x \/ x = f) cu w -> NoTC w (rk w f) ->
  w_files w f <> None -> w_an w f <> None -> rk w f < k ->
  exists w' ds, typecheck cf pick disk k w f = Ok (w', ds) /\ tc_post Q cu w f w' ds.
Proof.
  induction k as [|k IH]; intros Q cu w f G L R B S N Hf Ha Hk; [lia|].
  cbn [typecheck].
  destruct (w_an w f) as [a|] eqn:Ea; [|congruence].
  destruct (B f a Ea) as [[pf' Ef] Bimp]. rewrite Ef.
  destruct (a_state a) eqn:Est.
  - (* Parsed: typecheck_uncached *)
    destruct (fill_block cf disk w f (a_src a)) as [w5 own] eqn:Efill.
    pose proof (fill_block_spec Q cu w f pf' a w5 own G L R B S Ef Ea Est Efill) as FP.
    destruct FP.
    assert (RKf : rk w5 f = rk w f) by (apply fext_rk; auto; congruence).
    set (src := a_src a) in *.
    set (NP := fun x => exists p c, w_files w5 x = Some (p, c) /\ is_perr c = false).
    (* loop invariant *)
    set (LI := fun (pre : list fid) (st : res (world * list diag)) =>
      exists w' ds, st = Ok (w', ds) /\
        GInv w' /\ Link cu w' /\ BInv cu w' /\ fext w5 w' /\
        w_an w' f = Some (mkA Typechecking src own) /\
        w_imports w' f = w_imports w5 f /\
        (forall g ag, w_an w' g = Some ag -> g <> f ->
           (Q g /\ a_state ag <> Typechecked) \/ SInv1 cu w' g ag \/
           (a_state ag <> Typechecked /\ NP g /\ In g (w_imports w5 f) /\ ~ In g pre)) /\
        (forall x ax, w_an w' x = Some ax -> a_state ax = Typechecking -> w_an w5 x = Some ax) /\
        (forall x ax, w_an w5 x = Some ax -> (a_state ax <> Parsed \/ is_perr (a_src ax) = true) ->
           w_an w' x = Some ax /\ w_imports w' x = w_imports w5 x) /\
        (forall x, w_an w5 x <> None -> w_an w' x <> None) /\
        (forall t g, In g (w_rev w5 t) -> In g (w_rev w' t)) /\
        (forall q g, In g (w_failed w5 q) -> In g (w_failed w' q)) /\
        (forall x t, In t (w_imports w5 x) -> In t (w_imports w' x)) /\
        (forall x p, w_uris w5 x = Some p -> w_uris w' x = Some p) /\
        w_pub w' = w_pub w5 /\ w_log w' = w_log w5 /\
        (forall d, In d ds <-> exists t, In t pre /\ In d (contrib cu w5 t)) /\
        (forall t g, In g (w_rev w' t) -> In g (w_rev w5 t) \/ (lvi w' g /\ w_uris w' g <> None)) /\
        (forall q g, In g (w_failed w' q) -> In g (w_failed w5 q) \/ (lvi w' g /\ w_uris w' g <> None)) /\
        (forall g, w_an w' g <> None -> w_an w5 g <> None \/ (lvi w' g /\ w_uris w' g <> None)) /\
        NoDup ds /\
        (forall d, In d ds -> exists t, In t pre /\ In t (w_imports w5 f) /\
                                         (d = DImpParse (path_of w5 t) \/ d = DImpType (path_of w5 t)))).
    assert (PInj : forall t t', In t (w_imports w5 f) -> In t' (w_imports w5 f) -> path_of w5 t = path_of w5 t' -> t = t').
    { intros t t' Ht Ht' Hp. destruct (fp_binv0 f _ fp_f0) as [_ Bf]. cbn [a_src] in Bf.
      destruct (Bf t Ht) as [q [_ Lq]]. destruct (Bf t' Ht') as [q' [_ Lq']].
      destruct (live_id_file w5 q t fp_ginv0 Lq) as [c1 F1]. destruct (live_id_file w5 q' t' fp_ginv0 Lq') as [c2 F2].
      unfold path_of in Hp. rewrite F1, F2 in Hp. subst q'. congruence. }
    assert (HL : LI (pick (w_imports w5 f)) (fold_left (loop_step (typecheck cf pick disk k)) (pick (w_imports w5 f)) (Ok (w5, [])))).
    { apply fold_left_inv_nodup; [apply pick_nodup; apply (gp_nd _ _ fp_ginv0)| |].
      - (* initially *)
        exists w5, []. split; [reflexivity|]. repeat (split; [solve [auto using fext_refl]|]).
        split.
        { intros g ag Hg Hn. destruct (fp_sinv0 g ag Hg Hn) as [[A [B0 _]]|[A|[A1 [A2 [A3 A4]]]]]; [left; auto|right; left; exact A|].
          right. right. split; [congruence|]. split; [|split; [exact A4|intros []]].
          destruct (fp_binv0 g ag Hg) as [[p Hp] _]. exists p, (a_src ag). auto. }
        repeat (split; [solve [auto]|]).
        split; [intros d; split; [intros []|intros [t [[] _]]]|].
        split; [intros t g H; left; exact H|]. split; [intros q g H; left; exact H|]. split; [intros g H; left; exact H|].
        split; [constructor|intros d []].
      - (* one iteration *)
        intros pre t st Htin Hnpre [w' [ds [-> [G' [L' [B' [X' [Af' [If' [Pend [TcO [Stab [Pres [Rv [Fl [Im [Ur [Pb [Lg [Dsc [RvN [FlN [AnN [NDs Shp]]]]]]]]]]]]]]]]]]]]]]]].
        apply (proj1 (pick_in _ _)) in Htin.
        assert (Htin' : In t (w_imports w' f)) by (rewrite If'; exact Htin).
        destruct (gp_imp _ _ G' f t Htin') as [Ft [Rkt [[]|[Rvt Ant]]]].
        destruct (B' f _ Af') as [_ Bf]. cbn [a_src] in Bf. destruct (Bf t Htin') as [q [Hq Lq]].
        pose proof (L' q) as Lq'. rewrite Lq in Lq'. destruct Lq' as [cq [Ftq Cq]].
        unfold loop_step. rewrite Ftq.
        destruct (w_an w' t) as [at_|] eqn:Eat; [|congruence].
        destruct (B' t at_ Eat) as [[pt Hpt] _]. rewrite Ftq in Hpt. injection Hpt as E1 E2. subst pt cq.
        assert (F5t : w_files w5 t = Some (q, a_src at_)).
        { destruct (w_files w5 t) as [[p5 c5]|] eqn:E5.
          - rewrite (fx_files _ _ X' t _ E5) in Ftq. inv Ftq. reflexivity.
          - exfalso. destruct (gp_imp _ _ fp_ginv0 f t Htin) as [A _]. contradiction. }
        assert (Ct : contrib cu w5 t = imp_diag cu (expect_t cu M) q).
        { unfold contrib, path_of. rewrite F5t. reflexivity. }
        assert (Pt5 : path_of w5 t = q) by (unfold path_of; rewrite F5t; reflexivity).
        destruct (is_perr (a_src at_)) eqn:Ep.
        + (* the import has parse errors *)
          exists w', (ds ++ [DImpParse q]). split; [reflexivity|].
          repeat (split; [solve [auto]|]). split.
          { intros g ag Hg Hn. destruct (Pend g ag Hg Hn) as [A|[A|[A1 [A2 [A3 A4]]]]]; [left; exact A|right; left; exact A|].
            right. right. split; [exact A1|]. split; [exact A2|]. split; [exact A3|].
            intros Hin. apply in_app_or in Hin. destruct Hin as [Hin|[<-|[]]]; [contradiction|].
            destruct A2 as [p [c [A2 A2']]]. rewrite F5t in A2. inv A2. congruence. }
          repeat (split; [solve [auto]|]).
          assert (Fresh : forall d, (d = DImpParse q \/ d = DImpType q) -> ~ In d ds).
          { intros d Hd Hin. destruct (Shp d Hin) as [t' [H1 [H2 H3]]].
            assert (path_of w5 t' = q) by (destruct Hd as [->| ->]; destruct H3 as [H3|H3]; congruence).
            assert (t' = t) by (apply PInj; auto; congruence). subst t'. contradiction. }
          split; [|split; [exact RvN|split; [exact FlN|split; [exact AnN|split]]]].
          2:{ apply NoDup_snoc_gen; [exact NDs|]. apply Fresh. left. reflexivity. }
          2:{ intros d Hd. apply in_app_or in Hd. destruct Hd as [Hd|[<-|[]]].
              - destruct (Shp d Hd) as [t' [H1 [H2 H3]]]. exists t'. split; [apply in_or_app; left; exact H1|auto].
              - exists t. split; [apply in_or_app; right; left; reflexivity|]. split; [exact Htin|left; congruence]. }
          intros d. rewrite in_app_iff. rewrite Dsc. split.
          * intros [[t0 [H1 H2]]|[<-|[]]].
            -- exists t0. split; [apply in_or_app; left; exact H1|exact H2].
            -- exists t. split; [apply in_or_app; right; left; reflexivity|]. rewrite Ct. unfold imp_diag. rewrite Cq, Ep. left. reflexivity.
          * intros [t0 [H1 H2]]. apply in_app_or in H1. destruct H1 as [H1|[<-|[]]]; [left; eauto|].
            right. rewrite Ct in H2. unfold imp_diag in H2. rewrite Cq, Ep in H2. exact H2.
        + (* recursive call *)
          set (Q' := fun x => Q x \/ x = f \/ (NP x /\ In x (w_imports w5 f) /\ ~ In x pre)).
          assert (RKf' : rk w' f = rk w f).
          { rewrite (fext_rk w5 w' f X'); [exact RKf|]. apply (gp_an _ _ fp_ginv0). congruence. }
          assert (S' : SInvT (fun x => Q' x \/ x = t) cu w').
          { intros g ag Hg. destruct (Nat.eq_dec g f) as [->|Hn].
            - rewrite Af' in Hg. inv Hg. left. split; [left; right; left; reflexivity|discriminate].
            - destruct (Pend g ag Hg Hn) as [[A1 A2]|[A|[A1 [A2 [A3 A4]]]]].
              + left. split; [left; left; exact A1|exact A2].
              + right. exact A.
              + left. split; [left; right; right; auto|exact A1]. }
          assert (N' : NoTC w' (rk w' t)).
          { intros x ax Hx Hs. pose proof (TcO x ax Hx Hs) as H5.
            assert (NoTC w5 (rk w' t)).
            { apply fp_notc0; [|lia]. eapply NoTC_mono; [exact N|lia]. }
            rewrite (fext_rk w5 w' x X'); [apply (H x ax H5 Hs)|]. apply (gp_an _ _ fp_ginv0). congruence. }
          destruct (IH Q' cu w' t G' L' R B' S' N') as [w'' [dt [Etc T]]]; [congruence|congruence|lia|].
          rewrite Etc. destruct T.
          destruct tp_res0 as [at' [At' [St' [-> Si']]]].
          exists w'', (if is_nil (a_tdiags at') then ds else ds ++ [DImpType q]). split; [reflexivity|].
          split; [exact tp_ginv0|]. split; [exact tp_link0|]. split; [exact tp_binv0|].
          split; [eapply fext_trans; eauto|].
          assert (Hfne : f <> t) by (intros ->; lia).
          destruct (tp_stable0 f _ Af') as [Af'' If'']; [left; discriminate|].
          split; [exact Af''|]. split; [congruence|]. split.
          { intros g ag Hg Hn. destruct (Nat.eq_dec g t) as [->|Hnt].
            - right. left. rewrite At' in Hg. inv Hg. exact Si'.
            - destruct (tp_sinv0 g ag Hg Hnt) as [[[A|[A|[A1 [A2 A3]]]] A']|A]; [left; auto|contradiction| |right; left; exact A].
              right. right. split; [exact A'|]. split; [exact A1|]. split; [exact A2|].
              intros Hin. apply in_app_or in Hin. destruct Hin as [Hin|[Hin|[]]]; [contradiction|congruence]. }
          split. { intros x ax Hx Hs. apply TcO; [apply tp_tc_old0; assumption|assumption]. }
          split. { intros x ax Hx Hc. destruct (Stab x ax Hx Hc) as [A1 A2].
                   destruct (tp_stable0 x ax A1) as [A3 A4].
                   { destruct Hc as [Hc|Hc]; [left; exact Hc|]. right. split; [exact Hc|].
                     intros ->. rewrite Eat in A1. inv A1. congruence. }
                   split; [exact A3|congruence]. }
          split; [intros; apply tp_pres0; apply Pres; assumption|].
          split; [intros; apply tp_rev0; apply Rv; assumption|].
          split; [intros; apply tp_failed0; apply Fl; assumption|].
          split; [intros; apply tp_imports0; apply Im; assumption|].
          split; [intros; apply tp_uris0; apply Ur; assumption|].
          split; [congruence|]. split; [congruence|].
          (* the diagnostics *)
          assert (Enil : is_nil (a_tdiags at') = is_nil (expect_t cu M q)).
          { rewrite (expect_t_unfold cu q (a_src at_) R Cq).
            destruct (tp_binv0 t at' At') as [[p' Hp'] _]. rewrite (fx_files _ _ tp_fext0 t _ Ftq) in Hp'. inv Hp'.
            apply same_diags_nil. rewrite H1. apply (s_diags _ _ _ _ Si' St'). }
          assert (Lt' : lvi w' t /\ w_uris w' t <> None).
          { split; [exists q; exact Lq|].
            destruct (fp_tgt0 q Hq) as [t5 [T1 [_ [_ [_ T5]]]]].
            apply (fx_live _ _ X') in T1. rewrite Lq in T1. inv T1.
            destruct (w_uris w5 t5) as [pg|] eqn:Eu; [|congruence]. rewrite (Ur t5 pg Eu). discriminate. }
          assert (LU : forall g, lvi w' g /\ w_uris w' g <> None -> lvi w'' g /\ w_uris w'' g <> None).
          { intros g [H1 H2]. split; [eapply lvi_fext; eauto|].
            destruct (w_uris w' g) as [pg|] eqn:Eu; [|congruence]. rewrite (tp_uris0 g pg Eu). discriminate. }
          split; [|split; [|split; [|split; [|split]]]].
          2:{ intros t0 g H. destruct (tp_rev_new0 t0 g H) as [H'|[->|H']].
              - destruct (RvN t0 g H') as [H2|H2]; [left; exact H2|right; apply LU; exact H2].
              - right. apply LU. exact Lt'.
              - right. exact H'. }
          2:{ intros q0 g H. destruct (tp_failed_new0 q0 g H) as [H'|[->|H']].
              - destruct (FlN q0 g H') as [H2|H2]; [left; exact H2|right; apply LU; exact H2].
              - right. apply LU. exact Lt'.
              - right. exact H'. }
          2:{ intros g H. destruct (tp_an_new0 g H) as [H'|H']; [|right; exact H'].
              destruct (AnN g H') as [H2|H2]; [left; exact H2|right; apply LU; exact H2]. }
          2:{ destruct (is_nil (a_tdiags at')); [exact NDs|]. apply NoDup_snoc_gen; [exact NDs|].
              intros Hin. destruct (Shp _ Hin) as [t' [H1 [H2 H3]]].
              assert (path_of w5 t' = q) by (destruct H3 as [H3|H3]; [discriminate|injection H3 as H3; symmetry; exact H3]).
              assert (t' = t) by (apply PInj; auto; congruence). subst t'. contradiction. }
          2:{ intros d Hd. destruct (is_nil (a_tdiags at')).
              - destruct (Shp d Hd) as [t' [H1 [H2 H3]]]. exists t'. split; [apply in_or_app; left; exact H1|auto].
              - apply in_app_or in Hd. destruct Hd as [Hd|[<-|[]]].
                + destruct (Shp d Hd) as [t' [H1 [H2 H3]]]. exists t'. split; [apply in_or_app; left; exact H1|auto].
                + exists t. split; [apply in_or_app; right; left; reflexivity|]. split; [exact Htin|right].
                  rewrite Pt5. reflexivity. }
          intros d. rewrite Enil.
          assert (Cd : In d (contrib cu w5 t) <-> (is_nil (expect_t cu M q) = false /\ d = DImpType q)).
          { rewrite Ct. unfold imp_diag. rewrite Cq, Ep. destruct (is_nil (expect_t cu M q)); cbn; intuition congruence. }
          destruct (is_nil (expect_t cu M q)) eqn:En.
          * rewrite Dsc. split.
            -- intros [t0 [H1 H2]]. exists t0. split; [apply in_or_app; left; exact H1|exact H2].
            -- intros [t0 [H1 H2]]. apply in_app_or in H1. destruct H1 as [H1|[<-|[]]]; [eauto|].
               apply Cd in H2. destruct H2. discriminate.
          * rewrite in_app_iff, Dsc. split.
            -- intros [[t0 [H1 H2]]|[<-|[]]].
               ++ exists t0. split; [apply in_or_app; left; exact H1|exact H2].
               ++ exists t. split; [apply in_or_app; right; left; reflexivity|apply Cd; auto].
            -- intros [t0 [H1 H2]]. apply in_app_or in H1. destruct H1 as [H1|[<-|[]]]; [left; eauto|].
               right. apply Cd in H2. destruct H2 as [_ ->]. left. reflexivity. }
    destruct HL as [w6 [idiags [Eloop HL]]].
    destruct HL as [G6 [L6 [B6 [X6 [Af6 [If6 [Pend6 [TcO6 [Stab6 [Pres6 [Rv6 [Fl6 [Im6 [Ur6 [Pb6 [Lg6 [Dsc6 [RvN6 [FlN6 [AnN6 [NDs6 Shp6]]]]]]]]]]]]]]]]]]]]].
    rewrite Eloop, Af6.
    destruct (finish_spec w6 f Typechecking src own idiags Af6) as [A8 [O8 [N8 [F8 [I8 [M8 [R8 [L8 [U8 [P8 Lg8]]]]]]]]]].
    set (w8 := complete_typechecking (add_tdiags w6 f idiags) f) in *.
    exists w8, (own ++ idiags). split; [reflexivity|].
    assert (X8 : fext w w8).
    { eapply fext_trans; [exact fp_fext0|]. eapply fext_trans; [exact X6|]. apply fext_same; assumption. }
    assert (Lv8 : forall q, live_id w8 q = live_id w6 q) by (intros; unfold live_id; rewrite I8; reflexivity).
    assert (Pres8 : forall x, w_an w6 x <> None -> w_an w8 x <> None).
    { intros x Hx. destruct (Nat.eq_dec x f) as [->|Hn]; [congruence|]. rewrite O8 by exact Hn. exact Hx. }
    assert (G8 : GInv w8).
    { destruct G6. constructor; rewrite ?N8, ?F8, ?I8, ?M8, ?R8, ?L8, ?U8; auto.
      - intros x Hx. apply gp_an0. destruct (Nat.eq_dec x f) as [->|Hn]; [congruence|]. rewrite O8 in Hx by exact Hn. exact Hx.
      - intros t g H. unfold rk, path_of. rewrite F8. apply gp_rev0. exact H.
      - intros x t H. unfold rk, path_of. rewrite F8. destruct (gp_imp0 x t H) as [C1 [C2 [[]|[C3 C4]]]].
        split; [exact C1|]. split; [exact C2|]. right. split; [exact C3|apply Pres8; exact C4].
      - intros x Hx. apply gp_none0. destruct (Nat.eq_dec x f) as [->|Hn]; [congruence|]. rewrite O8 in Hx by exact Hn. exact Hx. }
    assert (Allpre : forall g, In g (w_imports w5 f) -> In g (pick (w_imports w5 f))) by (intros; apply pick_in; assumption).
    assert (LU8 : forall g, lvi w6 g /\ w_uris w6 g <> None -> lvi w8 g /\ w_uris w8 g <> None).
    { intros g [[q Hq] H2]. split; [exists q; rewrite Lv8; exact Hq|rewrite U8; exact H2]. }
    constructor; auto.
    + (* Link *) intros p. rewrite Lv8, F8. apply L6.
    + (* BInv *) intros x ax Hx. destruct (Nat.eq_dec x f) as [->|Hn].
      * rewrite A8 in Hx. inv Hx. cbn [a_src]. destruct (B6 f _ Af6) as [[p Hp] Bi]. cbn [a_src] in *.
        split; [exists p; rewrite F8; exact Hp|]. intros t Ht. rewrite M8 in Ht. destruct (Bi t Ht) as [q [Hq Hl]].
        exists q. split; [exact Hq|rewrite Lv8; exact Hl].
      * rewrite O8 in Hx by exact Hn. destruct (B6 x ax Hx) as [[p Hp] Bi].
        split; [exists p; rewrite F8; exact Hp|]. intros t Ht. rewrite M8 in Ht. destruct (Bi t Ht) as [q [Hq Hl]].
        exists q. split; [exact Hq|rewrite Lv8; exact Hl].
    + (* result *)
      exists (mkA Typechecked src (own ++ idiags)). split; [exact A8|]. split; [reflexivity|]. split; [reflexivity|].
      destruct (B6 f _ Af6) as [[p Hp] Bi]. cbn [a_src] in *.
      constructor; cbn [a_src a_state a_tdiags].
      * exists p. rewrite F8. exact Hp.
      * left. reflexivity.
      * intros t Ht. rewrite M8 in Ht. destruct (Bi t Ht) as [q [Hq Hl]]. exists q. split; [exact Hq|rewrite Lv8; exact Hl].
      * discriminate.
      * intros _ d. unfold expect_c. rewrite !in_app_iff. rewrite fp_own0. rewrite Dsc6.
        split; (intros [H|H]; [left; exact H|right]).
        -- destruct H as [t [Ht Hd]]. apply (proj1 (pick_in _ _)) in Ht.
           assert (Ht6 : In t (w_imports w6 f)) by (rewrite If6; exact Ht).
           destruct (Bi t Ht6) as [q [Hq Hl]]. apply in_flat_map. exists q. split; [apply nodup_In; exact Hq|].
           pose proof (L6 q) as Lq. rewrite Hl in Lq. destruct Lq as [c [Fc _]].
           destruct (gp_imp _ _ fp_ginv0 f t Ht) as [Ft5 _].
           destruct (w_files w5 t) as [[p5 c5]|] eqn:E5; [|congruence].
           rewrite (fx_files _ _ X6 t _ E5) in Fc. inv Fc.
           unfold contrib, path_of in Hd. rewrite E5 in Hd. exact Hd.
        -- apply in_flat_map in H. destruct H as [q [Hq Hd]]. apply nodup_In in Hq.
           destruct (fp_tgt0 q Hq) as [t [T1 [T2 _]]]. exists t. split; [apply pick_in; exact T2|].
           pose proof (fp_link0 q) as Lq. rewrite T1 in Lq. destruct Lq as [c [Fc _]].
           unfold contrib, path_of. rewrite Fc. exact Hd.
      * intros _. apply NoDup_app_intro; [| exact NDs6 |].
        -- rewrite fp_own0. unfold own_diags. destruct (snd (reach cu (c_imports src))); [repeat constructor; intros []|].
           destruct (is_terr src); repeat constructor. intros [].
        -- intros d Hd Hi. destruct (Shp6 d Hi) as [t [_ [_ Ht]]]. rewrite fp_own0 in Hd. unfold own_diags in Hd.
           destruct (snd (reach cu (c_imports src))); [destruct Hd as [<-|[]]; destruct Ht; discriminate|].
           destruct (is_terr src); [destruct Hd as [<-|[]]; destruct Ht; discriminate|destruct Hd].
      * intros _ q Hq. destruct (fp_tgt0 q Hq) as [t [T1 [T2 [T3 [T4 _]]]]]. exists t.
        split; [rewrite Lv8; apply (fx_live _ _ X6); exact T1|].
        split; [apply Pres8; apply Pres6; exact T4|].
        split; [rewrite R8; apply Rv6; exact T3|rewrite M8, If6; exact T2].
      * intros _ q Hq. rewrite L8. apply Fl6. apply fp_stop0. exact Hq.
    + (* the others *)
      intros g ag Hg Hn. rewrite O8 in Hg by exact Hn.
      destruct (Pend6 g ag Hg Hn) as [A|[A|[_ [_ [A3 A4]]]]]; [left; exact A| |destruct (A4 (Allpre g A3))].
      right. apply (SInv1_frame cu w6 w8 g ag A).
      * apply fext_same; assumption.
      * intros t. rewrite M8. tauto.
      * exact Pres8.
      * intros t g0 H. rewrite R8. exact H.
      * intros q g0 H. rewrite L8. exact H.
    + intros x ax Hx Hs. destruct (Nat.eq_dec x f) as [->|Hn]; [rewrite A8 in Hx; inv Hx; discriminate|].
      rewrite O8 in Hx by exact Hn. apply (fp_tc_old0 x ax Hn); [|exact Hs]. apply TcO6; assumption.
    + intros x ax Hx Hc.
      assert (Hn : x <> f).
      { intros ->. rewrite Ea in Hx. inv Hx. destruct Hc as [Hc|[_ Hc]]; congruence. }
      pose proof (fp_old0 x ax Hn Hx) as H5.
      destruct (Stab6 x ax H5) as [A1 A2]; [destruct Hc as [Hc|[Hc _]]; auto|].
      split; [rewrite O8 by exact Hn; exact A1|]. rewrite M8, A2. apply fp_imp_o0. exact Hn.
    + intros x Hx. apply Pres8. apply Pres6. destruct (Nat.eq_dec x f) as [->|Hn]; [congruence|].
      destruct (w_an w x) as [ax|] eqn:E; [|congruence]. rewrite (fp_old0 x ax Hn E). discriminate.
    + intros t g H. rewrite R8. apply Rv6. apply fp_rev0. exact H.
    + intros q g H. rewrite L8. apply Fl6. apply fp_failed0. exact H.
    + intros x t H. rewrite M8. apply Im6. destruct (Nat.eq_dec x f) as [->|Hn]; [apply fp_imp_mono0; exact H|].
      rewrite fp_imp_o0 by exact Hn. exact H.
    + intros x p H. rewrite U8. apply Ur6. apply fp_uris0. exact H.
    + congruence.
    + congruence.
    + intros t g H. rewrite R8 in H. destruct (RvN6 t g H) as [H'|H'].
      * destruct (fp_rev_new0 t g H') as [H2| ->]; auto.
      * right. right. apply LU8. exact H'.
    + intros q g H. rewrite L8 in H. destruct (FlN6 q g H) as [H'|H'].
      * destruct (fp_failed_new0 q g H') as [H2| ->]; auto.
      * right. right. apply LU8. exact H'.
    + intros g H. destruct (Nat.eq_dec g f) as [->|Hn]; [left; congruence|].
      rewrite O8 in H by exact Hn.
      destruct (AnN6 g H) as [H'|H']; [|right; apply LU8; exact H'].
      destruct (fp_an_new0 g H') as [H2|[H2 H3]]; [left; exact H2|right].
      apply LU8. split; [eapply lvi_fext; eauto|].
      destruct (w_uris w5 g) as [pg|] eqn:Eu; [|congruence]. rewrite (Ur6 g pg Eu). discriminate.
  - (* Typechecking: excluded, the import graph has no cycle *)
    exfalso. specialize (N f a Ea Est). lia.
  - (* Typechecked: cached *)
    exists w, (a_tdiags a). split; [reflexivity|]. constructor; auto using fext_refl.
    + exists a. split; [exact Ea|]. split; [exact Est|]. split; [reflexivity|]. destruct (S f a Ea) as [[_ H]|H]; [congruence|exact H].
    + intros g ag Hg Hn. destruct (S g ag Hg) as [[[A|A] H]|H]; [left; auto|contradiction|right; exact H].
Qed.

(* ------------------------------------------------------------------ invalidate *)

Lemma rk_files_eq : forall w w' x, w_files w' = w_files w -> rk w' x = rk w x.
Proof. intros. unfold rk, path_of. rewrite H. reflexivity. Qed.

Lemma live_ids_eq : forall w w' q, w_ids w' = w_ids w -> live_id w' q = live_id w q.
Proof. intros. unfold live_id. rewrite H. reflexivity. Qed.

(* [w'] is [w] where [f] has lost its analysis, its imports and its reverse imports *)
Record cleared (w : world) (f : fid) (w' : world) : Prop := {
  cl_an_f : w_an w' f = None;
  cl_imp_f : w_imports w' f = [];
  cl_rev_f : w_rev w' f = [];
  cl_an : forall x, x <> f -> w_an w' x = w_an w x;
  cl_imp : forall x, x <> f -> w_imports w' x = w_imports w x;
  cl_rev : forall x, x <> f -> w_rev w' x = w_rev w x;
  cl_files : w_files w' = w_files w;
  cl_ids : w_ids w' = w_ids w;
  cl_next : w_next w' = w_next w;
  cl_failed : w_failed w' = w_failed w;
  cl_uris : w_uris w' = w_uris w;
  cl_pub : w_pub w' = w_pub w;
  cl_log : w_log w' = w_log w
}.

Lemma cleared_GInvP : forall P w f w',
  GInvP (fun x => P x \/ x = f) w -> cleared w f w' ->
  GInvP (fun x => P x \/ In x (w_rev w f)) w'.
Proof.
  intros P w f w' [] [].
  assert (RK : forall x, rk w' x = rk w x) by (intros; apply rk_files_eq; assumption).
  constructor; rewrite ?cl_files0, ?cl_ids0, ?cl_next0, ?cl_failed0, ?cl_uris0; auto.
  - intros x Hx. destruct (Nat.eq_dec x f) as [->|Hn]; [congruence|]. rewrite cl_an0 in Hx by exact Hn. auto.
  - intros t g H. rewrite !RK. destruct (Nat.eq_dec t f) as [->|Hn]; [rewrite cl_rev_f0 in H; destruct H|].
    rewrite cl_rev0 in H by exact Hn. auto.
  - intros x t H. rewrite !RK. destruct (Nat.eq_dec x f) as [->|Hn]; [rewrite cl_imp_f0 in H; destruct H|].
    rewrite cl_imp0 in H by exact Hn. destruct (gp_imp0 x t H) as [A [B C]]. split; [exact A|]. split; [exact B|].
    destruct C as [[C| ->]|[C D]]; [left; left; exact C|contradiction|].
    destruct (Nat.eq_dec t f) as [->|Hnt]; [left; right; exact C|].
    right. rewrite cl_rev0, cl_an0 by exact Hnt. auto.
  - intros x Hx. destruct (Nat.eq_dec x f) as [->|Hn]; [exact cl_imp_f0|].
    rewrite cl_an0 in Hx by exact Hn. rewrite cl_imp0 by exact Hn. auto.
  - intros x. destruct (Nat.eq_dec x f) as [->|Hn]; [rewrite cl_imp_f0; constructor|rewrite cl_imp0 by exact Hn; auto].
Qed.

Lemma cleared_SInvP : forall P cu w f w',
  SInvP (fun x => P x \/ x = f) cu w -> cleared w f w' ->
  SInvP (fun x => P x \/ In x (w_rev w f)) cu w'.
Proof.
  intros P cu w f w' S [] g ag Hg.
  destruct (Nat.eq_dec g f) as [->|Hn]; [congruence|]. rewrite cl_an0 in Hg by exact Hn.
  destruct (in_dec Nat.eq_dec g (w_rev w f)) as [Hin|Hnin]; [left; right; exact Hin|].
  destruct (S g ag Hg) as [[A| ->]|A]; [left; left; exact A|contradiction|]. right.
  destruct A. constructor; auto.
  - rewrite cl_files0. exact s_src0.
  - intros t Ht. rewrite cl_imp0 in Ht by exact Hn. destruct (s_imp0 t Ht) as [q [A B]]. exists q.
    split; [exact A|]. rewrite (live_ids_eq w w') by exact cl_ids0. exact B.
  - intros Hs. rewrite cl_imp0 by exact Hn. auto.
  - intros Hs q Hq. destruct (s_targets0 Hs q Hq) as [t [A [B [C D]]]]. exists t.
    rewrite (live_ids_eq w w') by exact cl_ids0. split; [exact A|].
    assert (t <> f) by (intros ->; contradiction).
    rewrite cl_an0, cl_rev0, cl_imp0 by assumption. auto.
  - intros Hs q Hq. rewrite cl_failed0. auto.
Qed.

Record inv_frame (w w' : world) : Prop := {
  if_files : w_files w' = w_files w;
  if_ids : w_ids w' = w_ids w;
  if_next : w_next w' = w_next w;
  if_failed : w_failed w' = w_failed w;
  if_uris : w_uris w' = w_uris w;
  if_pub : w_pub w' = w_pub w;
  if_log : w_log w' = w_log w;
  if_pt : forall x, (w_an w' x = w_an w x /\ w_imports w' x = w_imports w x /\ w_rev w' x = w_rev w x) \/
                    (w_an w' x = None /\ w_imports w' x = [] /\ w_rev w' x = [])
}.

Lemma inv_frame_refl : forall w, inv_frame w w.
Proof. intros. constructor; auto. Qed.

Lemma inv_frame_trans : forall w1 w2 w3, inv_frame w1 w2 -> inv_frame w2 w3 -> inv_frame w1 w3.
Proof.
  intros w1 w2 w3 [] []. constructor; try congruence.
  intros x. destruct (if_pt1 x) as [[A [B C]]|D]; [|right; exact D].
  rewrite A, B, C. apply if_pt0.
Qed.

Lemma cleared_frame : forall w f w', cleared w f w' -> inv_frame w w'.
Proof.
  intros w f w' []. constructor; auto. intros x. destruct (Nat.eq_dec x f) as [->|Hn]; [right; auto|left].
  rewrite cl_an0, cl_imp0, cl_rev0 by exact Hn. auto.
Qed.

Lemma inv_frame_none : forall w w' x, inv_frame w w' -> w_an w x = None -> w_an w' x = None.
Proof. intros w w' x F H. destruct (if_pt _ _ F x) as [[A _]|[A _]]; congruence. Qed.

Definition inv_fold (k : nat) :=
  fold_left (fun st g => match st with
                         | Some (w', acc') => inv_rec pick k w' acc' g
                         | None => None
                         end).

Record inv_post (P : fid -> Prop) (cu : docs) (w0 : world) (acc : list fid) (w' : world) (acc' : list fid) : Prop := {
  ip_ginv : GInvP P w';
  ip_sinv : SInvP P cu w';
  ip_frame : inv_frame w0 w';
  ip_acc : forall x, In x acc -> In x acc';
  ip_acc' : forall x, In x acc' -> In x acc \/ (w_files w0 x <> None /\ w_an w' x = None);
  ip_listed : forall x, In x acc' -> In x acc \/ exists t, In x (w_rev w0 t)
}.

Lemma inv_rec_spec : forall k P cu w0 w acc f,
  GInvP (fun x => P x \/ x = f) w0 -> SInvP (fun x => P x \/ x = f) cu w0 ->
  (w = w0 \/ w = set_an w0 (upd (w_an w0) f None)) ->
  w_files w0 f <> None -> M <= k + rk w0 f ->
  exists w' acc', inv_rec pick k w acc f = Some (w', acc') /\
    inv_post P cu w0 acc w' acc' /\ w_an w' f = None /\
    (forall x, w_an w0 x <> None -> w_an w' x = None -> x = f \/ In x acc') /\
    (forall x, In x (w_rev w0 f) -> In x acc').
Proof.
  induction k as [|k IH]; intros P cu w0 w acc f G S Hw Hf Hk.
  { pose proof (rank_lt (path_of w0 f)). unfold rk in Hk. lia. }
  (* the fold over the reverse dependencies *)
  assert (FOLD : forall l P w acc,
            GInvP (fun x => P x \/ In x l) w -> SInvP (fun x => P x \/ In x l) cu w ->
            (forall x, In x l -> w_files w x <> None /\ M <= k + rk w x) ->
            exists w' acc', inv_fold k l (Some (w, acc)) = Some (w', acc') /\
              inv_post P cu w acc w' acc' /\ (forall x, In x l -> w_an w' x = None) /\
              (forall x, w_an w x <> None -> w_an w' x = None -> In x l \/ In x acc')).
  { clear P w0 w acc f G S Hw Hf Hk.
    induction l as [|g l IHl]; intros P w acc G S Hl.
    - exists w, acc. split; [reflexivity|]. split.
      + constructor; auto using inv_frame_refl.
        * eapply GInvP_weaken; [|exact G]. intros x [H|[]]; exact H.
        * intros x a Hx. destruct (S x a Hx) as [[H|[]]|H]; auto.
      + split; [intros x []|]. intros x H1 H2. congruence.
    - destruct (Hl g (or_introl eq_refl)) as [Fg Kg].
      destruct (IH (fun x => P x \/ In x l) cu w w acc g) as [w1 [acc1 [E1 [[] [Ag [Rm _]]]]]]; auto.
      { eapply GInvP_weaken; [|exact G]. intros x [H|[<-|H]]; auto. }
      { intros x a Hx. destruct (S x a Hx) as [[H|[<-|H]]|H]; auto. }
      destruct (IHl P w1 acc1 ip_ginv0 ip_sinv0) as [w2 [acc2 [E2 [[] [Al Rm2]]]]].
      { intros x Hx. destruct (Hl x (or_intror Hx)) as [A B]. rewrite (if_files _ _ ip_frame0).
        rewrite (rk_files_eq w w1) by (apply (if_files _ _ ip_frame0)). auto. }
      exists w2, acc2. split; [cbn; unfold inv_fold in E2; rewrite E1; exact E2|].
      split; [constructor; auto|split].
      + eapply inv_frame_trans; eauto.
      + intros x Hx. destruct (ip_acc'1 x Hx) as [H|[H1 H2]].
        * destruct (ip_acc'0 x H) as [H'|[H1 H2]]; [left; exact H'|right].
          split; [exact H1|apply (inv_frame_none w1 w2); auto].
        * right. rewrite (if_files _ _ ip_frame0) in H1. auto.
      + intros x Hx. destruct (ip_listed1 x Hx) as [H|[t H]]; [apply ip_listed0; exact H|right].
        exists t. destruct (if_pt _ _ ip_frame0 t) as [[_ [_ R]]|[_ [_ R]]]; rewrite R in H; [exact H|destruct H].
      + intros x [<-|Hx]; [apply (inv_frame_none w1 w2); auto|auto].
      + intros x H1 H2. destruct (w_an w1 x) eqn:E.
        * destruct (Rm2 x) as [H|H]; [congruence|exact H2|left; right; exact H|right; exact H].
        * destruct (Rm x H1 E) as [->|H]; [left; left; reflexivity|right; apply ip_acc1; exact H]. }
  (* one step *)
  cbn [inv_rec].
  set (w1 := set_an (set_imports w (upd (w_imports w) f [])) (upd (w_an w) f None)).
  set (w2 := set_rev w1 (upd (w_rev w1) f [])).
  assert (Erev : w_rev w1 f = w_rev w0 f) by (destruct Hw as [->| ->]; reflexivity).
  rewrite Erev.
  assert (C : cleared w0 f w2).
  { destruct Hw as [->| ->]; constructor; unfold w2, w1; cbn; auto; try apply upd_eq;
      intros x Hx; rewrite ?upd_neq by exact Hx; reflexivity. }
  pose proof (cleared_GInvP P w0 f w2 G C) as G2.
  pose proof (cleared_SInvP P cu w0 f w2 S C) as S2.
  set (rd := pick (w_rev w0 f)).
  destruct (FOLD rd P w2 (acc ++ rd)) as [w' [acc' [E [[] [Al Rm]]]]].
  { eapply GInvP_weaken; [|exact G2]. intros x [H|H]; [left; exact H|right; apply pick_in; exact H]. }
  { intros x a Hx. destruct (S2 x a Hx) as [[H|H]|H]; auto. left. right. apply pick_in. exact H. }
  { intros x Hx. apply (proj1 (pick_in _ _)) in Hx.
    destruct (gp_rev _ _ G f x Hx) as [A [_ B]].
    rewrite (cl_files _ _ _ C). rewrite (rk_files_eq w0 w2) by (apply (cl_files _ _ _ C)). split; [exact A|lia]. }
  exists w', acc'. split; [exact E|].
  pose proof (cleared_frame _ _ _ C) as F2.
  split; [constructor; auto|split].
  - eapply inv_frame_trans; eauto.
  - intros x Hx. apply ip_acc0. apply in_or_app. left. exact Hx.
  - intros x Hx. destruct (ip_acc'0 x Hx) as [H|[H1 H2]].
    + apply in_app_or in H. destruct H as [H|H]; [left; exact H|right].
      split; [|apply Al; exact H]. apply (proj1 (pick_in _ _)) in H. apply (gp_rev _ _ G f x H).
    + right. rewrite (cl_files _ _ _ C) in H1. auto.
  - intros x Hx. destruct (ip_listed0 x Hx) as [H|[t H]].
    + apply in_app_or in H. destruct H as [H|H]; [left; exact H|right]. exists f. apply (proj1 (pick_in _ _)). exact H.
    + right. exists t. destruct (Nat.eq_dec t f) as [->|Hn]; [rewrite (cl_rev_f _ _ _ C) in H; destruct H|].
      rewrite (cl_rev _ _ _ C) in H by exact Hn. exact H.
  - apply (inv_frame_none w2 w'); auto. apply (cl_an_f _ _ _ C).
  - split.
    + intros x H1 H2. destruct (Nat.eq_dec x f) as [->|Hn]; [left; reflexivity|right].
      destruct (Rm x) as [H|H]; [rewrite (cl_an _ _ _ C) by exact Hn; exact H1|exact H2| |exact H].
      apply ip_acc0. apply in_or_app. right. exact H.
    + intros x Hx. apply ip_acc0. apply in_or_app. right. apply pick_in. exact Hx.
Qed.

(* ------------------------------------------------------------------ changing the document at one path *)

Definition LinkX (p : path) (cu : docs) (w : world) : Prop :=
  forall q, q <> p ->
            match live_id w q with
            | Some f => exists c, w_files w f = Some (q, c) /\ cu q = Some c
            | None => cu q = disk q
            end.

Definition AllS (cu : docs) (w : world) : Prop := forall g a, w_an w g = Some a -> SInv1 cu w g a.

Lemma SInvP_False : forall cu w, SInvP (fun _ => False) cu w -> AllS cu w.
Proof. intros cu w H g a Hg. destruct (H g a Hg) as [[]|H']. exact H'. Qed.

(* no remaining analysis depends on the document at [p] *)
Lemma no_dep : forall cu w p,
  AllS cu w -> LinkX p cu w ->
  (forall g ag, w_an w g = Some ag -> a_state ag = Typechecked -> touched cu (c_imports (a_src ag)) p -> False) ->
  forall n g ag, w_an w g = Some ag -> a_state ag = Typechecked -> dep cu n (a_src ag) p -> False.
Proof.
  intros cu w p A LX De. induction n as [|n IH]; intros g ag Hg Hs Hd; cbn in Hd.
  - destruct Hd as [Hd|[]]. eapply De; eauto.
  - destruct Hd as [Hd|[q [cq [Hq [Cq [Ep Hd]]]]]]; [eapply De; eauto|].
    destruct (s_targets _ _ _ _ (A g ag Hg) Hs q Hq) as [t [Lt [At _]]].
    assert (Hqp : q <> p).
    { intros ->. eapply De; eauto. left. exact Hq. }
    pose proof (LX q Hqp) as Lq. rewrite Lt in Lq. destruct Lq as [c [Fc Cc]].
    destruct (w_an w t) as [at_|] eqn:Eat; [|congruence].
    pose proof (A t at_ Eat) as St. destruct (s_src _ _ _ _ St) as [p' Hp']. rewrite Fc in Hp'. inv Hp'.
    rewrite Cq in Cc. inv Cc.
    destruct (s_state _ _ _ _ St) as [Ht|[_ Ht]]; [|congruence].
    eapply IH; eauto.
Qed.

Lemma switch_cu : forall cu cu' w p,
  AllS cu w -> LinkX p cu w -> (forall q, q <> p -> cu' q = cu q) ->
  (forall g ag, w_an w g = Some ag -> a_state ag = Typechecked -> touched cu (c_imports (a_src ag)) p -> False) ->
  AllS cu' w /\
  (forall g ag, w_an w g = Some ag -> reach cu' (c_imports (a_src ag)) = reach cu (c_imports (a_src ag)) \/ w_imports w g = []).
Proof.
  intros cu cu' w p A LX Hcu De.
  assert (ND := no_dep cu w p A LX De).
  assert (RE : forall g ag, w_an w g = Some ag -> a_state ag = Typechecked ->
               reach cu' (c_imports (a_src ag)) = reach cu (c_imports (a_src ag))).
  { intros g ag Hg Hs. apply reach_ext. intros q Hq. apply Hcu. intros ->. eapply De; eauto. }
  split.
  - intros g ag Hg. pose proof (A g ag Hg) as Sg. destruct Sg.
    destruct s_state0 as [Hs|[Hs Hp]].
    + pose proof (RE g ag Hg Hs) as R. constructor; auto; try (left; exact Hs); rewrite ?R; auto.
      intros _. intros d. rewrite (s_diags0 Hs d).
      rewrite (expect_c_frame cu cu' M (a_src ag)); [tauto|].
      intros p0 Hd. apply Hcu. intros ->. eapply ND; eauto.
    + constructor; auto; try (right; auto); try (intros; congruence).
      intros t Ht. rewrite (s_parsed0 Hs) in Ht. destruct Ht.
  - intros g ag Hg. destruct (s_state _ _ _ _ (A g ag Hg)) as [Hs|[Hs _]]; [left; apply (RE g ag Hg Hs)|right].
    apply (s_parsed _ _ _ _ (A g ag Hg) Hs).
Qed.

(* the invariant between handlers' steps: everything cached is consistent with [cu] *)
Record CInv (cu : docs) (w : world) : Prop := {
  c_ginv : GInv w;
  c_link : Link cu w;
  c_resp : cu_resp cu;
  c_binv : BInv cu w;
  c_all : AllS cu w
}.

Lemma remove_analyses_noop : forall l w,
  (forall g, In g l -> w_an w g = None) ->
  let w' := remove_analyses w l in
  (forall x, w_an w' x = w_an w x) /\ w_next w' = w_next w /\ w_files w' = w_files w /\ w_ids w' = w_ids w /\
  w_imports w' = w_imports w /\ w_rev w' = w_rev w /\ w_failed w' = w_failed w /\ w_uris w' = w_uris w /\
  w_pub w' = w_pub w /\ w_log w' = w_log w.
Proof.
  induction l as [|g l IH]; intros w H; cbn.
  - repeat split; reflexivity.
  - specialize (IH (set_an w (upd (w_an w) g None))). cbn in IH.
    destruct IH as [A R].
    { intros x Hx. unfold upd. destruct (Nat.eqb x g); [reflexivity|]. apply H. right. exact Hx. }
    split; [|exact R]. intros x. rewrite A. unfold upd. destruct (Nat.eqb_spec x g) as [->|]; [|reflexivity].
    symmetry. apply H. left. reflexivity.
Qed.

(* pointwise-equal analyses: the invariants only look at values *)
Lemma GInvP_an_ext : forall P w w',
  GInvP P w -> (forall x, w_an w' x = w_an w x) ->
  w_next w' = w_next w -> w_files w' = w_files w -> w_ids w' = w_ids w -> w_imports w' = w_imports w ->
  w_rev w' = w_rev w -> w_failed w' = w_failed w -> w_uris w' = w_uris w -> GInvP P w'.
Proof.
  intros P w w' [] A N F I Im R Fl U.
  assert (RK : forall x, rk w' x = rk w x) by (intros; apply rk_files_eq; assumption).
  constructor; rewrite ?N, ?F, ?I, ?Im, ?R, ?Fl, ?U; auto.
  - intros x. rewrite A. auto.
  - intros t g. rewrite !RK. auto.
  - intros x t H. rewrite !RK, A. auto.
  - intros x. rewrite A. auto.
Qed.

Lemma SInv1_an_ext : forall cu w w' g a,
  SInv1 cu w g a -> (forall x, w_an w' x = w_an w x) ->
  w_files w' = w_files w -> w_ids w' = w_ids w -> w_imports w' = w_imports w ->
  w_rev w' = w_rev w -> w_failed w' = w_failed w -> SInv1 cu w' g a.
Proof.
  intros cu w w' g a [] A F I Im R Fl.
  assert (LV : forall q, live_id w' q = live_id w q) by (intros; apply live_ids_eq; assumption).
  constructor; rewrite ?F, ?Im, ?Fl; auto.
  - intros t Ht. destruct (s_imp0 t Ht) as [q [B C]]. exists q. rewrite LV. auto.
  - intros Hs q Hq. destruct (s_targets0 Hs q Hq) as [t [B [C [D E]]]]. exists t. rewrite LV, A, R. auto.
Qed.

Lemma finish_op : forall cu cu' w p,
  GInv w -> AllS cu w -> BInv cu w -> LinkX p cu w ->
  (forall g ag, w_an w g = Some ag -> a_state ag = Typechecked -> touched cu (c_imports (a_src ag)) p -> False) ->
  (forall q, q <> p -> cu' q = cu q) ->
  match live_id w p with
  | Some f => exists c, w_files w f = Some (p, c) /\ cu' p = Some c
  | None => cu' p = disk p
  end ->
  cu_resp cu' ->
  CInv cu' w.
Proof.
  intros cu cu' w p G A B LX De Hcu Lp R.
  destruct (switch_cu cu cu' w p A LX Hcu De) as [A' RE].
  constructor; auto.
  - intros q. destruct (Nat.eq_dec q p) as [->|Hq]; [exact Lp|].
    specialize (LX q Hq). rewrite (Hcu q Hq). exact LX.
  - intros x ax Hx. destruct (B x ax Hx) as [B1 B2]. split; [exact B1|].
    intros t Ht. destruct (RE x ax Hx) as [E|E]; [rewrite E; apply B2; exact Ht|].
    rewrite E in Ht. destruct Ht.
Qed.

(* replace_string on a path that has a live id *)
Lemma replace_same_spec : forall P w p id c,
  GInvP P w -> live_id w p = Some id -> content_respects rank p c ->
  let w1 := set_files (set_ids w (upd (w_ids w) p (Some (id, KMem)))) (upd (w_files w) id (Some (p, c))) in
  GInvP P w1 /\ (forall x, x <> id -> w_files w1 x = w_files w x) /\ w_files w1 id = Some (p, c) /\
  (forall q, live_id w1 q = live_id w q) /\ (forall x, rk w1 x = rk w x) /\
  w_ids w1 p = Some (id, KMem) /\ (forall q, q <> p -> w_ids w1 q = w_ids w q).
Proof.
  intros P w p id c G Hl Hc w1.
  destruct (live_id_ids w p id Hl) as [k0 [Hid Hk0]].
  destruct (gp_ids _ _ G p id k0 Hid) as [c0 [Fid _]].
  assert (Fo : forall x, x <> id -> w_files w1 x = w_files w x) by (intros; unfold w1; cbn; apply upd_neq; assumption).
  assert (Fi : w_files w1 id = Some (p, c)) by (unfold w1; cbn; apply upd_eq).
  assert (PO : forall x, path_of w1 x = path_of w x).
  { intros x. unfold path_of. destruct (Nat.eq_dec x id) as [->|Hn]; [rewrite Fi, Fid; reflexivity|rewrite Fo by exact Hn; reflexivity]. }
  assert (RK : forall x, rk w1 x = rk w x) by (intros; unfold rk; rewrite PO; reflexivity).
  assert (NE : forall x, w_files w x <> None -> w_files w1 x <> None).
  { intros x Hx. destruct (Nat.eq_dec x id) as [->|Hn]; [congruence|rewrite Fo by exact Hn; exact Hx]. }
  assert (LV : forall q, live_id w1 q = live_id w q).
  { intros q. unfold live_id, w1. cbn. unfold upd. destruct (Nat.eqb_spec q p) as [->|]; [|reflexivity].
    unfold live_id in Hl. rewrite Hid in *. destruct k0; congruence. }
  split; [|repeat split; auto; unfold w1; cbn; [apply upd_eq|intros; apply upd_neq; assumption]].
  destruct G. constructor; fold w1.
  - intros x Hx. apply gp_next0. destruct (Nat.eq_dec x id) as [->|Hn]; [congruence|rewrite Fo in Hx by exact Hn; exact Hx].
  - intros x p0 c1 Hx. destruct (Nat.eq_dec x id) as [->|Hn]; [rewrite Fi in Hx; inv Hx; exact Hc|].
    rewrite Fo in Hx by exact Hn. eapply gp_resp0; eauto.
  - intros q f k Hq. unfold w1 in Hq. cbn in Hq. unfold upd in Hq. destruct (Nat.eqb_spec q p) as [->|Hn].
    + inv Hq. exists c. split; [exact Fi|]. intros; discriminate.
    + destruct (gp_ids0 q f k Hq) as [c1 [A B]]. exists c1. split; [|exact B].
      rewrite Fo; [exact A|]. intros ->. congruence.
  - intros x Hx. apply NE. apply gp_an0. exact Hx.
  - intros t g H. rewrite !RK. destruct (gp_rev0 t g H) as [A [B C]]. auto.
  - intros x t H. rewrite !RK. destruct (gp_imp0 x t H) as [A [B C]]. auto.
  - intros q g H. apply NE. eapply gp_failed0; eauto.
  - intros x q H. destruct (gp_uris0 x q H) as [c1 Hc1]. destruct (Nat.eq_dec x id) as [->|Hn].
    + rewrite Fid in Hc1. inv Hc1. eauto.
    + exists c1. rewrite Fo by exact Hn. exact Hc1.
  - exact gp_none0.
  - exact gp_nd0.
Qed.

Lemma update_file_spec : forall cu w p id c,
  CInv cu w -> w_ids w p = Some (id, KMem) -> content_respects rank p c ->
  exists w2 inv, update_file pick disk M w p c = Ok (w2, id, inv) /\
    CInv (upd cu p (Some c)) w2 /\ (forall q, w_ids w2 q = w_ids w q) /\ w_an w2 id = None /\
    (forall x, In x inv -> w_files w2 x <> None) /\
    (forall x, w_an w x <> None -> w_an w2 x = None -> x = id \/ In x inv) /\
    (forall x a, w_an w2 x = Some a -> w_an w x = Some a) /\
    w_uris w2 = w_uris w /\ w_pub w2 = w_pub w /\ w_log w2 = w_log w /\ w_failed w2 = w_failed w /\
    (forall t g, In g (w_rev w2 t) -> In g (w_rev w t)) /\
    (forall x, In x inv -> exists t, In x (w_rev w t)).
Proof.
  intros cu w p id c [G L R B A] Hid Hc.
  assert (Hl : live_id w p = Some id) by (unfold live_id; rewrite Hid; reflexivity).
  unfold update_file, replace_string. rewrite (id_of_live _ w p G), Hl.
  destruct (replace_same_spec _ w p id c G Hl Hc) as [G1 [Fo [Fi [LV [RK [Ip Io]]]]]].
  set (w1 := set_files (set_ids w (upd (w_ids w) p (Some (id, KMem)))) (upd (w_files w) id (Some (p, c)))) in *.
  assert (S1 : SInvP (fun x => False \/ x = id) cu w1).
  { intros g ag Hg. destruct (Nat.eq_dec g id) as [->|Hn]; [left; right; reflexivity|right].
    destruct (A g ag Hg). constructor; auto.
    - rewrite Fo by exact Hn. exact s_src0.
    - intros t Ht. destruct (s_imp0 t Ht) as [q [Q1 Q2]]. exists q. rewrite LV. auto.
    - intros Hs q Hq. destruct (s_targets0 Hs q Hq) as [t [Q1 Q2]]. exists t. rewrite LV. auto. }
  destruct (inv_rec_spec M (fun _ => False) cu w1 w1 [] id) as [w' [acc' [E [[] [Aid [Rm _]]]]]]; auto.
  { eapply GInvP_weaken; [|exact G1]. intros x []. }
  { congruence. }
  { lia. }
  unfold invalidate. rewrite E.
  destruct (remove_analyses_noop acc' w') as [RA [RN [RF [RI [RM [RR [RL [RU [RP RG]]]]]]]]].
  { intros g Hg. destruct (ip_acc'0 g Hg) as [[]|[_ H]]. exact H. }
  set (w2 := remove_analyses w' acc') in *.
  exists w2, acc'. split; [reflexivity|].
  destruct ip_frame0.
  assert (G2 : GInv w2) by (eapply GInvP_an_ext; eauto).
  assert (A2 : AllS cu w2).
  { intros g ag Hg. rewrite RA in Hg. destruct (ip_sinv0 g ag Hg) as [[]|H]. eapply SInv1_an_ext; eauto. }
  assert (Kept : forall x a, w_an w2 x = Some a -> w_an w x = Some a /\ w_imports w2 x = w_imports w x /\ x <> id).
  { intros x a Hx. rewrite RA in Hx. destruct (if_pt0 x) as [[H1 [H2 _]]|[H1 _]]; [|congruence].
    rewrite H1 in Hx. rewrite RM, H2. split; [exact Hx|]. split; [reflexivity|]. intros ->. congruence. }
  assert (B2 : BInv cu w2).
  { intros x ax Hx. destruct (Kept x ax Hx) as [K1 [K2 K3]]. destruct (B x ax K1) as [[p0 B1] B2]. split.
    - exists p0. rewrite RF, if_files0, Fo by exact K3. exact B1.
    - intros t Ht. rewrite K2 in Ht. destruct (B2 t Ht) as [q [Q1 Q2]]. exists q. split; [exact Q1|].
      rewrite (live_ids_eq w' w2), (live_ids_eq w1 w'), LV by assumption. exact Q2. }
  assert (LV2 : forall q, live_id w2 q = live_id w q).
  { intros q. rewrite (live_ids_eq w' w2), (live_ids_eq w1 w') by assumption. apply LV. }
  assert (F2 : forall x, x <> id -> w_files w2 x = w_files w x) by (intros; rewrite RF, if_files0; apply Fo; assumption).
  assert (F2i : w_files w2 id = Some (p, c)) by (rewrite RF, if_files0; exact Fi).
  split.
  { apply (finish_op cu (upd cu p (Some c)) w2 p G2 A2 B2).
    - intros q Hq. rewrite LV2. pose proof (L q) as Lq. destruct (live_id w q) as [f|] eqn:Ef; [|exact Lq].
      destruct Lq as [c0 [F0 C0]]. exists c0. split; [|exact C0]. rewrite F2; [exact F0|].
      intros ->. destruct (live_id_file w p id G Hl) as [c1 Hc1]. rewrite Hc1 in F0. inv F0. contradiction.
    - intros g ag Hg Hs [Ht|Ht].
      + destruct (s_targets _ _ _ _ (A2 g ag Hg) Hs p Ht) as [t [T1 [T2 _]]]. rewrite LV2, Hl in T1. inv T1.
        apply T2. rewrite RA. exact Aid.
      + apply reach_stop in Ht. destruct Ht as [_ Ht]. pose proof (L p) as Lp. rewrite Hl in Lp.
        destruct Lp as [c0 [_ C0]]. congruence.
    - intros q Hq. apply upd_neq. exact Hq.
    - rewrite LV2, Hl. exists c. split; [exact F2i|apply upd_eq].
    - intros q c0 H. unfold upd in H. destruct (Nat.eqb_spec q p) as [->|]; [inv H; exact Hc|eapply R; eauto]. }
  split. { intros q. rewrite RI, if_ids0. destruct (Nat.eq_dec q p) as [->|Hq]; [congruence|apply Io; exact Hq]. }
  split; [rewrite RA; exact Aid|].
  split. { intros x Hx. destruct (ip_acc'0 x Hx) as [[]|[H _]]. rewrite RF, if_files0. exact H. }
  split. { intros x H1 H2. rewrite RA in H2. apply Rm; assumption. }
  split. { intros x a Hx. apply (Kept x a Hx). }
  assert (w_uris w1 = w_uris w /\ w_pub w1 = w_pub w /\ w_log w1 = w_log w /\ w_failed w1 = w_failed w) as [Q1 [Q2 [Q3 Q4]]]
    by (repeat split; reflexivity).
  split; [congruence|]. split; [congruence|]. split; [congruence|]. split; [congruence|].
  split.
  - intros t g H. rewrite RR in H. destruct (if_pt0 t) as [[_ [_ Rt]]|[_ [_ Rt]]]; rewrite Rt in H; [exact H|destruct H].
  - intros x Hx. destruct (ip_listed0 x Hx) as [[]|H]. exact H.
Qed.

(* replace_string in general *)
Lemma replace_string_spec : forall w p c w1 id,
  GInv w -> content_respects rank p c -> replace_string disk w p c = (w1, id) ->
  GInv w1 /\ w_files w1 id = Some (p, c) /\ (forall x, x <> id -> w_files w1 x = w_files w x) /\
  w_ids w1 p = Some (id, KMem) /\ (forall q, q <> p -> w_ids w1 q = w_ids w q) /\
  (live_id w p = Some id \/ (live_id w p = None /\ w_files w id = None)) /\
  same_reg w w1 /\ (forall x, w_files w x <> None -> rk w1 x = rk w x) /\ w_next w <= w_next w1.
Proof.
  intros w p c w1 id G Hc E. unfold replace_string in E. rewrite (id_of_live _ w p G) in E.
  destruct (live_id w p) as [id0|] eqn:El.
  - inv E. destruct (replace_same_spec _ w p id c G El Hc) as [G1 [Fo [Fi [LV [RK [Ip Io]]]]]].
    split; [exact G1|]. split; [exact Fi|]. split; [exact Fo|]. split; [exact Ip|]. split; [exact Io|].
    split; [left; reflexivity|]. split; [repeat split|]. split; [intros; apply RK|cbn; lia].
  - destruct (alloc_spec _ w p c KMem w1 id G Hc El) as [G1 [_ [SR [-> [Fr [Fn [Ln [In_ [Io [Fo Nx]]]]]]]]]]; auto; try discriminate.
    split; [exact G1|]. split; [exact Fn|]. split; [exact Fo|]. split; [exact In_|]. split; [exact Io|].
    split; [right; auto|]. split; [exact SR|]. split; [|rewrite Nx; lia].
    intros x Hx. unfold rk, path_of. rewrite Fo; [reflexivity|]. intros ->. congruence.
Qed.

Lemma inv_steps_spec : forall cu l P w invl,
  GInvP (fun x => P x \/ In x l) w -> SInvP (fun x => P x \/ In x l) cu w ->
  (forall x, In x l -> w_files w x <> None) ->
  exists w' inv', fold_left (inv_step pick M) l (Ok (w, invl)) = Ok (w', inv') /\
    GInvP P w' /\ SInvP P cu w' /\ inv_frame w w' /\ (forall x, In x l -> w_an w' x = None) /\
    (forall x, In x invl -> In x inv') /\
    (forall x, In x inv' -> In x invl \/ (w_files w x <> None /\ w_an w' x = None)) /\
    (forall x, w_an w x <> None -> w_an w' x = None -> In x l \/ In x inv') /\
    (forall x, In x inv' -> In x invl \/ exists t, In x (w_rev w t)).
Proof.
  intros cu. induction l as [|g l IH]; intros P w invl G S Hl.
  - exists w, invl. split; [reflexivity|]. split.
    { eapply GInvP_weaken; [|exact G]. intros x [H|[]]; exact H. }
    split. { intros x a Hx. destruct (S x a Hx) as [[H|[]]|H]; auto. }
    split; [apply inv_frame_refl|]. split; [intros x []|]. split; [auto|]. split; [auto|].
    split; [intros x H1 H2; congruence|auto].
  - destruct (inv_rec_spec M (fun x => P x \/ In x l) cu w w [] g) as [w1 [acc1 [E1 [[] [Ag [Rm _]]]]]]; auto.
    { eapply GInvP_weaken; [|exact G]. intros x [H|[<-|H]]; auto. }
    { intros x a Hx. destruct (S x a Hx) as [[H|[<-|H]]|H]; auto. }
    { apply Hl. left. reflexivity. }
    { lia. }
    destruct (IH P w1 (union_set invl acc1) ip_ginv0 ip_sinv0) as [w2 [inv2 [E2 [G2 [S2 [F2 [Al [Mo [In2 [Rm2 Li2]]]]]]]]]].
    { intros x Hx. rewrite (if_files _ _ ip_frame0). apply Hl. right. exact Hx. }
    exists w2, inv2. split.
    { cbn. unfold invalidate. rewrite E1. exact E2. }
    split; [exact G2|]. split; [exact S2|]. split; [eapply inv_frame_trans; eauto|].
    split. { intros x [<-|Hx]; [apply (inv_frame_none w1 w2); auto|auto]. }
    split. { intros x Hx. apply Mo. apply In_union_set. left. exact Hx. }
    split.
    { intros x Hx. destruct (In2 x Hx) as [H|[H1 H2]].
      - apply In_union_set in H. destruct H as [H|H]; [left; exact H|right].
        destruct (ip_acc'0 x H) as [[]|[H1 H2]]. split; [exact H1|apply (inv_frame_none w1 w2); auto].
      - right. rewrite (if_files _ _ ip_frame0) in H1. auto. }
    split.
    { intros x H1 H2. destruct (w_an w1 x) eqn:E.
      + destruct (Rm2 x) as [H|H]; [congruence|exact H2|left; right; exact H|right; exact H].
      + destruct (Rm x H1 E) as [->|H]; [left; left; reflexivity|right]. apply Mo. apply In_union_set. right. exact H. }
    intros x Hx. destruct (Li2 x Hx) as [H|[t H]].
    + apply In_union_set in H. destruct H as [H|H]; [left; exact H|right].
      destruct (ip_listed0 x H) as [[]|H']. exact H'.
    + right. exists t. destruct (if_pt _ _ ip_frame0 t) as [[_ [_ R]]|[_ [_ R]]]; rewrite R in H; [exact H|destruct H].
Qed.

Lemma GInvP_set_uris : forall P w f p c, GInvP P w -> w_files w f = Some (p, c) ->
  GInvP P (set_uris w (upd (w_uris w) f (Some p))).
Proof.
  intros P w f p c [] Hf. constructor; cbn; try assumption.
  intros x q H. unfold upd in H. destruct (Nat.eqb_spec x f) as [->|]; [inv H; eauto|auto].
Qed.

Lemma add_file_spec : forall cu w p c,
  CInv cu w -> content_respects rank p c ->
  exists w5 id inv, add_file pick disk M w p c = Ok (w5, id, inv) /\
    CInv (upd cu p (Some c)) w5 /\ w_ids w5 p = Some (id, KMem) /\ (forall q, q <> p -> w_ids w5 q = w_ids w q) /\
    w_an w5 id = None /\ w_files w5 id = Some (p, c) /\
    (forall x, In x inv -> w_files w5 x <> None) /\
    (forall x, w_an w x <> None -> w_an w5 x = None -> x = id \/ In x inv) /\
    (forall x a, w_an w5 x = Some a -> w_an w x = Some a) /\
    w_uris w5 id = Some p /\ (forall x, x <> id -> w_uris w5 x = w_uris w x) /\
    w_pub w5 = w_pub w /\ w_log w5 = w_log w /\
    (forall t g, In g (w_rev w5 t) -> In g (w_rev w t)) /\
    (forall q g, In g (w_failed w5 q) -> In g (w_failed w q)) /\
    (forall x, In x inv -> (exists t, In x (w_rev w t)) \/ In x (w_failed w p)) /\
    (forall t, live_id w p = Some t -> t = id).
Proof.
  intros cu w p c [G L R B A] Hc.
  unfold add_file.
  set (ftl := w_failed w p).
  set (w0 := set_failed w (upd (w_failed w) p [])).
  assert (G0 : GInv w0).
  { destruct G. constructor; auto. intros q g H. cbn in H. unfold upd in H.
    destruct (Nat.eqb q p); [destruct H|]. eapply gp_failed0; eauto. }
  destruct (replace_string disk w0 p c) as [w1 id] eqn:Er.
  destruct (replace_string_spec w0 p c w1 id G0 Hc Er) as [G1 [Fi [Fo [Ip [Io [Hlive [[SA [SI [SR [SF [SU [SP SL]]]]]] [RK Nx]]]]]]]].
  assert (Fnone : forall x, w_files w x <> None -> x <> id \/ live_id w p = Some id).
  { intros x Hx. destruct Hlive as [H|[_ H]]; [right; exact H|left; intros ->; exact (Hx H)]. }
  assert (LVq : forall q, q <> p -> live_id w1 q = live_id w q).
  { intros q Hq. unfold live_id. rewrite (Io q Hq). reflexivity. }
  assert (LVp : live_id w1 p = Some id) by (unfold live_id; rewrite Ip; reflexivity).
  assert (LVr : forall q t, live_id w q = Some t -> live_id w1 q = Some t).
  { intros q t H. destruct (Nat.eq_dec q p) as [->|Hq]; [|rewrite LVq by exact Hq; exact H].
    destruct Hlive as [H'|[H' _]]; [|change (live_id w0 p) with (live_id w p) in H'; congruence].
    change (live_id w0 p) with (live_id w p) in H'. rewrite LVp. congruence. }
  assert (S1 : SInvP (fun x => In x ftl \/ x = id) cu w1).
  { intros g ag Hg. rewrite SA in Hg. change (w_an w0 g) with (w_an w g) in Hg.
    destruct (Nat.eq_dec g id) as [->|Hn]; [left; right; reflexivity|].
    destruct (in_dec Nat.eq_dec g ftl) as [Hin|Hnin]; [left; left; exact Hin|right].
    destruct (A g ag Hg). constructor; auto.
    - rewrite Fo by exact Hn. exact s_src0.
    - intros t Ht. rewrite SI in Ht. destruct (s_imp0 t Ht) as [q [Q1 Q2]]. exists q. split; [exact Q1|apply LVr; exact Q2].
    - intros Hs. rewrite SI. auto.
    - intros Hs q Hq. destruct (s_targets0 Hs q Hq) as [t [Q1 [Q2 [Q3 Q4]]]]. exists t.
      rewrite SA, SI, SR. split; [apply LVr; exact Q1|auto].
    - intros Hs q Hq. rewrite SF. cbn. unfold upd. destruct (Nat.eqb_spec q p) as [->|]; [|auto].
      exfalso. apply Hnin. apply (s_stop0 Hs p Hq). }
  destruct (inv_rec_spec M (fun x => In x ftl) cu w1 w1 [] id) as [w2 [l1 [E1 [[] [Aid [Rm1 _]]]]]]; auto.
  { eapply GInvP_weaken; [|exact G1]. intros x []. }
  { congruence. }
  { lia. }
  unfold invalidate at 1. rewrite E1.
  destruct (inv_steps_spec cu (pick ftl) (fun _ => False) w2 (union_set ftl l1)) as [w3 [inv [E3 [G3 [S3 [F3 [Al3 [Mo3 [In3 [Rm3 Li3]]]]]]]]]].
  { eapply GInvP_weaken; [|exact ip_ginv0]. intros x H. right. apply pick_in. exact H. }
  { intros x a Hx. destruct (ip_sinv0 x a Hx) as [H|H]; [left; right; apply pick_in; exact H|right; exact H]. }
  { intros x Hx. apply (proj1 (pick_in _ _)) in Hx. rewrite (if_files _ _ ip_frame0).
    destruct (Nat.eq_dec x id) as [->|Hn]; [congruence|]. rewrite Fo by exact Hn.
    apply (gp_failed _ _ G p x Hx). }
  assert (InvNone : forall g, In g inv -> w_an w3 g = None).
  { intros g Hg. destruct (In3 g Hg) as [H|[_ H]]; [|exact H]. apply In_union_set in H. destruct H as [H|H].
    - apply Al3. apply pick_in. exact H.
    - destruct (ip_acc'0 g H) as [[]|[_ H']]. apply (inv_frame_none w2 w3); auto. }
  destruct (remove_analyses_noop inv w3 InvNone) as [RA [RN [RF [RI [RM [RR [RL [RU [RP RG]]]]]]]]].
  set (w4 := remove_analyses w3 inv) in *.
  set (w5 := set_uris w4 (upd (w_uris w4) id (Some p))).
  exists w5, id, (pick inv). split; [match goal with |- context [fold_left ?a ?b ?c] => replace (fold_left a b c) with (@Ok (world * list fid) (w3, inv)) by (symmetry; exact E3) end; reflexivity|].
  pose proof (inv_frame_trans _ _ _ ip_frame0 F3) as F13. destruct F13.
  assert (G4 : GInv w4) by (eapply GInvP_an_ext; eauto).
  assert (F5 : forall x, x <> id -> w_files w5 x = w_files w x).
  { intros x Hx. unfold w5. cbn. rewrite RF, if_files0. apply Fo. exact Hx. }
  assert (F5i : w_files w5 id = Some (p, c)) by (unfold w5; cbn; rewrite RF, if_files0; exact Fi).
  assert (G5 : GInv w5).
  { unfold w5. apply (GInvP_set_uris _ w4 id p c G4). rewrite RF, if_files0. exact Fi. }
  assert (A5 : AllS cu w5).
  { intros g ag Hg. unfold w5 in Hg. cbn in Hg. rewrite RA in Hg. destruct (S3 g ag Hg) as [[]|H].
    assert (SInv1 cu w4 g ag) by (eapply SInv1_an_ext; eauto).
    destruct H0. constructor; auto. }
  assert (An5 : forall x, w_an w5 x = w_an w3 x) by (intros; unfold w5; cbn; apply RA).
  assert (Kept : forall x a, w_an w5 x = Some a -> w_an w x = Some a /\ w_imports w5 x = w_imports w x /\ x <> id).
  { intros x a Hx. rewrite An5 in Hx. destruct (if_pt0 x) as [[H1 [H2 _]]|[H1 _]]; [|congruence].
    rewrite H1, SA in Hx. unfold w5. cbn. rewrite RM, H2, SI. split; [exact Hx|]. split; [reflexivity|].
    intros ->. apply (inv_frame_none w2 w3) in Aid; auto. congruence. }
  assert (LV5 : forall q, live_id w5 q = live_id w1 q).
  { intros q. unfold w5, live_id. cbn. rewrite RI, if_ids0. reflexivity. }
  assert (B5 : BInv cu w5).
  { intros x ax Hx. destruct (Kept x ax Hx) as [K1 [K2 K3]]. destruct (B x ax K1) as [[p0 B1] B2]. split.
    - exists p0. rewrite F5 by exact K3. exact B1.
    - intros t Ht. rewrite K2 in Ht. destruct (B2 t Ht) as [q [Q1 Q2]]. exists q. split; [exact Q1|].
      rewrite LV5. apply LVr. exact Q2. }
  assert (Fl5 : w_failed w5 p = []).
  { unfold w5. cbn. rewrite RL, if_failed0, SF. cbn. apply upd_eq. }
  split.
  { apply (finish_op cu (upd cu p (Some c)) w5 p G5 A5 B5).
    - intros q Hq. rewrite LV5, LVq by exact Hq. pose proof (L q) as Lq.
      destruct (live_id w q) as [f|] eqn:Ef; [|exact Lq].
      destruct Lq as [c0 [F0 C0]]. exists c0. split; [|exact C0]. rewrite F5; [exact F0|].
      intros ->. destruct Hlive as [H|[_ H]]; [|change (w_files w0 id) with (w_files w id) in H; congruence].
      change (live_id w0 p) with (live_id w p) in H. destruct (live_id_file w p id G H) as [c1 Hc1].
      rewrite Hc1 in F0. inv F0. contradiction.
    - intros g ag Hg Hs [Ht|Ht].
      + destruct (s_targets _ _ _ _ (A5 g ag Hg) Hs p Ht) as [t [T1 [T2 _]]]. rewrite LV5, LVp in T1. inv T1.
        apply T2. rewrite An5. apply (inv_frame_none w2 w3); auto.
      + pose proof (s_stop _ _ _ _ (A5 g ag Hg) Hs p Ht) as H. rewrite Fl5 in H. destruct H.
    - intros q Hq. apply upd_neq. exact Hq.
    - rewrite LV5, LVp. exists c. split; [exact F5i|apply upd_eq].
    - intros q c0 H. unfold upd in H. destruct (Nat.eqb_spec q p) as [->|]; [inv H; exact Hc|eapply R; eauto]. }
  split. { unfold w5. cbn. rewrite RI, if_ids0. exact Ip. }
  split. { intros q Hq. unfold w5. cbn. rewrite RI, if_ids0. apply Io. exact Hq. }
  split. { rewrite An5. apply (inv_frame_none w2 w3); auto. }
  split; [exact F5i|].
  split.
  { intros x Hx. apply (proj1 (pick_in _ _)) in Hx.
    assert (w_files w1 x <> None).
    { destruct (In3 x Hx) as [H|[H _]]; [|rewrite (if_files _ _ ip_frame0) in H; exact H].
      apply In_union_set in H. destruct H as [H|H].
      - destruct (Nat.eq_dec x id) as [->|Hn]; [congruence|]. rewrite Fo by exact Hn. apply (gp_failed _ _ G p x H).
      - destruct (ip_acc'0 x H) as [[]|[H' _]]. exact H'. }
    unfold w5. cbn. rewrite RF, if_files0. exact H. }
  split.
  { intros x H1 H2. rewrite An5 in H2. destruct (w_an w2 x) eqn:E2.
    - destruct (Rm3 x) as [H|H]; [congruence|exact H2| |right; apply pick_in; exact H].
      right. apply pick_in. apply Mo3. apply In_union_set. left. apply (proj1 (pick_in _ _)). exact H.
    - destruct (Rm1 x) as [->|H]; [rewrite SA; exact H1|exact E2|left; reflexivity|].
      right. apply pick_in. apply Mo3. apply In_union_set. right. exact H. }
  split. { intros x a Hx. apply (Kept x a Hx). }
  split. { unfold w5. cbn. apply upd_eq. }
  split. { intros x Hx. unfold w5. cbn. rewrite upd_neq by exact Hx. rewrite RU, if_uris0, SU. reflexivity. }
  split; [unfold w5; cbn; rewrite RP, if_pub0, SP; reflexivity|].
  split; [unfold w5; cbn; rewrite RG, if_log0, SL; reflexivity|].
  split.
  { intros t g H. unfold w5 in H. cbn in H. rewrite RR in H.
    destruct (if_pt0 t) as [[_ [_ Rt]]|[_ [_ Rt]]]; rewrite Rt in H; [rewrite SR in H; exact H|destruct H]. }
  split.
  { intros q g H. unfold w5 in H. cbn in H. rewrite RL, if_failed0, SF in H. cbn in H. unfold upd in H.
    destruct (Nat.eqb q p); [destruct H|exact H]. }
  split.
  { intros x Hx. apply (proj1 (pick_in _ _)) in Hx. destruct (Li3 x Hx) as [H|[t H]].
    - apply In_union_set in H. destruct H as [H|H]; [right; exact H|left].
      destruct (ip_listed0 x H) as [[]|[t Ht]]. exists t. rewrite SR in Ht. exact Ht.
    - left. exists t. destruct (if_pt _ _ ip_frame0 t) as [[_ [_ Rt]]|[_ [_ Rt]]]; rewrite Rt in H; [rewrite SR in H; exact H|destruct H]. }
  intros t Ht. destruct Hlive as [H|[H _]]; change (live_id w0 p) with (live_id w p) in H; congruence.
Qed.

Lemma close_file_spec : forall cu w p closed,
  CInv cu w -> w_ids w p = Some (closed, KMem) ->
  exists wf repl inv, close_file cf pick disk M w p = Ok (Some (wf, repl, inv)) /\
    CInv (upd cu p (disk p)) wf /\
    (forall q, q <> p -> w_ids wf q = w_ids w q) /\
    live_id wf p = repl /\
    (forall x, w_ids wf p <> Some (x, KMem)) /\
    (forall id', repl = Some id' -> w_an wf id' = None /\ w_uris wf id' = Some p /\ w_files w id' = None) /\
    (forall x, In x inv -> w_files wf x <> None) /\
    (forall x, w_an w x <> None -> w_an wf x = None -> x = closed \/ In x inv) /\
    (forall x a, w_an wf x = Some a -> w_an w x = Some a) /\
    (forall x q, w_uris wf x = Some q -> w_uris w x = Some q \/ Some x = repl) /\
    w_pub wf = w_pub w /\ w_log wf = w_log w /\
    (purge_closed cf = true -> ~ In closed inv /\ (forall t, ~ In closed (w_rev wf t)) /\ (forall q, ~ In closed (w_failed wf q))) /\
    (forall t g, In g (w_rev wf t) -> In g (w_rev w t)) /\
    (forall q g, In g (w_failed wf q) -> In g (w_failed w q)) /\
    (forall x, In x inv -> exists t, In x (w_rev w t)) /\
    w_an wf closed = None /\ (repl = None -> disk p = None) /\
    (forall x q, w_uris w x = Some q -> w_uris wf x = Some q).
Proof.
  intros cu w p closed [G L R B A] Hid.
  assert (Hl : live_id w p = Some closed) by (unfold live_id; rewrite Hid; reflexivity).
  destruct (live_id_file w p closed G Hl) as [c0 Fc].
  pose proof (L p) as Lp. rewrite Hl in Lp. destruct Lp as [c0' [Fc' Cp]]. rewrite Fc in Fc'. inv Fc'.
  unfold close_file, close_in_memory_file. rewrite Hid.
  set (w1 := set_ids w (upd (w_ids w) p (Some (closed, KClosed)))).
  set (cu' := upd cu p (disk p)).
  assert (G1 : GInv w1).
  { destruct G. constructor; try assumption. intros q f k H. cbn in H. unfold upd in H.
    destruct (Nat.eqb_spec q p) as [->|]; [inv H; exists c0'; split; [exact Fc|discriminate]|apply gp_ids0; exact H]. }
  assert (LV1p : live_id w1 p = None) by (unfold live_id, w1; cbn; rewrite upd_eq; reflexivity).
  assert (LV1q : forall q, q <> p -> live_id w1 q = live_id w q).
  { intros q Hq. unfold live_id, w1. cbn. rewrite upd_neq by exact Hq. reflexivity. }
  assert (R' : cu_resp cu').
  { intros q c1 H. unfold cu', upd in H. destruct (Nat.eqb_spec q p) as [->|]; [eapply disk_resp; eauto|eapply R; eauto]. }
  assert (L1 : Link cu' w1).
  { intros q. destruct (Nat.eq_dec q p) as [->|Hq].
    - rewrite LV1p. unfold cu'. apply upd_eq.
    - rewrite LV1q by exact Hq. unfold cu'. rewrite upd_neq by exact Hq. apply L. }
  destruct (get_or_add_file disk w1 p) as [w2 repl] eqn:Eg.
  destruct (goaf_spec _ cu' w1 p w2 repl G1 L1 R' Eg) as [G2 [L2 [X2 [[SA [SI [SR [SF [SU [SP SL]]]]]] Hr]]]].
  (* facts about w2 *)
  assert (F2 : forall x y, w_files w x = Some y -> w_files w2 x = Some y) by (intros; apply (fx_files _ _ X2); assumption).
  assert (LV2q : forall q, q <> p -> live_id w2 q = live_id w q).
  { intros q Hq. destruct repl as [t|].
    - destruct Hr as [_ [_ [[H _]|[_ [_ [_ [c1 [_ _]]]]]]]]; [congruence|].
      unfold get_or_add_file in Eg. rewrite (id_of_live _ w1 p G1), LV1p in Eg.
      destruct (disk p) as [cd|]; [|inv Eg]. destruct (alloc w1 p cd KFs) as [w2' id'] eqn:Ea. inv Eg.
      unfold alloc in Ea. inv Ea. unfold live_id. cbn. rewrite upd_neq by exact Hq.
      fold (live_id w1 q). apply LV1q. exact Hq.
    - destruct Hr as [_ ->]. apply LV1q. exact Hq. }
  assert (LV2p : live_id w2 p = repl).
  { destruct repl as [t|]; [destruct Hr as [H _]; exact H|]. destruct Hr as [_ ->]. exact LV1p. }
  assert (Fnew : forall id', repl = Some id' -> w_files w id' = None /\ w_an w id' = None).
  { intros id' ->. destruct Hr as [_ [_ [[H _]|[_ [H [_ _]]]]]]; [congruence|].
    split; [exact H|]. destruct (w_an w id') eqn:E; [|reflexivity]. exfalso. apply (gp_an _ _ G id'); [congruence|exact H]. }
  set (Pc := fun x => In x (w_rev w closed)).
  assert (S2 : SInvP (fun x => Pc x \/ x = closed) cu w2).
  { intros g ag Hg. rewrite SA in Hg. change (w_an w1 g) with (w_an w g) in Hg.
    destruct (Nat.eq_dec g closed) as [->|Hn]; [left; right; reflexivity|].
    destruct (in_dec Nat.eq_dec g (w_rev w closed)) as [Hin|Hnin]; [left; left; exact Hin|right].
    assert (NT : forall q t, In t (w_imports w g) -> live_id w q = Some t -> q <> p).
    { intros q t Ht Hq ->. rewrite Hl in Hq. injection Hq as E. subst t.
      destruct (gp_imp _ _ G g closed Ht) as [_ [_ [[]|[H _]]]]. contradiction. }
    destruct (A g ag Hg). constructor; auto.
    - destruct s_src0 as [p0 H]. exists p0. apply F2. exact H.
    - intros t Ht. rewrite SI in Ht. change (w_imports w1 g) with (w_imports w g) in Ht.
      destruct (s_imp0 t Ht) as [q [Q1 Q2]]. exists q. split; [exact Q1|].
      rewrite LV2q; [exact Q2|]. eapply NT; eauto.
    - intros Hs. rewrite SI. apply s_parsed0. exact Hs.
    - intros Hs q Hq. destruct (s_targets0 Hs q Hq) as [t [Q1 [Q2 [Q3 Q4]]]]. exists t.
      rewrite SA, SI, SR. split; [|auto]. rewrite LV2q; [exact Q1|]. eapply NT; eauto.
    - intros Hs q Hq. rewrite SF. apply s_stop0; assumption. }
  set (w2' := set_an w2 (upd (w_an w2) closed None)).
  assert (Fc2 : w_files w2 closed <> None) by (rewrite (F2 _ _ Fc); discriminate).
  destruct (inv_rec_spec M Pc cu w2 w2' [] closed) as [w3 [inv [E3 [[] [Ac [Rm Rd]]]]]]; auto.
  { eapply GInvP_weaken; [|exact G2]. intros x []. }
  { lia. }
  unfold invalidate. fold w2'. rewrite E3.
  assert (InvNone : forall g, In g inv -> w_an w3 g = None).
  { intros g Hg. destruct (ip_acc'0 g Hg) as [[]|[_ H]]. exact H. }
  destruct (remove_analyses_noop inv w3 InvNone) as [RA [RN [RF [RI [RM [RR [RL [RU [RP RG]]]]]]]]].
  set (w4 := remove_analyses w3 inv) in *.
  set (w5 := match repl with Some id => set_uris w4 (upd (w_uris w4) id (Some p)) | None => w4 end).
  destruct ip_frame0.
  (* the pending files have all been visited *)
  assert (PcNone : forall x, Pc x -> w_an w3 x = None).
  { intros x Hx. apply InvNone. apply Rd. rewrite SR. exact Hx. }
  assert (G3 : GInv w3).
  { destruct ip_ginv0. constructor; auto. intros x t H. destruct (gp_imp0 x t H) as [C1 [C2 [C3|C3]]]; [|auto].
    rewrite (gp_none0 x (PcNone x C3)) in H. destruct H. }
  assert (A3 : AllS cu w3).
  { intros g ag Hg. destruct (ip_sinv0 g ag Hg) as [H|H]; [|exact H]. rewrite (PcNone g H) in Hg. discriminate. }
  assert (G4 : GInv w4) by (eapply GInvP_an_ext; eauto).
  assert (A4 : AllS cu w4).
  { intros g ag Hg. rewrite RA in Hg. eapply SInv1_an_ext; eauto. }
  assert (W5 : (forall x, w_an w5 x = w_an w3 x) /\ w_files w5 = w_files w2 /\ w_ids w5 = w_ids w2 /\
               w_imports w5 = w_imports w3 /\ w_rev w5 = w_rev w3 /\ w_failed w5 = w_failed w2 /\
               w_pub w5 = w_pub w /\ w_log w5 = w_log w /\ w_next w5 = w_next w2).
  { unfold w5. destruct repl; cbn; rewrite ?RF, ?RI, ?RM, ?RR, ?RL, ?RP, ?RG, ?RN, ?if_files0, ?if_ids0, ?if_failed0, ?if_pub0, ?if_log0, ?if_next0, ?SP, ?SL;
      repeat split; auto. }
  destruct W5 as [An5 [Fi5 [Id5 [Im5 [Rv5 [Fl5 [Pb5 [Lg5 Nx5]]]]]]]].
  assert (G5 : GInv w5).
  { unfold w5. destruct repl as [id'|]; [|exact G4].
    destruct Hr as [_ [_ [[H _]|[_ [_ [_ [cd [_ Hf]]]]]]]]; [congruence|].
    apply (GInvP_set_uris _ w4 id' p cd G4). rewrite RF, if_files0. exact Hf. }
  assert (A5 : AllS cu w5).
  { intros g ag Hg. rewrite An5 in Hg. pose proof (A3 g ag Hg) as H. destruct H. constructor; auto.
    - rewrite Fi5, <- if_files0. exact s_src0.
    - intros t Ht. rewrite Im5 in Ht. destruct (s_imp0 t Ht) as [q [Q1 Q2]]. exists q. split; [exact Q1|].
      rewrite (live_ids_eq w3 w5); [exact Q2|congruence].
    - intros Hs. rewrite Im5. auto.
    - intros Hs q Hq. destruct (s_targets0 Hs q Hq) as [t [Q1 Q2]]. exists t.
      rewrite (live_ids_eq w3 w5) by congruence. rewrite An5, Rv5, Im5. auto.
    - intros Hs q Hq. rewrite Fl5, <- if_failed0. auto. }
  assert (Kept : forall x a, w_an w5 x = Some a -> w_an w x = Some a /\ w_imports w5 x = w_imports w x /\ x <> closed).
  { intros x a Hx. rewrite An5 in Hx. destruct (if_pt0 x) as [[H1 [H2 _]]|[H1 _]]; [|congruence].
    rewrite H1, SA in Hx. rewrite Im5, H2, SI. split; [exact Hx|]. split; [reflexivity|]. intros ->. congruence. }
  assert (LV5 : forall q, live_id w5 q = live_id w2 q) by (intros; apply live_ids_eq; exact Id5).
  assert (B5 : BInv cu w5).
  { intros x ax Hx. destruct (Kept x ax Hx) as [K1 [K2 K3]]. destruct (B x ax K1) as [[p0 B1] B2]. split.
    - exists p0. rewrite Fi5. apply F2. exact B1.
    - intros t Ht. rewrite K2 in Ht. destruct (B2 t Ht) as [q [Q1 Q2]]. exists q. split; [exact Q1|].
      rewrite LV5, LV2q; [exact Q2|]. intros ->. rewrite Hl in Q2. injection Q2 as E. subst t.
      destruct (gp_imp _ _ G x closed Ht) as [_ [_ [[]|[H _]]]].
      assert (w_an w3 x = None) by (apply PcNone; exact H). rewrite An5 in Hx. congruence. }
  assert (AnRepl : forall id', repl = Some id' -> w_an w5 id' = None).
  { intros id' E. rewrite An5. destruct (Fnew id' E) as [_ H]. apply (inv_frame_none w2 w3); [constructor; auto|].
    rewrite SA. exact H. }
  assert (C5 : CInv cu' w5).
  { apply (finish_op cu cu' w5 p G5 A5 B5).
    - intros q Hq. rewrite LV5, LV2q by exact Hq. pose proof (L q) as Lq.
      destruct (live_id w q) as [f|] eqn:Ef; [|exact Lq].
      destruct Lq as [c1 [F1 C1]]. exists c1. split; [|exact C1]. rewrite Fi5. apply F2. exact F1.
    - intros g ag Hg Hs [Ht|Ht].
      + destruct (s_targets _ _ _ _ (A5 g ag Hg) Hs p Ht) as [t [T1 [T2 _]]]. rewrite LV5, LV2p in T1.
        apply T2. apply AnRepl. exact T1.
      + apply reach_stop in Ht. destruct Ht as [_ Ht]. congruence.
    - intros q Hq. unfold cu'. apply upd_neq. exact Hq.
    - rewrite LV5. pose proof (L2 p) as Lp2. destruct (live_id w2 p) as [f|]; [|exact Lp2].
      destruct Lp2 as [c1 [F1 C1]]. exists c1. rewrite Fi5. auto.
    - exact R'. }
  (* the proposed patch: forget the closed id everywhere *)
  set (w6 := set_failed (set_rev w5 (fun k => remove_nat closed (w_rev w5 k))) (fun k => remove_nat closed (w_failed w5 k))).
  set (wf := if purge_closed cf then w6 else w5).
  set (invf := if purge_closed cf then remove_nat closed inv else inv).
  assert (AnClosed : w_an w5 closed = None) by (rewrite An5; exact Ac).
  assert (ImClosed : w_imports w5 closed = []) by (apply (gp_none _ _ G5); exact AnClosed).
  assert (C6 : CInv cu' w6).
  { destruct C5 as [G5' L5' R5' B5' A5']. constructor; auto.
    - destruct G5'. constructor; auto.
      + intros t g H. cbn in H. apply In_remove_nat in H. destruct H as [H _]. apply gp_rev0. exact H.
      + intros x t H. destruct (gp_imp0 x t H) as [C1 [C2 [[]|[C3 C4]]]]. split; [exact C1|]. split; [exact C2|]. right.
        split; [|exact C4]. cbn. apply In_remove_nat. split; [exact C3|]. intros ->. cbn in H. rewrite ImClosed in H. destruct H.
      + intros q g H. cbn in H. apply In_remove_nat in H. destruct H as [H _]. eapply gp_failed0; eauto.
    - intros g ag Hg. pose proof (A5' g ag Hg) as H. destruct H. constructor; auto.
      + intros Hs q Hq. destruct (s_targets0 Hs q Hq) as [t [Q1 [Q2 [Q3 Q4]]]]. exists t. split; [exact Q1|]. split; [exact Q2|].
        split; [|exact Q4]. cbn. apply In_remove_nat. split; [exact Q3|]. intros ->. cbn in Hg. congruence.
      + intros Hs q Hq. cbn. apply In_remove_nat. split; [apply s_stop0; assumption|]. intros ->. cbn in Hg. congruence. }
  exists wf, repl, invf. split.
  { unfold wf, invf, w6, w5. destruct repl; destruct (purge_closed cf); reflexivity. }
  assert (WF : (forall x, w_an wf x = w_an w5 x) /\ w_files wf = w_files w5 /\ w_ids wf = w_ids w5 /\ w_uris wf = w_uris w5 /\
               w_pub wf = w_pub w5 /\ w_log wf = w_log w5).
  { unfold wf. destruct (purge_closed cf); repeat split; reflexivity. }
  destruct WF as [Anf [Fif [Idf [Urf [Pbf Lgf]]]]].
  split. { unfold wf. destruct (purge_closed cf); assumption. }
  split. { intros q Hq. rewrite Idf, Id5. 
           destruct repl as [t|].
           - unfold get_or_add_file in Eg. rewrite (id_of_live _ w1 p G1), LV1p in Eg.
             destruct (disk p) as [cd|]; [|inv Eg]. unfold alloc in Eg. inv Eg. cbn. rewrite !upd_neq by exact Hq. reflexivity.
           - destruct Hr as [_ ->]. unfold w1. cbn. apply upd_neq. exact Hq. }
  split. { rewrite (live_ids_eq w5 wf) by exact Idf. rewrite LV5. exact LV2p. }
  split.
  { intros x. rewrite Idf, Id5. destruct repl as [t|].
    - unfold get_or_add_file in Eg. rewrite (id_of_live _ w1 p G1), LV1p in Eg.
      destruct (disk p) as [cd|]; [|inv Eg]. unfold alloc in Eg. inv Eg. cbn. rewrite upd_eq. discriminate.
    - destruct Hr as [_ ->]. unfold w1. cbn. rewrite upd_eq. discriminate. }
  split.
  { intros id' E. split; [rewrite Anf; apply AnRepl; exact E|]. split; [|apply (Fnew id' E)].
    rewrite Urf. unfold w5. rewrite E. cbn. apply upd_eq. }
  split.
  { intros x Hx. rewrite Fif, Fi5.
    assert (In x inv) by (unfold invf in Hx; destruct (purge_closed cf); [apply In_remove_nat in Hx; tauto|exact Hx]).
    destruct (ip_acc'0 x H) as [[]|[H' _]]. exact H'. }
  split.
  { intros x H1 H2. rewrite Anf, An5 in H2. destruct (Nat.eq_dec x closed) as [->|Hn]; [left; reflexivity|right].
    destruct (Rm x) as [->|H]; [rewrite SA; exact H1|exact H2|contradiction|].
    unfold invf. destruct (purge_closed cf); [apply In_remove_nat; auto|exact H]. }
  split. { intros x a Hx. rewrite Anf in Hx. apply (Kept x a Hx). }
  split.
  { intros x q Hx. rewrite Urf in Hx. unfold w5 in Hx. destruct repl as [id'|].
    - cbn in Hx. unfold upd in Hx. destruct (Nat.eqb_spec x id') as [->|]; [right; reflexivity|left].
      rewrite RU, if_uris0, SU in Hx. exact Hx.
    - left. rewrite RU, if_uris0, SU in Hx. exact Hx. }
  split; [congruence|]. split; [congruence|].
  split.
  { intros Hp. unfold invf, wf. rewrite Hp. split.
    { intros H. apply In_remove_nat in H. destruct H as [_ H]. contradiction. }
    split; intros t H; cbn in H; apply In_remove_nat in H; destruct H as [_ H]; contradiction. }
  assert (Rv5w : forall t g, In g (w_rev w5 t) -> In g (w_rev w t)).
  { intros t g H. rewrite Rv5 in H. destruct (if_pt0 t) as [[_ [_ Rt]]|[_ [_ Rt]]]; rewrite Rt in H; [rewrite SR in H; exact H|destruct H]. }
  assert (Fl5w : forall q g, In g (w_failed w5 q) -> In g (w_failed w q)).
  { intros q g H. rewrite Fl5, SF in H. exact H. }
  split.
  { intros t g H. unfold wf in H. destruct (purge_closed cf); [|apply Rv5w; exact H].
    cbn in H. apply In_remove_nat in H. apply Rv5w. tauto. }
  split.
  { intros q g H. unfold wf in H. destruct (purge_closed cf); [|apply Fl5w; exact H].
    cbn in H. apply In_remove_nat in H. apply Fl5w. tauto. }
  split.
  { intros x Hx. assert (In x inv) by (unfold invf in Hx; destruct (purge_closed cf); [apply In_remove_nat in Hx; tauto|exact Hx]).
    destruct (ip_listed0 x H) as [[]|[t Ht]]. exists t. rewrite SR in Ht. exact Ht. }
  split; [rewrite Anf; exact AnClosed|].
  split.
  { intros ->. destruct Hr as [Hc _]. unfold cu' in Hc. rewrite upd_eq in Hc. exact Hc. }
  intros x q Hx. rewrite Urf. unfold w5. destruct repl as [id'|] eqn:Er.
  - cbn. destruct (Nat.eq_dec x id') as [->|Hn].
    + exfalso. destruct (Fnew id' eq_refl) as [H _]. destruct (gp_uris _ _ G id' q Hx) as [c1 Hc1]. congruence.
    + rewrite upd_neq by exact Hn. rewrite RU, if_uris0, SU. exact Hx.
  - rewrite RU, if_uris0, SU. exact Hx.
Qed.

(* ------------------------------------------------------------------ parse_and_typecheck, the handlers *)

Lemma GInv_add_an : forall w f a, GInv w -> w_files w f <> None ->
  GInv (set_an w (upd (w_an w) f (Some a))).
Proof.
  intros w f a [] Hf. constructor; cbn; try assumption.
  - intros x Hx. destruct (Nat.eq_dec x f) as [E|E]; [subst x; auto|]. rewrite upd_neq in Hx by exact E. auto.
  - intros x t H. destruct (gp_imp0 x t H) as [A [B [[]|[C D]]]]. split; [exact A|]. split; [exact B|]. right.
    split; [exact C|]. destruct (Nat.eq_dec t f) as [E|E]; [subst t; rewrite upd_eq; discriminate|].
    rewrite upd_neq by exact E. exact D.
  - intros x Hx. destruct (Nat.eq_dec x f) as [E|E]; [subst x; rewrite upd_eq in Hx; discriminate|].
    rewrite upd_neq in Hx by exact E. auto.
Qed.

Lemma mem_entries_fext : forall w w' q id, fext w w' ->
  (w_ids w q = Some (id, KMem) <-> w_ids w' q = Some (id, KMem)).
Proof.
  intros w w' q id X. split; intros H.
  - assert (L : live_id w q = Some id) by (unfold live_id; rewrite H; reflexivity).
    apply (fx_live _ _ X) in L. destruct (live_id_ids w' q id L) as [k [Hk _]].
    destruct (fx_kind _ _ X q id k Hk) as [H'|[-> H']].
    + rewrite H in H'. inv H'. exact Hk.
    + unfold live_id in H'. rewrite H in H'. discriminate.
  - destruct (fx_kind _ _ X q id KMem H) as [H'|[H' _]]; [exact H'|discriminate].
Qed.

Record pt_post (cu : docs) (w : world) (x : fid) (w' : world) (ds : list diag) : Prop := {
  pp_c : CInv cu w';
  pp_fext : fext w w';
  pp_res : exists ax, w_an w' x = Some ax /\ a_state ax = Typechecked /\
                      ds = (if is_perr (a_src ax) then [DParse] else []) ++ a_tdiags ax;
  pp_other : forall y ay, y <> x -> w_an w y = Some ay -> w_an w' y = Some ay;
  pp_rev : forall t g, In g (w_rev w t) -> In g (w_rev w' t);
  pp_failed : forall q g, In g (w_failed w q) -> In g (w_failed w' q);
  pp_uris : forall y p, w_uris w y = Some p -> w_uris w' y = Some p;
  pp_pub : w_pub w' = w_pub w;
  pp_log : w_log w' = w_log w;
  pp_rev_new : forall t g, In g (w_rev w' t) -> In g (w_rev w t) \/ g = x \/ (lvi w' g /\ w_uris w' g <> None);
  pp_failed_new : forall q g, In g (w_failed w' q) -> In g (w_failed w q) \/ g = x \/ (lvi w' g /\ w_uris w' g <> None);
  pp_an_new : forall g, w_an w' g <> None -> w_an w g <> None \/ g = x \/ (lvi w' g /\ w_uris w' g <> None)
}.

Lemma pt_spec : forall cu w x,
  CInv cu w -> w_files w x <> None ->
  exists w' ds, parse_and_typecheck cf pick disk M w x = Ok (w', ds) /\ pt_post cu w x w' ds.
Proof.
  intros cu w x [G L R B A] Hx. unfold parse_and_typecheck, parse.
  destruct (w_files w x) as [[px c]|] eqn:Ex; [|congruence].
  set (a0 := mkA Parsed c []).
  set (w1 := set_an w (upd (w_an w) x (Some a0))).
  assert (G1 : GInv w1) by (apply GInv_add_an; [exact G|congruence]).
  assert (L1 : Link cu w1) by exact L.
  assert (B1 : BInv cu w1).
  { intros y ay Hy. unfold w1 in Hy. cbn in Hy. unfold upd in Hy. destruct (Nat.eqb_spec y x) as [->|Hn].
    - inv Hy. cbn [a_src]. split; [exists px; exact Ex|]. intros t Ht. change (w_imports w1 x) with (w_imports w x) in Ht.
      destruct (w_an w x) as [ax0|] eqn:E0.
      + destruct (B x ax0 E0) as [[p0 H0] Bi]. rewrite Ex in H0. inv H0. apply Bi. exact Ht.
      + rewrite (gp_none _ _ G x E0) in Ht. destruct Ht.
    - apply B. exact Hy. }
  assert (X1 : fext w w1) by (apply fext_same; reflexivity).
  assert (S1 : SInvT (fun y => False \/ y = x) cu w1).
  { intros y ay Hy. unfold w1 in Hy. cbn in Hy. unfold upd in Hy. destruct (Nat.eqb_spec y x) as [->|Hn].
    - inv Hy. left. split; [right; reflexivity|discriminate].
    - right. apply (SInv1_frame cu w w1 y ay (A y ay Hy) X1); auto.
      + intros t. tauto.
      + intros t Ht. unfold w1. cbn. unfold upd. destruct (Nat.eqb t x); [discriminate|exact Ht]. }
  assert (N1 : NoTC w1 (rk w1 x)).
  { intros y ay Hy Hs. unfold w1 in Hy. cbn in Hy. unfold upd in Hy. destruct (Nat.eqb_spec y x) as [->|Hn].
    - inv Hy. discriminate.
    - destruct (s_state _ _ _ _ (A y ay Hy)) as [H|[H _]]; congruence. }
  destruct (typecheck_spec M (fun _ => False) cu w1 x G1 L1 R B1 S1 N1) as [w' [tds [Et T]]].
  { unfold w1. cbn. congruence. }
  { unfold w1. cbn. rewrite upd_eq. discriminate. }
  { apply rank_lt. }
  fold a0. fold w1. rewrite Et. exists w', ((if is_perr c then [DParse] else []) ++ tds). split; [reflexivity|].
  destruct T. destruct tp_res0 as [ax [Ax [Sx [-> Six]]]].
  assert (Esrc : a_src ax = c).
  { destruct (tp_binv0 x ax Ax) as [[p0 H0] _]. rewrite (fx_files _ _ tp_fext0 x _ Ex) in H0. inv H0. reflexivity. }
  constructor.
  - constructor; auto. intros y ay Hy. destruct (Nat.eq_dec y x) as [->|Hn]; [rewrite Ax in Hy; inv Hy; exact Six|].
    destruct (tp_sinv0 y ay Hy Hn) as [[[] _]|H]. exact H.
  - eapply fext_trans; eauto.
  - exists ax. rewrite Esrc. auto.
  - intros y ay Hn Hy. assert (Hy1 : w_an w1 y = Some ay) by (unfold w1; cbn; rewrite upd_neq by exact Hn; exact Hy).
    apply (tp_stable0 y ay Hy1). destruct (s_state _ _ _ _ (A y ay Hy)) as [H|[H1 H2]]; [left; congruence|right; auto].
  - intros t g H. apply tp_rev0. exact H.
  - intros q g H. apply tp_failed0. exact H.
  - intros y p H. apply tp_uris0. exact H.
  - exact tp_pub0.
  - exact tp_log0.
  - intros t g H. apply tp_rev_new0. exact H.
  - intros q g H. apply tp_failed_new0. exact H.
  - intros g H. destruct (tp_an_new0 g H) as [H'|H']; [|right; right; exact H'].
    unfold w1 in H'. cbn in H'. unfold upd in H'. destruct (Nat.eqb_spec g x) as [->|]; [right; left; reflexivity|left; exact H'].
Qed.

Lemma CInv_pub : forall cu w v v', CInv cu w -> CInv cu (set_log (set_pub w v) v').
Proof.
  intros cu w v v' [G L R B A]. constructor; auto.
  - destruct G. constructor; assumption.
  - intros g a Hg. destruct (A g a Hg). constructor; assumption.
Qed.

Lemma publish_spec : forall cu w f ds, CInv cu w ->
  let w' := publish w f ds in
  CInv cu w' /\ fext w w' /\ w_an w' = w_an w /\ w_files w' = w_files w /\ w_ids w' = w_ids w /\
  w_uris w' = w_uris w /\ w_rev w' = w_rev w /\ w_failed w' = w_failed w.
Proof.
  intros cu w f ds C. unfold publish. destruct (w_uris w f) as [p|].
  - split; [apply CInv_pub; exact C|]. split; [apply fext_same; reflexivity|]. repeat split; reflexivity.
  - split; [exact C|]. split; [apply fext_refl|]. repeat split; reflexivity.
Qed.

Definition tc_at (w : world) (x : fid) : Prop := exists ax, w_an w x = Some ax /\ a_state ax = Typechecked.

Lemma cap_spec : forall cu l w,
  CInv cu w -> (forall x, In x l -> w_files w x <> None) ->
  exists w', fold_left (check_and_publish cf pick disk M) l (Ok w) = Ok w' /\
    CInv cu w' /\ fext w w' /\
    (forall x, In x l -> tc_at w' x) /\
    (forall y ay, ~ In y l -> w_an w y = Some ay -> w_an w' y = Some ay) /\
    (forall y, tc_at w y -> tc_at w' y) /\
    (forall y p, w_uris w y = Some p -> w_uris w' y = Some p).
Proof.
  intros cu. induction l as [|x l IH]; intros w C Hl.
  - exists w. split; [reflexivity|]. split; [exact C|]. split; [apply fext_refl|]. split; [intros x []|]. auto.
  - cbn [fold_left check_and_publish].
    destruct (pt_spec cu w x C (Hl x (or_introl eq_refl))) as [w1 [ds [E1 P1]]]. rewrite E1. destruct P1.
    destruct (publish_spec cu w1 x ds pp_c0) as [C2 [X2 [A2 [F2 [I2 [U2 [R2 Fl2]]]]]]].
    set (w2 := publish w1 x ds) in *.
    destruct (IH w2 C2) as [w3 [E3 [C3 [X3 [T3 [O3 [M3 U3]]]]]]].
    { intros y Hy. rewrite F2. apply (fx_files_ne w w1); auto. apply Hl. right. exact Hy. }
    exists w3. split; [exact E3|]. split; [exact C3|].
    split; [eapply fext_trans; [exact pp_fext0|eapply fext_trans; eauto]|].
    assert (Tx : tc_at w2 x).
    { destruct pp_res0 as [ax [H1 [H2 _]]]. exists ax. rewrite A2. auto. }
    split.
    { intros y [<-|Hy]; [apply M3; exact Tx|apply T3; exact Hy]. }
    split.
    { intros y ay Hn Hy. apply O3; [intros H; apply Hn; right; exact H|]. rewrite A2. apply pp_other0; [|exact Hy].
      intros ->. apply Hn. left. reflexivity. }
    split.
    { intros y [ay [H1 H2]]. apply M3. destruct (Nat.eq_dec y x) as [->|Hn]; [exact Tx|].
      exists ay. rewrite A2. split; [apply pp_other0; assumption|exact H2]. }
    intros y p Hy. apply U3. rewrite U2. apply pp_uris0. exact Hy.
Qed.

(* ------------------------------------------------------------------ published diagnostics *)

Definition listed (w : world) (g : fid) : Prop :=
  (exists t, In g (w_rev w t)) \/ (exists q, In g (w_failed w q)) \/ w_an w g <> None.

(* every file id the bookkeeping still mentions is the current id of its path *)
Definition AL (w : world) : Prop := forall g, listed w g -> lvi w g /\ w_uris w g <> None.

Definition pdiags (a : analysis) : list diag := (if is_perr (a_src a) then [DParse] else []) ++ a_tdiags a.

(* the last diagnostics published for a path are those of its current analysis ([L]: still to be re-published) *)
Definition P1X (L : fid -> Prop) (w : world) : Prop :=
  forall p ds f, w_pub w p = Some ds -> live_id w p = Some f ->
    L f \/ exists a, w_an w f = Some a /\ a_state a = Typechecked /\ ds = pdiags a.

Definition P67 (w : world) : Prop := forall q, w_pub w q <> None -> live_id w q <> None \/ disk q = None.

Lemma uris_mono_ne : forall (w w' : world) g, (forall y p, w_uris w y = Some p -> w_uris w' y = Some p) ->
  w_uris w g <> None -> w_uris w' g <> None.
Proof. intros w w' g H Hu. destruct (w_uris w g) as [p|] eqn:E; [|congruence]. rewrite (H g p E). discriminate. Qed.

Lemma pt_AL : forall cu w x w' ds, AL w -> lvi w x -> w_uris w x <> None -> pt_post cu w x w' ds -> AL w'.
Proof.
  intros cu w x w' ds A Lx Ux [].
  assert (Old : forall g, listed w g -> lvi w' g /\ w_uris w' g <> None).
  { intros g Hg. destruct (A g Hg) as [H1 H2]. split; [eapply lvi_fext; eauto|eapply uris_mono_ne; eauto]. }
  assert (X : lvi w' x /\ w_uris w' x <> None) by (split; [eapply lvi_fext; eauto|eapply uris_mono_ne; eauto]).
  intros g [[t H]|[[q H]|H]].
  - destruct (pp_rev_new0 t g H) as [H'|[->|H']]; [apply Old; left; eauto|exact X|exact H'].
  - destruct (pp_failed_new0 q g H) as [H'|[->|H']]; [apply Old; right; left; eauto|exact X|exact H'].
  - destruct (pp_an_new0 g H) as [H'|[->|H']]; [apply Old; right; right; exact H'|exact X|exact H'].
Qed.

Lemma cap_pub_spec : forall cu l w w',
  CInv cu w -> AL w -> P67 w -> P1X (fun f => In f l) w ->
  (forall x, In x l -> w_files w x <> None /\ lvi w x /\ w_uris w x <> None) ->
  fold_left (check_and_publish cf pick disk M) l (Ok w) = Ok w' ->
  AL w' /\ P67 w' /\ P1X (fun _ => False) w'.
Proof.
  intros cu. induction l as [|x l IH]; intros w w' C A P6 P1 Hl E.
  - cbn in E. inv E. split; [exact A|]. split; [exact P6|]. intros p ds f H1 H2. destruct (P1 p ds f H1 H2) as [[]|H]. right. exact H.
  - cbn [fold_left check_and_publish] in E.
    destruct (Hl x (or_introl eq_refl)) as [Fx [Lx Ux]].
    destruct (pt_spec cu w x C Fx) as [w1 [ds [E1 P1']]]. rewrite E1 in E.
    pose proof (pt_AL cu w x w1 ds A Lx Ux P1') as A1. destruct P1'.
    destruct (publish_spec cu w1 x ds pp_c0) as [C2 [X2 [A2 [F2 [I2 [U2 [R2 Fl2]]]]]]].
    set (w2 := publish w1 x ds) in *.
    assert (LV2 : forall q, live_id w2 q = live_id w1 q) by (intros; apply live_ids_eq; exact I2).
    destruct (w_uris w x) as [px|] eqn:Eux; [|congruence].
    pose proof (pp_uris0 x px Eux) as Eux1.
    assert (Pub2 : w_pub w2 = upd (w_pub w1) px (Some ds)).
    { unfold w2, publish. rewrite Eux1. reflexivity. }
    (* x is the current id of px *)
    assert (Lpx : live_id w1 px = Some x).
    { destruct Lx as [q Hq]. apply (fx_live _ _ pp_fext0) in Hq.
      destruct (live_id_file w1 q x (c_ginv _ _ pp_c0) Hq) as [c1 H1].
      destruct (gp_uris _ _ (c_ginv _ _ pp_c0) x px Eux1) as [c2 H2]. rewrite H1 in H2. inv H2. exact Hq. }
    apply (IH w2 w' C2).
    + intros g [[t H]|[[q H]|H]].
      * rewrite R2 in H. destruct (A1 g (or_introl (ex_intro _ t H))) as [[q0 H1] H2]. split; [exists q0; rewrite LV2; exact H1|rewrite U2; exact H2].
      * rewrite Fl2 in H. destruct (A1 g (or_intror (or_introl (ex_intro _ q H)))) as [[q0 H1] H2]. split; [exists q0; rewrite LV2; exact H1|rewrite U2; exact H2].
      * rewrite A2 in H. destruct (A1 g (or_intror (or_intror H))) as [[q0 H1] H2]. split; [exists q0; rewrite LV2; exact H1|rewrite U2; exact H2].
    + intros q Hq. rewrite LV2. rewrite Pub2 in Hq. destruct (Nat.eq_dec q px) as [Eq|Hn].
      * subst q. left. congruence.
      * rewrite upd_neq in Hq by exact Hn. rewrite pp_pub0 in Hq. destruct (P6 q Hq) as [H|H]; [left|right; exact H].
        destruct (live_id w q) as [f|] eqn:Ef; [|congruence]. rewrite (fx_live _ _ pp_fext0 q f Ef). discriminate.
    + intros p ds0 f Hp Hf. rewrite LV2 in Hf. rewrite Pub2 in Hp. destruct (Nat.eq_dec p px) as [Eq|Hn].
      * subst p. rewrite upd_eq in Hp. inv Hp. rewrite Lpx in Hf. inv Hf. right. destruct pp_res0 as [ax [H1 [H2 H3]]]. exists ax. rewrite A2. auto.
      * rewrite upd_neq in Hp by exact Hn. rewrite pp_pub0 in Hp.
        assert (Hfw : live_id w p = Some f).
        { destruct (live_id w p) as [f'|] eqn:Ef.
          - rewrite (fx_live _ _ pp_fext0 p f' Ef) in Hf. exact Hf.
          - exfalso. destruct (P6 p) as [H|H]; [congruence|congruence|].
            destruct (live_id_ids w1 p f Hf) as [k [Hk _]].
            destruct (fx_kind _ _ pp_fext0 p f k Hk) as [H'|[-> _]].
            + unfold live_id in Ef. rewrite H' in Ef. destruct k; try discriminate. destruct (live_id_ids w1 p f Hf) as [k' [Hk' Hne]]. congruence.
            + destruct (gp_ids _ _ (c_ginv _ _ pp_c0) p f KFs Hk) as [c1 [_ Hd]]. rewrite (Hd eq_refl) in H. discriminate. }
        destruct (P1 p ds0 f Hp Hfw) as [[<-|Hin]|[a [H1 [H2 H3]]]].
        -- exfalso. apply Hn.
           destruct (live_id_file w1 p x (c_ginv _ _ pp_c0) Hf) as [c1 Hc1].
           destruct (live_id_file w1 px x (c_ginv _ _ pp_c0) Lpx) as [c2 Hc2]. congruence.
        -- left. exact Hin.
        -- destruct (Nat.eq_dec f x) as [->|Hfx].
           ++ exfalso. apply Hn. 
              destruct (live_id_file w1 p x (c_ginv _ _ pp_c0) Hf) as [c1 Hc1].
              destruct (live_id_file w1 px x (c_ginv _ _ pp_c0) Lpx) as [c2 Hc2]. congruence.
           ++ right. exists a. rewrite A2. split; [apply pp_other0; assumption|auto].
    + intros y Hy. destruct (Hl y (or_intror Hy)) as [H1 [H2 H3]].
      split; [rewrite F2; apply (fx_files_ne w w1); auto|].
      split; [destruct H2 as [q Hq]; exists q; rewrite LV2; apply (fx_live _ _ pp_fext0); exact Hq|].
      rewrite U2. eapply uris_mono_ne; eauto.
    + exact E.
Qed.

(* ------------------------------------------------------------------ histories *)

Lemma SInv1_cu_ext : forall cu cu' w g a, (forall p, cu' p = cu p) -> SInv1 cu w g a -> SInv1 cu' w g a.
Proof.
  intros cu cu' w g a E [].
  assert (RE : forall l, reach cu' l = reach cu l) by (intros; apply reach_ext; intros; apply E).
  constructor; rewrite ?RE; auto.
  intros Hs d. rewrite (s_diags0 Hs d). rewrite (expect_c_frame cu cu' M (a_src a)); [tauto|]. intros; apply E.
Qed.

Lemma CInv_cu_ext : forall cu cu' w, (forall p, cu' p = cu p) -> CInv cu w -> CInv cu' w.
Proof.
  intros cu cu' w E [G L R B A].
  assert (RE : forall l, reach cu' l = reach cu l) by (intros; apply reach_ext; intros; apply E).
  constructor; auto.
  - intros p. rewrite E. apply L.
  - intros p c H. rewrite E in H. eapply R; eauto.
  - intros x ax Hx. destruct (B x ax Hx) as [B1 B2]. split; [exact B1|]. rewrite RE. exact B2.
  - intros g a Hg. eapply SInv1_cu_ext; eauto.
Qed.

Lemma CInv_log : forall cu w v, CInv cu w -> CInv cu (set_log w v).
Proof.
  intros cu w v [G L R B A]. constructor; auto.
  - destruct G. constructor; assumption.
  - intros g a Hg. destruct (A g a Hg). constructor; assumption.
Qed.

Record WInv (cu bufs : docs) (w : world) : Prop := {
  wi_c : CInv cu w;
  wi_cu : forall p, cu p = cur disk bufs p;
  wi_open : forall p, bufs p <> None <-> exists id, w_ids w p = Some (id, KMem);
  wi_tc : forall p id, w_ids w p = Some (id, KMem) -> tc_at w id
}.

Lemma WInv_empty : WInv (cur disk no_bufs) no_bufs empty_world.
Proof.
  constructor.
  - constructor.
    + constructor; cbn; intros; try discriminate; try contradiction; try reflexivity; try (exfalso; congruence); try constructor.
    + intros p. cbn. reflexivity.
    + intros p c H. cbn in H. eapply disk_resp; eauto.
    + intros x ax H. discriminate.
    + intros g a H. discriminate.
  - reflexivity.
  - intros p. cbn. split; [intros H; contradiction|intros [id H]; discriminate].
  - intros p id H. discriminate.
Qed.

Lemma step_spec : forall cu bufs w o,
  WInv cu bufs w -> op_respects rank o ->
  match o with Change p _ => bufs p <> None | _ => True end ->
  exists w', step cf pick disk M w o = Ok w' /\ WInv (cur disk (bufs_step bufs o)) (bufs_step bufs o) w'.
Proof.
  intros cu bufs w0 o [C Ecu Hop Htc] Ho Hcl.
  unfold step. set (w := set_log w0 []).
  assert (Cw : CInv cu w) by (apply CInv_log; exact C).
  destruct o as [p c|p c|p]; cbn [bufs_step].
  - (* didOpen *)
    destruct (add_file_spec cu w p c Cw Ho) as [w5 [id [inv [E [C5 [Ip [Io [An [Fi [Fin [Rm [Kp _]]]]]]]]]]]].
    rewrite E.
    destruct (cap_spec (upd cu p (Some c)) (id :: inv) w5 C5) as [w' [E' [C' [X' [T' [O' [M' _]]]]]]].
    { intros x [<-|Hx]; [congruence|apply Fin; exact Hx]. }
    exists w'. split; [exact E'|]. constructor.
    + eapply CInv_cu_ext; [|exact C']. intros q. unfold cur, upd. destruct (Nat.eqb_spec q p) as [->|]; [reflexivity|].
      rewrite Ecu. reflexivity.
    + reflexivity.
    + intros q. destruct (Nat.eq_dec q p) as [->|Hq].
      * rewrite upd_eq. split; [intros _|intros _; discriminate]. exists id. apply (mem_entries_fext w5 w' p id X'). exact Ip.
      * rewrite upd_neq by exact Hq. rewrite (Hop q). split; intros [x H]; exists x.
        -- apply (mem_entries_fext w5 w' q x X'). rewrite (Io q Hq). exact H.
        -- apply (mem_entries_fext w5 w' q x X') in H. rewrite (Io q Hq) in H. exact H.
    + intros q x H. apply (mem_entries_fext w5 w' q x X') in H. destruct (Nat.eq_dec q p) as [->|Hq].
      * rewrite Ip in H. inv H. apply T'. left. reflexivity.
      * rewrite (Io q Hq) in H. destruct (Htc q x H) as [ax [A1 A2]].
        destruct (w_an w5 x) as [a5|] eqn:E5.
        -- apply M'. exists a5. split; [exact E5|]. change (w_an w0 x) with (w_an w x) in A1. rewrite (Kp x a5 E5) in A1. inv A1. exact A2.
        -- apply T'. destruct (Rm x) as [->|Hin]; [change (w_an w x) with (w_an w0 x); congruence|exact E5|left; reflexivity|right; exact Hin].
  - (* didChange *)
    apply Hop in Hcl. destruct Hcl as [id Hid].
    destruct (update_file_spec cu w p id c Cw Hid Ho) as [w2 [inv [E [C2 [Iq [An [Fin [Rm [Kp _]]]]]]]]].
    rewrite E.
    assert (Fid : w_files w2 id <> None).
    { assert (L : live_id w2 p = Some id) by (unfold live_id; rewrite Iq; cbn; rewrite Hid; reflexivity).
      destruct (live_id_file w2 p id (c_ginv _ _ C2) L) as [c1 H]. congruence. }
    destruct (cap_spec (upd cu p (Some c)) (id :: inv) w2 C2) as [w' [E' [C' [X' [T' [O' [M' _]]]]]]].
    { intros x [<-|Hx]; [exact Fid|apply Fin; exact Hx]. }
    exists w'. split; [exact E'|]. constructor.
    + eapply CInv_cu_ext; [|exact C']. intros q. unfold cur, upd. destruct (Nat.eqb_spec q p) as [->|]; [reflexivity|].
      rewrite Ecu. reflexivity.
    + reflexivity.
    + intros q. destruct (Nat.eq_dec q p) as [->|Hq].
      * rewrite upd_eq. split; [intros _|intros _; discriminate]. exists id. apply (mem_entries_fext w2 w' p id X'). rewrite Iq. exact Hid.
      * rewrite upd_neq by exact Hq. rewrite (Hop q). split; intros [x H]; exists x.
        -- apply (mem_entries_fext w2 w' q x X'). rewrite Iq. exact H.
        -- apply (mem_entries_fext w2 w' q x X') in H. rewrite Iq in H. exact H.
    + intros q x H. apply (mem_entries_fext w2 w' q x X') in H. rewrite Iq in H. change (w_ids w q) with (w_ids w0 q) in H.
      destruct (Htc q x H) as [ax [A1 A2]].
      destruct (w_an w2 x) as [a5|] eqn:E5.
      * apply M'. exists a5. split; [exact E5|]. change (w_an w0 x) with (w_an w x) in A1. rewrite (Kp x a5 E5) in A1. inv A1. exact A2.
      * apply T'. destruct (Rm x) as [->|Hin]; [change (w_an w x) with (w_an w0 x); congruence|exact E5|left; reflexivity|right; exact Hin].
  - (* didClose *)
    destruct (w_ids w p) as [[closed k]|] eqn:Eid.
    2:{ unfold close_file, close_in_memory_file. rewrite Eid. exists w. split; [reflexivity|].
        assert (Hb : bufs p = None).
        { destruct (bufs p) eqn:E; [|reflexivity]. destruct (proj1 (Hop p)) as [x H]; [congruence|]. change (w_ids w0 p) with (w_ids w p) in H. congruence. }
        constructor.
        - eapply CInv_cu_ext; [|exact Cw]. intros q. rewrite Ecu. unfold cur, upd. destruct (Nat.eqb_spec q p) as [->|]; [rewrite Hb; reflexivity|reflexivity].
        - reflexivity.
        - intros q. unfold upd. destruct (Nat.eqb_spec q p) as [->|]; [|apply Hop].
          split; [intros H; contradiction|]. intros [x H]. congruence.
        - exact Htc. }
    destruct k.
    2,3: (unfold close_file, close_in_memory_file; rewrite Eid; exists w; split; [reflexivity|];
        assert (Hb : bufs p = None) by
          (destruct (bufs p) eqn:E; [|reflexivity]; destruct (proj1 (Hop p)) as [x H]; [congruence|]; change (w_ids w0 p) with (w_ids w p) in H; congruence);
        constructor;
        [ eapply CInv_cu_ext; [|exact Cw]; intros q; rewrite Ecu; unfold cur, upd; destruct (Nat.eqb_spec q p) as [->|]; [rewrite Hb; reflexivity|reflexivity]
        | reflexivity
        | intros q; unfold upd; destruct (Nat.eqb_spec q p) as [->|]; [|apply Hop];
          split; [intros H; contradiction|]; intros [x H]; congruence
        | exact Htc ]).
    destruct (close_file_spec cu w p closed Cw Eid) as [wf [repl [inv [E [Cf [Io [Lp [Nm [Rp [Fin [Rm [Kp _]]]]]]]]]]]].
    rewrite E.
    set (l := match repl with Some id => id :: inv | None => inv end).
    destruct (cap_spec (upd cu p (disk p)) l wf Cf) as [w' [E' [C' [X' [T' [O' [M' _]]]]]]].
    { intros x Hx. unfold l in Hx. destruct repl as [id'|]; [|apply Fin; exact Hx].
      destruct Hx as [<-|Hx]; [|apply Fin; exact Hx].
      destruct (live_id_file wf p id' (c_ginv _ _ Cf) Lp) as [c1 H]. congruence. }
    exists w'. split; [exact E'|]. constructor.
    + eapply CInv_cu_ext; [|exact C']. intros q. unfold cur, upd. destruct (Nat.eqb_spec q p) as [->|]; [reflexivity|].
      rewrite Ecu. reflexivity.
    + reflexivity.
    + intros q. destruct (Nat.eq_dec q p) as [->|Hq].
      * rewrite upd_eq. split; [intros H; contradiction|]. intros [x H].
        apply (mem_entries_fext wf w' p x X') in H. destruct (Nm x H).
      * rewrite upd_neq by exact Hq. rewrite (Hop q). split; intros [x H]; exists x.
        -- apply (mem_entries_fext wf w' q x X'). rewrite (Io q Hq). exact H.
        -- apply (mem_entries_fext wf w' q x X') in H. rewrite (Io q Hq) in H. exact H.
    + intros q x H. apply (mem_entries_fext wf w' q x X') in H. destruct (Nat.eq_dec q p) as [->|Hq]; [destruct (Nm x H)|].
      rewrite (Io q Hq) in H. change (w_ids w q) with (w_ids w0 q) in H.
      destruct (Htc q x H) as [ax [A1 A2]].
      destruct (w_an wf x) as [a5|] eqn:E5.
      * apply M'. exists a5. split; [exact E5|]. change (w_an w0 x) with (w_an w x) in A1. rewrite (Kp x a5 E5) in A1. inv A1. exact A2.
      * apply T'. unfold l. destruct (Rm x) as [->|Hin]; [change (w_an w x) with (w_an w0 x); congruence|exact E5| |destruct repl; [right|]; exact Hin].
        exfalso. change (w_ids w p) with (w_ids w0 p) in Eid.
        assert (q = p); [|contradiction].
        destruct (gp_ids _ _ (c_ginv _ _ C) q closed KMem H) as [c1 [F1 _]].
        destruct (gp_ids _ _ (c_ginv _ _ C) p closed KMem Eid) as [c2 [F2 _]]. congruence.
Qed.

Lemma run_spec : forall h cu bufs w,
  WInv cu bufs w -> Forall (op_respects rank) h -> client_ok bufs h = true ->
  exists w', run_from cf pick disk M w h = Ok w' /\
             WInv (cur disk (bufs_after bufs h)) (bufs_after bufs h) w'.
Proof.
  induction h as [|o h IH]; intros cu bufs w W Hr Hc.
  - exists w. split; [reflexivity|]. destruct W. constructor; auto.
    eapply CInv_cu_ext; [|exact wi_c0]. intros p. cbn. symmetry. apply wi_cu0.
  - inv Hr. cbn in Hc. apply andb_true_iff in Hc. destruct Hc as [Hc1 Hc2].
    destruct (step_spec cu bufs w o W H1) as [w1 [E1 W1]].
    { destruct o; auto. destruct (bufs p); [discriminate|discriminate]. }
    destruct (IH _ _ w1 W1 H2 Hc2) as [w' [E' W']].
    exists w'. split; [|exact W']. unfold run_from in *. cbn. rewrite E1. exact E'.
Qed.

(* every open document has published diagnostics *)
Lemma cap_published : forall cu l w w',
  CInv cu w -> (forall x, In x l -> w_files w x <> None) ->
  fold_left (check_and_publish cf pick disk M) l (Ok w) = Ok w' ->
  (forall p, w_pub w p <> None -> w_pub w' p <> None) /\
  (forall x px, In x l -> w_uris w x = Some px -> w_pub w' px <> None).
Proof.
  intros cu. induction l as [|x l IH]; intros w w' C Hl E.
  - cbn in E. inv E. split; [auto|intros x px []].
  - cbn [fold_left check_and_publish] in E.
    destruct (pt_spec cu w x C (Hl x (or_introl eq_refl))) as [w1 [ds [E1 P1']]]. rewrite E1 in E. destruct P1'.
    destruct (publish_spec cu w1 x ds pp_c0) as [C2 [X2 [A2 [F2 [I2 [U2 [R2 Fl2]]]]]]].
    set (w2 := publish w1 x ds) in *.
    destruct (IH w2 w' C2) as [M2 P2]; [|exact E|].
    { intros y Hy. rewrite F2. apply (fx_files_ne w w1); auto. apply Hl. right. exact Hy. }
    assert (Mono : forall p, w_pub w p <> None -> w_pub w2 p <> None).
    { intros p Hp. unfold w2, publish. destruct (w_uris w1 x) as [px|]; [|rewrite pp_pub0; exact Hp].
      cbn. unfold upd. destruct (Nat.eqb p px); [discriminate|rewrite pp_pub0; exact Hp]. }
    split; [intros p Hp; apply M2; apply Mono; exact Hp|].
    intros y py [<-|Hy] Hu.
    + apply M2. unfold w2, publish. rewrite (pp_uris0 x py Hu). cbn. rewrite upd_eq. discriminate.
    + apply (P2 y py Hy). rewrite U2. apply pp_uris0. exact Hu.
Qed.

(* ------------------------------------------------------------------ published diagnostics over histories *)

Record PInv (w : world) : Prop := {
  pi_al : AL w;
  pi_p1 : P1X (fun _ => False) w;
  pi_p67 : P67 w;
  pi_open : forall p id, w_ids w p = Some (id, KMem) -> w_uris w id = Some p /\ w_pub w p <> None
}.

Lemma PInv_empty : PInv empty_world.
Proof.
  constructor.
  - intros g [[t H]|[[q H]|H]]; cbn in H; try contradiction; try (exfalso; apply H; reflexivity).
  - intros p ds f H. discriminate.
  - intros q H. exfalso. apply H. reflexivity.
  - intros p id H. discriminate.
Qed.

Lemma live_of_ids : forall w w' q, w_ids w' q = w_ids w q -> live_id w' q = live_id w q.
Proof. intros. unfold live_id. rewrite H. reflexivity. Qed.

Lemma step_pub : forall cu bufs w0 o w',
  WInv cu bufs w0 -> PInv w0 -> op_respects rank o ->
  match o with Change p _ => bufs p <> None | _ => True end ->
  (purge_closed cf = true \/ match o with Close _ => False | _ => True end) ->
  step cf pick disk M w0 o = Ok w' -> PInv w'.
Proof.
  intros cu bufs w0 o w' [C Ecu Hop Htc] [A0 P10 P670 PO0] Ho Hcl Hpu Hstep.
  unfold step in Hstep. set (w := set_log w0 []) in *.
  assert (Cw : CInv cu w) by (apply CInv_log; exact C).
  assert (A : AL w) by exact A0. assert (P1 : P1X (fun _ => False) w) by exact P10. assert (P6 : P67 w) by exact P670.
  assert (PO : forall p id, w_ids w p = Some (id, KMem) -> w_uris w id = Some p /\ w_pub w p <> None) by exact PO0.
  assert (SameId : forall (wx : world) q1 q2 x k1 k2, GInv wx -> w_ids wx q1 = Some (x, k1) -> w_ids wx q2 = Some (x, k2) -> q1 = q2).
  { intros wx q1 q2 x k1 k2 Gx H1 H2. destruct (gp_ids _ _ Gx q1 x k1 H1) as [c1 [F1 _]].
    destruct (gp_ids _ _ Gx q2 x k2 H2) as [c2 [F2 _]]. congruence. }
  destruct o as [p c|p c|p].
  - (* didOpen *)
    destruct (add_file_spec cu w p c Cw Ho)
      as [w5 [id [inv [E [C5 [Ip [Io [An [Fi [Fin [Rm [Kp [Ui [Uo [Pb [Lg [Rvs [Fls [Lis Lid]]]]]]]]]]]]]]]]]]].
    rewrite E in Hstep.
    assert (LVp : live_id w5 p = Some id) by (unfold live_id; rewrite Ip; reflexivity).
    assert (LVr : forall q t, live_id w q = Some t -> live_id w5 q = Some t).
    { intros q t H. destruct (Nat.eq_dec q p) as [->|Hq]; [rewrite (Lid t H); exact LVp|].
      rewrite (live_of_ids w w5 q (Io q Hq)). exact H. }
    assert (Old : forall g, listed w g -> lvi w5 g /\ w_uris w5 g <> None).
    { intros g Hg. destruct (A g Hg) as [[q Hq] Hu]. split; [exists q; apply LVr; exact Hq|].
      destruct (Nat.eq_dec g id) as [->|Hn]; [congruence|rewrite Uo by exact Hn; exact Hu]. }
    assert (A5 : AL w5).
    { intros g [[t H]|[[q H]|H]]; apply Old.
      - left. exists t. apply Rvs. exact H.
      - right. left. exists q. apply Fls. exact H.
      - right. right. destruct (w_an w5 g) as [a|] eqn:Ea; [|congruence]. rewrite (Kp g a Ea). discriminate. }
    destruct (cap_pub_spec (upd cu p (Some c)) (id :: inv) w5 w' C5 A5) as [A' [P6' P1']]; auto.
    + intros q Hq. rewrite Pb in Hq. destruct (P6 q Hq) as [H|H]; [left|right; exact H].
      destruct (live_id w q) as [f|] eqn:Ef; [|congruence]. rewrite (LVr q f Ef). discriminate.
    + intros p0 ds f Hp Hf. rewrite Pb in Hp. destruct (Nat.eq_dec p0 p) as [->|Hq].
      * left. left. congruence.
      * rewrite (live_of_ids w w5 p0 (Io p0 Hq)) in Hf. destruct (P1 p0 ds f Hp Hf) as [[]|[a [H1 [H2 H3]]]].
        destruct (w_an w5 f) as [a5|] eqn:E5.
        -- right. exists a5. rewrite (Kp f a5 E5) in H1. inv H1. auto.
        -- left. destruct (Rm f) as [->|Hin]; [congruence|exact E5|left; reflexivity|right; exact Hin].
    + intros x [<-|Hx].
      * split; [congruence|]. split; [exists p; exact LVp|congruence].
      * split; [apply Fin; exact Hx|]. apply Old. destruct (Lis x Hx) as [[t H]|H]; [left; eauto|right; left; eauto].
    + assert (Hfl : forall x, In x (id :: inv) -> w_files w5 x <> None).
      { intros x [<-|Hx]; [congruence|apply Fin; exact Hx]. }
      destruct (cap_spec (upd cu p (Some c)) (id :: inv) w5 C5 Hfl) as [w'' [E'' [_ [X'' [_ [_ [_ U'']]]]]]].
      rewrite Hstep in E''. inv E''.
      destruct (cap_published (upd cu p (Some c)) (id :: inv) w5 w'' C5 Hfl Hstep) as [Mo Pu].
      constructor; try assumption.
      intros q x Hq. apply (mem_entries_fext w5 w'' q x X'') in Hq. destruct (Nat.eq_dec q p) as [->|Hn].
      * rewrite Ip in Hq. inv Hq. split; [apply U''; exact Ui|apply (Pu x p); [left; reflexivity|exact Ui]].
      * assert (Hx : x <> id) by (intros ->; apply Hn; apply (SameId w5 q p id KMem KMem (c_ginv _ _ C5) Hq Ip)).
        rewrite (Io q Hn) in Hq. destruct (PO q x Hq) as [H1 H2].
        split; [apply U''; rewrite Uo by exact Hx; exact H1|apply Mo; rewrite Pb; exact H2].
  - (* didChange *)
    apply Hop in Hcl. destruct Hcl as [id Hid].
    destruct (update_file_spec cu w p id c Cw Hid Ho)
      as [w2 [inv [E [C2 [Iq [An [Fin [Rm [Kp [Us [Pb [Lg [Fl [Rvs Lis]]]]]]]]]]]]]].
    rewrite E in Hstep.
    assert (LV : forall q, live_id w2 q = live_id w q) by (intros; apply live_of_ids; apply Iq).
    assert (Old : forall g, listed w g -> lvi w2 g /\ w_uris w2 g <> None).
    { intros g Hg. destruct (A g Hg) as [[q Hq] Hu]. split; [exists q; rewrite LV; exact Hq|rewrite Us; exact Hu]. }
    assert (A2 : AL w2).
    { intros g [[t H]|[[q H]|H]]; apply Old.
      - left. exists t. apply Rvs. exact H.
      - right. left. exists q. rewrite Fl in H. exact H.
      - right. right. destruct (w_an w2 g) as [a|] eqn:Ea; [|congruence]. rewrite (Kp g a Ea). discriminate. }
    assert (Lid : live_id w p = Some id) by (unfold live_id; change (w_ids w p) with (w_ids w0 p); rewrite Hid; reflexivity).
    destruct (Htc p id Hid) as [aid [Aid _]].
    destruct (cap_pub_spec (upd cu p (Some c)) (id :: inv) w2 w' C2 A2) as [A' [P6' P1']]; auto.
    + intros q Hq. rewrite Pb in Hq. rewrite LV. apply P6. exact Hq.
    + intros p0 ds f Hp Hf. rewrite Pb in Hp. rewrite LV in Hf. destruct (P1 p0 ds f Hp Hf) as [[]|[a [H1 [H2 H3]]]].
      destruct (w_an w2 f) as [a5|] eqn:E5.
      * right. exists a5. rewrite (Kp f a5 E5) in H1. inv H1. auto.
      * left. destruct (Rm f) as [->|Hin]; [congruence|exact E5|left; reflexivity|right; exact Hin].
    + intros x [<-|Hx].
      * assert (Li : listed w id) by (right; right; change (w_an w id) with (w_an w0 id); congruence).
        destruct (Old id Li) as [H1 H2]. split; [|auto].
        rewrite <- LV in Lid. destruct (live_id_file w2 p id (c_ginv _ _ C2) Lid) as [c1 Hc1]. congruence.
      * split; [apply Fin; exact Hx|]. apply Old. destruct (Lis x Hx) as [t H]. left. eauto.
    + assert (Hfl : forall x, In x (id :: inv) -> w_files w2 x <> None).
      { intros x [<-|Hx]; [|apply Fin; exact Hx].
        rewrite <- LV in Lid. destruct (live_id_file w2 p id (c_ginv _ _ C2) Lid) as [c1 Hc1]. congruence. }
      destruct (cap_spec (upd cu p (Some c)) (id :: inv) w2 C2 Hfl) as [w'' [E'' [_ [X'' [_ [_ [_ U'']]]]]]].
      rewrite Hstep in E''. inv E''.
      destruct (cap_published (upd cu p (Some c)) (id :: inv) w2 w'' C2 Hfl Hstep) as [Mo Pu].
      constructor; try assumption.
      intros q x Hq. apply (mem_entries_fext w2 w'' q x X'') in Hq. rewrite Iq in Hq.
      destruct (PO q x Hq) as [H1 H2].
      split; [apply U''; rewrite Us; exact H1|apply Mo; rewrite Pb; exact H2].
  - (* didClose *)
    destruct Hpu as [Hpu|[]].
    destruct (w_ids w p) as [[closed k]|] eqn:Eid.
    2:{ unfold close_file, close_in_memory_file in Hstep. rewrite Eid in Hstep. inv Hstep. constructor; assumption. }
    destruct k.
    2,3: (unfold close_file, close_in_memory_file in Hstep; rewrite Eid in Hstep; inv Hstep; constructor; assumption).
    destruct (close_file_spec cu w p closed Cw Eid)
      as [wf [repl [inv [E [Cf [Io [Lp [Nm [Rp [Fin [Rm [Kp [Ur [Pb [Lg [Pu [Rvs [Fls [Lis [Ac [Dn Uf]]]]]]]]]]]]]]]]]]]]].
    rewrite E in Hstep. destruct (Pu Hpu) as [Pu1 [Pu2 Pu3]].
    assert (Lcl : live_id w p = Some closed) by (unfold live_id; rewrite Eid; reflexivity).
    assert (LVq : forall q, q <> p -> live_id wf q = live_id w q) by (intros; apply live_of_ids; apply Io; assumption).
    assert (Old : forall g, listed w g -> g <> closed -> lvi wf g /\ w_uris wf g <> None).
    { intros g Hg Hn. destruct (A g Hg) as [[q Hq] Hu]. split.
      - exists q. rewrite LVq; [exact Hq|]. intros ->. congruence.
      - destruct (w_uris w g) as [pg|] eqn:Eu; [|congruence]. rewrite (Uf g pg Eu). discriminate. }
    assert (Af : AL wf).
    { intros g [[t H]|[[q H]|H]]; apply Old.
      - left. exists t. apply Rvs. exact H.
      - intros ->. exact (Pu2 t H).
      - right. left. exists q. apply Fls. exact H.
      - intros ->. exact (Pu3 q H).
      - right. right. destruct (w_an wf g) as [a|] eqn:Ea; [|congruence]. rewrite (Kp g a Ea). discriminate.
      - intros ->. congruence. }
    set (l := match repl with Some id => id :: inv | None => inv end) in *.
    destruct (cap_pub_spec (upd cu p (disk p)) l wf w' Cf Af) as [A' [P6' P1']]; auto.
    + intros q Hq. rewrite Pb in Hq. destruct (Nat.eq_dec q p) as [->|Hn].
      * rewrite Lp. destruct repl; [left; discriminate|right; apply Dn; reflexivity].
      * rewrite LVq by exact Hn. apply P6. exact Hq.
    + intros p0 ds f Hp Hf. rewrite Pb in Hp. destruct (Nat.eq_dec p0 p) as [->|Hn].
      * left. rewrite Lp in Hf. unfold l. rewrite Hf. left. reflexivity.
      * rewrite LVq in Hf by exact Hn. destruct (P1 p0 ds f Hp Hf) as [[]|[a [H1 [H2 H3]]]].
        destruct (w_an wf f) as [a5|] eqn:E5.
        -- right. exists a5. rewrite (Kp f a5 E5) in H1. inv H1. auto.
        -- left. destruct (Rm f) as [->|Hin]; [congruence|exact E5| |unfold l; destruct repl; [right|]; exact Hin].
           exfalso. apply Hn.
           destruct (live_id_file w p0 closed (c_ginv _ _ Cw) Hf) as [c1 Hc1].
           destruct (live_id_file w p closed (c_ginv _ _ Cw) Lcl) as [c2 Hc2]. congruence.
    + intros x Hx. unfold l in Hx.
      assert (Hinv : In x inv -> w_files wf x <> None /\ lvi wf x /\ w_uris wf x <> None).
      { intros Hi. split; [apply Fin; exact Hi|]. apply Old.
        - destruct (Lis x Hi) as [t H]. left. eauto.
        - intros ->. exact (Pu1 Hi). }
      destruct repl as [id'|] eqn:Er; [|apply Hinv; exact Hx].
      destruct Hx as [<-|Hx]; [|apply Hinv; exact Hx].
      destruct (Rp id' eq_refl) as [R1 [R2 R3]].
      split; [destruct (live_id_file wf p id' (c_ginv _ _ Cf) Lp) as [c1 Hc1]; congruence|].
      split; [exists p; exact Lp|congruence].
    + assert (Hfl : forall x, In x l -> w_files wf x <> None).
      { intros x Hx. unfold l in Hx. destruct repl as [id'|] eqn:Er; [|apply Fin; exact Hx].
        destruct Hx as [<-|Hx]; [|apply Fin; exact Hx].
        destruct (live_id_file wf p id' (c_ginv _ _ Cf) Lp) as [c1 Hc1]. congruence. }
      destruct (cap_spec (upd cu p (disk p)) l wf Cf Hfl) as [w'' [E'' [_ [X'' [_ [_ [_ U'']]]]]]].
      rewrite Hstep in E''. inv E''.
      destruct (cap_published (upd cu p (disk p)) l wf w'' Cf Hfl Hstep) as [Mo _].
      constructor; try assumption.
      intros q x Hq. apply (mem_entries_fext wf w'' q x X'') in Hq. destruct (Nat.eq_dec q p) as [->|Hn]; [destruct (Nm x Hq)|].
      rewrite (Io q Hn) in Hq. destruct (PO q x Hq) as [H1 H2].
      split; [apply U''; apply Uf; exact H1|apply Mo; rewrite Pb; exact H2].
Qed.

Lemma run_pub : forall h cu bufs w w',
  WInv cu bufs w -> PInv w -> Forall (op_respects rank) h -> client_ok bufs h = true ->
  (purge_closed cf = true \/ no_close h) ->
  run_from cf pick disk M w h = Ok w' -> PInv w'.
Proof.
  induction h as [|o h IH]; intros cu bufs w w' W P Hr Hc Hp E.
  - cbn in E. inv E. exact P.
  - inv Hr. cbn in Hc. apply andb_true_iff in Hc. destruct Hc as [Hc1 Hc2].
    assert (Hcl : match o with Change p _ => bufs p <> None | _ => True end).
    { destruct o; auto. destruct (bufs p); [discriminate|discriminate]. }
    destruct (step_spec cu bufs w o W H1 Hcl) as [w1 [E1 W1]].
    unfold run_from in E. cbn in E. rewrite E1 in E.
    assert (P1 : PInv w1).
    { apply (step_pub cu bufs w o w1 W P H1 Hcl); [|exact E1].
      destruct Hp as [Hp|Hp]; [left; exact Hp|right]. inv Hp. destruct o; auto. }
    apply (IH _ _ w1 w' W1 P1 H2 Hc2); [|exact E].
    destruct Hp as [Hp|Hp]; [left; exact Hp|right]. inv Hp. assumption.
Qed.

End Inv.
