(* C13 — yaml_scalar_resolution (what a scalar event denotes for the YAML/JSON event loader) and
   int_roundtrip (the decimal token of every integer of the exact range reads back exactly through
   each loader). *)
From Coq Require Import List NArith ZArith Bool Lia ZifyBool ZifyN ZifyNat.
Import ListNotations.
From NV Require Import Codec.Escape Codec.EscapeProofs Codec.Ident Codec.IdentProofs
  Codec.Num Codec.NumProofs Codec.YamlScalar.
Open Scope N_scope.

(* ---------------------------------------------------------------- quoted scalars *)

Theorem yaml_quoted_is_string : forall st tg v, st <> Plain -> resolve st tg v = RStr v.
Proof. intros st tg v H. destruct st; [contradiction| | | |]; reflexivity. Qed.

(* ---------------------------------------------------------------- plain scalars *)

Lemma mem_false_not_in k l : mem k l = false -> ~ In k l.
Proof.
  unfold mem. intros H Hin. assert (Ht : existsb (str_eqb k) l = true).
  { apply existsb_exists. exists k. split; [exact Hin | apply str_eqb_refl]. }
  rewrite H in Ht. discriminate.
Qed.

(* the twelve inf/nan spellings are not caught by an earlier branch of `parse` *)
Lemma infnan_reaches_parse_float v : mem v infnan_spellings = true ->
  prefixed_int s_0x 16 v = None /\ prefixed_int s_0o 8 v = None /\ prefixed_int [c_plus] 10 v = None
  /\ mem v null_spellings = false /\ mem v true_spellings = false /\ mem v false_spellings = false
  /\ parse_i64 v = None.
Proof.
  intro H. apply mem_in in H. unfold infnan_spellings in H. cbn [In] in H.
  repeat (destruct H as [<-|H]; [repeat split; reflexivity|]). contradiction.
Qed.

Theorem yaml_plain_resolution : forall v,
  (resolve Plain None v = RStr v <-> nonstring_spelling v = false)
  /\ (resolve Plain None v = RErr <-> (infnan_spelling v = true)).
Proof.
  intros v. cbn [resolve]. unfold nonstring_spelling, radix_int_spelling, plus_int_spelling,
    keyword_spelling, dec_i64_spelling, infnan_spelling, sci_spelling.
  destruct (mem v infnan_spellings) eqn:Hinf.
  - destruct (infnan_reaches_parse_float v Hinf) as (H1 & H2 & H3 & H4 & H5 & H6 & H7).
    unfold resolve_plain. rewrite H1, H2, H3, H4, H5, H6, H7. unfold parse_float. rewrite Hinf.
    split; split; intro H; try discriminate; try reflexivity.
  - unfold resolve_plain, parse_float. rewrite Hinf.
    repeat match goal with
           | |- context [match ?x with _ => _ end] => destruct x eqn:?
           end; cbn [is_some orb andb negb];
      (split; split; intro Hx; try reflexivity; try discriminate;
       repeat match goal with
              | E : ?x = _ |- _ =>
                  tryif constr_eq E Hx then fail else first [rewrite E in Hx | rewrite E]
              end;
       cbn [is_some orb andb negb] in *; try reflexivity; try discriminate;
       rewrite ?orb_true_r in Hx; cbn [orb] in Hx; try discriminate;
       repeat match goal with
              | H : context [match ?x with _ => _ end] |- _ => destruct x eqn:?
              end; cbn [is_some orb andb negb] in *; first [reflexivity | discriminate]).
Qed.

(* If the emitter meets the contract, every string survives whatever style the emitter picks *)
Theorem yaml_string_survives_under_contract :
  forall (writes_plain : str -> bool) (quoted : style),
    quoted <> Plain -> emitter_meets_contract writes_plain ->
    forall s, resolve (if writes_plain s then Plain else quoted) None s = RStr s.
Proof.
  intros wp q Hq Hc s. destruct (wp s) eqn:Hw.
  - apply (proj1 (yaml_plain_resolution s)). apply Hc. exact Hw.
  - apply yaml_quoted_is_string. exact Hq.
Qed.

(* ... and it is necessary: an emitter that writes a non-string spelling plain loses the string *)
Theorem yaml_contract_necessary :
  forall s, nonstring_spelling s = true -> resolve Plain None s <> RStr s.
Proof.
  intros s H Heq. apply (proj1 (yaml_plain_resolution s)) in Heq. rewrite H in Heq. discriminate.
Qed.

(* Spellings serde_yaml 0.9 writes as plain scalars although they look like numbers (observed by
   the correspondence).  The signed radix / double sign spellings are strings for the loader since
   fix 49c92ee; a number beyond the f64 range is still a number: the loader reads such plain scalars
   as numbers on purpose (core/tests/integration/inputs/imports/yaml_large_number.ncl), so strings
   spelled like that do not survive YAML (known finding yaml-float-overflow-string). *)
Definition s_1e400 : str := [49; 101; 52; 48; 48].          (* 1e400 *)
Definition s_m1e999 : str := [45; 49; 101; 57; 57; 57].     (* -1e999 *)
Definition s_0x_m5 : str := [48; 120; 45; 53].              (* 0x-5 *)
Definition s_pp5 : str := [43; 43; 53].                     (* ++5 *)
Example yaml_witness_overflow_float :
  resolve Plain None s_1e400 = RNum 1 400 /\ resolve Plain None s_m1e999 = RNum (-1) 999.
Proof. split; vm_compute; reflexivity. Qed.
Example yaml_signed_radix_spelling_is_string : resolve Plain None s_0x_m5 = RStr s_0x_m5.
Proof. vm_compute. reflexivity. Qed.
Example yaml_double_sign_spelling_is_string : resolve Plain None s_pp5 = RStr s_pp5.
Proof. vm_compute. reflexivity. Qed.
Example yaml_ex_numbers :
  resolve Plain None [48; 120; 49; 70] = RNum 31 0 /\ resolve Plain None [43; 53] = RNum 5 0
  /\ resolve Plain None [49; 46; 53; 101; 45; 51] = RNum 15 (-4).
Proof. repeat split; vm_compute; reflexivity. Qed.
Example yaml_ex_plain_string : resolve Plain None [97; 98] = RStr [97; 98] /\ nonstring_spelling [97; 98] = false.
Proof. split; reflexivity. Qed.
Example yaml_ex_tagged_quoted_stays_string : resolve DoubleQuoted (Some TagInt) [53] = RStr [53].
Proof. reflexivity. Qed.

(* ---------------------------------------------------------------- int_roundtrip *)

Definition digit_or_minus (c : N) : bool := is_digit c || (c =? c_minus).

Lemma dec_of_Z_chars z : forallb digit_or_minus (dec_of_Z z) = true.
Proof.
  unfold dec_of_Z. assert (H : forall n, forallb digit_or_minus (dec_of_N n) = true).
  { intro n. pose proof (dec_of_N_digits n) as Hd. rewrite forallb_forall in *.
    intros x Hx. unfold digit_or_minus. rewrite (Hd x Hx). reflexivity. }
  destruct (z <? 0)%Z; [cbn [forallb]; rewrite H; reflexivity | apply H].
Qed.

Lemma strip_prefix_some p : forall s r, strip_prefix p s = Some r -> s = p ++ r.
Proof.
  induction p as [|x p IH]; intros s r H; cbn [strip_prefix] in H.
  - inversion H. reflexivity.
  - destruct s as [|y s]; [discriminate|]. destruct (x =? y) eqn:E; [|discriminate].
    apply N.eqb_eq in E. subst y. cbn [app]. f_equal. apply IH. exact H.
Qed.

Lemma strip_none_of_chars p v c :
  In c p -> digit_or_minus c = false -> forallb digit_or_minus v = true -> strip_prefix p v = None.
Proof.
  intros Hin Hc Hv. destruct (strip_prefix p v) as [r|] eqn:E; [|reflexivity].
  apply strip_prefix_some in E. subst v. rewrite forallb_forall in Hv.
  rewrite (Hv c) in Hc by (apply in_or_app; left; exact Hin). discriminate.
Qed.

Lemma not_mem_of_chars v l :
  forallb digit_or_minus v = true ->
  forallb (fun s => negb (forallb digit_or_minus s)) l = true -> mem v l = false.
Proof.
  intros Hv Hl. destruct (mem v l) eqn:E; [|reflexivity]. apply mem_in in E.
  rewrite forallb_forall in Hl. specialize (Hl v E). rewrite Hv in Hl. discriminate.
Qed.

Lemma digit_not_e c : is_digit c = true -> is_e c = false.
Proof. intro H. apply is_digit_spec in H. unfold is_e. lia. Qed.

Lemma digit_not_dot c : is_digit c = true -> (c =? c_dot) = false.
Proof. intro H. apply is_digit_spec in H. unfold c_dot. lia. Qed.

Lemma span_all p l : (forall x, In x l -> p x = true) -> span p l = (l, []).
Proof. intro H. rewrite <- (app_nil_r l) at 1. apply span_app; [exact H | exact I]. Qed.

Lemma from_sci_digits v n :
  forallb is_digit v = true -> parse_nat 10 v = Some n -> from_sci v = Some (Z.of_N n, 0%Z).
Proof.
  intros Hd Hp. rewrite forallb_forall in Hd. unfold from_sci, split_exp.
  rewrite (span_all _ (rev v)).
  2:{ intros x Hx. apply in_rev in Hx. rewrite (digit_not_e x (Hd x Hx)). reflexivity. }
  rewrite (span_all _ v).
  2:{ intros x Hx. rewrite (digit_not_dot x (Hd x Hx)). reflexivity. }
  destruct v as [|c t]; [discriminate|]. unfold sci_parse_int.
  destruct (digit_not_sign c (Hd c (or_introl eq_refl))) as [H1 H2]. rewrite H1, H2.
  unfold nat_string, all_digits. rewrite (proj2 (forallb_forall is_digit (c :: t)) Hd).
  rewrite Hp. reflexivity.
Qed.

Lemma prefixed_none_of_chars p radix v c :
  In c p -> digit_or_minus c = false -> forallb digit_or_minus v = true -> prefixed_int p radix v = None.
Proof. intros Hin Hc Hv. unfold prefixed_int. rewrite (strip_none_of_chars p v c Hin Hc Hv). reflexivity. Qed.

Lemma resolve_plain_dec z : (i64_min <= z <= u64_max)%Z -> resolve_plain (dec_of_Z z) = RNum z 0.
Proof.
  intro H. pose proof (dec_of_Z_chars z) as Hc. unfold resolve_plain.
  rewrite (prefixed_none_of_chars s_0x 16 _ 120 (or_intror (or_introl eq_refl)) eq_refl Hc).
  rewrite (prefixed_none_of_chars s_0o 8 _ 111 (or_intror (or_introl eq_refl)) eq_refl Hc).
  rewrite (prefixed_none_of_chars [c_plus] 10 _ c_plus (or_introl eq_refl) eq_refl Hc).
  rewrite (not_mem_of_chars _ null_spellings Hc) by reflexivity.
  rewrite (not_mem_of_chars _ true_spellings Hc) by reflexivity.
  rewrite (not_mem_of_chars _ false_spellings Hc) by reflexivity.
  destruct (Z.leb_spec z i64_max) as [Hle|Hgt].
  - rewrite parse_i64_dec by lia. reflexivity.
  - rewrite parse_i64_dec_big by exact Hgt. unfold parse_float.
    rewrite (not_mem_of_chars _ infnan_spellings Hc) by reflexivity.
    assert (Hnn : (z <? 0)%Z = false) by (unfold i64_max in Hgt; lia).
    unfold dec_of_Z in *. rewrite Hnn in *.
    destruct (dec_of_N_head (Z.to_N z)) as (c & t & He & Hd & _).
    assert (Hex : existsb is_digit (dec_of_N (Z.to_N z)) = true).
    { rewrite He. cbn [existsb]. rewrite Hd. reflexivity. }
    rewrite Hex. rewrite (from_sci_digits _ (Z.to_N z) (dec_of_N_digits _) (dec_of_N_parse _)).
    rewrite Z2N.id by (unfold i64_max in Hgt; lia). reflexivity.
Qed.

(* Every integer of the exact range is emitted as its decimal token, and that token denotes the
   same integer for the YAML/JSON event loader (in-repo logic), for serde_json and for toml
   (models of external code). *)
Theorem int_roundtrip : forall n : Z, (i64_min <= n <= u64_max)%Z ->
  int_token n = Some (dec_of_Z n)
  /\ resolve Plain None (dec_of_Z n) = RNum n 0
  /\ json_serde_int (dec_of_Z n) = SInt n
  /\ ((n <= i64_max)%Z -> toml_int (dec_of_Z n) = TInt n).
Proof.
  intros n H. split; [apply int_token_exact; exact H|].
  split; [apply resolve_plain_dec; exact H|].
  split; [apply json_serde_int_dec; exact H|].
  intro Hle. apply toml_int_dec. lia.
Qed.

(* outside the range serialize_num takes the f64 path *)
Theorem int_outside_range_goes_through_f64 : forall n : Z,
  (n < i64_min \/ u64_max < n)%Z -> serialize_int n = NF64 /\ int_token n = None.
Proof.
  intros n H. pose proof (serialize_int_outside n H) as Hs. split; [exact Hs|].
  unfold int_token. rewrite Hs. reflexivity.
Qed.

Example int_ex_bounds :
  int_token i64_min = Some [45; 57; 50; 50; 51; 51; 55; 50; 48; 51; 54; 56; 53; 52; 55; 55; 53; 56; 48; 56]
  /\ int_token u64_max = Some [49; 56; 52; 52; 54; 55; 52; 52; 48; 55; 51; 55; 48; 57; 53; 53; 49; 54; 49; 53]
  /\ int_token (u64_max + 1) = None /\ int_token (i64_min - 1) = None.
Proof. repeat split; vm_compute; reflexivity. Qed.
