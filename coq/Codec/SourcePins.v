(* C13 — ties between the tables the translator extracts from the sources on every run
   (Gen/Keywords.v) and the hand-written models: the model of escape IS the generated chain of
   replaces, escape_char IS the generated table, and the regexes/patterns the automata were
   written for are the ones in the source. *)
From Coq Require Import List NArith Bool.
Import ListNotations.
From NV Require Import Codec.Escape Codec.Ident.
From NV Require Import Gen.Keywords.
Open Scope N_scope.

Lemma escape_is_generated_chain : forall s, apply_replaces escape_replaces s = Some (escape s).
Proof. intro s. reflexivity. Qed.

Lemma escape_char_is_generated_table : forall c, escape_char c = assoc_N escape_char_table c.
Proof.
  intro c. unfold escape_char, escape_char_table, assoc_N.
  unfold c_sq, c_dq, c_bs, c_pct, c_n, c_r, c_t, c_nl, c_cr, c_tab.
  repeat match goal with |- context [c =? ?k] => destruct (c =? k) end; reflexivity.
Qed.

(* what the automata of Escape.v / Ident.v were written against *)
Definition expected_string_token_patterns : list (bool * list N) :=
  [ (true, [13; 91; 94; 10; 93]);                       (* Error: CR [^LF] *)
    (true, [91; 94; 34; 37; 92; 92; 93; 43]);           (* Literal: [^dquote % backslash backslash]+ *)
    (false, [37]);                                      (* Literal: % *)
    (false, [34]);                                      (* DoubleQuote *)
    (false, [37; 123]);                                 (* Interpolation: %{ *)
    (true, [92; 92; 46]);                               (* EscapedChar: backslash backslash . *)
    (true, [92; 92; 120; 91; 65; 45; 70; 97; 45; 102; 48; 45; 57; 93;
            91; 65; 45; 70; 97; 45; 102; 48; 45; 57; 93]) ].   (* EscapedAscii *)
(* ^_*[a-zA-Z][_a-zA-Z0-9-]*$ *)
Definition expected_quoting_regex : list N :=
  [94; 95; 42; 91; 97; 45; 122; 65; 45; 90; 93; 91; 95; 97; 45; 122; 65; 45; 90; 48; 45; 57; 45; 93; 42; 36].
(* _*[a-zA-Z][_a-zA-Z0-9-']* *)
Definition expected_ident_regex : list N :=
  [95; 42; 91; 97; 45; 122; 65; 45; 90; 93; 91; 95; 97; 45; 122; 65; 45; 90; 48; 45; 57; 45; 39; 93; 42].

Lemma source_patterns_pinned :
  string_token_patterns = expected_string_token_patterns
  /\ quoting_regex_src = expected_quoting_regex
  /\ ident_regex_src = expected_ident_regex.
Proof. repeat split; reflexivity. Qed.

Fixpoint str_list_eqb (a b : list N) : bool :=
  match a, b with
  | [], [] => true
  | x :: a', y :: b' => (x =? y) && str_list_eqb a' b'
  | _, _ => false
  end.

(* function bodies (whitespace removed) the models were read from; compared as text *)
Definition expected_ident_quoted_body : list N :=
  [108;101;116;105;100;101;110;116;61;105;100;101;110;116;46;105;110;116;111;40;41;59;108;101;116;108;97;98;101;108;61;105;100;101;110;116;46;108;97;98;101;108;40;41;59;105;102;81;85;79;84;73;78;71;95;82;69;71;69;88;46;105;115;95;109;97;116;99;104;40;108;97;98;101;108;41;38;38;33;75;69;89;87;79;82;68;83;46;99;111;110;116;97;105;110;115;40;38;108;97;98;101;108;41;123;83;116;114;105;110;103;58;58;102;114;111;109;40;108;97;98;101;108;41;125;101;108;115;101;123;102;111;114;109;97;116;33;40;34;92;34;123;125;92;34;34;44;101;115;99;97;112;101;40;108;97;98;101;108;41;41;125].
Definition expected_escape_ascii_body : list N :=
  [108;101;116;99;111;100;101;61;117;56;58;58;102;114;111;109;95;115;116;114;95;114;97;100;105;120;40;99;111;100;101;44;49;54;41;46;111;107;40;41;63;59;105;102;99;111;100;101;62;48;120;55;70;123;78;111;110;101;125;101;108;115;101;123;83;111;109;101;40;99;111;100;101;97;115;99;104;97;114;41;125].
Definition expected_normalize_body : list N :=
  [115;46;97;115;95;114;101;102;40;41;46;114;101;112;108;97;99;101;40;34;92;114;92;110;34;44;34;92;110;34;41].

Lemma source_bodies_pinned :
  ident_quoted_body_src = expected_ident_quoted_body
  /\ escape_ascii_body_src = expected_escape_ascii_body
  /\ normalize_body_src = expected_normalize_body.
Proof. repeat split; reflexivity. Qed.
