(* C13 (T1) — loaders_agree: on the event stream of any in-scope JSON document tree the event
   loader of yaml.rs and the serde path build the same value, namely the tree's denotation. *)
From Coq Require Import List NArith ZArith Bool Lia Arith.
Import ListNotations.
From NV Require Import Codec.Escape Codec.EscapeProofs Codec.Ident Codec.IdentProofs Codec.Num
  Codec.NumProofs Codec.YamlScalar Codec.YamlScalarProofs Codec.Loaders.
Open Scope N_scope.

(* ---------------------------------------------------------------- induction on trees *)

Section JtreeInd.
  Variable P : jtree -> Prop.
  Hypothesis Hnull : P JNull.
  Hypothesis Hbool : forall b, P (JBool b).
  Hypothesis Hint : forall z, P (JInt z).
  Hypothesis Hstr : forall s, P (JStr s).
  Hypothesis Harr : forall l, Forall P l -> P (JArr l).
  Hypothesis Hobj : forall fs, Forall (fun kv => P (snd kv)) fs -> P (JObj fs).

  Fixpoint jtree_ind' (t : jtree) : P t :=
    match t with
    | JNull => Hnull
    | JBool b => Hbool b
    | JInt z => Hint z
    | JStr s => Hstr s
    | JArr l =>
        Harr l ((fix go (l : list jtree) : Forall P l :=
                   match l with
                   | [] => Forall_nil _
                   | x :: tl => Forall_cons _ (jtree_ind' x) (go tl)
                   end) l)
    | JObj fs =>
        Hobj fs ((fix go (fs : list (str * jtree)) : Forall (fun kv => P (snd kv)) fs :=
                    match fs with
                    | [] => Forall_nil _
                    | kv :: tl => Forall_cons _ (jtree_ind' (snd kv)) (go tl)
                    end) fs)
    end.
End JtreeInd.

(* ---------------------------------------------------------------- the event loader *)

Definition run (evs : list ev) (st : lstate) : lstate := fold_left (fun st e => on_event e st) evs st.

Lemma run_app a b st : run (a ++ b) st = run b (run a st).
Proof. unfold run. apply fold_left_app. Qed.

(* a state in which the next event starts a value *)
Definition accepting (st : lstate) : Prop :=
  failed st = false /\
  match stack st with
  | NMap _ None :: _ => False
  | NScalar _ :: _ => False
  | _ => True
  end.

Lemma on_scalar_value text sty st v :
  accepting st -> dv_of_sres (resolve sty None text) = Some v -> on_scalar text sty st = push_node v st.
Proof.
  intros [Hf Hs] Hr. unfold on_scalar. rewrite Hr.
  destruct (stack st) as [|[items|fs [k|]|w] tl]; try reflexivity; contradiction.
Qed.

Lemma resolve_true : resolve Plain None s_true = RBool true.
Proof. reflexivity. Qed.
Lemma resolve_false : resolve Plain None s_false = RBool false.
Proof. reflexivity. Qed.
Lemma resolve_null : resolve Plain None s_null = RNull.
Proof. reflexivity. Qed.

Lemma st_eta st : {| stack := stack st; docs_rev := docs_rev st; failed := failed st |} = st.
Proof. destruct st; reflexivity. Qed.

Lemma push_node_failed v st : accepting st -> failed (push_node v st) = false.
Proof.
  intros [Hf Hs]. unfold push_node.
  destruct (stack st) as [|[items|fs [k|]|w] tl]; cbn [failed]; try exact Hf; contradiction.
Qed.

Lemma run_cons e evs st : run (e :: evs) st = run evs (on_event e st).
Proof. reflexivity. Qed.

Lemma on_event_nf e st : failed st = false ->
  on_event e st =
  match e with
  | EBeginObj => {| stack := NMap [] None :: stack st; docs_rev := docs_rev st; failed := false |}
  | EBeginArr => {| stack := NArr [] :: stack st; docs_rev := docs_rev st; failed := false |}
  | EEndObj | EEndArr =>
      match stack st with
      | n :: tl => push_node (finish n) {| stack := tl; docs_rev := docs_rev st; failed := false |}
      | [] => {| stack := []; docs_rev := docs_rev st; failed := true |}
      end
  | EStr s => on_scalar s DoubleQuoted st
  | ENum tok => on_scalar tok Plain st
  | EBool b => on_scalar (if b then s_true else s_false) Plain st
  | ENull => on_scalar s_null Plain st
  end.
Proof. intro H. unfold on_event. rewrite H. reflexivity. Qed.

Definition value_ok (t : jtree) : Prop :=
  in_scope t = true ->
  forall st rest, accepting st -> run (events t ++ rest) st = run rest (push_node (denote t) st).

Lemma loader_elems st : forall l', Forall value_ok l' -> forallb in_scope l' = true ->
  forall acc rest',
    run (flat_map events l' ++ rest') {| stack := NArr acc :: stack st; docs_rev := docs_rev st; failed := false |}
    = run rest' {| stack := NArr (rev (map denote l') ++ acc) :: stack st; docs_rev := docs_rev st; failed := false |}.
Proof.
  induction l' as [|x l' IH']; intros HF Hs' acc rest'; [reflexivity|].
  inversion HF as [|x' l'' Hx Hl']; subst. cbn [forallb] in Hs'. apply andb_true_iff in Hs'.
  destruct Hs' as [Hsx Hsl]. cbn [flat_map]. rewrite <- app_assoc.
  rewrite (Hx Hsx) by (split; [reflexivity | exact I]).
  unfold push_node. cbn [stack docs_rev failed]. rewrite (IH' Hl' Hsl).
  cbn [map rev]. rewrite <- app_assoc. reflexivity.
Qed.

Lemma loader_fields st : forall fs', Forall (fun kv => value_ok (snd kv)) fs' ->
  forallb (fun kv => in_scope (snd kv)) fs' = true ->
  forall acc rest',
    run (flat_map (fun kv => EStr (fst kv) :: events (snd kv)) fs' ++ rest')
        {| stack := NMap acc None :: stack st; docs_rev := docs_rev st; failed := false |}
    = run rest' {| stack := NMap (rev (map (fun kv => (fst kv, denote (snd kv))) fs') ++ acc) None :: stack st;
                   docs_rev := docs_rev st; failed := false |}.
Proof.
  induction fs' as [|[k v] fs' IH']; intros HF Hs' acc rest'; [reflexivity|].
  inversion HF as [|x' l'' Hx Hl']; subst. cbn [forallb snd] in Hs'. apply andb_true_iff in Hs'.
  destruct Hs' as [Hsx Hsl]. cbn [flat_map fst snd]. cbn [app]. rewrite run_cons.
  rewrite on_event_nf by reflexivity. cbv iota. unfold on_scalar. cbn [stack docs_rev failed].
  rewrite <- app_assoc. cbn [snd] in Hx.
  rewrite (Hx Hsx) by (split; [reflexivity | exact I]).
  unfold push_node. cbn [stack docs_rev failed]. rewrite (IH' Hl' Hsl).
  cbn [map rev fst snd]. rewrite <- app_assoc. reflexivity.
Qed.

Lemma loader_value : forall t, value_ok t.
Proof.
  induction t as [| b | z | s | l IHl | fs IHfs] using jtree_ind'; intros Hsc st rest Hacc;
    pose proof Hacc as [Hf Hs].
  - cbn [events app]. rewrite run_cons, (on_event_nf _ _ Hf). cbv iota.
    rewrite (on_scalar_value s_null Plain st DNull Hacc) by (rewrite resolve_null; reflexivity). reflexivity.
  - cbn [events app]. rewrite run_cons, (on_event_nf _ _ Hf). cbv iota. destruct b.
    + rewrite (on_scalar_value s_true Plain st (DBool true) Hacc) by (rewrite resolve_true; reflexivity). reflexivity.
    + rewrite (on_scalar_value s_false Plain st (DBool false) Hacc) by (rewrite resolve_false; reflexivity). reflexivity.
  - cbn [events app]. rewrite run_cons, (on_event_nf _ _ Hf). cbv iota.
    cbn [in_scope] in Hsc. apply andb_true_iff in Hsc. destruct Hsc as [H1 H2].
    apply Z.leb_le in H1. apply Z.leb_le in H2.
    rewrite (on_scalar_value (dec_of_Z z) Plain st (DNum z 0) Hacc).
    + reflexivity.
    + cbn [resolve]. rewrite resolve_plain_dec by lia. reflexivity.
  - cbn [events app]. rewrite run_cons, (on_event_nf _ _ Hf). cbv iota.
    rewrite (on_scalar_value s DoubleQuoted st (DStr s) Hacc) by reflexivity. reflexivity.
  - (* arrays *)
    cbn [in_scope] in Hsc. cbn [events denote]. cbn [app]. rewrite run_cons, (on_event_nf _ _ Hf). cbv iota.
    rewrite <- app_assoc. cbn [app].
    rewrite (loader_elems st l IHl Hsc [] (EEndArr :: rest)). rewrite app_nil_r.
    rewrite run_cons, on_event_nf by reflexivity. cbv iota. cbn [stack docs_rev finish].
    rewrite rev_involutive. rewrite <- Hf. rewrite st_eta. reflexivity.
  - (* objects *)
    cbn [in_scope] in Hsc. apply andb_true_iff in Hsc. destruct Hsc as [_ Hsc].
    cbn [events denote]. cbn [app]. rewrite run_cons, (on_event_nf _ _ Hf). cbv iota.
    rewrite <- app_assoc. cbn [app].
    rewrite (loader_fields st fs IHfs Hsc [] (EEndObj :: rest)). rewrite app_nil_r.
    rewrite run_cons, on_event_nf by reflexivity. cbv iota. cbn [stack docs_rev finish].
    rewrite rev_involutive. rewrite <- Hf. rewrite st_eta. reflexivity.
Qed.

Theorem loader_run_events : forall t, in_scope t = true -> loader_run (events t) = Some (denote t).
Proof.
  intros t Hsc. unfold loader_run. fold (run (events t) linit).
  rewrite <- (app_nil_r (events t)).
  rewrite (loader_value t Hsc linit []) by (split; [reflexivity | exact I]).
  reflexivity.
Qed.

(* ---------------------------------------------------------------- the serde path *)

Fixpoint height (t : jtree) : nat :=
  match t with
  | JArr l => S (fold_right (fun x m => Nat.max (height x) m) O l)
  | JObj fs => S (fold_right (fun kv m => Nat.max (height (snd kv)) m) O fs)
  | _ => O
  end.

Lemma events_head t : exists e tl, events t = e :: tl /\ e <> EEndArr /\ e <> EEndObj.
Proof. destruct t; eexists; eexists; (split; [reflexivity | split; discriminate]). Qed.

Lemma events_nonempty_length t : (1 <= List.length (events t))%nat.
Proof. destruct (events_head t) as (e & tl & -> & _). cbn. lia. Qed.

Lemma flat_map_events_length l : (List.length l <= List.length (flat_map events l))%nat.
Proof.
  induction l as [|x l IH]; [cbn; lia|]. cbn [flat_map List.length]. rewrite app_length.
  pose proof (events_nonempty_length x). lia.
Qed.

Lemma str_eqb_sym a b : str_eqb a b = str_eqb b a.
Proof.
  revert b. induction a as [|x a IH]; intros [|y b]; try reflexivity.
  cbn [str_eqb]. rewrite N.eqb_sym. rewrite IH. reflexivity.
Qed.

Lemma imap_insert_fresh k v acc :
  mem k (map fst acc) = false -> imap_insert k v acc = acc ++ [(k, v)].
Proof.
  induction acc as [|[k' v'] acc IH]; intro H; [reflexivity|].
  cbn [map fst mem existsb] in H. unfold mem in H. cbn [existsb] in H.
  apply orb_false_iff in H. destruct H as [H1 H2]. cbn [imap_insert]. rewrite H1.
  cbn [app]. f_equal. apply IH. exact H2.
Qed.

Lemma mem_app_false k a b : mem k a = false -> mem k b = false -> mem k (a ++ b) = false.
Proof. unfold mem. intros Ha Hb. rewrite existsb_app. rewrite Ha, Hb. reflexivity. Qed.

Lemma serde_number_dec z : (i64_min <= z <= u64_max)%Z -> serde_number (dec_of_Z z) = DNum z 0.
Proof. intro H. unfold serde_number. rewrite json_serde_int_dec by exact H. reflexivity. Qed.

Lemma serde_value_events : forall t, in_scope t = true ->
  forall fuel rest, (height t < fuel)%nat -> serde_value fuel (events t ++ rest) = Some (denote t, rest).
Proof.
  induction t as [| b | z | s | l IHl | fs IHfs] using jtree_ind'; intros Hsc fuel rest Hfuel;
    (destruct fuel as [|f]; [inversion Hfuel|]).
  - reflexivity.
  - reflexivity.
  - cbn [events app serde_value]. cbn [in_scope] in Hsc. apply andb_true_iff in Hsc. destruct Hsc as [H1 H2].
    apply Z.leb_le in H1. apply Z.leb_le in H2. rewrite serde_number_dec by lia. reflexivity.
  - reflexivity.
  - cbn [in_scope] in Hsc. cbn [events denote height] in *. cbn [app serde_value].
    rewrite <- app_assoc. cbn [app].
    assert (Hlist : forall l', Forall (fun t => in_scope t = true -> forall fuel rest, (height t < fuel)%nat ->
                                  serde_value fuel (events t ++ rest) = Some (denote t, rest)) l' ->
                     forallb in_scope l' = true ->
                     (fold_right (fun x m => Nat.max (height x) m) O l' < f)%nat ->
                     forall n acc rest', (List.length l' < n)%nat ->
                       serde_elems (serde_value f) n (flat_map events l' ++ EEndArr :: rest') acc
                       = Some (DArr (rev acc ++ map denote l'), rest')).
    { induction l' as [|x l' IH']; intros HF Hs' Hh n acc rest' Hn.
      - destruct n as [|n]; [inversion Hn|]. cbn [flat_map app serde_elems map]. rewrite app_nil_r. reflexivity.
      - inversion HF as [|x' l'' Hx Hl']; subst. cbn [forallb] in Hs'. apply andb_true_iff in Hs'.
        destruct Hs' as [Hsx Hsl]. cbn [fold_right] in Hh. destruct n as [|n]; [inversion Hn|].
        cbn [flat_map]. rewrite <- app_assoc.
        destruct (events_head x) as (e & tl & He & Hne1 & Hne2).
        cbn [serde_elems]. rewrite He. cbn [app].
        assert (Hm : match e :: tl ++ flat_map events l' ++ EEndArr :: rest' with
                     | EEndArr :: r' => Some (DArr (rev acc), r')
                     | _ => match serde_value f (e :: tl ++ flat_map events l' ++ EEndArr :: rest') with
                            | Some (v, r') => serde_elems (serde_value f) n r' (v :: acc)
                            | None => None
                            end
                     end
                     = match serde_value f ((e :: tl) ++ flat_map events l' ++ EEndArr :: rest') with
                       | Some (v, r') => serde_elems (serde_value f) n r' (v :: acc)
                       | None => None
                       end).
        { destruct e; try reflexivity; contradiction. }
        rewrite Hm. rewrite <- He. rewrite (Hx Hsx) by lia.
        rewrite (IH' Hl' Hsl) by (cbn [List.length] in Hn; lia).
        cbn [rev map]. rewrite <- app_assoc. reflexivity. }
    rewrite (Hlist l IHl Hsc) by
      (try lia; rewrite app_length; cbn [List.length]; pose proof (flat_map_events_length l); lia).
    reflexivity.
  - cbn [in_scope] in Hsc. apply andb_true_iff in Hsc. destruct Hsc as [Hkeys Hsc].
    cbn [events denote height] in *. cbn [app serde_value]. rewrite <- app_assoc. cbn [app].
    assert (Hlist : forall fs', Forall (fun kv => in_scope (snd kv) = true -> forall fuel rest, (height (snd kv) < fuel)%nat ->
                                  serde_value fuel (events (snd kv) ++ rest) = Some (denote (snd kv), rest)) fs' ->
                     forallb (fun kv => in_scope (snd kv)) fs' = true ->
                     keys_distinct (map fst fs') = true ->
                     (fold_right (fun kv m => Nat.max (height (snd kv)) m) O fs' < f)%nat ->
                     forall n acc rest', (List.length fs' < n)%nat ->
                       (forall k, In k (map fst fs') -> mem k (map fst acc) = false) ->
                       serde_fields (serde_value f) n
                         (flat_map (fun kv => EStr (fst kv) :: events (snd kv)) fs' ++ EEndObj :: rest') acc
                       = Some (DRec (acc ++ map (fun kv => (fst kv, denote (snd kv))) fs'), rest')).
    { induction fs' as [|[k v] fs' IH']; intros HF Hs' Hk Hh n acc rest' Hn Hfresh.
      - destruct n as [|n]; [inversion Hn|]. cbn [flat_map app serde_fields map]. rewrite app_nil_r. reflexivity.
      - inversion HF as [|x' l'' Hx Hl']; subst. cbn [forallb snd] in Hs'. apply andb_true_iff in Hs'.
        destruct Hs' as [Hsx Hsl]. cbn [fold_right snd] in Hh. destruct n as [|n]; [inversion Hn|].
        cbn [map fst keys_distinct] in Hk. apply andb_true_iff in Hk. destruct Hk as [Hk1 Hk2].
        apply negb_true_iff in Hk1.
        cbn [flat_map fst snd]. cbn [app serde_fields]. rewrite <- app_assoc. cbn [snd] in Hx.
        rewrite (Hx Hsx) by lia.
        rewrite imap_insert_fresh by (apply Hfresh; left; reflexivity).
        rewrite (IH' Hl' Hsl Hk2 ltac:(lia) n (acc ++ [(k, denote v)]) rest' ltac:(cbn [List.length] in Hn; lia)).
        + cbn [map fst snd]. rewrite <- app_assoc. reflexivity.
        + intros k' Hk'. rewrite map_app. apply mem_app_false.
          * apply Hfresh. right. exact Hk'.
          * cbn [map fst]. unfold mem. cbn [existsb]. rewrite orb_false_r.
            (* k' is a later key, so it differs from k *)
            destruct (str_eqb k' k) eqn:E; [|reflexivity].
            apply str_eqb_eq in E. subst k'. exfalso.
            assert (Hm : mem k (map fst fs') = true).
            { unfold mem. apply existsb_exists. exists k. split; [exact Hk' | apply str_eqb_refl]. }
            rewrite Hm in Hk1. discriminate. }
    rewrite (Hlist fs IHfs Hsc Hkeys).
    + reflexivity.
    + lia.
    + rewrite app_length. cbn [List.length].
      assert (Hl : (List.length fs <= List.length (flat_map (fun kv => EStr (fst kv) :: events (snd kv)) fs))%nat).
      { clear. induction fs as [|kv fs IH]; [cbn; lia|]. cbn [flat_map List.length app]. rewrite app_length. lia. }
      lia.
    + intros k _. reflexivity.
Qed.

Lemma height_lt_events t : (height t < List.length (events t))%nat.
Proof.
  induction t as [| b | z | s | l IHl | fs IHfs] using jtree_ind'; try (cbn; lia).
  - cbn [events height List.length]. rewrite app_length. cbn [List.length].
    assert (H : (fold_right (fun x m => Nat.max (height x) m) O l <= List.length (flat_map events l))%nat).
    { induction IHl as [|x l' Hx Hl' IH]; [cbn; lia|]. cbn [fold_right flat_map]. rewrite app_length. lia. }
    lia.
  - cbn [events height List.length]. rewrite app_length. cbn [List.length].
    assert (H : (fold_right (fun kv m => Nat.max (height (snd kv)) m) O fs
                 <= List.length (flat_map (fun kv => EStr (fst kv) :: events (snd kv)) fs))%nat).
    { induction IHfs as [|x l' Hx Hl' IH]; [cbn; lia|]. cbn [fold_right flat_map List.length app]. rewrite app_length. lia. }
    lia.
Qed.

Theorem serde_run_events : forall t, in_scope t = true -> serde_run (events t) = Some (denote t).
Proof.
  intros t Hsc. unfold serde_run. rewrite <- (app_nil_r (events t)) at 2.
  rewrite (serde_value_events t Hsc) by (pose proof (height_lt_events t); lia).
  reflexivity.
Qed.

(* T1: both loaders denote the same value on the same (in-scope) document *)
Theorem loaders_agree : forall t, in_scope t = true ->
  loader_run (events t) = Some (denote t) /\ serde_run (events t) = Some (denote t).
Proof. intros t H. split; [apply loader_run_events | apply serde_run_events]; exact H. Qed.

(* the scope condition is needed: with a duplicate key the two loaders differ (the event loader
   keeps both definitions, which the evaluator then merges; serde keeps the last) *)
Definition dup_doc : jtree := JObj [([97], JInt 1); ([97], JInt 2)].
Example loaders_disagree_on_duplicate_keys :
  loader_run (events dup_doc) = Some (DRec [([97], DNum 1 0); ([97], DNum 2 0)])
  /\ serde_run (events dup_doc) = Some (DRec [([97], DNum 2 0)]).
Proof. split; vm_compute; reflexivity. Qed.

Example loaders_agree_ex :
  let t := JObj [([97], JArr [JInt (-5); JStr [34; 37]; JNull]); ([105; 102], JObj []); ([], JInt 18446744073709551615)] in
  in_scope t = true /\ loader_run (events t) = serde_run (events t).
Proof. split; vm_compute; reflexivity. Qed.
