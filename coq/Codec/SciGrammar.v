(* C13 — from_sci_grammar: the strings Rational::from_sci_string accepts (as modelled by
   YamlScalar.from_sci) are exactly those of the grammar YamlScalar.sci_grammar. *)
From Coq Require Import List NArith ZArith Bool Lia ZifyBool ZifyN ZifyNat.
Import ListNotations.
From NV Require Import Codec.Escape Codec.EscapeProofs Codec.Ident Codec.IdentProofs Codec.Num
  Codec.NumProofs Codec.YamlScalar Codec.YamlScalarProofs.
Open Scope N_scope.

(* ---------------------------------------------------------------- integers *)

Lemma radix_digit_lt10 c d : radix_digit c = Some d -> d < 10 -> is_digit c = true.
Proof.
  unfold radix_digit. destruct (is_digit c) eqn:Hd; [reflexivity|].
  destruct ((97 <=? c) && (c <=? 122)) eqn:H1.
  - intros H Hlt. inversion H. subst d. lia.
  - destruct ((65 <=? c) && (c <=? 90)) eqn:H2; [|discriminate].
    intros H Hlt. inversion H. subst d. lia.
Qed.

Lemma parse_digits_digits : forall s acc n, parse_digits 10 s acc = Some n -> forallb is_digit s = true.
Proof.
  induction s as [|c s IH]; intros acc n H; [reflexivity|].
  cbn [parse_digits] in H. destruct (radix_digit c) as [d|] eqn:Hr; [|discriminate].
  destruct (d <? 10) eqn:Hlt; [|discriminate].
  cbn [forallb]. rewrite (radix_digit_lt10 c d Hr) by lia. exact (IH _ _ H).
Qed.

Lemma parse_digits_total : forall s acc, forallb is_digit s = true -> exists n, parse_digits 10 s acc = Some n.
Proof.
  induction s as [|c s IH]; intros acc H; [eexists; reflexivity|].
  cbn [forallb] in H. apply andb_true_iff in H. destruct H as [Hc Hs].
  cbn [parse_digits]. unfold radix_digit. rewrite Hc.
  apply is_digit_spec in Hc. assert (Hlt : (c - 48 <? 10) = true) by lia. rewrite Hlt. apply IH. exact Hs.
Qed.

Lemma parse_nat_some_iff s : is_some (parse_nat 10 s) = all_digits s.
Proof.
  unfold parse_nat, all_digits. destruct s as [|c t]; [reflexivity|].
  destruct (forallb is_digit (c :: t)) eqn:Hd.
  - destruct (parse_digits_total (c :: t) 0 Hd) as [n Hn]. rewrite Hn. reflexivity.
  - destruct (parse_digits 10 (c :: t) 0) eqn:Hp; [|reflexivity].
    rewrite (parse_digits_digits _ _ _ Hp) in Hd. discriminate.
Qed.

Lemma nat_string_some_iff s : is_some (nat_string s) = all_digits s.
Proof.
  unfold nat_string. destruct (all_digits s) eqn:Ha; [|reflexivity].
  pose proof (parse_nat_some_iff s) as H. rewrite Ha in H.
  destruct (parse_nat 10 s); [reflexivity | discriminate].
Qed.

Lemma all_digits_head c t : all_digits (c :: t) = true -> is_digit c = true.
Proof. unfold all_digits. cbn [forallb]. intro H. apply andb_true_iff in H. exact (proj1 H). Qed.

Lemma sign_not_digit c : is_sign c = true -> is_digit c = false.
Proof. unfold is_sign, is_digit, c_plus, c_minus. lia. Qed.

(* Integer::parse_int accepts exactly  [+-]? D+ *)
Lemma sci_parse_int_some_iff s : is_some (sci_parse_int s) = all_digits (strip_sign s).
Proof.
  unfold sci_parse_int, strip_sign, is_sign. destruct s as [|c t]; [reflexivity|].
  destruct (c =? c_plus) eqn:Hp; cbn [orb].
  - destruct t as [|d t']; [reflexivity|].
    destruct ((d =? c_plus) || (d =? c_minus)) eqn:Hs.
    + symmetry. destruct (all_digits (d :: t')) eqn:Ha; [|reflexivity].
      apply all_digits_head in Ha. rewrite (sign_not_digit d) in Ha by exact Hs. discriminate.
    + apply nat_string_some_iff.
  - destruct (c =? c_minus) eqn:Hm.
    + destruct t as [|d t']; [reflexivity|].
      destruct (d =? c_plus) eqn:Hs.
      * symmetry. destruct (all_digits (d :: t')) eqn:Ha; [|reflexivity].
        apply all_digits_head in Ha. rewrite (sign_not_digit d) in Ha by (unfold is_sign; rewrite Hs; reflexivity).
        discriminate.
      * pose proof (nat_string_some_iff (d :: t')) as H. destruct (nat_string (d :: t')); exact H.
    + apply nat_string_some_iff.
Qed.

(* ---------------------------------------------------------------- the mantissa *)

(* the part of from_sci after the exponent has been read *)
Definition mant_parse (mant : str) (e0 : Z) : option (Z * Z) :=
  let '(a, b) := span (fun c => negb (c =? c_dot)) mant in
  match b with
  | [] => option_map (fun m => (m, e0)) (sci_parse_int a)
  | _ :: frac =>
      match frac with
      | [] => option_map (fun m => (m, e0)) (sci_parse_int a)
      | d :: _ =>
          if (d =? c_plus) || (d =? c_minus) then None
          else
            let e1 := (e0 - Z.of_nat (List.length frac))%Z in
            if (e1 <? i64_min)%Z then None
            else option_map (fun m => (m, e1)) (sci_parse_int (a ++ frac))
      end
  end.

Lemma from_sci_unfold v :
  from_sci v =
  match split_exp v with
  | None => None
  | Some (mant, ex) =>
      match (match ex with None => Some 0%Z | Some x => parse_i64 x end) with
      | None => None
      | Some e0 => mant_parse mant e0
      end
  end.
Proof. reflexivity. Qed.

Lemma is_some_option_map {A B} (f : A -> B) o : is_some (option_map f o) = is_some o.
Proof. destruct o; reflexivity. Qed.

Lemma digit_not_dot' c : is_digit c = true -> negb (c =? c_dot) = true.
Proof. intro H. rewrite (digit_not_dot c H). reflexivity. Qed.

Lemma sign_not_dot c : is_sign c = true -> negb (c =? c_dot) = true.
Proof. unfold is_sign, c_plus, c_minus, c_dot. lia. Qed.

Lemma dot_not_digit : is_digit c_dot = false.
Proof. reflexivity. Qed.

Lemma dot_not_sign : is_sign c_dot = false.
Proof. reflexivity. Qed.

Lemma forallb_app_iff {A} (p : A -> bool) x y : forallb p (x ++ y) = forallb p x && forallb p y.
Proof. apply forallb_app. Qed.

Lemma all_digits_spec s : all_digits s = forallb is_digit s && negb (is_nil s).
Proof. unfold all_digits. destruct s; [reflexivity|]. cbn [is_nil negb]. rewrite andb_true_r. reflexivity. Qed.

Lemma strip_sign_digits s : forallb is_digit s = true -> strip_sign s = s.
Proof.
  destruct s as [|c t]; [reflexivity|]. cbn [forallb]. intro H. apply andb_true_iff in H.
  unfold strip_sign. destruct (is_sign c) eqn:Hs; [|reflexivity].
  rewrite (sign_not_digit c Hs) in H. destruct H; discriminate.
Qed.

(* decomposition of a string into an optional sign and the rest *)
Lemma sign_decomp s : exists sg, s = sg ++ strip_sign s /\ (sg = [] \/ exists c, sg = [c] /\ is_sign c = true)
                                  /\ (sg = [] -> match s with c :: _ => is_sign c = false | [] => True end).
Proof.
  destruct s as [|c t].
  - exists []. split; [reflexivity|]. split; [left; reflexivity | intros _; exact I].
  - unfold strip_sign. destruct (is_sign c) eqn:Hs.
    + exists [c]. split; [reflexivity|]. split; [right; exists c; split; [reflexivity | exact Hs] | intro H; discriminate].
    + exists []. split; [reflexivity|]. split; [left; reflexivity | intros _; reflexivity].
Qed.

Lemma strip_sign_app_sign c rest : is_sign c = true -> strip_sign ([c] ++ rest) = rest.
Proof. intro H. cbn [app strip_sign]. rewrite H. reflexivity. Qed.

Lemma strip_sign_nosign s : match s with c :: _ => is_sign c = false | [] => True end -> strip_sign s = s.
Proof. destruct s as [|c t]; [reflexivity|]. intro H. unfold strip_sign. rewrite H. reflexivity. Qed.

(* grammar -> parser *)
Lemma mant_parse_of_grammar mant nf e0 :
  mantissa_frac mant = Some nf ->
  is_some (mant_parse mant e0) = (nf =? 0)%nat || (i64_min <=? e0 - Z.of_nat nf)%Z.
Proof.
  unfold mantissa_frac. intro H.
  destruct (sign_decomp mant) as (sg & Hm & Hsg & Hno).
  pose proof (span_eq is_digit (strip_sign mant)) as Heq.
  pose proof (span_fst_all is_digit (strip_sign mant)) as Hall.
  pose proof (span_snd_head is_digit (strip_sign mant)) as Hhd.
  destruct (span is_digit (strip_sign mant)) as [ip r]. cbn [fst snd] in *.
  assert (Hsgnd : forall x, In x sg -> negb (x =? c_dot) = true).
  { intros x Hx. destruct Hsg as [->|(c & -> & Hc)]; [contradiction|].
    destruct Hx as [<-|[]]. apply sign_not_dot. exact Hc. }
  assert (Hipnd : forall x, In x (sg ++ ip) -> negb (x =? c_dot) = true).
  { intros x Hx. apply in_app_or in Hx. destruct Hx as [Hx|Hx]; [apply Hsgnd; exact Hx|].
    apply digit_not_dot'. apply Hall. exact Hx. }
  assert (Hstrip : forall tl, (ip <> [] \/ match tl with d :: _ => is_digit d = true | [] => False end) ->
                    forallb is_digit tl = true -> strip_sign ((sg ++ ip) ++ tl) = ip ++ tl).
  { intros tl Hne Htl. rewrite <- app_assoc. destruct Hsg as [->|(c & -> & Hc)].
    - cbn [app]. apply strip_sign_nosign. destruct ip as [|x ip'].
      + cbn [app]. destruct tl as [|d tl']; [destruct Hne as [Hne|[]]; contradiction|].
        destruct Hne as [Hne|Hd]; [contradiction|].
        destruct (is_sign d) eqn:Hs; [|reflexivity]. rewrite (sign_not_digit d Hs) in Hd. discriminate.
      + cbn [app]. specialize (Hall x (or_introl eq_refl)).
        destruct (is_sign x) eqn:Hs; [|reflexivity]. rewrite (sign_not_digit x Hs) in Hall. discriminate.
    - apply strip_sign_app_sign. exact Hc. }
  unfold mant_parse. rewrite Hm. rewrite Heq. rewrite app_assoc.
  destruct r as [|c fp].
  - (* D+ *)
    destruct ip as [|x ip'] eqn:Hip; [discriminate|]. inversion H. subst nf.
    rewrite app_nil_r. rewrite <- Hip in *.
    rewrite (span_all _ (sg ++ ip) Hipnd). rewrite is_some_option_map.
    rewrite sci_parse_int_some_iff.
    rewrite <- (app_nil_r (sg ++ ip)). rewrite (Hstrip []) by (try reflexivity; left; rewrite Hip; discriminate).
    rewrite app_nil_r. rewrite all_digits_spec.
    rewrite (proj2 (forallb_forall is_digit ip) Hall). rewrite Hip. reflexivity.
  - destruct ((c =? c_dot) && forallb is_digit fp && negb (is_nil ip && is_nil fp)) eqn:Hc; [|discriminate].
    inversion H. subst nf. apply andb_true_iff in Hc. destruct Hc as [Hc Hne].
    apply andb_true_iff in Hc. destruct Hc as [Hdot Hfp]. apply N.eqb_eq in Hdot. subst c.
    rewrite (span_app _ (sg ++ ip) (c_dot :: fp) Hipnd) by reflexivity.
    destruct fp as [|d fp'].
    + (* D+ . *)
      cbn [List.length Nat.eqb orb]. rewrite is_some_option_map. rewrite sci_parse_int_some_iff.
      destruct ip as [|x ip'] eqn:Hip; [discriminate|]. rewrite <- Hip in *.
      rewrite <- (app_nil_r (sg ++ ip)). rewrite (Hstrip []) by (try reflexivity; left; rewrite Hip; discriminate).
      rewrite app_nil_r. rewrite all_digits_spec.
      rewrite (proj2 (forallb_forall is_digit ip) Hall). rewrite Hip. reflexivity.
    + (* D* . D+ *)
      pose proof Hfp as Hfp0. cbn [forallb] in Hfp. pose proof Hfp as Hfp'. apply andb_true_iff in Hfp'. destruct Hfp' as [Hd Hfp''].
      assert (Hns : (d =? c_plus) || (d =? c_minus) = false).
      { destruct ((d =? c_plus) || (d =? c_minus)) eqn:E; [|reflexivity].
        rewrite (sign_not_digit d E) in Hd. discriminate. }
      rewrite Hns. cbn [Nat.eqb orb].
      assert (Hz : (List.length (d :: fp') =? 0)%nat = false) by reflexivity. rewrite Hz. cbn [orb].
      destruct (e0 - Z.of_nat (List.length (d :: fp')) <? i64_min)%Z eqn:He.
      * symmetry. apply Z.leb_gt. apply Z.ltb_lt in He. exact He.
      * rewrite is_some_option_map. rewrite sci_parse_int_some_iff.
        rewrite (Hstrip (d :: fp')) by (try exact Hfp0; right; exact Hd).
        rewrite all_digits_spec. rewrite forallb_app.
        rewrite (proj2 (forallb_forall is_digit ip) Hall). rewrite Hfp0.
        assert (Hnn : is_nil (ip ++ d :: fp') = false) by (destruct ip; reflexivity). rewrite Hnn.
        cbn [andb negb]. symmetry. apply Z.leb_le. apply Z.ltb_ge in He. exact He.
Qed.

(* parser -> grammar *)
Lemma strip_sign_app a b : a <> [] -> strip_sign (a ++ b) = strip_sign a ++ b.
Proof. destruct a as [|c a']; [contradiction|]. intros _. cbn [app strip_sign]. destruct (is_sign c); reflexivity. Qed.

Lemma all_digits_true s : all_digits s = true -> forallb is_digit s = true /\ s <> [].
Proof. rewrite all_digits_spec. intro H. apply andb_true_iff in H. destruct H as [H1 H2]. split; [exact H1|]. destruct s; [discriminate|discriminate]. Qed.

Lemma span_nodot_snd mant : match snd (span (fun c => negb (c =? c_dot)) mant) with [] => True | c :: _ => c = c_dot end.
Proof.
  pose proof (span_snd_head (fun c => negb (c =? c_dot)) mant) as H.
  destruct (snd (span (fun c => negb (c =? c_dot)) mant)) as [|c t]; [exact I|].
  apply negb_false_iff in H. apply N.eqb_eq in H. exact H.
Qed.

Lemma grammar_of_mant_parse mant e0 :
  is_some (mant_parse mant e0) = true -> exists nf, mantissa_frac mant = Some nf.
Proof.
  unfold mant_parse. pose proof (span_eq (fun c => negb (c =? c_dot)) mant) as Heq.
  pose proof (span_nodot_snd mant) as Hhd.
  destruct (span (fun c => negb (c =? c_dot)) mant) as [a b]. cbn [snd] in Hhd.
  assert (Hsimple : forall tl, (tl = [] \/ tl = [c_dot]) -> mant = a ++ tl ->
                     is_some (option_map (fun m => (m, e0)) (sci_parse_int a)) = true ->
                     exists nf, mantissa_frac mant = Some nf).
  { intros tl Htl Hm Hs. rewrite is_some_option_map, sci_parse_int_some_iff in Hs.
    destruct (all_digits_true _ Hs) as [Hd Hne].
    assert (Ha : a <> []) by (intro E; subst a; apply Hne; reflexivity).
    unfold mantissa_frac. rewrite Hm. rewrite (strip_sign_app a tl Ha).
    rewrite (span_app is_digit (strip_sign a) tl).
    - destruct Htl as [->| ->].
      + destruct (strip_sign a); [contradiction|]. eexists. reflexivity.
      + change (c_dot =? c_dot) with true. cbn [forallb andb is_nil].
        destruct (strip_sign a); [contradiction|]. cbn [is_nil andb negb]. eexists. reflexivity.
    - intros x Hx. exact (proj1 (forallb_forall is_digit _) Hd x Hx).
    - destruct Htl as [->| ->]; [exact I | reflexivity]. }
  destruct b as [|c frac].
  - intro H. apply (Hsimple []); [left; reflexivity | rewrite Heq; reflexivity | exact H].
  - subst c. destruct frac as [|d frac'].
    + intro H. apply (Hsimple [c_dot]); [right; reflexivity | rewrite Heq; reflexivity | exact H].
    + destruct ((d =? c_plus) || (d =? c_minus)) eqn:Hsd; [discriminate|].
      destruct (e0 - Z.of_nat (List.length (d :: frac')) <? i64_min)%Z; [discriminate|].
      intro H. rewrite is_some_option_map, sci_parse_int_some_iff in H.
      unfold mantissa_frac. rewrite Heq.
      destruct a as [|c a'].
      * cbn [app] in H |- *. assert (Hst : strip_sign (d :: frac') = d :: frac').
        { unfold strip_sign. unfold is_sign. rewrite Hsd. reflexivity. }
        rewrite Hst in H. destruct (all_digits_true _ H) as [Hd _].
        unfold strip_sign at 1. rewrite dot_not_sign. cbn [span]. rewrite dot_not_digit.
        change (c_dot =? c_dot) with true. rewrite Hd. cbn [andb is_nil negb]. eexists. reflexivity.
      * rewrite (strip_sign_app (c :: a') (d :: frac')) in H by discriminate.
        destruct (all_digits_true _ H) as [Hd _]. rewrite forallb_app in Hd.
        apply andb_true_iff in Hd. destruct Hd as [Hda Hdf].
        rewrite (strip_sign_app (c :: a') (c_dot :: d :: frac')) by discriminate.
        rewrite (span_app is_digit (strip_sign (c :: a')) (c_dot :: d :: frac')).
        -- change (c_dot =? c_dot) with true. rewrite Hdf. cbn [andb].
           rewrite andb_false_r. cbn [negb]. eexists. reflexivity.
        -- intros x Hx. exact (proj1 (forallb_forall is_digit _) Hda x Hx).
        -- reflexivity.
Qed.

Lemma mant_parse_none_of_grammar mant e0 : mantissa_frac mant = None -> mant_parse mant e0 = None.
Proof.
  intro H. destruct (mant_parse mant e0) eqn:E; [|reflexivity].
  destruct (grammar_of_mant_parse mant e0) as [nf Hnf]; [rewrite E; reflexivity|].
  rewrite H in Hnf. discriminate.
Qed.

(* ---------------------------------------------------------------- the exponent split *)

Definition noe (s : str) : Prop := forall x, In x s -> negb (is_e x) = true.

Lemma split_exp_noe v : noe v -> split_exp v = Some (v, None).
Proof.
  intro H. unfold split_exp. rewrite (span_all _ (rev v)); [reflexivity|].
  intros x Hx. apply H. apply in_rev. exact Hx.
Qed.

Lemma split_exp_last m c x : is_e c = true -> noe x ->
  split_exp (m ++ c :: x) = match m, x with
                            | [], _ => None
                            | _, [] => None
                            | _, _ => Some (m, Some x)
                            end.
Proof.
  intros Hc Hx. unfold split_exp.
  assert (Hrev : rev (m ++ c :: x) = rev x ++ c :: rev m).
  { rewrite rev_app_distr. cbn [rev]. rewrite <- app_assoc. reflexivity. }
  rewrite Hrev. rewrite (span_app _ (rev x) (c :: rev m)).
  - destruct m as [|a m'].
    + reflexivity.
    + destruct (rev (a :: m')) as [|y ym] eqn:Hm.
      { exfalso. assert (E : rev (rev (a :: m')) = rev []) by (rewrite Hm; reflexivity).
        rewrite rev_involutive in E. discriminate. }
      destruct x as [|b x'].
      * reflexivity.
      * destruct (rev (b :: x')) as [|z zm] eqn:Hxr.
        { exfalso. assert (E : rev (rev (b :: x')) = rev []) by (rewrite Hxr; reflexivity).
          rewrite rev_involutive in E. discriminate. }
        rewrite <- Hm, <- Hxr. rewrite !rev_involutive. reflexivity.
  - intros y Hy. apply Hx. apply in_rev. exact Hy.
  - rewrite Hc. reflexivity.
Qed.

Lemma sign_not_e c : is_sign c = true -> negb (is_e c) = true.
Proof. unfold is_sign, is_e, c_plus, c_minus. lia. Qed.

Lemma mantissa_frac_noe s nf : mantissa_frac s = Some nf -> noe s.
Proof.
  unfold mantissa_frac. intro H. destruct (sign_decomp s) as (sg & Hm & Hsg & _).
  pose proof (span_eq is_digit (strip_sign s)) as Heq.
  pose proof (span_fst_all is_digit (strip_sign s)) as Hall.
  destruct (span is_digit (strip_sign s)) as [ip r]. cbn [fst] in Hall.
  assert (Hr : forall x, In x r -> negb (is_e x) = true).
  { destruct r as [|c fp]; [intros x []|].
    destruct ((c =? c_dot) && forallb is_digit fp && negb (is_nil ip && is_nil fp)) eqn:Hc; [|discriminate].
    apply andb_true_iff in Hc. destruct Hc as [Hc _]. apply andb_true_iff in Hc. destruct Hc as [Hd Hfp].
    apply N.eqb_eq in Hd. subst c. intros x [<-|Hx]; [reflexivity|].
    rewrite (digit_not_e x); [reflexivity|]. exact (proj1 (forallb_forall is_digit fp) Hfp x Hx). }
  intros x Hx. rewrite Hm, Heq in Hx. apply in_app_or in Hx. destruct Hx as [Hx|Hx].
  - destruct Hsg as [->|(c & -> & Hc)]; [contradiction|]. destruct Hx as [<-|[]]. apply sign_not_e. exact Hc.
  - apply in_app_or in Hx. destruct Hx as [Hx|Hx]; [|apply Hr; exact Hx].
    rewrite (digit_not_e x (Hall x Hx)). reflexivity.
Qed.

Lemma parse_i64_facts x e0 : parse_i64 x = Some e0 -> noe x /\ (i64_min <= e0 <= i64_max)%Z.
Proof.
  unfold parse_i64, from_str_radix. intro H.
  set (nb := match x with
             | c :: t => if c =? c_plus then (false, t) else if true && (c =? c_minus) then (true, t) else (false, x)
             | [] => (false, [])
             end) in *.
  destruct nb as [neg body] eqn:Hnb.
  destruct (parse_nat 10 body) as [n|] eqn:Hp; [|discriminate].
  destruct (((i64_min <=? (if neg then - Z.of_N n else Z.of_N n)) && ((if neg then - Z.of_N n else Z.of_N n) <=? i64_max))%Z) eqn:Hr; [|discriminate].
  inversion H. subst e0. split; [|lia].
  assert (Hd : forallb is_digit body = true).
  { unfold parse_nat in Hp. destruct body; [discriminate|]. exact (parse_digits_digits _ _ _ Hp). }
  assert (Hbody : noe body).
  { intros y Hy. rewrite (digit_not_e y); [reflexivity|]. exact (proj1 (forallb_forall is_digit body) Hd y Hy). }
  subst nb. destruct x as [|c t]; [inversion Hnb; subst; exact Hbody|].
  destruct (c =? c_plus) eqn:Hcp.
  - inversion Hnb; subst. intros y [<-|Hy]; [|apply Hbody; exact Hy].
    apply sign_not_e. unfold is_sign. rewrite Hcp. reflexivity.
  - cbn [andb] in Hnb. destruct (c =? c_minus) eqn:Hcm.
    + inversion Hnb; subst. intros y [<-|Hy]; [|apply Hbody; exact Hy].
      apply sign_not_e. unfold is_sign. rewrite Hcm. apply orb_true_r.
    + inversion Hnb; subst. exact Hbody.
Qed.

Lemma split_exp_spec v mant ex : split_exp v = Some (mant, ex) ->
  match ex with
  | None => mant = v /\ noe v
  | Some xs => exists e', v = mant ++ e' :: xs /\ is_e e' = true /\ noe xs
  end.
Proof.
  unfold split_exp. intro H.
  pose proof (span_eq (fun c0 => negb (is_e c0)) (rev v)) as Heq.
  pose proof (span_fst_all (fun c0 => negb (is_e c0)) (rev v)) as Hall.
  pose proof (span_snd_head (fun c0 => negb (is_e c0)) (rev v)) as Hhd.
  destruct (span (fun c0 => negb (is_e c0)) (rev v)) as [suf rest]. cbn [fst snd] in *.
  destruct rest as [|y mant_rev].
  - inversion H. subst mant ex. split; [reflexivity|]. rewrite app_nil_r in Heq.
    intros x Hx. apply Hall. rewrite <- Heq. apply -> in_rev. exact Hx.
  - destruct mant_rev as [|z zs]; [discriminate|]. destruct suf as [|w ws]; [discriminate|].
    inversion H. subst mant ex. exists y. split; [|split].
    + rewrite <- (rev_involutive v). rewrite Heq. rewrite rev_app_distr.
      change (rev (y :: z :: zs)) with (rev (z :: zs) ++ [y]). rewrite <- app_assoc. reflexivity.
    + apply negb_false_iff in Hhd. exact Hhd.
    + intros x Hx. apply Hall. apply in_rev. exact Hx.
Qed.

Lemma mantissa_frac_nil : mantissa_frac [] = None.
Proof. reflexivity. Qed.

Lemma from_sci_grammar_sound v : sci_grammar v = true -> is_some (from_sci v) = true.
Proof.
  unfold sci_grammar. intro H.
  pose proof (span_eq (fun c => negb (is_e c)) v) as Heq.
  pose proof (span_fst_all (fun c => negb (is_e c)) v) as Hall.
  pose proof (span_snd_head (fun c => negb (is_e c)) v) as Hhd.
  destruct (span (fun c => negb (is_e c)) v) as [m r]. cbn [fst snd] in *.
  destruct (mantissa_frac m) as [nf|] eqn:Hm; [|discriminate].
  rewrite from_sci_unfold. destruct r as [|c x].
  - rewrite app_nil_r in Heq. subst m. rewrite (split_exp_noe v Hall).
    rewrite (mant_parse_of_grammar v nf 0 Hm). apply Z.leb_le in H. apply orb_true_iff. right. apply Z.leb_le. lia.
  - destruct (parse_i64 x) as [e0|] eqn:Hx; [|discriminate].
    destruct (parse_i64_facts x e0 Hx) as [Hnoe Hrange].
    apply negb_false_iff in Hhd. rewrite Heq. rewrite (split_exp_last m c x Hhd Hnoe).
    destruct m as [|a m']; [rewrite mantissa_frac_nil in Hm; discriminate|].
    destruct x as [|b x']; [discriminate|].
    rewrite Hx. rewrite (mant_parse_of_grammar _ nf e0 Hm). rewrite H. apply orb_true_r.
Qed.

Lemma from_sci_grammar_complete v : is_some (from_sci v) = true -> sci_grammar v = true.
Proof.
  rewrite from_sci_unfold. intro H.
  destruct (split_exp v) as [[mant ex]|] eqn:Hs; [|discriminate].
  pose proof (split_exp_spec v mant ex Hs) as Hspec.
  destruct ex as [xs|].
  - destruct Hspec as (e' & Hv & He & Hnoe).
    destruct (parse_i64 xs) as [e0|] eqn:Hx; [|discriminate].
    destruct (grammar_of_mant_parse mant e0 H) as [nf Hnf].
    pose proof (mantissa_frac_noe mant nf Hnf) as Hmn.
    unfold sci_grammar. rewrite Hv. rewrite (span_app _ mant (e' :: xs) Hmn) by (rewrite He; reflexivity).
    rewrite Hnf, Hx. rewrite (mant_parse_of_grammar mant nf e0 Hnf) in H.
    destruct (parse_i64_facts xs e0 Hx) as [_ Hrange].
    apply orb_true_iff in H. destruct H as [H|H]; [|exact H].
    apply Nat.eqb_eq in H. subst nf. apply Z.leb_le. change (Z.of_nat 0) with 0%Z. lia.
  - destruct Hspec as [-> Hnoe].
    destruct (grammar_of_mant_parse v 0 H) as [nf Hnf].
    unfold sci_grammar. rewrite (span_all _ v Hnoe). rewrite Hnf.
    rewrite (mant_parse_of_grammar v nf 0 Hnf) in H.
    apply orb_true_iff in H. destruct H as [H|H].
    + apply Nat.eqb_eq in H. subst nf. reflexivity.
    + apply Z.leb_le in H. apply Z.leb_le. lia.
Qed.

(* from_sci_string accepts exactly the strings of the grammar *)
Theorem from_sci_grammar v : is_some (from_sci v) = sci_grammar v.
Proof.
  destruct (sci_grammar v) eqn:G.
  - apply from_sci_grammar_sound. exact G.
  - destruct (is_some (from_sci v)) eqn:S; [|reflexivity].
    rewrite (from_sci_grammar_complete v S) in G. discriminate.
Qed.

Example sci_grammar_ex :
  sci_grammar [49; 101; 52; 48; 48] = true /\ sci_grammar [43; 46; 53] = true /\ sci_grammar [53; 46] = true
  /\ sci_grammar [49; 46; 50; 46; 51] = false /\ sci_grammar [46] = false /\ sci_grammar [101; 49] = false
  /\ sci_grammar [49; 101] = false /\ sci_grammar [49; 46; 43; 53] = false /\ sci_grammar [43; 43; 53] = false.
Proof. repeat split; vm_compute; reflexivity. Qed.
