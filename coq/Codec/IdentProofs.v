(* C13 — ident_quoted_roundtrip: a record key printed by ident_quoted and read back by the lexer
   is the same key, whatever the key. *)
From Coq Require Import List NArith Bool Lia.
Import ListNotations.
From NV Require Import Codec.Escape Codec.EscapeProofs Codec.Ident.
Open Scope N_scope.

Lemma str_eqb_refl a : str_eqb a a = true.
Proof. induction a as [|x a IH]; [reflexivity|]. cbn [str_eqb]. rewrite N.eqb_refl. exact IH. Qed.

Lemma str_eqb_eq a b : str_eqb a b = true -> a = b.
Proof.
  revert b. induction a as [|x a IH]; intros [|y b] H; try discriminate; [reflexivity|].
  cbn [str_eqb] in H. apply andb_true_iff in H. destruct H as [H1 H2].
  apply N.eqb_eq in H1. subst y. rewrite (IH b H2). reflexivity.
Qed.

Lemma mem_in k l : mem k l = true -> In k l.
Proof.
  unfold mem. intro H. apply existsb_exists in H. destruct H as (x & Hx & He).
  apply str_eqb_eq in He. subst x. exact Hx.
Qed.

Lemma cont_q_l c : cont_q c = true -> cont_l c = true.
Proof. intro H. unfold cont_l. rewrite H. reflexivity. Qed.

Lemma alpha_not_us c : is_alpha c = true -> is_us c = false.
Proof.
  unfold is_alpha, is_us, c_us. intro H. apply N.eqb_neq. intro E. subst c. cbn in H. discriminate.
Qed.

Lemma alpha_not_dq c : is_alpha c = true -> (c =? c_dq) = false.
Proof.
  unfold is_alpha, c_dq. intro H. apply N.eqb_neq. intro E. subst c. cbn in H. discriminate.
Qed.

(* the shape of a key that matches QUOTING_REGEX *)
Lemma quoting_regex_shape k :
  quoting_regex_match k = true ->
  exists us c cont, k = us ++ c :: cont /\ (forall x, In x us -> is_us x = true)
                    /\ is_alpha c = true /\ (forall x, In x cont -> cont_q x = true).
Proof.
  unfold quoting_regex_match. intro H.
  pose proof (span_eq is_us k) as Heq. pose proof (span_fst_all is_us k) as Hall.
  destruct (span is_us k) as [us r]. cbn [fst snd] in *.
  destruct r as [|c t]; [discriminate|]. apply andb_true_iff in H. destruct H as [Hc Ht].
  exists us, c, t. repeat split; try assumption.
  intros x Hx. exact (proj1 (forallb_forall cont_q t) Ht x Hx).
Qed.

Lemma ident_span_bare us c cont rest :
  (forall x, In x us -> is_us x = true) -> is_alpha c = true ->
  (forall x, In x cont -> cont_q x = true) -> rest_ok rest = true ->
  ident_span ((us ++ c :: cont) ++ rest) = Some (us ++ c :: cont, rest).
Proof.
  intros Hus Hc Hcont Hrest. unfold ident_span.
  rewrite <- app_assoc. cbn [app].
  rewrite (span_app is_us us (c :: cont ++ rest) Hus) by (apply alpha_not_us; exact Hc).
  rewrite Hc.
  rewrite (span_app cont_l cont rest).
  - reflexivity.
  - intros x Hx. apply cont_q_l. apply Hcont. exact Hx.
  - destruct rest as [|y rest']; [exact I|]. cbn [rest_ok] in Hrest.
    apply andb_true_iff in Hrest. destruct Hrest as [H1 _]. apply negb_true_iff in H1. exact H1.
Qed.

Lemma starts_pct_rest_ok rest : rest_ok rest = true -> starts_pct rest = false.
Proof.
  intro H. destruct rest as [|y r]; [reflexivity|]. cbn [rest_ok] in H.
  apply andb_true_iff in H. destruct H as [_ H2]. apply negb_true_iff in H2.
  cbn [starts_pct]. exact H2.
Qed.

Lemma head_not_dq us c cont rest :
  (forall x, In x us -> is_us x = true) -> is_alpha c = true ->
  exists h tl, (us ++ c :: cont) ++ rest = h :: tl /\ (h =? c_dq) = false.
Proof.
  intros Hus Hc. destruct us as [|u us'].
  - exists c, (cont ++ rest). split; [reflexivity|]. apply alpha_not_dq. exact Hc.
  - exists u, ((us' ++ c :: cont) ++ rest). split; [reflexivity|].
    specialize (Hus u (or_introl eq_refl)). unfold is_us in Hus. apply N.eqb_eq in Hus. subst u. reflexivity.
Qed.

Theorem ident_quoted_roundtrip :
  forall (kws reserved accepted : list str) (k rest : str),
    tables_ok kws reserved accepted = true ->
    rest_ok rest = true ->
    key_of accepted (lex_key reserved (print_key kws k ++ rest)) = Some (k, rest).
Proof.
  intros kws reserved accepted k rest Htab Hrest. unfold print_key.
  destruct (quoting_regex_match k) eqn:Hq; cbn [andb].
  - destruct (mem k kws) eqn:Hkw; cbn [negb].
    + (* a keyword: quoted *)
      unfold lex_key. unfold print_string at 1. cbn [app]. change (c_dq =? c_dq) with true. cbv iota.
      change (c_dq :: (escape k ++ [c_dq]) ++ rest) with (print_string k ++ rest).
      rewrite escape_roundtrip_rest. reflexivity.
    + (* printed bare *)
      destruct (quoting_regex_shape k Hq) as (us & c & cont & -> & Hus & Hc & Hcont).
      destruct (head_not_dq us c cont rest Hus Hc) as (h & tl & Hhd & Hnq).
      unfold lex_key. rewrite Hhd. rewrite Hnq. rewrite <- Hhd.
      rewrite (ident_span_bare us c cont rest Hus Hc Hcont Hrest).
      rewrite (starts_pct_rest_ok rest Hrest). cbn [andb].
      destruct (mem (us ++ c :: cont) reserved) eqn:Hres; cbn [key_of]; [|reflexivity].
      (* reserved but bare: the tables say the grammar accepts it as a field name *)
      unfold tables_ok in Htab. rewrite forallb_forall in Htab.
      specialize (Htab _ (mem_in _ _ Hres)). rewrite Hq, Hkw in Htab. cbn [negb orb] in Htab.
      rewrite Htab. reflexivity.
  - (* does not match the regex: quoted *)
    unfold lex_key. unfold print_string at 1. cbn [app]. change (c_dq =? c_dq) with true. cbv iota.
    change (c_dq :: (escape k ++ [c_dq]) ++ rest) with (print_string k ++ rest).
    rewrite escape_roundtrip_rest. reflexivity.
Qed.

(* hypotheses are satisfiable: the tables of the pinned commit, a keyword, a contextual keyword, an
   odd key, followed by what the printer emits after a field name *)
Definition ex_kws : list str := [[105; 102]; [110; 117; 108; 108]].                (* if, null *)
Definition ex_reserved : list str := [[105; 102]; [110; 117; 108; 108]; [111; 114]]. (* if, null, or *)
Definition ex_accepted : list str := [[111; 114]].                                 (* or *)
Example ident_ex_tables : tables_ok ex_kws ex_reserved ex_accepted = true.
Proof. reflexivity. Qed.
Example ident_ex_kw :
  print_key ex_kws [105; 102] = [c_dq; 105; 102; c_dq]
  /\ key_of ex_accepted (lex_key ex_reserved (print_key ex_kws [105; 102] ++ [c_sp; 61])) = Some ([105; 102], [c_sp; 61]).
Proof. split; reflexivity. Qed.
Example ident_ex_contextual :
  lex_key ex_reserved (print_key ex_kws [111; 114] ++ [c_sp; 61]) = KKw [111; 114] [c_sp; 61].
Proof. reflexivity. Qed.
Example ident_ex_odd :
  print_key ex_kws [97; c_pct; c_lb; c_dq] = [c_dq; 97; c_bs; c_pct; c_lb; c_bs; c_dq; c_dq].
Proof. reflexivity. Qed.
(* without the table condition the statement fails: a reserved word printed bare is not a key *)
Example ident_needs_tables :
  key_of [] (lex_key ex_reserved (print_key [] [105; 102] ++ [c_sp; 61])) = None.
Proof. reflexivity. Qed.
