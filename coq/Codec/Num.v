(* C13 — numbers: which integers serialize_num (core/src/serialize/mod.rs) emits exactly, the
   decimal token an integer serialises to, Rust's <int>::from_str / from_str_radix (used by
   yaml.rs), and the integer paths of the external loaders (serde_json, toml: models of external
   code, validated by the correspondence only).  Definitions only; proofs in NumProofs.v. *)
From Coq Require Import List NArith ZArith Bool.
Import ListNotations.
From NV Require Import Codec.Escape Codec.Ident.
Open Scope N_scope.

(* ---------------------------------------------------------------- decimal tokens *)

Definition digit_char (d : N) : N := 48 + d.

Fixpoint dec_digits (fuel : nat) (n : N) : str :=
  match fuel with
  | O => [digit_char (n mod 10)]
  | S f => if n <? 10 then [digit_char n] else dec_digits f (n / 10) ++ [digit_char (n mod 10)]
  end.

(* itoa: what serde_json / serde_yaml / toml write for an u64 or i64 (external, assumed) *)
Definition dec_of_N (n : N) : str := dec_digits (N.to_nat (N.size n)) n.
Definition dec_of_Z (z : Z) : str :=
  if (z <? 0)%Z then c_minus :: dec_of_N (Z.abs_N z) else dec_of_N (Z.to_N z).

(* ---------------------------------------------------------------- Rust integer parsing *)

Definition radix_digit (c : N) : option N :=
  if is_digit c then Some (c - 48)
  else if (97 <=? c) && (c <=? 122) then Some (c - 87)
  else if (65 <=? c) && (c <=? 90) then Some (c - 55)
  else None.

Fixpoint parse_digits (radix : N) (s : str) (acc : N) : option N :=
  match s with
  | [] => Some acc
  | c :: t =>
      match radix_digit c with
      | Some d => if d <? radix then parse_digits radix t (acc * radix + d) else None
      | None => None
      end
  end.

Definition parse_nat (radix : N) (s : str) : option N :=
  match s with [] => None | _ => parse_digits radix s 0 end.

Definition i64_min : Z := (- 2 ^ 63)%Z.
Definition i64_max : Z := (2 ^ 63 - 1)%Z.
Definition u64_max : Z := (2 ^ 64 - 1)%Z.

(* core::num: from_str_radix.  Optional sign (a minus sign only for signed types), at least one
   digit, Err on overflow. *)
Definition from_str_radix (signed : bool) (lo hi : Z) (radix : N) (s : str) : option Z :=
  let '(neg, body) :=
    match s with
    | c :: t => if c =? c_plus then (false, t)
                else if signed && (c =? c_minus) then (true, t) else (false, s)
    | [] => (false, [])
    end in
  match parse_nat radix body with
  | Some n => let z := if neg then (- Z.of_N n)%Z else Z.of_N n in
              if ((lo <=? z) && (z <=? hi))%Z then Some z else None
  | None => None
  end.

Definition parse_i64 (s : str) : option Z := from_str_radix true i64_min i64_max 10 s.
Definition parse_i64_radix (radix : N) (s : str) : option Z := from_str_radix true i64_min i64_max radix s.
Definition parse_u64 (s : str) : option Z := from_str_radix false 0%Z u64_max 10 s.

(* ---------------------------------------------------------------- serialize_num on integers *)

Inductive numpath :=
| NI64 (z : Z)      (* i64::try_from succeeded: serialised exactly as an i64 *)
| NU64 (z : Z)      (* u64::try_from succeeded: serialised exactly as an u64 *)
| NF64.             (* f64::rounding_from(n, Nearest): the float path (not modelled) *)

(* serialize_num for an integer n (n.is_integer() holds) *)
Definition serialize_int (n : Z) : numpath :=
  if (n <? 0)%Z then (if (i64_min <=? n)%Z then NI64 n else NF64)
  else (if (n <=? u64_max)%Z then NU64 n else NF64).

Definition int_token (n : Z) : option str :=
  match serialize_int n with
  | NI64 z | NU64 z => Some (dec_of_Z z)
  | NF64 => None
  end.

(* ---------------------------------------------------------------- external integer readers *)

(* serde_json on a token without fraction/exponent: u64 if it fits, i64 if negative and it
   fits, otherwise f64 (and minus zero is a float) *)
Inductive serde_num := SInt (z : Z) | SFloat | SBad.
Definition all_digits (s : str) : bool := match s with [] => false | _ => forallb is_digit s end.
Definition json_int_token (s : str) : bool :=
  let body := match s with c :: t => if c =? c_minus then t else s | [] => [] end in
  all_digits body && match body with [c] => true | c :: _ => negb (c =? 48) | [] => false end.
Definition json_serde_int (s : str) : serde_num :=
  if json_int_token s then
    match s with
    | c :: t =>
        if c =? c_minus then
          match parse_nat 10 t with
          | Some 0 => SFloat
          | Some n => if (i64_min <=? - Z.of_N n)%Z then SInt (- Z.of_N n)%Z else SFloat
          | None => SBad
          end
        else match parse_nat 10 s with
             | Some n => if (Z.of_N n <=? u64_max)%Z then SInt (Z.of_N n) else SFloat
             | None => SBad
             end
    | [] => SBad
    end
  else SBad.

(* toml on a decimal integer token: i64 or an error *)
Inductive toml_num := TInt (z : Z) | TErr.
Definition toml_int (s : str) : toml_num :=
  if json_int_token s || match s with c :: t => (c =? c_plus) && json_int_token t | [] => false end
  then match parse_i64 s with Some z => TInt z | None => TErr end
  else TErr.
