(* C13 — the known class yaml-float-overflow-string, as a theorem: a plain scalar spelled as a number
   whose magnitude reaches the f64 rounding threshold (the YAML emitter writes a STRING spelled like
   that as a plain scalar, because its own float resolution overflows) is read by the loader as that
   number, never as a string. *)
From Coq Require Import List NArith ZArith Bool Lia ZifyBool ZifyN ZifyNat.
Import ListNotations.
From NV Require Import Codec.Escape Codec.EscapeProofs Codec.Ident Codec.IdentProofs Codec.Num
  Codec.NumProofs Codec.YamlScalar Codec.YamlScalarProofs Codec.SciGrammar.
Open Scope N_scope.

(* the alphabet of number spellings *)
Definition sci_char (c : N) : bool := is_digit c || is_sign c || (c =? c_dot) || is_e c.

Lemma digits_sci_chars s : forallb is_digit s = true -> forallb sci_char s = true.
Proof.
  intro H. rewrite forallb_forall in *. intros x Hx. unfold sci_char. rewrite (H x Hx). reflexivity.
Qed.

Lemma parse_i64_chars x e0 : parse_i64 x = Some e0 -> forallb sci_char x = true.
Proof.
  unfold parse_i64, from_str_radix. intro H.
  set (nb := match x with
             | c :: t => if c =? c_plus then (false, t) else if true && (c =? c_minus) then (true, t) else (false, x)
             | [] => (false, [])
             end) in *.
  destruct nb as [neg body] eqn:Hnb.
  destruct (parse_nat 10 body) as [n|] eqn:Hp; [|discriminate].
  assert (Hd : forallb is_digit body = true).
  { unfold parse_nat in Hp. destruct body; [discriminate|]. exact (parse_digits_digits _ _ _ Hp). }
  subst nb. destruct x as [|c t]; [reflexivity|].
  destruct (c =? c_plus) eqn:Hcp.
  - inversion Hnb; subst. cbn [forallb]. unfold sci_char at 1. unfold is_sign. rewrite Hcp.
    rewrite orb_true_r. cbn [orb]. apply digits_sci_chars. exact Hd.
  - cbn [andb] in Hnb. destruct (c =? c_minus) eqn:Hcm.
    + inversion Hnb; subst. cbn [forallb]. unfold sci_char at 1. unfold is_sign. rewrite Hcm.
      rewrite !orb_true_r. cbn [orb]. apply digits_sci_chars. exact Hd.
    + inversion Hnb; subst. apply digits_sci_chars. exact Hd.
Qed.

Lemma mantissa_frac_chars s nf : mantissa_frac s = Some nf -> forallb sci_char s = true.
Proof.
  unfold mantissa_frac. intro H. destruct (sign_decomp s) as (sg & Hm & Hsg & _).
  pose proof (span_eq is_digit (strip_sign s)) as Heq.
  pose proof (span_fst_all is_digit (strip_sign s)) as Hall.
  destruct (span is_digit (strip_sign s)) as [ip r]. cbn [fst] in Hall.
  rewrite Hm, Heq. rewrite !forallb_app.
  assert (H1 : forallb sci_char sg = true).
  { destruct Hsg as [->|(c & -> & Hc)]; [reflexivity|]. cbn [forallb]. unfold sci_char. rewrite Hc.
    rewrite orb_true_r. reflexivity. }
  assert (H2 : forallb sci_char ip = true).
  { apply digits_sci_chars. apply forallb_forall. exact Hall. }
  rewrite H1, H2. cbn [andb].
  destruct r as [|c fp]; [reflexivity|].
  destruct ((c =? c_dot) && forallb is_digit fp && negb (is_nil ip && is_nil fp)) eqn:Hc; [|discriminate].
  apply andb_true_iff in Hc. destruct Hc as [Hc _]. apply andb_true_iff in Hc. destruct Hc as [Hd Hfp].
  cbn [forallb]. unfold sci_char at 1. rewrite Hd. rewrite orb_true_r. cbn [orb andb].
  apply digits_sci_chars. exact Hfp.
Qed.

Lemma sci_grammar_chars v : sci_grammar v = true -> forallb sci_char v = true.
Proof.
  unfold sci_grammar. intro H.
  pose proof (span_eq (fun c => negb (is_e c)) v) as Heq.
  pose proof (span_snd_head (fun c => negb (is_e c)) v) as Hhd.
  destruct (span (fun c => negb (is_e c)) v) as [m r]. cbn [snd] in Hhd.
  destruct (mantissa_frac m) as [nf|] eqn:Hm; [|discriminate].
  rewrite Heq. rewrite forallb_app. rewrite (mantissa_frac_chars m nf Hm). cbn [andb].
  destruct r as [|c x]; [reflexivity|].
  destruct (parse_i64 x) as [e0|] eqn:Hx; [|discriminate].
  cbn [forallb]. apply negb_false_iff in Hhd. unfold sci_char at 1. rewrite Hhd. rewrite !orb_true_r. cbn [andb].
  exact (parse_i64_chars x e0 Hx).
Qed.

Lemma from_sci_chars v m e : from_sci v = Some (m, e) -> forallb sci_char v = true.
Proof.
  intro H. apply sci_grammar_chars. rewrite <- from_sci_grammar. rewrite H. reflexivity.
Qed.

Lemma not_sci_char_not_in c v m e : from_sci v = Some (m, e) -> sci_char c = false -> ~ In c v.
Proof.
  intros H Hc Hin. pose proof (from_sci_chars v m e H) as Hall. rewrite forallb_forall in Hall.
  rewrite (Hall c Hin) in Hc. discriminate.
Qed.

(* ---------------------------------------------------------------- earlier branches of parse *)

Lemma prefixed_none_of_sci p radix v m e c :
  from_sci v = Some (m, e) -> In c p -> sci_char c = false -> prefixed_int p radix v = None.
Proof.
  intros H Hin Hc. unfold prefixed_int. destruct (strip_prefix p v) as [r|] eqn:Hs; [|reflexivity].
  exfalso. apply strip_prefix_some in Hs. apply (not_sci_char_not_in c v m e H Hc).
  rewrite Hs. apply in_or_app. left. exact Hin.
Qed.

Lemma keyword_not_sci v m e : from_sci v = Some (m, e) ->
  mem v null_spellings = false /\ mem v true_spellings = false /\ mem v false_spellings = false.
Proof.
  intro H. pose proof (from_sci_chars v m e H) as Hc.
  repeat split.
  - destruct (mem v null_spellings) eqn:E; [|reflexivity]. apply mem_in in E. cbn [null_spellings In] in E.
    repeat (destruct E as [<-|E]; [vm_compute in Hc; discriminate|]). contradiction.
  - destruct (mem v true_spellings) eqn:E; [|reflexivity]. apply mem_in in E. cbn [true_spellings In] in E.
    repeat (destruct E as [<-|E]; [vm_compute in Hc; discriminate|]). contradiction.
  - destruct (mem v false_spellings) eqn:E; [|reflexivity]. apply mem_in in E. cbn [false_spellings In] in E.
    repeat (destruct E as [<-|E]; [vm_compute in Hc; discriminate|]). contradiction.
Qed.

Lemma infnan_no_digit v : mem v infnan_spellings = true -> existsb is_digit v = false.
Proof.
  intro H. apply mem_in in H. unfold infnan_spellings in H. cbn [In] in H.
  repeat (destruct H as [<-|H]; [reflexivity|]). contradiction.
Qed.

Lemma digit_not_dot_b c : is_digit c = true -> negb (c =? c_dot) = true.
Proof. intro H. rewrite (digit_not_dot c H). reflexivity. Qed.

(* an i64 spelling is also a from_sci spelling, with the same value *)
Lemma from_sci_of_parse_i64 v i : parse_i64 v = Some i -> from_sci v = Some (i, 0%Z).
Proof.
  intro H. destruct (parse_i64_facts v i H) as [Hnoe _].
  pose proof (parse_i64_chars v i H) as Hchars.
  rewrite from_sci_unfold. rewrite (split_exp_noe v Hnoe).
  assert (Hnodot : forall x, In x v -> negb (x =? c_dot) = true).
  { intros x Hx. rewrite forallb_forall in Hchars. specialize (Hchars x Hx). specialize (Hnoe x Hx).
    unfold sci_char in Hchars. apply negb_true_iff in Hnoe. rewrite Hnoe in Hchars.
    rewrite orb_false_r in Hchars. apply orb_true_iff in Hchars. destruct Hchars as [Hc|Hc].
    - apply orb_true_iff in Hc. destruct Hc as [Hc|Hc]; [apply digit_not_dot_b; exact Hc | apply sign_not_dot; exact Hc].
    - (* x is a dot: but parse_i64 accepts only digits and a sign *)
      exfalso. apply N.eqb_eq in Hc. subst x. clear -H Hx.
      unfold parse_i64, from_str_radix in H.
      set (nb := match v with
                 | c :: t => if c =? c_plus then (false, t) else if true && (c =? c_minus) then (true, t) else (false, v)
                 | [] => (false, [])
                 end) in *.
      destruct nb as [neg body] eqn:Hnb. destruct (parse_nat 10 body) as [n|] eqn:Hp; [|discriminate].
      assert (Hd : forallb is_digit body = true).
      { unfold parse_nat in Hp. destruct body; [discriminate|]. exact (parse_digits_digits _ _ _ Hp). }
      rewrite forallb_forall in Hd. subst nb. destruct v as [|c t]; [contradiction|].
      destruct (c =? c_plus) eqn:Hcp.
      + inversion Hnb; subst. destruct Hx as [Hx|Hx]; [subst c; discriminate|]. specialize (Hd _ Hx). discriminate.
      + cbn [andb] in Hnb. destruct (c =? c_minus) eqn:Hcm.
        * inversion Hnb; subst. destruct Hx as [Hx|Hx]; [subst c; discriminate|]. specialize (Hd _ Hx). discriminate.
        * inversion Hnb; subst. specialize (Hd _ Hx). discriminate. }
  unfold mant_parse. rewrite (span_all _ v Hnodot).
  (* the value *)
  unfold parse_i64, from_str_radix in H.
  set (nb := match v with
             | c :: t => if c =? c_plus then (false, t) else if true && (c =? c_minus) then (true, t) else (false, v)
             | [] => (false, [])
             end) in *.
  destruct nb as [neg body] eqn:Hnb. destruct (parse_nat 10 body) as [n|] eqn:Hp; [|discriminate].
  destruct (((i64_min <=? (if neg then - Z.of_N n else Z.of_N n)) && ((if neg then - Z.of_N n else Z.of_N n) <=? i64_max))%Z); [|discriminate].
  inversion H. subst i. clear H.
  assert (Hd : forallb is_digit body = true).
  { unfold parse_nat in Hp. destruct body; [discriminate|]. exact (parse_digits_digits _ _ _ Hp). }
  assert (Hns : nat_string body = Some (Z.of_N n)).
  { unfold nat_string. unfold all_digits. destruct body as [|b bt]; [discriminate|]. rewrite Hd. rewrite Hp. reflexivity. }
  subst nb. destruct v as [|c t]; [inversion Hnb; subst; discriminate|].
  unfold sci_parse_int. destruct (c =? c_plus) eqn:Hcp.
  - inversion Hnb; subst. destruct body as [|d bt]; [discriminate|].
    cbn [forallb] in Hd. apply andb_true_iff in Hd. destruct Hd as [Hdd _].
    destruct (digit_not_sign d Hdd) as [H1 H2]. rewrite H1, H2. cbn [orb]. rewrite Hns. reflexivity.
  - cbn [andb] in Hnb. destruct (c =? c_minus) eqn:Hcm.
    + inversion Hnb; subst. destruct body as [|d bt]; [discriminate|].
      cbn [forallb] in Hd. apply andb_true_iff in Hd. destruct Hd as [Hdd _].
      destruct (digit_not_sign d Hdd) as [H1 _]. rewrite H1. rewrite Hns. reflexivity.
    + inversion Hnb; subst. rewrite Hns. reflexivity.
Qed.

Lemma parse_i64_plus r i : unsigned r = true -> parse_i64 r = Some i -> parse_i64 (c_plus :: r) = Some i.
Proof.
  intros Hu H. unfold parse_i64, from_str_radix in *. change (c_plus =? c_plus) with true. cbv iota.
  destruct r as [|c t]; [discriminate|]. cbn [unsigned] in Hu. apply negb_true_iff in Hu.
  unfold is_sign in Hu. apply orb_false_iff in Hu. destruct Hu as [H1 H2]. rewrite H1, H2 in H.
  cbn [andb] in H. exact H.
Qed.

(* ---------------------------------------------------------------- magnitudes *)

Lemma i64_no_overflow i : (i64_min <= i <= i64_max)%Z -> overflows_f64 i 0 = false.
Proof.
  intro H. unfold overflows_f64. cbn [Z.leb Z.compare]. change (10 ^ 0)%Z with 1%Z. rewrite Z.mul_1_r.
  apply Z.leb_gt. assert (Hb : (2 ^ 63 < f64_overflow_threshold)%Z) by (apply Z.ltb_lt; vm_compute; reflexivity).
  unfold i64_min, i64_max in H. lia.
Qed.

(* ---------------------------------------------------------------- the theorem *)

Theorem yaml_overflow_spelling_is_number : forall v,
  float_overflow_spelling v = true ->
  exists m e, from_sci v = Some (m, e) /\ overflows_f64 m e = true /\ resolve Plain None v = RNum m e.
Proof.
  intros v H. unfold float_overflow_spelling in H. apply andb_true_iff in H. destruct H as [Hdig H].
  destruct (from_sci v) as [[m e]|] eqn:Hs; [|discriminate].
  exists m, e. split; [reflexivity|]. split; [exact H|].
  cbn [resolve]. unfold resolve_plain.
  rewrite (prefixed_none_of_sci s_0x 16 v m e 120 Hs (or_intror (or_introl eq_refl)) eq_refl).
  rewrite (prefixed_none_of_sci s_0o 8 v m e 111 Hs (or_intror (or_introl eq_refl)) eq_refl).
  assert (Hi64 : parse_i64 v = None).
  { destruct (parse_i64 v) as [i|] eqn:Hp; [|reflexivity]. exfalso.
    rewrite (from_sci_of_parse_i64 v i Hp) in Hs. inversion Hs. subst m e.
    destruct (parse_i64_facts v i Hp) as [_ Hr]. rewrite (i64_no_overflow i Hr) in H. discriminate. }
  assert (Hplus : prefixed_int [c_plus] 10 v = None).
  { unfold prefixed_int. destruct (strip_prefix [c_plus] v) as [r|] eqn:Hst; [|reflexivity].
    destruct (unsigned r) eqn:Hu; [|reflexivity].
    destruct (parse_i64_radix 10 r) as [i|] eqn:Hp; [|reflexivity]. exfalso.
    apply strip_prefix_some in Hst. cbn [app] in Hst. subst v.
    change (parse_i64_radix 10 r) with (parse_i64 r) in Hp.
    rewrite (parse_i64_plus r i Hu Hp) in Hi64. discriminate. }
  rewrite Hplus. destruct (keyword_not_sci v m e Hs) as (K1 & K2 & K3). rewrite K1, K2, K3. rewrite Hi64.
  unfold parse_float.
  assert (Hinf : mem v infnan_spellings = false).
  { destruct (mem v infnan_spellings) eqn:E; [|reflexivity]. rewrite (infnan_no_digit v E) in Hdig. discriminate. }
  rewrite Hinf, Hdig, Hs. reflexivity.
Qed.

(* so an emitter that writes such strings as plain scalars breaks the contract, and the string
   does not come back *)
Corollary yaml_overflow_class_breaks_contract : forall v,
  float_overflow_spelling v = true -> nonstring_spelling v = true /\ resolve Plain None v <> RStr v.
Proof.
  intros v H. destruct (yaml_overflow_spelling_is_number v H) as (m & e & _ & _ & Hr).
  split; [|rewrite Hr; discriminate].
  destruct (nonstring_spelling v) eqn:E; [reflexivity|].
  apply (proj2 (proj1 (yaml_plain_resolution v))) in E. rewrite Hr in E. discriminate.
Qed.

Example overflow_class_nonempty : float_overflow_spelling s_1e400 = true /\ float_overflow_spelling s_m1e999 = true.
Proof. split; vm_compute; reflexivity. Qed.
