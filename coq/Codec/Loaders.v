(* C13 (T1) — the two JSON loaders over an abstract event stream.
   [loader_run] mirrors the event loader of core/src/serialize/yaml.rs (Loader::on_event,
   push_node, key_slot, push_scalar, DocumentEnd) driven by the json_scanner shim of load_json;
   [serde_run] mirrors what serde_json drives in `impl Deserialize for NickelValue`
   (core/src/serialize/mod.rs: visit_seq, visit_map with IndexMap::insert, number visitors).
   Definitions only; the agreement theorem is in LoadersProofs.v. *)
From Coq Require Import List NArith ZArith Bool.
Import ListNotations.
From NV Require Import Codec.Escape Codec.Ident Codec.Num Codec.YamlScalar.
Open Scope N_scope.

Inductive ev :=
| EBeginObj | EEndObj | EBeginArr | EEndArr
| EStr (s : str)          (* json_scanner::Event::String, unescaped *)
| ENum (tok : str)        (* json_scanner::Event::Number: the token text *)
| EBool (b : bool)
| ENull.

(* data values; a number is m * 10^e, or the token itself when a loader goes through f64
   (that path is not modelled) *)
Inductive dv :=
| DNull
| DBool (b : bool)
| DNum (m e : Z)
| DFloat (tok : str)
| DStr (s : str)
| DArr (l : list dv)
| DRec (fs : list (str * dv)).   (* field definitions in document order, duplicates kept *)

(* ---------------------------------------------------------------- yaml.rs Loader *)

Inductive node :=
| NArr (items_rev : list dv)
| NMap (fields_rev : list (str * dv)) (cur_key : option str)
| NScalar (v : dv).

Record lstate := { stack : list node; docs_rev : list dv; failed : bool }.

Definition finish (n : node) : dv :=
  match n with
  | NArr items => DArr (rev items)
  | NMap fs _ => DRec (rev fs)
  | NScalar v => v
  end.

(* Loader::push_node *)
Definition push_node (v : dv) (st : lstate) : lstate :=
  match stack st with
  | NArr items :: tl => {| stack := NArr (v :: items) :: tl; docs_rev := docs_rev st; failed := failed st |}
  | NMap fs (Some k) :: tl => {| stack := NMap ((k, v) :: fs) None :: tl; docs_rev := docs_rev st; failed := failed st |}
  | NMap fs None :: tl => {| stack := stack st; docs_rev := docs_rev st; failed := true |}   (* only string keys *)
  | NScalar _ :: _ => {| stack := stack st; docs_rev := docs_rev st; failed := true |}       (* debug_assert!(false) *)
  | [] => {| stack := [NScalar v]; docs_rev := docs_rev st; failed := failed st |}
  end.

Definition dv_of_sres (r : sres) : option dv :=
  match r with
  | RNull => Some DNull
  | RBool b => Some (DBool b)
  | RNum m e => Some (DNum m e)
  | RStr s => Some (DStr s)
  | RErr => None
  end.

(* a scalar event: a key if the top of the stack is a map waiting for one (whatever its style),
   otherwise push_scalar *)
Definition on_scalar (text : str) (st_ : style) (st : lstate) : lstate :=
  match stack st with
  | NMap fs None :: tl => {| stack := NMap fs (Some text) :: tl; docs_rev := docs_rev st; failed := failed st |}
  | _ => match dv_of_sres (resolve st_ None text) with
         | Some v => push_node v st
         | None => {| stack := stack st; docs_rev := docs_rev st; failed := true |}
         end
  end.

Definition s_true_ : str := s_true.
Definition s_false_ : str := s_false.

(* load_json: the shim from json_scanner events to saphyr events, then Loader::on_event *)
Definition on_event (e : ev) (st : lstate) : lstate :=
  if failed st then st else
  match e with
  | EBeginObj => {| stack := NMap [] None :: stack st; docs_rev := docs_rev st; failed := false |}
  | EBeginArr => {| stack := NArr [] :: stack st; docs_rev := docs_rev st; failed := false |}
  | EEndObj | EEndArr =>
      match stack st with
      | n :: tl => push_node (finish n) {| stack := tl; docs_rev := docs_rev st; failed := false |}
      | [] => {| stack := []; docs_rev := docs_rev st; failed := true |}      (* pop().unwrap() *)
      end
  | EStr s => on_scalar s DoubleQuoted st
  | ENum tok => on_scalar tok Plain st
  | EBool b => on_scalar (if b then s_true else s_false) Plain st
  | ENull => on_scalar s_null Plain st
  end.

Definition linit : lstate := {| stack := []; docs_rev := []; failed := false |}.

(* feed the events, then DocumentEnd *)
Definition loader_run (evs : list ev) : option dv :=
  let st := fold_left (fun st e => on_event e st) evs linit in
  if failed st then None
  else match stack st with
       | [] => Some DNull
       | [n] => Some (finish n)
       | _ => None                         (* unreachable!() *)
       end.

(* ---------------------------------------------------------------- the serde path *)

Definition serde_number (tok : str) : dv :=
  match json_serde_int tok with
  | SInt z => DNum z 0
  | _ => DFloat tok
  end.

(* IndexMap::insert: an existing key keeps its position and gets the new value *)
Fixpoint imap_insert (k : str) (v : dv) (m : list (str * dv)) : list (str * dv) :=
  match m with
  | [] => [(k, v)]
  | (k', v') :: tl => if str_eqb k k' then (k', v) :: tl else (k', v') :: imap_insert k v tl
  end.

(* recursive descent, as serde_json's Deserializer drives the visitor; fuel bounds the depth.
   visit_seq / visit_map loop until the closing event; [rec] reads one value. *)
Fixpoint serde_elems (rec : list ev -> option (dv * list ev)) (n : nat) (evs : list ev) (acc : list dv)
  : option (dv * list ev) :=
  match n with
  | O => None
  | S n' =>
      match evs with
      | EEndArr :: r' => Some (DArr (rev acc), r')
      | _ => match rec evs with
             | Some (v, r') => serde_elems rec n' r' (v :: acc)
             | None => None
             end
      end
  end.

Fixpoint serde_fields (rec : list ev -> option (dv * list ev)) (n : nat) (evs : list ev) (acc : list (str * dv))
  : option (dv * list ev) :=
  match n with
  | O => None
  | S n' =>
      match evs with
      | EEndObj :: r' => Some (DRec acc, r')
      | EStr k :: r' =>
          match rec r' with
          | Some (v, r'') => serde_fields rec n' r'' (imap_insert k v acc)
          | None => None
          end
      | _ => None
      end
  end.

Fixpoint serde_value (fuel : nat) (evs : list ev) : option (dv * list ev) :=
  match fuel with
  | O => None
  | S f =>
      match evs with
      | ENull :: r => Some (DNull, r)
      | EBool b :: r => Some (DBool b, r)
      | ENum t :: r => Some (serde_number t, r)
      | EStr s :: r => Some (DStr s, r)
      | EBeginArr :: r => serde_elems (serde_value f) (S (List.length r)) r []
      | EBeginObj :: r => serde_fields (serde_value f) (S (List.length r)) r []
      | _ => None
      end
  end.

Definition serde_run (evs : list ev) : option dv :=
  match serde_value (S (List.length evs)) evs with
  | Some (v, []) => Some v
  | _ => None
  end.

(* ---------------------------------------------------------------- JSON document trees *)

Inductive jtree :=
| JNull
| JBool (b : bool)
| JInt (z : Z)                       (* written as its decimal token *)
| JStr (s : str)
| JArr (l : list jtree)
| JObj (fs : list (str * jtree)).

Fixpoint events (t : jtree) : list ev :=
  match t with
  | JNull => [ENull]
  | JBool b => [EBool b]
  | JInt z => [ENum (dec_of_Z z)]
  | JStr s => [EStr s]
  | JArr l => EBeginArr :: flat_map events l ++ [EEndArr]
  | JObj fs => EBeginObj :: flat_map (fun kv => EStr (fst kv) :: events (snd kv)) fs ++ [EEndObj]
  end.

Fixpoint denote (t : jtree) : dv :=
  match t with
  | JNull => DNull
  | JBool b => DBool b
  | JInt z => DNum z 0
  | JStr s => DStr s
  | JArr l => DArr (map denote l)
  | JObj fs => DRec (map (fun kv => (fst kv, denote (snd kv))) fs)
  end.

Fixpoint keys_distinct (l : list str) : bool :=
  match l with
  | [] => true
  | k :: tl => negb (mem k tl) && keys_distinct tl
  end.

(* in scope: integers of the exact range, no duplicate key in any object *)
Fixpoint in_scope (t : jtree) : bool :=
  match t with
  | JInt z => ((i64_min <=? z) && (z <=? u64_max))%Z
  | JArr l => forallb in_scope l
  | JObj fs => keys_distinct (map fst fs) && forallb (fun kv => in_scope (snd kv)) fs
  | _ => true
  end.
