(* C13 — model of record-key printing (parser/src/ast/pretty.rs: QUOTING_REGEX, ident_quoted)
   and of how the normal-mode lexer (parser/src/lexer.rs: NormalToken) reads a key back.
   The keyword tables are parameters here; Props/C13.v instantiates them with the tables
   that the translator extracts from the sources on every run (Gen/Keywords.v).
   Definitions only; proofs are in IdentProofs.v. *)
From Coq Require Import List NArith Bool.
Import ListNotations.
From NV Require Import Codec.Escape.
Open Scope N_scope.

Definition is_alpha (c : N) : bool := ((65 <=? c) && (c <=? 90)) || ((97 <=? c) && (c <=? 122)).
Definition is_digit (c : N) : bool := (48 <=? c) && (c <=? 57).
Definition is_us (c : N) : bool := c =? c_us.

(* [_a-zA-Z0-9-]   (QUOTING_REGEX tail) *)
Definition cont_q (c : N) : bool := is_us c || is_alpha c || is_digit c || (c =? c_minus).
(* [_a-zA-Z0-9-']  (lexer Identifier tail) *)
Definition cont_l (c : N) : bool := cont_q c || (c =? c_sq).

Fixpoint str_eqb (a b : str) : bool :=
  match a, b with
  | [], [] => true
  | x :: a', y :: b' => (x =? y) && str_eqb a' b'
  | _, _ => false
  end.

Definition mem (k : str) (l : list str) : bool := existsb (str_eqb k) l.

(* QUOTING_REGEX = ^_*[a-zA-Z][_a-zA-Z0-9-]*$  (Rust regex: $ only at the very end of the text) *)
Definition quoting_regex_match (k : str) : bool :=
  match snd (span is_us k) with
  | c :: t => is_alpha c && forallb cont_q t
  | [] => false
  end.

(* pretty.rs: ident_quoted *)
Definition print_key (kws : list str) (k : str) : str :=
  if quoting_regex_match k && negb (mem k kws) then k else print_string k.

(* longest prefix matching the lexer regex  _*[a-zA-Z][_a-zA-Z0-9-']*  *)
Definition ident_span (inp : str) : option (str * str) :=
  let '(us, r1) := span is_us inp in
  match r1 with
  | c :: t => if is_alpha c then let '(cont, rest) := span cont_l t in Some (us ++ c :: cont, rest) else None
  | [] => None
  end.

(* rest matches  %+ dquote  : the tail of MultiStringStart / SymbolicStringStart *)
Definition pct_run_quote (rest : str) : bool :=
  match span (fun c => c =? c_pct) rest with
  | (_ :: _, q :: _) => q =? c_dq
  | _ => false
  end.

Definition starts_pct (rest : str) : bool :=
  match rest with c :: _ => c =? c_pct | [] => false end.

Fixpoint ends_with_minus_s (id : str) : bool :=
  match id with
  | [a; b] => (a =? c_minus) && (b =? 115)
  | _ :: t => ends_with_minus_s t
  | [] => false
  end.

Inductive keytok :=
| KIdent (id : str) (rest : str)        (* NormalToken::Identifier *)
| KKw (id : str) (rest : str)           (* a reserved word token spelled like an identifier *)
| KStr (s : str) (rest : str)           (* a double-quoted static string *)
| KDyn                                  (* a double-quoted string with interpolation *)
| KStrStart                             (* m%..dquote or ident-s%..dquote : a multiline/symbolic string starts *)
| KErr (e : lexerr)
| KOther.                               (* anything else (number, punctuation, end of input) *)

(* first token of [inp] in normal mode, as far as keys are concerned *)
Definition lex_key (reserved : list str) (inp : str) : keytok :=
  match inp with
  | [] => KOther
  | c :: _ =>
      if c =? c_dq then
        match lex_string inp with
        | LexStatic s rest => KStr s rest
        | LexInterp _ _ => KDyn
        | LexErr e => KErr e
        end
      else
        match ident_span inp with
        | None => KOther
        | Some (id, rest) =>
            (* logos does not backtrack: once it is past m% or ident-s% it needs the quote *)
            if starts_pct rest
               && (str_eqb id [109]
                   || (ends_with_minus_s id && (3 <=? N.of_nat (List.length id))
                       && match id with x :: _ => is_alpha x | [] => false end))
            then (if pct_run_quote rest then KStrStart else KErr EGeneric)
            else if mem id reserved then KKw id rest else KIdent id rest
        end
  end.

(* grammar.lalrpop: ExtendedIdent = MetadataKeyword | Ident, Ident = or | as | include | identifier;
   a static string is a field name too (FieldPathElem).  [accepted] = reserved spellings the
   grammar takes as field names. *)
Definition key_of (accepted : list str) (t : keytok) : option (str * str) :=
  match t with
  | KIdent id rest => Some (id, rest)
  | KKw id rest => if mem id accepted then Some (id, rest) else None
  | KStr s rest => Some (s, rest)
  | _ => None
  end.

(* what must hold of the three tables: a reserved spelling that the printer would leave bare
   is accepted by the grammar as a field name *)
Definition tables_ok (kws reserved accepted : list str) : bool :=
  forallb (fun w => negb (quoting_regex_match w) || mem w kws || mem w accepted) reserved.

(* the character after a printed key: not an identifier character and not a percent sign *)
Definition rest_ok (rest : str) : bool :=
  match rest with
  | [] => true
  | c :: _ => negb (cont_l c) && negb (c =? c_pct)
  end.
