(* C13 — model of the string escaping of parser/src/ast/pretty.rs (`escape`) and of the
   normal-string mode of the lexer (parser/src/lexer.rs: `StringToken`, `handle_string_token`,
   `escape_char`, `escape_ascii`, `normalize_line_endings`) together with the fusion of literal
   parts done by the grammar (`ChunkLiteral`, `StandardStaticString`).

   Strings are lists of Unicode scalar values ([N]).  Definitions only; proofs are in
   EscapeProofs.v. *)
From Coq Require Import List NArith Bool.
Import ListNotations.
Open Scope N_scope.

Definition str := list N.

Definition c_tab : N := 9.
Definition c_nl : N := 10.
Definition c_cr : N := 13.
Definition c_sp : N := 32.
Definition c_dq : N := 34.
Definition c_pct : N := 37.
Definition c_sq : N := 39.
Definition c_plus : N := 43.
Definition c_minus : N := 45.
Definition c_dot : N := 46.
Definition c_bs : N := 92.
Definition c_us : N := 95.
Definition c_n : N := 110.
Definition c_r : N := 114.
Definition c_t : N := 116.
Definition c_x : N := 120.
Definition c_lb : N := 123.

(* ---------------------------------------------------------------- Rust str::replace *)

(* `s.replace(c, by)` for a single-character pattern *)
Fixpoint replace_char (c : N) (by_ : str) (s : str) : str :=
  match s with
  | [] => []
  | x :: t => if x =? c then by_ ++ replace_char c by_ t else x :: replace_char c by_ t
  end.

(* `s.replace(PAT, by)` for a two-character pattern PAT: leftmost, non-overlapping matches *)
Fixpoint replace_pair (a b : N) (by_ : str) (s : str) : str :=
  match s with
  | [] => []
  | x :: t =>
      match t with
      | y :: t' =>
          if (x =? a) && (y =? b) then by_ ++ replace_pair a b by_ t'
          else x :: replace_pair a b by_ t
      | [] => [x]
      end
  end.

(* pretty.rs, fn escape: five sequential replaces, in this order:
     backslash -> two backslashes;  percent+lbrace -> backslash percent lbrace;
     dquote -> backslash dquote;  LF -> backslash n;  CR -> backslash r *)
Definition escape (s : str) : str :=
  replace_char c_cr [c_bs; c_r]
    (replace_char c_nl [c_bs; c_n]
       (replace_char c_dq [c_bs; c_dq]
          (replace_pair c_pct c_lb [c_bs; c_pct; c_lb]
             (replace_char c_bs [c_bs; c_bs] s)))).

(* `allocator.escaped_string(s).double_quotes()` *)
Definition print_string (s : str) : str := c_dq :: escape s ++ [c_dq].

(* ---------------------------------------------------------------- the lexer, string mode *)

Inductive tok :=
| TLit (s : str)          (* StringToken::Literal, after normalize_line_endings *)
| TEsc (c : N)            (* StringToken::EscapedChar after escape_char / escape_ascii *)
| TInterp                 (* StringToken::Interpolation: percent lbrace *)
| TDq.                    (* closing double quote *)

Inductive lexerr :=
| EGeneric                (* LexicalError::Generic: no token matches / StringToken::Error *)
| EInvalidEscape          (* LexicalError::InvalidEscapeSequence *)
| EInvalidAscii           (* LexicalError::InvalidAsciiEscapeCode *)
| EEof                    (* input ends inside the string (the parser reports it) *)
| ENotAString             (* lex_string called on something not starting with a quote *)
| EFuel.                  (* unreachable: see lex_string_fuel_enough *)

Inductive tokres :=
| TkEnd
| Tk (t : tok) (rest : str)
| TkErr (e : lexerr).

Fixpoint span (p : N -> bool) (l : str) : str * str :=
  match l with
  | [] => ([], [])
  | x :: t => if p x then let '(a, b) := span p t in (x :: a, b) else ([], l)
  end.

(* characters of the literal-run regex: anything but dquote, percent, backslash *)
Definition in_lit (c : N) : bool := negb ((c =? c_dq) || (c =? c_pct) || (c =? c_bs)).

Definition is_hex (c : N) : bool :=
  ((48 <=? c) && (c <=? 57)) || ((65 <=? c) && (c <=? 70)) || ((97 <=? c) && (c <=? 102)).

Definition hex_val (c : N) : N :=
  if c <=? 57 then c - 48 else if c <=? 70 then c - 55 else c - 87.

(* lexer.rs: escape_char *)
Definition escape_char (c : N) : option N :=
  if c =? c_sq then Some c_sq
  else if c =? c_dq then Some c_dq
  else if c =? c_bs then Some c_bs
  else if c =? c_pct then Some c_pct
  else if c =? c_n then Some c_nl
  else if c =? c_r then Some c_cr
  else if c =? c_t then Some c_tab
  else None.

(* lexer.rs: normalize_line_endings = replace CRLF by LF; handle_string_token then rejects a
   literal that still contains a CR (a lone one) with LexicalError::Generic *)
Definition normalize_line_endings (s : str) : str := replace_pair c_cr c_nl [c_nl] s.
Definition has_cr (s : str) : bool := existsb (fun c => c =? c_cr) s.

Definition lit_token (run rest : str) : tokres :=
  let n := normalize_line_endings run in
  if has_cr n then TkErr EGeneric else Tk (TLit n) rest.

(* One token of the logos automaton of StringToken: longest match, Error wins a tie.
     Error         CR followed by any character but LF
     Literal       a maximal run of characters other than dquote, percent, backslash; or one percent
     DoubleQuote   dquote
     Interpolation percent lbrace
     EscapedChar   backslash followed by any scalar value but LF
     EscapedAscii  backslash x hex hex *)
Definition next_tok (inp : str) : tokres :=
  match inp with
  | [] => TkEnd
  | c :: t =>
      if c =? c_dq then Tk TDq t
      else if c =? c_pct then
        match t with
        | d :: t' => if d =? c_lb then Tk TInterp t' else Tk (TLit [c_pct]) t
        | [] => Tk (TLit [c_pct]) t
        end
      else if c =? c_bs then
        match t with
        | [] => TkErr EGeneric
        | d :: t' =>
            let plain :=
              if d =? c_nl then TkErr EGeneric
              else match escape_char d with
                   | Some e => Tk (TEsc e) t'
                   | None => TkErr EInvalidEscape
                   end in
            if d =? c_x then
              match t' with
              | h1 :: h2 :: t'' =>
                  if is_hex h1 && is_hex h2 then
                    let code := 16 * hex_val h1 + hex_val h2 in
                    if 127 <? code then TkErr EInvalidAscii else Tk (TEsc code) t''
                  else plain
              | _ => plain
              end
            else plain
        end
      else
        let '(run, rest) := span in_lit inp in
        if c =? c_cr then
          match t with
          | d :: _ =>
              (* the Error pattern has length 2 and wins unless the literal run is longer *)
              if negb (d =? c_nl) && (N.of_nat (List.length run) <=? 2) then TkErr EGeneric
              else lit_token run rest
          | [] => lit_token run rest
          end
        else lit_token run rest
  end.

Inductive lexres :=
| LexStatic (s : str) (rest : str)      (* closed without interpolation: the fused literal *)
| LexInterp (pre : str) (rest : str)    (* reached an interpolation: literal prefix, text after it *)
| LexErr (e : lexerr).

Fixpoint lex_loop (fuel : nat) (inp : str) (acc : str) : lexres :=
  match fuel with
  | O => LexErr EFuel
  | S f =>
      match next_tok inp with
      | TkEnd => LexErr EEof
      | TkErr e => LexErr e
      | Tk TDq rest => LexStatic acc rest
      | Tk TInterp rest => LexInterp acc rest
      | Tk (TLit l) rest => lex_loop f rest (acc ++ l)
      | Tk (TEsc c) rest => lex_loop f rest (acc ++ [c])
      end
  end.

(* A double-quoted string at the start of [inp], lexed and fused as the grammar's ChunkLiteral does *)
Definition lex_string (inp : str) : lexres :=
  match inp with
  | c :: t => if c =? c_dq then lex_loop (S (List.length t)) t [] else LexErr ENotAString
  | [] => LexErr ENotAString
  end.

(* The single-pass reading of [escape] used by the proofs (EscapeProofs.escape_pass_eq) *)
Definition esc_one (c : N) : str :=
  if c =? c_dq then [c_bs; c_dq]
  else if c =? c_nl then [c_bs; c_n]
  else if c =? c_cr then [c_bs; c_r]
  else [c].

Fixpoint esc_pass (s : str) : str :=
  match s with
  | [] => []
  | c :: t =>
      if c =? c_bs then c_bs :: c_bs :: esc_pass t
      else if c =? c_pct then
        match t with
        | d :: t' => if d =? c_lb then c_bs :: c_pct :: c_lb :: esc_pass t' else c_pct :: esc_pass t
        | [] => [c_pct]
        end
      else esc_one c ++ esc_pass t
  end.

(* ---------------------------------------------------------------- reading generated tables *)

(* a chain of `.replace(pat, by)` calls as extracted from the source: patterns of one or two
   characters are understood, anything else is not *)
Definition replace_pat (pat by_ s : str) : option str :=
  match pat with
  | [c] => Some (replace_char c by_ s)
  | [a; b] => Some (replace_pair a b by_ s)
  | _ => None
  end.

Fixpoint apply_replaces (reps : list (str * str)) (s : str) : option str :=
  match reps with
  | [] => Some s
  | (pat, by_) :: tl =>
      match replace_pat pat by_ s with
      | Some s' => apply_replaces tl s'
      | None => None
      end
  end.

Fixpoint assoc_N (tbl : list (N * N)) (c : N) : option N :=
  match tbl with
  | [] => None
  | (k, v) :: tl => if c =? k then Some v else assoc_N tl c
  end.
