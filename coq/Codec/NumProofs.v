(* C13 — facts about Codec/Num.v: the decimal token of an integer parses back to it. *)
From Coq Require Import List NArith ZArith Bool Lia ZifyBool ZifyN ZifyNat.
Import ListNotations.
From NV Require Import Codec.Escape Codec.EscapeProofs Codec.Ident Codec.Num.
Open Scope N_scope.
Ltac Zify.zify_post_hook ::= Z.div_mod_to_equations.

Lemma is_digit_spec c : is_digit c = true <-> 48 <= c <= 57.
Proof. unfold is_digit. lia. Qed.

Lemma radix_digit_char d : d < 10 -> radix_digit (digit_char d) = Some d.
Proof.
  intro H. unfold radix_digit, digit_char.
  assert (Hd : is_digit (48 + d) = true) by (apply is_digit_spec; lia).
  rewrite Hd. f_equal. lia.
Qed.

Lemma is_digit_digit_char d : d < 10 -> is_digit (digit_char d) = true.
Proof. intro H. apply is_digit_spec. unfold digit_char. lia. Qed.

Lemma parse_digits_app r l1 l2 acc :
  parse_digits r (l1 ++ l2) acc =
  match parse_digits r l1 acc with Some a => parse_digits r l2 a | None => None end.
Proof.
  revert acc. induction l1 as [|c l1 IH]; intro acc; cbn [app parse_digits]; [reflexivity|].
  destruct (radix_digit c) as [d|]; [|reflexivity]. destruct (d <? r); [apply IH | reflexivity].
Qed.

Lemma pow2_succ f : 2 ^ N.of_nat (S f) = 2 * 2 ^ N.of_nat f.
Proof. rewrite Nat2N.inj_succ. apply N.pow_succ_r'. Qed.

Lemma dec_digits_parse : forall fuel n, n < 2 ^ N.of_nat fuel ->
  parse_digits 10 (dec_digits fuel n) 0 = Some n.
Proof.
  induction fuel as [|f IH]; intros n Hn.
  - change (2 ^ N.of_nat 0) with 1 in Hn. assert (n = 0) by lia. subst n. reflexivity.
  - cbn [dec_digits]. destruct (n <? 10) eqn:Hlt.
    + cbn [parse_digits]. rewrite radix_digit_char by lia.
      assert (Hl : (n <? 10) = true) by exact Hlt. rewrite Hl. f_equal.
    + rewrite parse_digits_app. rewrite pow2_succ in Hn. remember (2 ^ N.of_nat f) as p.
      rewrite IH by (subst p; lia). cbn [parse_digits].
      rewrite radix_digit_char by lia.
      assert (Hl : (n mod 10 <? 10) = true) by lia. rewrite Hl. f_equal. lia.
Qed.

Lemma dec_digits_all_digits : forall fuel n, forallb is_digit (dec_digits fuel n) = true.
Proof.
  induction fuel as [|f IH]; intro n; cbn [dec_digits].
  - cbn [forallb]. rewrite is_digit_digit_char by lia. reflexivity.
  - destruct (n <? 10) eqn:Hlt.
    + cbn [forallb]. rewrite is_digit_digit_char by lia. reflexivity.
    + rewrite forallb_app. rewrite IH. cbn [forallb]. rewrite is_digit_digit_char by lia. reflexivity.
Qed.

Lemma dec_digits_nonempty fuel n : dec_digits fuel n <> [].
Proof.
  destruct fuel as [|f]; cbn [dec_digits]; [discriminate|].
  destruct (n <? 10); [discriminate|]. intro H. apply app_eq_nil in H. destruct H as [_ H]. discriminate.
Qed.

(* no leading zero except for zero itself *)
Lemma dec_digits_head : forall fuel n, n < 2 ^ N.of_nat fuel ->
  exists c t, dec_digits fuel n = c :: t /\ ((c =? 48) = true -> n = 0 /\ t = []).
Proof.
  induction fuel as [|f IH]; intros n Hn.
  - change (2 ^ N.of_nat 0) with 1 in Hn. assert (n = 0) by lia. subst n.
    exists 48, []. split; [reflexivity|]. intros _. split; reflexivity.
  - cbn [dec_digits]. destruct (n <? 10) eqn:Hlt.
    + exists (digit_char n), []. split; [reflexivity|]. unfold digit_char. intro H. split; [lia|reflexivity].
    + rewrite pow2_succ in Hn. remember (2 ^ N.of_nat f) as p.
      destruct (IH (n / 10)) as (c & t & Heq & Hz); [subst p; lia|].
      rewrite Heq. exists c, (t ++ [digit_char (n mod 10)]). split; [reflexivity|].
      intro H. destruct (Hz H) as [H0 _]. exfalso. lia.
Qed.

Lemma dec_of_N_bound n : n < 2 ^ N.of_nat (N.to_nat (N.size n)).
Proof. rewrite N2Nat.id. apply N.size_gt. Qed.

Lemma dec_of_N_parse n : parse_nat 10 (dec_of_N n) = Some n.
Proof.
  unfold parse_nat, dec_of_N. pose proof (dec_digits_nonempty (N.to_nat (N.size n)) n) as Hne.
  destruct (dec_digits (N.to_nat (N.size n)) n) as [|c t] eqn:He; [contradiction|].
  rewrite <- He. apply dec_digits_parse. apply dec_of_N_bound.
Qed.

Lemma dec_of_N_digits n : forallb is_digit (dec_of_N n) = true.
Proof. apply dec_digits_all_digits. Qed.

Lemma dec_of_N_head n :
  exists c t, dec_of_N n = c :: t /\ is_digit c = true /\ ((c =? 48) = true -> n = 0 /\ t = []).
Proof.
  destruct (dec_digits_head _ n (dec_of_N_bound n)) as (c & t & He & Hz).
  exists c, t. split; [exact He|]. split; [|exact Hz].
  pose proof (dec_of_N_digits n) as Hd. unfold dec_of_N in Hd. rewrite He in Hd. cbn [forallb] in Hd.
  apply andb_true_iff in Hd. exact (proj1 Hd).
Qed.

Lemma digit_not_sign c : is_digit c = true -> (c =? c_plus) = false /\ (c =? c_minus) = false.
Proof. intro H. apply is_digit_spec in H. unfold c_plus, c_minus. lia. Qed.

Lemma from_str_radix_dec_nonneg (signed : bool) lo hi z :
  (0 <= z)%Z -> (lo <= z <= hi)%Z ->
  from_str_radix signed lo hi 10 (dec_of_Z z) = Some z.
Proof.
  intros Hz Hr. unfold dec_of_Z. assert (Hlt : (z <? 0)%Z = false) by lia. rewrite Hlt.
  destruct (dec_of_N_head (Z.to_N z)) as (c & t & He & Hd & _).
  pose proof (dec_of_N_parse (Z.to_N z)) as Hp. unfold from_str_radix. rewrite He in *.
  destruct (digit_not_sign c Hd) as [H1 H2]. rewrite H1, H2. rewrite andb_false_r.
  rewrite Hp. rewrite Z2N.id by lia.
  assert (Hc : ((lo <=? z) && (z <=? hi))%Z = true) by lia. rewrite Hc. reflexivity.
Qed.

Lemma from_str_radix_dec_neg lo hi z :
  (z < 0)%Z -> (lo <= z <= hi)%Z ->
  from_str_radix true lo hi 10 (dec_of_Z z) = Some z.
Proof.
  intros Hz Hr. unfold dec_of_Z. assert (Hlt : (z <? 0)%Z = true) by lia. rewrite Hlt.
  unfold from_str_radix. change (c_minus =? c_plus) with false. change (c_minus =? c_minus) with true.
  cbn [andb]. rewrite dec_of_N_parse.
  assert (He : (- Z.of_N (Z.abs_N z))%Z = z) by lia. rewrite He.
  assert (Hc : ((lo <=? z) && (z <=? hi))%Z = true) by lia. rewrite Hc. reflexivity.
Qed.

Lemma parse_i64_dec z : (i64_min <= z <= i64_max)%Z -> parse_i64 (dec_of_Z z) = Some z.
Proof.
  intro H. unfold parse_i64. destruct (Z.ltb_spec z 0).
  - apply from_str_radix_dec_neg; assumption.
  - apply from_str_radix_dec_nonneg; assumption.
Qed.

Lemma parse_i64_dec_big z : (i64_max < z)%Z -> parse_i64 (dec_of_Z z) = None.
Proof.
  intro H. unfold parse_i64, dec_of_Z. assert (Hlt : (z <? 0)%Z = false) by (unfold i64_max in H; lia).
  rewrite Hlt. destruct (dec_of_N_head (Z.to_N z)) as (c & t & He & Hd & _).
  pose proof (dec_of_N_parse (Z.to_N z)) as Hp. unfold from_str_radix. rewrite He in *.
  destruct (digit_not_sign c Hd) as [H1 H2]. rewrite H1, H2. rewrite andb_false_r.
  rewrite Hp. rewrite Z2N.id by (unfold i64_max in H; lia).
  assert (Hc : ((i64_min <=? z) && (z <=? i64_max))%Z = false) by lia. rewrite Hc. reflexivity.
Qed.

Lemma parse_u64_dec z : (0 <= z <= u64_max)%Z -> parse_u64 (dec_of_Z z) = Some z.
Proof. intro H. apply from_str_radix_dec_nonneg; lia. Qed.

(* ---------------------------------------------------------------- serialize_num *)

Lemma serialize_int_exact n : (i64_min <= n <= u64_max)%Z ->
  serialize_int n = if (n <? 0)%Z then NI64 n else NU64 n.
Proof.
  intro H. unfold serialize_int. destruct (n <? 0)%Z eqn:Hn.
  - assert (Hc : (i64_min <=? n)%Z = true) by lia. rewrite Hc. reflexivity.
  - assert (Hc : (n <=? u64_max)%Z = true) by lia. rewrite Hc. reflexivity.
Qed.

Lemma serialize_int_outside n : (n < i64_min \/ u64_max < n)%Z -> serialize_int n = NF64.
Proof.
  intro H. unfold serialize_int. unfold i64_min, u64_max in *. destruct (n <? 0)%Z eqn:Hn.
  - assert (Hc : (- 2 ^ 63 <=? n)%Z = false) by lia. rewrite Hc. reflexivity.
  - assert (Hc : (n <=? 2 ^ 64 - 1)%Z = false) by lia. rewrite Hc. reflexivity.
Qed.

Lemma int_token_exact n : (i64_min <= n <= u64_max)%Z -> int_token n = Some (dec_of_Z n).
Proof.
  intro H. unfold int_token. rewrite serialize_int_exact by exact H. destruct (n <? 0)%Z; reflexivity.
Qed.

(* ---------------------------------------------------------------- external integer readers *)

Lemma all_digits_dec_of_N n : all_digits (dec_of_N n) = true.
Proof.
  unfold all_digits. destruct (dec_of_N_head n) as (c & t & He & _). rewrite He. rewrite <- He.
  apply dec_of_N_digits.
Qed.

Lemma json_int_token_dec_of_N n :
  all_digits (dec_of_N n) && match dec_of_N n with [c] => true | c :: _ => negb (c =? 48) | [] => false end = true.
Proof.
  rewrite all_digits_dec_of_N. destruct (dec_of_N_head n) as (c & t & He & _ & Hz). rewrite He.
  destruct t as [|d t]; [reflexivity|]. destruct (c =? 48) eqn:Hc; [|reflexivity].
  destruct (Hz eq_refl) as [_ Ht]. discriminate.
Qed.

Lemma json_int_token_dec z : json_int_token (dec_of_Z z) = true.
Proof.
  unfold json_int_token, dec_of_Z. destruct (z <? 0)%Z.
  - change (c_minus =? c_minus) with true. cbv iota. apply json_int_token_dec_of_N.
  - destruct (dec_of_N_head (Z.to_N z)) as (c & t & He & Hd & _).
    pose proof (json_int_token_dec_of_N (Z.to_N z)) as H. rewrite He in *.
    destruct (digit_not_sign c Hd) as [_ H2]. rewrite H2. exact H.
Qed.

Lemma json_serde_int_dec z : (i64_min <= z <= u64_max)%Z -> json_serde_int (dec_of_Z z) = SInt z.
Proof.
  intro H. unfold json_serde_int. rewrite json_int_token_dec. unfold dec_of_Z.
  destruct (z <? 0)%Z eqn:Hz.
  - change (c_minus =? c_minus) with true. cbv iota. rewrite dec_of_N_parse.
    destruct (Z.abs_N z) as [|p] eqn:Ha; [lia|].
    assert (He : (- Z.of_N (N.pos p))%Z = z) by lia. rewrite He.
    assert (Hc : (i64_min <=? z)%Z = true) by lia. rewrite Hc. reflexivity.
  - destruct (dec_of_N_head (Z.to_N z)) as (c & t & He & Hd & _).
    pose proof (dec_of_N_parse (Z.to_N z)) as Hp. rewrite He in *.
    destruct (digit_not_sign c Hd) as [_ H2]. rewrite H2. rewrite Hp.
    rewrite Z2N.id by lia. assert (Hc : (z <=? u64_max)%Z = true) by lia. rewrite Hc. reflexivity.
Qed.

Lemma toml_int_dec z : (i64_min <= z <= i64_max)%Z -> toml_int (dec_of_Z z) = TInt z.
Proof.
  intro H. unfold toml_int. rewrite json_int_token_dec. cbn [orb]. rewrite parse_i64_dec by exact H. reflexivity.
Qed.
