(* C13 — proofs about Codec/Escape.v:
     escape_pass_eq     the five sequential replaces of pretty.rs are the single pass esc_pass
     escape_roundtrip   lexing the printed string gives back the string, for EVERY string *)
From Coq Require Import List NArith Bool Lia Arith.
Import ListNotations.
From NV Require Import Codec.Escape.
Open Scope N_scope.

(* ---------------------------------------------------------------- generic list facts *)

Lemma list_ind2 (P : str -> Prop) :
  P [] -> (forall x, P [x]) -> (forall x y l, P l -> P (y :: l) -> P (x :: y :: l)) ->
  forall l, P l.
Proof.
  intros H0 H1 H2 l.
  assert (HH : P l /\ forall x, P (x :: l)).
  { induction l as [|a l IH].
    - split; [exact H0 | exact H1].
    - destruct IH as [IHa IHb]. split; [apply IHb|]. intro x. apply H2; [exact IHa | apply IHb]. }
  exact (proj1 HH).
Qed.

Lemma replace_char_app c b l1 l2 :
  replace_char c b (l1 ++ l2) = replace_char c b l1 ++ replace_char c b l2.
Proof.
  induction l1 as [|x l1 IH]; cbn [replace_char app]; [reflexivity|].
  destruct (x =? c); rewrite IH; [rewrite app_assoc|]; reflexivity.
Qed.

Lemma replace_pair_cons_ne a b by_ x l :
  (x =? a) = false -> replace_pair a b by_ (x :: l) = x :: replace_pair a b by_ l.
Proof.
  intro Hx. destruct l as [|y l]; cbn [replace_pair]; [reflexivity|].
  rewrite Hx. reflexivity.
Qed.

Lemma replace_pair_id a b by_ l :
  (forall x, In x l -> (x =? a) = false) -> replace_pair a b by_ l = l.
Proof.
  induction l as [|x l IH]; intro H; [reflexivity|].
  rewrite replace_pair_cons_ne by (apply H; left; reflexivity).
  rewrite IH; [reflexivity|]. intros y Hy. apply H. right. exact Hy.
Qed.

Lemma span_eq p l : let '(a, b) := span p l in l = a ++ b.
Proof.
  induction l as [|x l IH]; cbn [span]; [reflexivity|].
  destruct (p x); [|reflexivity].
  destruct (span p l) as [a b]. cbn [app]. rewrite IH. reflexivity.
Qed.

Lemma span_fst_all p l : forall x, In x (fst (span p l)) -> p x = true.
Proof.
  induction l as [|y l IH]; cbn [span]; intros x Hx; [contradiction|].
  destruct (p y) eqn:Hy; [|contradiction].
  destruct (span p l) as [a b]. cbn [fst] in *. destruct Hx as [<-|Hx]; [exact Hy | apply IH; exact Hx].
Qed.

Lemma span_snd_head p l : match snd (span p l) with [] => True | y :: _ => p y = false end.
Proof.
  induction l as [|y l IH]; cbn [span]; [exact I|].
  destruct (p y) eqn:Hy; [|cbn [snd]; exact Hy].
  destruct (span p l) as [a b]. cbn [snd] in *. exact IH.
Qed.

Lemma span_app p run rest :
  (forall x, In x run -> p x = true) ->
  match rest with [] => True | y :: _ => p y = false end ->
  span p (run ++ rest) = (run, rest).
Proof.
  induction run as [|x run IH]; intros Hall Hhd; cbn [app].
  - destruct rest as [|y rest]; cbn [span]; [reflexivity|]. rewrite Hhd. reflexivity.
  - cbn [span]. rewrite (Hall x) by (left; reflexivity).
    rewrite IH; [reflexivity| |exact Hhd]. intros y Hy. apply Hall. right. exact Hy.
Qed.

(* ---------------------------------------------------------------- escape = esc_pass *)

Definition r1 := replace_char c_bs [c_bs; c_bs].
Definition r2 := replace_pair c_pct c_lb [c_bs; c_pct; c_lb].
Definition hh (l : str) : str :=
  replace_char c_cr [c_bs; c_r] (replace_char c_nl [c_bs; c_n] (replace_char c_dq [c_bs; c_dq] l)).

Lemma escape_unfold s : escape s = hh (r2 (r1 s)).
Proof. reflexivity. Qed.

Lemma hh_cons c l : hh (c :: l) = esc_one c ++ hh l.
Proof.
  unfold hh, esc_one. cbn [replace_char].
  destruct (c =? c_dq) eqn:Hdq.
  - cbn [app replace_char]. change (c_bs =? c_nl) with false. change (c_dq =? c_nl) with false.
    cbn [replace_char]. change (c_bs =? c_cr) with false. change (c_dq =? c_cr) with false. reflexivity.
  - cbn [replace_char]. destruct (c =? c_nl) eqn:Hnl.
    + cbn [app replace_char]. change (c_bs =? c_cr) with false. change (c_n =? c_cr) with false. reflexivity.
    + cbn [replace_char]. destruct (c =? c_cr); reflexivity.
Qed.

Lemma hh_nil : hh [] = [].
Proof. reflexivity. Qed.

Lemma r1_cons c l : r1 (c :: l) = if c =? c_bs then c_bs :: c_bs :: r1 l else c :: r1 l.
Proof. unfold r1. cbn [replace_char]. destruct (c =? c_bs); reflexivity. Qed.

Lemma r2_cons_ne x l : (x =? c_pct) = false -> r2 (x :: l) = x :: r2 l.
Proof. apply replace_pair_cons_ne. Qed.

Lemma r2_pct_r1 y l : (y =? c_lb) = false -> r2 (c_pct :: r1 (y :: l)) = c_pct :: r2 (r1 (y :: l)).
Proof.
  intro Hlb. rewrite r1_cons. destruct (y =? c_bs) eqn:Hyb; unfold r2; cbn [replace_pair].
  - change (c_bs =? c_lb) with false. rewrite andb_false_r. reflexivity.
  - rewrite Hlb. rewrite andb_false_r. reflexivity.
Qed.

Lemma esc_one_plain c :
  (c =? c_dq) = false -> (c =? c_nl) = false -> (c =? c_cr) = false -> esc_one c = [c].
Proof. intros H1 H2 H3. unfold esc_one. rewrite H1, H2, H3. reflexivity. Qed.

Lemma escape_pass_eq : forall s, escape s = esc_pass s.
Proof.
  intro s. rewrite escape_unfold. induction s as [| x | x y l IHl IHyl] using list_ind2.
  - reflexivity.
  - rewrite r1_cons. cbn [esc_pass]. destruct (x =? c_bs) eqn:Hbs.
    + change (r1 []) with (@nil N). rewrite !r2_cons_ne by reflexivity. rewrite !hh_cons. reflexivity.
    + change (r1 []) with (@nil N). destruct (x =? c_pct) eqn:Hp.
      * apply N.eqb_eq in Hp. subst x. reflexivity.
      * rewrite r2_cons_ne by exact Hp. rewrite hh_cons. reflexivity.
  - rewrite r1_cons. destruct (x =? c_bs) eqn:Hbs.
    + apply N.eqb_eq in Hbs. subst x. rewrite !r2_cons_ne by reflexivity. rewrite !hh_cons.
      rewrite IHyl. reflexivity.
    + cbn [esc_pass]. rewrite Hbs. destruct (x =? c_pct) eqn:Hp.
      * apply N.eqb_eq in Hp. subst x. destruct (y =? c_lb) eqn:Hlb.
        -- apply N.eqb_eq in Hlb. subst y. rewrite r1_cons. change (c_lb =? c_bs) with false.
           unfold r2 at 1. cbn [replace_pair]. change (c_pct =? c_pct) with true.
           change (c_lb =? c_lb) with true. cbn [andb].
           change (replace_pair c_pct c_lb [c_bs; c_pct; c_lb] (r1 l)) with (r2 (r1 l)).
           cbn [app]. rewrite !hh_cons. rewrite IHl. reflexivity.
        -- rewrite (r2_pct_r1 y l Hlb). rewrite hh_cons. rewrite IHyl. reflexivity.
      * rewrite r2_cons_ne by exact Hp. rewrite hh_cons. rewrite IHyl. reflexivity.
Qed.

(* ---------------------------------------------------------------- the round trip *)

Definition plain (c : N) : bool :=
  negb ((c =? c_dq) || (c =? c_pct) || (c =? c_bs) || (c =? c_nl) || (c =? c_cr)).

Lemma plain_inv c : plain c = true ->
  (c =? c_dq) = false /\ (c =? c_pct) = false /\ (c =? c_bs) = false /\ (c =? c_nl) = false /\ (c =? c_cr) = false.
Proof.
  unfold plain. intro H. apply negb_true_iff in H.
  repeat (apply orb_false_iff in H; destruct H as [H ?]). repeat split; assumption.
Qed.

Lemma plain_in_lit c : plain c = true -> in_lit c = true.
Proof.
  intro H. destruct (plain_inv c H) as (H1 & H2 & H3 & _ & _). unfold in_lit. rewrite H1, H2, H3. reflexivity.
Qed.

Lemma esc_pass_plain_cons c s : plain c = true -> esc_pass (c :: s) = c :: esc_pass s.
Proof.
  intro H. destruct (plain_inv c H) as (H1 & H2 & H3 & H4 & H5).
  cbn [esc_pass]. rewrite H3, H2. rewrite esc_one_plain by assumption. reflexivity.
Qed.

Lemma esc_pass_plain_run run s :
  (forall x, In x run -> plain x = true) -> esc_pass (run ++ s) = run ++ esc_pass s.
Proof.
  induction run as [|x run IH]; intro H; [reflexivity|].
  cbn [app]. rewrite esc_pass_plain_cons by (apply H; left; reflexivity).
  rewrite IH; [reflexivity|]. intros y Hy. apply H. right. exact Hy.
Qed.

(* what the escaped text starts with *)
Lemma esc_pass_head_nonplain c s rest :
  plain c = false ->
  exists e tl, esc_pass (c :: s) ++ rest = e :: tl /\ in_lit e = false /\ (e =? c_lb) = false.
Proof.
  intro Hc. cbn [esc_pass].
  destruct (c =? c_bs) eqn:Hbs; [eexists; eexists; split; [reflexivity|split; reflexivity]|].
  destruct (c =? c_pct) eqn:Hp.
  { destruct s as [|d s']; [eexists; eexists; split; [reflexivity|split; reflexivity]|].
    destruct (d =? c_lb); eexists; eexists; (split; [reflexivity|split; reflexivity]). }
  unfold esc_one. destruct (c =? c_dq) eqn:Hdq; [eexists; eexists; split; [reflexivity|split; reflexivity]|].
  destruct (c =? c_nl) eqn:Hnl; [eexists; eexists; split; [reflexivity|split; reflexivity]|].
  destruct (c =? c_cr) eqn:Hcr; [eexists; eexists; split; [reflexivity|split; reflexivity]|].
  exfalso. unfold plain in Hc. rewrite Hdq, Hp, Hbs, Hnl, Hcr in Hc. discriminate.
Qed.

Lemma esc_pass_head_not_lb d s rest :
  (d =? c_lb) = false ->
  exists e tl, esc_pass (d :: s) ++ rest = e :: tl /\ (e =? c_lb) = false.
Proof.
  intro Hd. destruct (plain d) eqn:Hpl.
  - rewrite esc_pass_plain_cons by exact Hpl. eexists; eexists; split; [reflexivity|exact Hd].
  - destruct (esc_pass_head_nonplain d s rest Hpl) as (e & tl & He & _ & Hlb).
    exists e, tl. split; assumption.
Qed.

Lemma no_cr_normalize run :
  (forall x, In x run -> plain x = true) ->
  normalize_line_endings run = run /\ has_cr run = false.
Proof.
  intro H. split.
  - apply replace_pair_id. intros x Hx. exact (proj2 (proj2 (proj2 (proj2 (plain_inv x (H x Hx)))))).
  - unfold has_cr. induction run as [|x run IH]; [reflexivity|]. cbn [existsb].
    rewrite (proj2 (proj2 (proj2 (proj2 (plain_inv x (H x (or_introl eq_refl))))))).
    apply IH. intros y Hy. apply H. right. exact Hy.
Qed.

(* one escape sequence "backslash d" with escape_char d = Some e, d not x and not LF *)
Lemma next_tok_escape d e tl :
  (d =? c_x) = false -> (d =? c_nl) = false -> escape_char d = Some e ->
  next_tok (c_bs :: d :: tl) = Tk (TEsc e) tl.
Proof.
  intros Hx Hnl He. cbn [next_tok]. change (c_bs =? c_dq) with false. change (c_bs =? c_pct) with false.
  change (c_bs =? c_bs) with true. cbv iota. rewrite Hx, Hnl, He. reflexivity.
Qed.

Lemma lex_loop_esc_pass :
  forall n s, (List.length s <= n)%nat ->
  forall fuel acc rest, (List.length s < fuel)%nat ->
  lex_loop fuel (esc_pass s ++ c_dq :: rest) acc = LexStatic (acc ++ s) rest.
Proof.
  induction n as [|n IH]; intros s Hlen fuel acc rest Hfuel.
  - destruct s; [|cbn in Hlen; lia]. destruct fuel as [|f]; [cbn in Hfuel; lia|].
    cbn [esc_pass app lex_loop next_tok]. change (c_dq =? c_dq) with true. cbv iota.
    rewrite app_nil_r. reflexivity.
  - destruct s as [|c t].
    { destruct fuel as [|f]; [cbn in Hfuel; lia|].
      cbn [esc_pass app lex_loop next_tok]. change (c_dq =? c_dq) with true. cbv iota.
      rewrite app_nil_r. reflexivity. }
    cbn [List.length] in Hlen, Hfuel. destruct fuel as [|f]; [lia|].
    destruct (plain c) eqn:Hpl.
    + (* a run of plain characters becomes one Literal token *)
      pose proof (span_eq plain (c :: t)) as Hsp.
      pose proof (span_fst_all plain (c :: t)) as Hall.
      pose proof (span_snd_head plain (c :: t)) as Hhd.
      destruct (span plain (c :: t)) as [run s2] eqn:Hspan. cbn [fst snd] in *.
      assert (Hrun : exists run', run = c :: run').
      { cbn [span] in Hspan. rewrite Hpl in Hspan. destruct (span plain t) as [a b].
        inversion Hspan. eexists. reflexivity. }
      destruct Hrun as [run' ->].
      rewrite Hsp. rewrite esc_pass_plain_run by exact Hall. rewrite <- app_assoc.
      assert (Hlens2 : (List.length s2 <= List.length t)%nat).
      { assert (Hl : List.length (c :: t) = List.length ((c :: run') ++ s2)) by (rewrite <- Hsp; reflexivity).
        rewrite app_length in Hl. cbn [List.length] in Hl. lia. }
      destruct (plain_inv c Hpl) as (H1 & H2 & H3 & H4 & H5).
      assert (Hspl : span in_lit ((c :: run') ++ esc_pass s2 ++ c_dq :: rest)
                     = (c :: run', esc_pass s2 ++ c_dq :: rest)).
      { apply span_app.
        - intros x Hx. apply plain_in_lit. apply Hall. exact Hx.
        - destruct s2 as [|d s2']; [reflexivity|].
          destruct (esc_pass_head_nonplain d s2' (c_dq :: rest) Hhd) as (e & tl & He & Hlit & _).
          rewrite He. exact Hlit. }
      cbn [lex_loop]. cbn [app] in Hspl |- *. unfold next_tok. rewrite H1, H2, H3.
      rewrite Hspl. rewrite H5. unfold lit_token.
      destruct (no_cr_normalize (c :: run') Hall) as [Hnorm Hcr]. rewrite Hnorm, Hcr.
      rewrite IH by lia. rewrite <- app_assoc. reflexivity.
    + (* an escaped character *)
      cbn [esc_pass]. destruct (c =? c_bs) eqn:Hbs.
      { apply N.eqb_eq in Hbs. subst c. cbn [app lex_loop].
        rewrite (next_tok_escape c_bs c_bs) by reflexivity.
        rewrite IH by lia. rewrite <- app_assoc. reflexivity. }
      destruct (c =? c_pct) eqn:Hp.
      { apply N.eqb_eq in Hp. subst c. destruct t as [|d t'].
        - cbn [app lex_loop next_tok]. change (c_pct =? c_dq) with false. change (c_pct =? c_pct) with true.
          cbv iota. change (c_dq =? c_lb) with false. cbv iota.
          change (c_dq :: rest) with (esc_pass [] ++ c_dq :: rest).
          rewrite IH by (cbn; lia). rewrite app_nil_r. reflexivity.
        - destruct (d =? c_lb) eqn:Hlb.
          + apply N.eqb_eq in Hlb. subst d. cbn [app lex_loop].
            rewrite (next_tok_escape c_pct c_pct) by reflexivity.
            change (c_lb :: esc_pass t' ++ c_dq :: rest) with ((c_lb :: esc_pass t') ++ c_dq :: rest).
            rewrite <- (esc_pass_plain_cons c_lb t') by reflexivity.
            rewrite IH by (cbn [List.length] in *; lia). rewrite <- app_assoc. reflexivity.
          + destruct (esc_pass_head_not_lb d t' (c_dq :: rest) Hlb) as (e & tl & He & Hne).
            cbn [app lex_loop]. rewrite He. cbn [next_tok].
            change (c_pct =? c_dq) with false. change (c_pct =? c_pct) with true. cbv iota.
            rewrite Hne. rewrite <- He. rewrite IH by (cbn [List.length] in *; lia).
            rewrite <- app_assoc. reflexivity. }
      unfold esc_one. destruct (c =? c_dq) eqn:Hdq.
      { apply N.eqb_eq in Hdq. subst c. cbn [app lex_loop].
        rewrite (next_tok_escape c_dq c_dq) by reflexivity.
        rewrite IH by lia. rewrite <- app_assoc. reflexivity. }
      destruct (c =? c_nl) eqn:Hnl.
      { apply N.eqb_eq in Hnl. subst c. cbn [app lex_loop].
        rewrite (next_tok_escape c_n c_nl) by reflexivity.
        rewrite IH by lia. rewrite <- app_assoc. reflexivity. }
      destruct (c =? c_cr) eqn:Hcr.
      { apply N.eqb_eq in Hcr. subst c. cbn [app lex_loop].
        rewrite (next_tok_escape c_r c_cr) by reflexivity.
        rewrite IH by lia. rewrite <- app_assoc. reflexivity. }
      exfalso. unfold plain in Hpl. rewrite Hdq, Hp, Hbs, Hnl, Hcr in Hpl. discriminate.
Qed.

Lemma esc_pass_length : forall s : str, (List.length s <= List.length (esc_pass s))%nat.
Proof.
  apply list_ind2.
  - cbn. lia.
  - intro x. cbn [esc_pass]. destruct (x =? c_bs); [cbn; lia|]. destruct (x =? c_pct); [cbn; lia|].
    unfold esc_one. destruct (x =? c_dq); [cbn; lia|]. destruct (x =? c_nl); [cbn; lia|].
    destruct (x =? c_cr); cbn; lia.
  - intros x y l IHl IHyl.
    change (esc_pass (x :: y :: l)) with
      (if x =? c_bs then c_bs :: c_bs :: esc_pass (y :: l)
       else if x =? c_pct then
              (if y =? c_lb then c_bs :: c_pct :: c_lb :: esc_pass l else c_pct :: esc_pass (y :: l))
            else esc_one x ++ esc_pass (y :: l)).
    remember (esc_pass (y :: l)) as E eqn:HE. clear HE.
    destruct (x =? c_bs); [cbn [List.length] in *; lia|].
    destruct (x =? c_pct).
    + destruct (y =? c_lb); cbn [List.length] in *; lia.
    + rewrite app_length. unfold esc_one. destruct (x =? c_dq); [cbn [List.length] in *; lia|].
      destruct (x =? c_nl); [cbn [List.length] in *; lia|].
      destruct (x =? c_cr); cbn [List.length] in *; lia.
Qed.

(* The theorem `nickel convert` relies on: whatever the string, the printed literal lexes back
   to exactly that string, and the text after the closing quote is untouched. *)
Theorem escape_roundtrip_rest : forall s rest,
  lex_string (print_string s ++ rest) = LexStatic s rest.
Proof.
  intros s rest. unfold print_string, lex_string. cbn [app]. change (c_dq =? c_dq) with true. cbv iota.
  rewrite escape_pass_eq. rewrite <- app_assoc. cbn [app].
  rewrite (lex_loop_esc_pass (List.length s) s (le_n _)).
  - reflexivity.
  - rewrite app_length. cbn [List.length]. pose proof (esc_pass_length s). lia.
Qed.

Theorem escape_roundtrip : forall s, lex_string (print_string s) = LexStatic s [].
Proof. intro s. rewrite <- (app_nil_r (print_string s)). apply escape_roundtrip_rest. Qed.

(* the escaped text never contains a raw quote that is not preceded by a backslash, a raw LF or
   a raw CR: corollary facts used as sanity examples *)
Example escape_ex1 :
  escape [c_pct; c_lb; c_dq; c_bs; c_nl; c_cr; c_pct]
  = [c_bs; c_pct; c_lb; c_bs; c_dq; c_bs; c_bs; c_bs; c_n; c_bs; c_r; c_pct].
Proof. reflexivity. Qed.

Example lex_ex_interp : lex_string [c_dq; c_pct; c_lb; 97; c_dq] = LexInterp [] [97; c_dq].
Proof. reflexivity. Qed.

Example lex_ex_lone_cr : lex_string [c_dq; 97; c_cr; 98; c_dq] = LexErr EGeneric.
Proof. reflexivity. Qed.

Example lex_ex_cr_error : lex_string [c_dq; c_cr; 98; c_dq] = LexErr EGeneric.
Proof. reflexivity. Qed.

(* ---------------------------------------------------------------- the fuel of lex_string is enough *)

Lemma span_length p l : let '(a, b) := span p l in List.length l = (List.length a + List.length b)%nat.
Proof.
  pose proof (span_eq p l) as H. destruct (span p l) as [a b]. rewrite H at 1. apply app_length.
Qed.

Lemma lit_token_shorter run rest t r :
  lit_token run rest = Tk t r -> r = rest.
Proof. unfold lit_token. destruct (has_cr (normalize_line_endings run)); intro H; inversion H. reflexivity. Qed.

(* every token consumes at least one character *)
Lemma next_tok_consumes inp t rest : next_tok inp = Tk t rest -> (List.length rest < List.length inp)%nat.
Proof.
  destruct inp as [|c tl]; [discriminate|]. unfold next_tok.
  destruct (c =? c_dq) eqn:Hdq.
  { intro H. inversion H. subst. cbn. lia. }
  destruct (c =? c_pct) eqn:Hp.
  { destruct tl as [|d tl']; [intro H; inversion H; subst; cbn; lia|].
    destruct (d =? c_lb); intro H; inversion H; subst; cbn; lia. }
  destruct (c =? c_bs) eqn:Hb.
  { destruct tl as [|d tl']; [discriminate|].
    assert (Hplain : forall r, (if d =? c_nl then TkErr EGeneric
                                else match escape_char d with Some e => Tk (TEsc e) tl' | None => TkErr EInvalidEscape end) = Tk t r ->
                               (List.length r < List.length (c :: d :: tl'))%nat).
    { intros r. destruct (d =? c_nl); [discriminate|]. destruct (escape_char d); [|discriminate].
      intro H. inversion H. subst. cbn. lia. }
    destruct (d =? c_x).
    - destruct tl' as [|h1 [|h2 tl'']]; try (apply Hplain).
      destruct (is_hex h1 && is_hex h2); [|apply Hplain].
      destruct (127 <? 16 * hex_val h1 + hex_val h2); [discriminate|].
      intro H. inversion H. subst. cbn. lia.
    - apply Hplain. }
  (* a literal run *)
  pose proof (span_length in_lit (c :: tl)) as Hl.
  assert (Hc : in_lit c = true) by (unfold in_lit; rewrite Hdq, Hp, Hb; reflexivity).
  destruct (span in_lit (c :: tl)) as [run r] eqn:Hs.
  assert (Hrun : (1 <= List.length run)%nat).
  { cbn [span] in Hs. rewrite Hc in Hs. destruct (span in_lit tl). inversion Hs. cbn. lia. }
  assert (Hgen : forall r', lit_token run r = Tk t r' -> (List.length r' < List.length (c :: tl))%nat).
  { intros r' H. apply lit_token_shorter in H. subst r'. lia. }
  destruct (c =? c_cr).
  - destruct tl as [|d tl']; [apply Hgen|].
    destruct (negb (d =? c_nl) && (N.of_nat (List.length run) <=? 2)); [discriminate | apply Hgen].
  - apply Hgen.
Qed.

Lemma lex_loop_no_fuel_error : forall fuel inp acc, (List.length inp < fuel)%nat -> lex_loop fuel inp acc <> LexErr EFuel.
Proof.
  induction fuel as [|f IH]; intros inp acc Hf; [lia|].
  cbn [lex_loop]. destruct (next_tok inp) as [|t rest|e] eqn:Hn.
  - discriminate.
  - pose proof (next_tok_consumes inp t rest Hn) as Hlt.
    destruct t; try discriminate; apply IH; lia.
  - destruct inp as [|c tl]; [discriminate|]. intro H. inversion H. subst e.
    (* next_tok never produces EFuel *)
    unfold next_tok in Hn.
    repeat match type of Hn with
           | context [match ?x with _ => _ end] => destruct x eqn:?; try discriminate
           end; unfold lit_token in *;
    repeat match goal with
           | H : context [match ?x with _ => _ end] |- _ => destruct x eqn:?; try discriminate
           end.
Qed.

Theorem lex_string_fuel_enough : forall inp, lex_string inp <> LexErr EFuel.
Proof.
  intro inp. unfold lex_string. destruct inp as [|c t]; [discriminate|].
  destruct (c =? c_dq); [|discriminate]. apply lex_loop_no_fuel_error. lia.
Qed.
