(* C13 — model of the scalar resolution of the YAML/JSON event loader
   (core/src/serialize/yaml.rs: Loader::push_scalar_with_err, parse, parse_float) and of the
   part of malachite's Rational::from_sci_string it relies on (external code, read from
   malachite-base preprocess_sci_string / malachite-nz parse_int; validated by correspondence).
   A number is kept as a pair (m, e) meaning m * 10^e.  Definitions only. *)
From Coq Require Import List NArith ZArith Bool.
Import ListNotations.
From NV Require Import Codec.Escape Codec.Ident Codec.Num.
Open Scope N_scope.

Inductive style := Plain | SingleQuoted | DoubleQuoted | Literal | Folded.

(* the tag of the scalar event, as far as push_scalar distinguishes *)
Inductive tag :=
| TagBool | TagInt | TagFloat | TagNull | TagStr   (* tag:yaml.org,2002:bool ... *)
| TagCoreOther                                     (* another suffix in the core schema namespace *)
| TagNonCore.                                      (* any other tag *)

Inductive sres :=
| RNull
| RBool (b : bool)
| RNum (m e : Z)          (* m * 10^e *)
| RStr (s : str)
| RErr.                   (* ParseError::ExternalFormatError *)

Fixpoint strip_prefix (p s : str) : option str :=
  match p, s with
  | [], _ => Some s
  | x :: p', y :: s' => if x =? y then strip_prefix p' s' else None
  | _ :: _, [] => None
  end.

(* spellings *)
Definition s_0x : str := [48; 120].
Definition s_0o : str := [48; 111].
Definition s_tilde : str := [126].
Definition s_null : str := [110; 117; 108; 108].
Definition s_Null : str := [78; 117; 108; 108].
Definition s_NULL : str := [78; 85; 76; 76].
Definition s_true : str := [116; 114; 117; 101].
Definition s_True : str := [84; 114; 117; 101].
Definition s_TRUE : str := [84; 82; 85; 69].
Definition s_false : str := [102; 97; 108; 115; 101].
Definition s_False : str := [70; 97; 108; 115; 101].
Definition s_FALSE : str := [70; 65; 76; 83; 69].
Definition null_spellings : list str := [s_tilde; s_null; s_Null; s_NULL].
Definition true_spellings : list str := [s_true; s_True; s_TRUE].
Definition false_spellings : list str := [s_false; s_False; s_FALSE].
(* .inf .Inf .INF +.inf +.Inf +.INF -.inf -.Inf -.INF .nan .NaN .NAN *)
Definition infnan_spellings : list str :=
  [ [46; 105; 110; 102]; [46; 73; 110; 102]; [46; 73; 78; 70];
    [43; 46; 105; 110; 102]; [43; 46; 73; 110; 102]; [43; 46; 73; 78; 70];
    [45; 46; 105; 110; 102]; [45; 46; 73; 110; 102]; [45; 46; 73; 78; 70];
    [46; 110; 97; 110]; [46; 78; 97; 78]; [46; 78; 65; 78] ].

(* ---------------------------------------------------------------- malachite from_sci_string, base 10 *)

Definition is_e (c : N) : bool := (c =? 101) || (c =? 69).

(* split at the LAST e/E; None when it is the first or the last character *)
Definition split_exp (v : str) : option (str * option str) :=
  let '(suf_rev, rest_rev) := span (fun c => negb (is_e c)) (rev v) in
  match rest_rev with
  | [] => Some (v, None)
  | _ :: mant_rev =>
      match mant_rev, suf_rev with
      | [], _ => None
      | _, [] => None
      | _, _ => Some (rev mant_rev, Some (rev suf_rev))
      end
  end.

Definition nat_string (s : str) : option Z :=
  if all_digits s then option_map Z.of_N (parse_nat 10 s) else None.

(* Integer::parse_int of FromSciStringHelper: one optional sign, then decimal digits *)
Definition sci_parse_int (cs : str) : option Z :=
  match cs with
  | [] => None
  | c :: t =>
      if c =? c_plus then
        match t with
        | [] => None
        | d :: _ => if (d =? c_plus) || (d =? c_minus) then None else nat_string t
        end
      else if c =? c_minus then
        match t with
        | d :: _ => if d =? c_plus then None else option_map Z.opp (nat_string t)
        | [] => None
        end
      else nat_string cs
  end.

Definition from_sci (v : str) : option (Z * Z) :=
  match split_exp v with
  | None => None
  | Some (mant, ex) =>
      match (match ex with None => Some 0%Z | Some x => parse_i64 x end) with
      | None => None
      | Some e0 =>
          let '(a, b) := span (fun c => negb (c =? c_dot)) mant in
          match b with
          | [] => option_map (fun m => (m, e0)) (sci_parse_int a)
          | _ :: frac =>
              match frac with
              | [] => option_map (fun m => (m, e0)) (sci_parse_int a)
              | d :: _ =>
                  if (d =? c_plus) || (d =? c_minus) then None
                  else
                    let e1 := (e0 - Z.of_nat (List.length frac))%Z in
                    if (e1 <? i64_min)%Z then None
                    else option_map (fun m => (m, e1)) (sci_parse_int (a ++ frac))
              end
          end
      end
  end.

(* ---------------------------------------------------------------- yaml.rs *)

Definition is_some {A} (o : option A) : bool := match o with Some _ => true | None => false end.

Inductive fres := FErr | FNum (m e : Z) | FNone.

(* fn unsigned: the digits after a radix prefix or a plus sign must not start with a sign *)
Definition is_sign (c : N) : bool := (c =? c_plus) || (c =? c_minus).
Definition unsigned (r : str) : bool := match r with c :: _ => negb (is_sign c) | [] => true end.

(* fn parse_float (its format argument only names the format in error messages) *)
Definition parse_float (v : str) : fres :=
  if mem v infnan_spellings then FErr
  else if existsb is_digit v then
    match from_sci v with Some (m, e) => FNum m e | None => FNone end
  else FNone.

Definition prefixed_int (p : str) (radix : N) (v : str) : option Z :=
  match strip_prefix p v with
  | Some r => if unsigned r then parse_i64_radix radix r else None
  | None => None
  end.

(* fn parse: a plain scalar without a (core schema) tag *)
Definition resolve_plain (v : str) : sres :=
  match prefixed_int s_0x 16 v with
  | Some i => RNum i 0
  | None =>
  match prefixed_int s_0o 8 v with
  | Some i => RNum i 0
  | None =>
  match prefixed_int [c_plus] 10 v with
  | Some i => RNum i 0
  | None =>
      if mem v null_spellings then RNull
      else if mem v true_spellings then RBool true
      else if mem v false_spellings then RBool false
      else match parse_i64 v with
           | Some i => RNum i 0
           | None => match parse_float v with
                     | FErr => RErr
                     | FNum m e => RNum m e
                     | FNone => RStr v
                     end
           end
  end end end.

(* fn push_scalar_with_err: what the scalar event denotes *)
Definition resolve (st : style) (tg : option tag) (v : str) : sres :=
  match st with
  | Plain =>
      match tg with
      | None | Some TagNonCore => resolve_plain v
      | Some TagBool => if str_eqb v s_true then RBool true else if str_eqb v s_false then RBool false else RErr
      | Some TagInt => match parse_i64 v with Some i => RNum i 0 | None => RErr end
      | Some TagFloat => match parse_float v with FNum m e => RNum m e | _ => RErr end
      | Some TagNull => if str_eqb v s_tilde || str_eqb v s_null then RNull else RErr
      | Some TagStr => RStr v
      | Some TagCoreOther => RErr
      end
  | _ => RStr v
  end.

(* ---------------------------------------------------------------- the spellings, as a decision *)

Definition radix_int_spelling (v : str) : bool :=
  is_some (prefixed_int s_0x 16 v) || is_some (prefixed_int s_0o 8 v).
Definition plus_int_spelling (v : str) : bool := is_some (prefixed_int [c_plus] 10 v).
Definition keyword_spelling (v : str) : bool :=
  mem v null_spellings || mem v true_spellings || mem v false_spellings.
Definition dec_i64_spelling (v : str) : bool := is_some (parse_i64 v).
Definition infnan_spelling (v : str) : bool := mem v infnan_spellings.
Definition sci_spelling (v : str) : bool := existsb is_digit v && is_some (from_sci v).

(* a plain untagged scalar spelled like this does not denote a string *)
Definition nonstring_spelling (v : str) : bool :=
  radix_int_spelling v || plus_int_spelling v || keyword_spelling v || dec_i64_spelling v
  || infnan_spelling v || sci_spelling v.

(* ---------------------------------------------------------------- the number spellings, as a grammar *)

(* [+-]? ( D+ | D+ . D* | D* . D+ ) ( [eE] [+-]? D+ )?  with the exponent in the i64 range and the
   exponent minus the number of fraction digits not below i64::MIN: proved in SciGrammar.v to be
   exactly what from_sci accepts *)
Definition strip_sign (s : str) : str :=
  match s with c :: t => if is_sign c then t else s | [] => [] end.
Definition is_nil {A} (l : list A) : bool := match l with [] => true | _ => false end.

(* [+-]? ( D+ | D+ . D* | D* . D+ );  returns the number of fraction digits *)
Definition mantissa_frac (m : str) : option nat :=
  let body := strip_sign m in
  let '(ip, r) := span is_digit body in
  match r with
  | [] => if is_nil ip then None else Some O
  | c :: fp =>
      if (c =? c_dot) && forallb is_digit fp && negb (is_nil ip && is_nil fp)
      then Some (List.length fp) else None
  end.

Definition sci_grammar (v : str) : bool :=
  let '(m, r) := span (fun c => negb (is_e c)) v in
  match mantissa_frac m with
  | None => false
  | Some nf =>
      match r with
      | [] => (i64_min <=? - Z.of_nat nf)%Z
      | _ :: x =>
          match parse_i64 x with
          | Some e0 => (i64_min <=? e0 - Z.of_nat nf)%Z
          | None => false
          end
      end
  end.


(* ---------------------------------------------------------------- the known class *)

(* f64::from_str rounds to nearest-even: a decimal overflows to infinity iff its magnitude is at
   least 2^1024 - 2^970 (half an ulp above f64::MAX) *)
Definition f64_overflow_threshold : Z := (2 ^ 1024 - 2 ^ 970)%Z.
Definition overflows_f64 (m e : Z) : bool :=
  if (0 <=? e)%Z then (f64_overflow_threshold <=? Z.abs m * 10 ^ e)%Z
  else (f64_overflow_threshold * 10 ^ (- e) <=? Z.abs m)%Z.

(* a string spelled as a decimal/scientific number whose magnitude overflows f64 *)
Definition float_overflow_spelling (v : str) : bool :=
  existsb is_digit v
  && match from_sci v with Some (m, e) => overflows_f64 m e | None => false end.

(* The contract an emitter must meet for strings to survive: whenever it writes a string as a
   plain scalar, that spelling must denote a string for the loader. *)
Definition emitter_meets_contract (writes_plain : str -> bool) : Prop :=
  forall s, writes_plain s = true -> nonstring_spelling s = false.
