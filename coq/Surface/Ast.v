(* C14 — surface AST of the printable fragment of Nickel (mirror of parser/src/ast: [Node], [Type],
   [Pattern], records, metadata), position-erased, and the token vocabulary shared by the model
   printer ([Print.v]), the model parser ([Parse.v]) and the Rust harness (harness/src/c14.rs).

   String literal contents and identifiers are opaque [string]s (their escaping is C13's business);
   numbers are exact rationals.  Definitions only. *)
From Coq Require Import String List ZArith QArith Bool.
Import ListNotations.
Open Scope string_scope.

Inductive prio := PBottom | PNeutral | PNumeral (q : Q) | PTop.
Inductive ptail := TClosed | TOpen | TCapture (x : string).
Inductive rtail := RClosed | RTailDyn | RTailVar (x : string).
Inductive pconst := CBool (b : bool) | CNum (q : Q) | CStr (s : string) | CNull.

(* primitive operations are identified by the name [Display for PrimOp] gives them
   ("(+)", "string/concat", "typeof", "record/get", "(&&)", "bool/not", ...) *)
Inductive op :=
| OStatAccess (id : string)      (* e.id *)
| OEnumEmbed (id : string)       (* %enum/embed% id e *)
| ONamed (name : string).

Record annot_ (Ty : Type) := Ann { a_typ : option Ty ; a_ctrs : list Ty }.
Arguments Ann {Ty}. Arguments a_typ {Ty}. Arguments a_ctrs {Ty}.

Record fmeta_ (Ty : Type) :=
  FMeta { m_doc : option string; m_ann : annot_ Ty; m_opt : bool; m_ne : bool; m_prio : prio }.
Arguments FMeta {Ty}. Arguments m_doc {Ty}. Arguments m_ann {Ty}. Arguments m_opt {Ty}.
Arguments m_ne {Ty}. Arguments m_prio {Ty}.

Inductive chunk_ (Tm : Type) := CLit (s : string) | CExpr (e : Tm) (indent : nat).
Arguments CLit {Tm}. Arguments CExpr {Tm}.

Inductive pelem_ (Tm : Type) := PId (s : string) | PExpr (cs : list (chunk_ Tm)).
Arguments PId {Tm}. Arguments PExpr {Tm}.

Record fdef_ (Tm Ty : Type) :=
  FDef { f_path : list (pelem_ Tm); f_meta : fmeta_ Ty; f_val : option Tm }.
Arguments FDef {Tm Ty}. Arguments f_path {Tm Ty}. Arguments f_meta {Tm Ty}. Arguments f_val {Tm Ty}.

Record incl_ (Ty : Type) := Incl { i_id : string; i_meta : fmeta_ Ty }.
Arguments Incl {Ty}. Arguments i_id {Ty}. Arguments i_meta {Ty}.

Record binding_ (P Tm Ty : Type) :=
  Bind { b_pat : P; b_doc : option string; b_ann : annot_ Ty; b_val : Tm }.
Arguments Bind {P Tm Ty}. Arguments b_pat {P Tm Ty}. Arguments b_doc {P Tm Ty}.
Arguments b_ann {P Tm Ty}. Arguments b_val {P Tm Ty}.

Record branch_ (P Tm : Type) := Branch { br_pat : P; br_guard : option Tm; br_body : Tm }.
Arguments Branch {P Tm}. Arguments br_pat {P Tm}. Arguments br_guard {P Tm}. Arguments br_body {P Tm}.

Record fpat_ (P Tm Ty : Type) :=
  FPat { fp_id : string; fp_ann : annot_ Ty; fp_default : option Tm; fp_pat : P }.
Arguments FPat {P Tm Ty}. Arguments fp_id {P Tm Ty}. Arguments fp_ann {P Tm Ty}.
Arguments fp_default {P Tm Ty}. Arguments fp_pat {P Tm Ty}.

Inductive term :=
| Null
| Bool (b : bool)
| Num (q : Q)
| Str (s : string)                                   (* Node::String *)
| Chunks (cs : list (chunk_ term))                   (* Node::StringChunks *)
| Fun (args : list pat) (body : term)
| Let (rec : bool) (bs : list (binding_ pat term typ)) (body : term)
| App (head : term) (args : list term)
| Var (x : string)
| Enum (tag : string) (arg : option term)            (* Node::EnumVariant *)
| Record (incs : list (incl_ typ)) (fields : list (fdef_ term typ)) (open : bool)
| If (c t e : term)
| Match (bs : list (branch_ pat term))
| Array (es : list term)
| Op (o : op) (args : list term)                     (* Node::PrimOpApp *)
| Annot (a : annot_ typ) (inner : term)
| ImportPath (path : string) (format : string)       (* format: "Nickel", "Json", ... *)
| ImportPkg (id : string)
| TypeT (t : typ)                                    (* Node::Type *)
with typ :=
| TDyn | TNumber | TBool | TString | TSymbol | TForeignId
| TContract (t : term)
| TArrow (a b : typ)
| TVar (x : string)
| TForall (x : string) (body : typ)                  (* var_kind is recomputed by the parser, not printed *)
| TEnum (rows : list (string * option typ)) (tail : option string)
| TRecord (rows : list (string * typ)) (tail : rtail)
| TDict (contract_flavour : bool) (t : typ)          (* {_ | T} / {_ : T} *)
| TArrayT (t : typ)
| TWildcard (n : nat)
with pat :=
| Pat (alias : option string) (d : pdata)
with pdata :=
| PWild
| PAny (x : string)
| PRecord (fs : list (fpat_ pat term typ)) (tail : ptail)
| PArray (ps : list pat) (tail : ptail)
| PEnum (tag : string) (arg : option pat)
| PConst (c : pconst)
| POr (ps : list pat).

Definition annot := annot_ typ.
Definition fmeta := fmeta_ typ.
Definition chunk := chunk_ term.
Definition pelem := pelem_ term.
Definition fdef := fdef_ term typ.
Definition incl := incl_ typ.
Definition binding := binding_ pat term typ.
Definition branch := branch_ pat term.
Definition fpat := fpat_ pat term typ.

Definition empty_annot : annot := Ann None [].
Definition empty_fmeta : fmeta := FMeta None empty_annot false false PNeutral.

(* ---------------------------------------------------------------- tokens *)

Inductive token :=
| TK (s : string)          (* fixed spelling: keyword, punctuation, operator, %primop% *)
| TId (s : string)         (* identifier *)
| TNum (q : Q)             (* number literal *)
| TTag (s : string)        (* raw enum tag *)
| TQTag                    (* start of a quoted enum tag *)
| TStr                     (* start of a standard string *)
| TMStr (n : nat)          (* start of a multiline string whose delimiter has n percent signs *)
| TLit (s : string)        (* literal chunk (unescaped; after strip_indent for multiline strings) *)
| TInterp (indent : nat)   (* start of an interpolated expression; the matching close is TK rbrace *)
| TEnd                     (* closing delimiter of a string-like construct *)
| TPanic.                  (* the Rust printer panics *)

(* ---------------------------------------------------------------- printer / parser variants

   Each flag names one behaviour of the code under /repo that breaks the round trip (a genuine
   defect, see Props/C14.v for the refuting witnesses and /verif/proposed/C14-*.diff for the
   proposed repairs).  [true] is the behaviour of the pinned commit, [false] the behaviour after the
   repair.  The check probes which variant the working tree implements and ties the model at that
   vector; the theorems hold for every vector. *)
Record quirks := Quirks {
  q_num_round : bool;         (* numbers are printed with 16 significant digits *)
  q_annot_noparens : bool;    (* an annotated term in type position is printed without parentheses *)
  q_dynaccess : bool;         (* dynamic access: record not parenthesised, non-string field printed
                                 bare, the curried dot operator printed as a function *)
  q_drop_not_exported : bool; (* the not_exported field metadata is not printed *)
  q_drop_alias : bool;        (* record pattern field whose sub-pattern is the field's own variable:
                                 the alias of that sub-pattern is not printed *)
  q_include_only : bool;      (* a record with includes but no field definition is printed empty *)
  q_keep_empty_lit : bool;    (* the parser keeps the empty literal chunks that strip_indent leaves *)
  q_multiline_unchecked : bool; (* a string with a newline is printed as a multiline string without
                                 checking that its indentation survives *)
  q_alias_in_parens : bool;   (* an aliased enum-variant or or-pattern that needs parentheses gets them
                                 around the alias too *)
}.

Definition pinned_code : quirks := Quirks true true true true true true true true true.
Definition repaired_code : quirks := Quirks false false false false false false false false false.
