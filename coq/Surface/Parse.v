(* C14 — model of the parser (parser/src/grammar.lalrpop + uniterm.rs) on token streams.

   A recursive-descent / precedence-climbing reading of the LALRPOP grammar:
   * [InfixExpr] with its [#[precedence(level=..)] #[assoc(side=..)]] annotations is the
     precedence-climbing parser [infix_with], *parameterised by the operator table* (section
     variables [binops], [prefixops], [max_level]; instantiated with the table generated from the
     grammar on every run, Gen/OpTable.v).  LALRPOP's expansion of the annotations is: level L
     accepts its own alternatives and everything of level L-1; [side=left] puts the first recursive
     occurrence at L and the others at L-1, [side=right] the last one at L and the others at L-1,
     no annotation ("all") every occurrence at L.
   * the uniterm layer of uniterm.rs ([UniTermNode] = variable | record | term | type, the
     conversions [TryConvert] to [Ast] and to [Type], [fix_type_vars]) is [uni], [as_term],
     [as_type], [fix_ty].
   * the grammar's semantic checks that only reject programs (duplicate let/record/pattern
     bindings, type-variable kind mismatches, typed field without definition, invalid import
     format, disabled features) are not modelled: the model accepts a superset.

   The parser is written in open-recursion style: [step self] builds one more level of every
   mutually recursive entry point from the previous level [self]; [parsers_n fuel] iterates it.
   Loops over token lists carry their own fuel.  Definitions only. *)
From Coq Require Import String Ascii List ZArith QArith Bool Arith.
From NV Require Import Surface.Ast Surface.Print.
Import ListNotations.
Close Scope Q_scope.
Open Scope nat_scope.
Open Scope string_scope.
Open Scope list_scope.

Definition P (A : Type) := list token -> option (A * list token).

Definition bind {A B} (m : option A) (f : A -> option B) : option B :=
  match m with Some a => f a | None => None end.
Notation "x <- m ;; k" := (bind m (fun x => k)) (at level 61, m at next level, right associativity).
Notation "' p <- m ;; k" := (bind m (fun x => let p := x in k))
  (at level 61, p pattern, m at next level, right associativity).

Definition is_tk (s : string) (t : token) : bool :=
  match t with TK s' => String.eqb s s' | _ => false end.

Definition expect (s : string) : P unit :=
  fun ts => match ts with
            | t :: r => if is_tk s t then Some (tt, r) else None
            | [] => None
            end.

Definition peek_is (s : string) (ts : list token) : bool :=
  match ts with t :: _ => is_tk s t | [] => false end.

(* ------------------------------------------------------------------ operator table *)

Inductive assoc := ALeft | ARight | AAll | ANone.

Inductive bkind :=
| BOp (name : string)       (* primop_app!(op, e1, e2) *)
| BLazy (name : string)     (* app!(primop_app!(op, e1), e2) *)
| BRevApp                   (* e1 |> e2  ~>  app!(e2, e1) *)
| BNotEq                    (* e1 != e2  ~>  !(e1 == e2) *)
| BArrow.                   (* type arrow *)

Inductive pkind :=
| PNeg                      (* - e  ~>  0 - e *)
| PUnary (name : string).   (* ! e *)

(* ------------------------------------------------------------------ uniterm layer *)

Record urecord := URecord {
  ur_incs : list incl;
  ur_fields : list fdef;          (* annotation types are not fixed yet *)
  ur_tail : option rtail;         (* Some RTailDyn / Some (RTailVar x) *)
  ur_open : bool }.

Inductive uni :=
| UVar (x : string)
| URec (r : urecord)
| UTerm (t : term)
| UType (ty : typ).

(* FixTypeVars for Type: variables that are not bound by an enclosing forall become contracts *)
Fixpoint fix_ty (bound : list string) (ty : typ) : typ :=
  match ty with
  | TVar x => if mem_string x bound then TVar x else TContract (Var x)
  | TArrow a b => TArrow (fix_ty bound a) (fix_ty bound b)
  | TForall x b => TForall x (fix_ty (x :: bound) b)
  | TDict false t => TDict false (fix_ty bound t)
  | TArrayT t => TArrayT (fix_ty bound t)
  | TEnum rows tail =>
      TEnum (map (fun r => (fst r, match snd r with Some t => Some (fix_ty bound t) | None => None end)) rows) tail
  | TRecord rows tail => TRecord (map (fun r => (fst r, fix_ty bound (snd r))) rows) tail
  | _ => ty
  end.

Definition fix_annot (a : annot) : annot :=
  Ann (match a_typ a with Some t => Some (fix_ty [] t) | None => None end)
      (map (fix_ty []) (a_ctrs a)).

Definition fix_fmeta (m : fmeta) : fmeta :=
  FMeta (m_doc m) (fix_annot (m_ann m)) (m_opt m) (m_ne m) (m_prio m).

Definition fix_fdef (fd : fdef) : fdef := FDef (f_path fd) (fix_fmeta (f_meta fd)) (f_val fd).

(* UniRecord::into_type_strict (without the duplicate check) *)
Definition field_as_row (fd : fdef) : option (string * typ) :=
  match f_path fd, f_val fd, m_doc (f_meta fd), a_typ (m_ann (f_meta fd)), a_ctrs (m_ann (f_meta fd)),
        m_opt (f_meta fd), m_ne (f_meta fd), m_prio (f_meta fd) with
  | [PId id], None, None, Some ty, [], false, false, PNeutral => Some (id, ty)
  | _, _, _, _, _, _, _, _ => None
  end.

Fixpoint all_some {A} (l : list (option A)) : option (list A) :=
  match l with
  | [] => Some []
  | Some a :: l' => match all_some l' with Some r => Some (a :: r) | None => None end
  | None :: _ => None
  end.

Definition record_to_type_strict (r : urecord) : option typ :=
  if ur_open r then None
  else match ur_incs r with
       | _ :: _ => None
       | [] =>
           match all_some (map field_as_row (ur_fields r)) with
           | Some rows =>
               Some (TRecord rows (match ur_tail r with Some t => t | None => RClosed end))
           | None => None
           end
       end.

Definition record_to_term (r : urecord) : option term :=
  let is_type := match all_some (map field_as_row (ur_fields r)), ur_incs r with
                 | Some _, [] => true
                 | _, _ => false
                 end in
  match ur_tail r, (is_type && match ur_fields r with [] => false | _ => true end) with
  | None, false =>
      Some (Record (ur_incs r) (map fix_fdef (ur_fields r)) (ur_open r))
  | _, _ =>
      match record_to_type_strict r with
      | Some ty => Some (TypeT (fix_ty [] ty))
      | None => None
      end
  end.

Definition record_to_type (r : urecord) : option typ :=
  match ur_tail r with
  | Some _ => record_to_type_strict r
  | None =>
      match record_to_type_strict r with
      | Some ty => Some ty
      | None => match record_to_term r with
                | Some t => Some (TContract t)
                | None => None
                end
      end
  end.

Definition as_term (u : uni) : option term :=
  match u with
  | UVar x => Some (Var x)
  | URec r => record_to_term r
  | UType ty =>
      match fix_ty [] ty with
      | TContract t => Some t
      | ty' => Some (TypeT ty')
      end
  | UTerm t => Some t
  end.

Definition as_type (u : uni) : option typ :=
  match u with
  | UVar x => Some (TVar x)
  | URec r => record_to_type r
  | UType ty => Some ty
  | UTerm t =>
      match t with
      | Null | Bool _ | Num _ | Str _ | Array _ | Enum _ _ | Chunks _ => None
      | _ => Some (TContract t)
      end
  end.

(* ------------------------------------------------------------------ metadata combination *)

Definition combine_annot (l r : annot) : annot :=
  match a_typ l, a_typ r with
  | Some lt, Some rt => Ann (Some lt) (a_ctrs l ++ [rt] ++ a_ctrs r)
  | Some lt, None => Ann (Some lt) (a_ctrs l ++ a_ctrs r)
  | None, rt => Ann rt (a_ctrs l ++ a_ctrs r)
  end.

Definition prio_le (a b : prio) : bool :=
  match a, b with
  | PBottom, _ => true
  | _, PTop => true
  | PTop, _ => false
  | _, PBottom => false
  | PNeutral, PNeutral => true
  | PNeutral, PNumeral q => Qle_bool (0 # 1) q
  | PNumeral q, PNeutral => Qle_bool q (0 # 1)
  | PNumeral p, PNumeral q => Qle_bool p q
  end.

Definition combine_prio (l r : prio) : prio :=
  match l, r with
  | PNeutral, p => p
  | p, PNeutral => p
  | p1, p2 => if prio_le p1 p2 then p2 else p1
  end.

Definition combine_fmeta (l r : fmeta) : fmeta :=
  FMeta (match m_doc l with Some d => Some d | None => m_doc r end)
        (combine_annot (m_ann l) (m_ann r))
        (m_opt l || m_opt r) (m_ne l || m_ne r)
        (combine_prio (m_prio l) (m_prio r)).

(* ------------------------------------------------------------------ small token-level parsers *)

(* StaticString (standard or multiline): a string-like construct without interpolation *)
Definition static_string_body : P string :=
  fun ts => match ts with
            | TEnd :: r => Some (EmptyString, r)
            | TLit s :: TEnd :: r => Some (s, r)
            | _ => None
            end.

Definition static_string : P string :=
  fun ts => match ts with
            | TStr :: r => static_string_body r
            | TMStr _ :: r => static_string_body r
            | _ => None
            end.

Definition standard_static_string : P string :=
  fun ts => match ts with TStr :: r => static_string_body r | _ => None end.

(* Ident: identifiers and the contextual keywords (lexed as identifiers by the harness) *)
Definition ident : P string :=
  fun ts => match ts with TId x :: r => Some (x, r) | _ => None end.

Definition metadata_keywords : list string :=
  ["doc"; "default"; "force"; "priority"; "optional"; "not_exported"].

(* ExtendedIdent *)
Definition extended_ident : P string :=
  fun ts => match ts with
            | TId x :: r => Some (x, r)
            | TK s :: r => if mem_string s metadata_keywords then Some (s, r) else None
            | _ => None
            end.

(* EnumTag *)
Definition enum_tag : P string :=
  fun ts => match ts with
            | TTag s :: r => Some (s, r)
            | TQTag :: r => static_string_body r
            | _ => None
            end.

Definition signed_num : P Q :=
  fun ts => match ts with
            | TNum q :: r => Some (q, r)
            | TK s :: TNum q :: r => if String.eqb s "-" then Some (Qopp q, r) else None
            | _ => None
            end.

Fixpoint chunks_static (cs : list chunk) : option string :=
  match cs with
  | [] => Some EmptyString
  | CLit s :: r => match chunks_static r with Some s' => Some (s ++ s')%string | None => None end
  | CExpr _ _ :: _ => None
  end.

Definition type_builtin (s : string) : option typ :=
  if String.eqb s "Dyn" then Some TDyn
  else if String.eqb s "Number" then Some TNumber
  else if String.eqb s "Bool" then Some TBool
  else if String.eqb s "String" then Some TString
  else None.

(* FIRST(Atom): can this token start an atom? *)
Definition starts_atom (t : token) : bool :=
  match t with
  | TNum _ | TId _ | TTag _ | TQTag | TStr | TMStr _ => true
  | TK s =>
      String.eqb s "(" || String.eqb s "null" || String.eqb s "true" || String.eqb s "false"
      || String.eqb s "{" || String.eqb s "[" || String.eqb s "[|" || String.eqb s "_"
      || match type_builtin s with Some _ => true | None => false end
  | _ => false
  end.

Definition is_string_start (t : token) : bool :=
  match t with TStr | TMStr _ => true | _ => false end.

(* ------------------------------------------------------------------ the recursive entry points *)

Inductive pflavour := PGeneral | PFunArg | POrBranch.

Record parsers := Parsers {
  p_uniterm : P uni;                 (* UniTerm *)
  p_infix : nat -> P uni;            (* InfixExpr, levels <= L *)
  p_type : P typ;                    (* Type, variables not fixed *)
  p_pat : pflavour -> P pat;         (* PatternF<..> *)
}.

Definition fail_parsers : parsers :=
  Parsers (fun _ => None) (fun _ _ => None) (fun _ => None) (fun _ _ => None).

Section Table.

Variable binops : list (string * (nat * assoc * bkind)).
Variable prefixops : list (string * (nat * pkind)).
Variable max_level : nat.
(* %name% tokens: spelling -> (display name, number of arguments) *)
Variable primops : list (string * (string * nat)).
Variable q : quirks.

Section Step.
(* fuel of the loops over token lists: any bound on the length of the whole input will do (every
   iteration consumes at least one token) *)
Variable lfuel : nat.
Variable self : parsers.

Definition p_term : P term :=
  fun ts => '(u, r) <- p_uniterm self ts ;; t <- as_term u ;; Some (t, r).

Definition p_fixed_type : P typ :=
  fun ts => '(ty, r) <- p_type self ts ;; Some (fix_ty [] ty, r).

(* StringChunks body, after the opening delimiter *)
Fixpoint chunks_loop (fuel : nat) (acc : list chunk) : P (list chunk) :=
  fun ts =>
    match fuel with
    | O => None
    | S fuel' =>
        match ts with
        | TEnd :: r => Some (rev acc, r)
        | TLit s :: r =>
            match s, acc with
            | EmptyString, _ => if q_keep_empty_lit q then chunks_loop fuel' (CLit s :: acc) r
                                else chunks_loop fuel' acc r
            | _, CLit prev :: acc' =>
                (* ChunkLiteral = ChunkLiteralPart+ : consecutive literal tokens are one chunk *)
                chunks_loop fuel' (CLit (prev ++ s) :: acc') r
            | _, _ => chunks_loop fuel' (CLit s :: acc) r
            end
        | TInterp i :: r =>
            '(e, r1) <- p_term r ;;
            '(_, r2) <- expect "}" r1 ;;
            chunks_loop fuel' (CExpr e i :: acc) r2
        | _ => None
        end
    end.

Definition string_chunks : P (list chunk) :=
  fun ts => match ts with
            | TStr :: r => chunks_loop lfuel [] r
            | TMStr _ :: r => chunks_loop lfuel [] r
            | _ => None
            end.

(* AnnotAtom / LetAnnotAtom / FieldAnnotAtom series.  [fixed]: FixedType or Type;
   [level]: 0 = type and contract annotations only, 1 = + doc, 2 = + field metadata *)
Definition annot_atom (fixed : bool) (level : nat) : P fmeta :=
  fun ts =>
    match ts with
    | TK s :: r =>
        if String.eqb s ":" then
          '(ty, r1) <- (if fixed then p_fixed_type r else p_type self r) ;;
          Some (FMeta None (Ann (Some ty) []) false false PNeutral, r1)
        else if String.eqb s "|" then
          match r with
          | TK k :: r' =>
              if Nat.leb 1 level && String.eqb k "doc" then
                '(d, r1) <- static_string r' ;;
                Some (FMeta (Some d) empty_annot false false PNeutral, r1)
              else if Nat.leb 2 level && String.eqb k "default" then
                Some (FMeta None empty_annot false false PBottom, r')
              else if Nat.leb 2 level && String.eqb k "force" then
                Some (FMeta None empty_annot false false PTop, r')
              else if Nat.leb 2 level && String.eqb k "priority" then
                '(q, r1) <- signed_num r' ;;
                Some (FMeta None empty_annot false false (PNumeral q), r1)
              else if Nat.leb 2 level && String.eqb k "optional" then
                Some (FMeta None empty_annot true false PNeutral, r')
              else if Nat.leb 2 level && String.eqb k "not_exported" then
                Some (FMeta None empty_annot false true PNeutral, r')
              else
                '(ty, r1) <- (if fixed then p_fixed_type r else p_type self r) ;;
                Some (FMeta None (Ann None [ty]) false false PNeutral, r1)
          | _ =>
              '(ty, r1) <- (if fixed then p_fixed_type r else p_type self r) ;;
              Some (FMeta None (Ann None [ty]) false false PNeutral, r1)
          end
        else None
    | _ => None
    end.

Definition starts_annot (ts : list token) : bool := peek_is ":" ts || peek_is "|" ts.

(* zero or more annotation atoms, combined left to right *)
Fixpoint annot_series (fuel : nat) (fixed : bool) (level : nat) (acc : fmeta) : P fmeta :=
  fun ts =>
    match fuel with
    | O => None
    | S fuel' =>
        if starts_annot ts then
          '(m, r) <- annot_atom fixed level ts ;;
          annot_series fuel' fixed level (combine_fmeta acc m) r
        else Some (acc, ts)
    end.

Definition annots (fixed : bool) (level : nat) : P fmeta :=
  fun ts => annot_series lfuel fixed level empty_fmeta ts.

(* ---- patterns *)

Definition p_ptail_after_dots : P ptail :=
  fun ts => match ts with
            | TId x :: r => Some (TCapture x, r)
            | _ => Some (TOpen, ts)
            end.

(* FieldPattern *)
Definition field_pattern : P fpat :=
  fun ts =>
    '(id, r) <- ident ts ;;
    '(m, r1) <- annots true 0 r ;;
    '(d, r2) <- (if peek_is "?" r1 then
                   '(_, r') <- expect "?" r1 ;; '(t, r'') <- p_term r' ;; Some (Some t, r'')
                 else Some (None, r1)) ;;
    if peek_is "=" r2 then
      '(_, r3) <- expect "=" r2 ;;
      '(p, r4) <- p_pat self PGeneral r3 ;;
      Some (FPat id (m_ann m) d p, r4)
    else Some (FPat id (m_ann m) d (Pat None (PAny id)), r2).

Fixpoint field_patterns (fuel : nat) (acc : list fpat) : P (list fpat * ptail) :=
  fun ts =>
    match fuel with
    | O => None
    | S fuel' =>
        if peek_is "}" ts then '(_, r) <- expect "}" ts ;; Some ((rev acc, TClosed), r)
        else if peek_is ".." ts then
          '(_, r) <- expect ".." ts ;;
          '(t, r1) <- p_ptail_after_dots r ;;
          '(_, r2) <- expect "}" r1 ;;
          Some ((rev acc, t), r2)
        else
          '(f, r) <- field_pattern ts ;;
          if peek_is "," r then
            '(_, r1) <- expect "," r ;; field_patterns fuel' (f :: acc) r1
          else
            '(_, r1) <- expect "}" r ;; Some ((rev (f :: acc), TClosed), r1)
    end.

Fixpoint array_patterns (fuel : nat) (acc : list pat) : P (list pat * ptail) :=
  fun ts =>
    match fuel with
    | O => None
    | S fuel' =>
        if peek_is "]" ts then '(_, r) <- expect "]" ts ;; Some ((rev acc, TClosed), r)
        else if peek_is ".." ts then
          '(_, r) <- expect ".." ts ;;
          '(t, r1) <- p_ptail_after_dots r ;;
          '(_, r2) <- expect "]" r1 ;;
          Some ((rev acc, t), r2)
        else
          '(p, r) <- p_pat self PGeneral ts ;;
          if peek_is "," r then
            '(_, r1) <- expect "," r ;; array_patterns fuel' (p :: acc) r1
          else
            '(_, r1) <- expect "]" r ;; Some ((rev (p :: acc), TClosed), r1)
    end.

Definition starts_pattern (t : token) : bool :=
  match t with
  | TId _ | TTag _ | TQTag | TNum _ | TStr => true
  | TK s =>
      String.eqb s "{" || String.eqb s "[" || String.eqb s "_" || String.eqb s "("
      || String.eqb s "true" || String.eqb s "false" || String.eqb s "null"
  | _ => false
  end.

Definition peek_starts_pattern (ts : list token) : bool :=
  match ts with t :: _ => starts_pattern t | [] => false end.

Definition is_or (ts : list token) : bool :=
  match ts with TId x :: _ => String.eqb x "or" | _ => false end.

(* the data of a pattern, without alias and without the or-continuation.
   Parenthesised forms: "(" EnumVariantPattern ")" and "(" OrPatternUnparens ")". *)
Definition pattern_data (fl : pflavour) : P pdata :=
  fun ts =>
    match ts with
    | TK s :: r =>
        if String.eqb s "{" then
          '(res, r1) <- field_patterns lfuel [] r ;; Some (PRecord (fst res) (snd res), r1)
        else if String.eqb s "[" then
          '(res, r1) <- array_patterns lfuel [] r ;; Some (PArray (fst res) (snd res), r1)
        else if String.eqb s "_" then Some (PWild, r)
        else if String.eqb s "true" then Some (PConst (CBool true), r)
        else if String.eqb s "false" then Some (PConst (CBool false), r)
        else if String.eqb s "null" then Some (PConst CNull, r)
        else if String.eqb s "(" then
          (* a parenthesised enum variant pattern or or-pattern: parse a general pattern and
             require that it is one of those, without alias *)
          '(p, r1) <- p_pat self PGeneral r ;;
          '(_, r2) <- expect ")" r1 ;;
          match p with
          | Pat None (PEnum tag (Some a)) => Some (PEnum tag (Some a), r2)
          | Pat None (POr ps) => Some (POr ps, r2)
          | _ => None
          end
        else None
    | TNum q :: r => Some (PConst (CNum q), r)
    | TStr :: r => '(s, r1) <- static_string_body r ;; Some (PConst (CStr s), r1)
    | TId x :: r => Some (PAny x, r)
    | (TTag _ | TQTag) :: _ =>
        '(tag, r) <- enum_tag ts ;;
        match fl with
        | PFunArg => Some (PEnum tag None, r)
        | _ =>
            (* EnumVariantPattern: the argument is a PatternFun-like pattern; `'Tag or` followed
               by a pattern start is the beginning of an or-pattern instead *)
            if is_or r && peek_starts_pattern (tl r) then Some (PEnum tag None, r)
            else if peek_starts_pattern r && negb (peek_is "(" r && false) then
              '(a, r1) <- p_pat self PFunArg r ;; Some (PEnum tag (Some a), r1)
            else Some (PEnum tag None, r)
        end
    | _ => None
    end.

Definition pattern_one (fl : pflavour) : P pat :=
  fun ts =>
    match ts, fl with
    | TId a :: TK s :: r, (PGeneral | PFunArg) =>
        if String.eqb s "@" then
          '(d, r1) <- pattern_data fl r ;; Some (Pat (Some a) d, r1)
        else '(d, r1) <- pattern_data fl ts ;; Some (Pat None d, r1)
    | _, _ => '(d, r1) <- pattern_data fl ts ;; Some (Pat None d, r1)
    end.

(* or-pattern continuation: p1 or p2 or ... (branches are POrBranch patterns, the last one is
   general but cannot be an unparenthesised or-pattern) *)
Fixpoint or_loop (fuel : nat) (acc : list pat) : P (list pat) :=
  fun ts =>
    match fuel with
    | O => None
    | S fuel' =>
        if is_or ts && peek_starts_pattern (tl ts) then
          (* the previous branch was not the last one: it must not carry an alias *)
          match acc with
          | Pat (Some _) _ :: _ :: _ => None
          | _ =>
              '(p, r) <- pattern_one PGeneral (tl ts) ;;
              or_loop fuel' (p :: acc) r
          end
        else Some (rev acc, ts)
    end.

Definition pattern (fl : pflavour) : P pat :=
  fun ts =>
    '(p, r) <- pattern_one fl ts ;;
    match fl with
    | PGeneral =>
        '(ps, r1) <- or_loop lfuel [p] r ;;
        match ps with
        | [_] => Some (p, r1)
        | _ =>
            (* the alias, if any, belongs to the whole or-pattern... only when the first branch
               carries none; an aliased first branch is rejected by the grammar *)
            match p with
            | Pat None _ => Some (Pat None (POr ps), r1)
            | Pat (Some a) d => Some (Pat (Some a) (POr (Pat None d :: tl ps)), r1)
            end
        end
    | _ => Some (p, r)
    end.

(* ---- records *)

(* FieldPathElem *)
Definition field_path_elem : P pelem :=
  fun ts =>
    match ts with
    | t :: _ =>
        if is_string_start t then
          '(cs, r) <- string_chunks ts ;;
          match chunks_static cs with
          | Some s => Some (PId s, r)
          | None => Some (PExpr cs, r)
          end
        else '(x, r) <- extended_ident ts ;; Some (PId x, r)
    | [] => None
    end.

Fixpoint field_path (fuel : nat) (acc : list pelem) : P (list pelem) :=
  fun ts =>
    match fuel with
    | O => None
    | S fuel' =>
        '(e, r) <- field_path_elem ts ;;
        if peek_is "." r then '(_, r1) <- expect "." r ;; field_path fuel' (e :: acc) r1
        else Some (rev (e :: acc), r)
    end.

Inductive fdecl := DField (f : fdef) | DIncl (is : list incl).

Fixpoint ident_list (fuel : nat) (acc : list string) : P (list string) :=
  fun ts =>
    match fuel with
    | O => None
    | S fuel' =>
        if peek_is "]" ts then '(_, r) <- expect "]" ts ;; Some (rev acc, r)
        else
          '(x, r) <- extended_ident ts ;;
          if peek_is "," r then '(_, r1) <- expect "," r ;; ident_list fuel' (x :: acc) r1
          else '(_, r1) <- expect "]" r ;; Some (rev (x :: acc), r1)
    end.

Definition is_include_decl (ts : list token) : bool :=
  match ts with
  | TId x :: t :: _ =>
      String.eqb x "include"
      && match t with
         | TId _ => true
         | TK s => String.eqb s "[" || mem_string s metadata_keywords
         | _ => false
         end
  | _ => false
  end.

Definition field_decl : P fdecl :=
  fun ts =>
    if is_include_decl ts then
      match tl ts with
      | TK s :: r =>
          if String.eqb s "[" then
            '(xs, r1) <- ident_list lfuel [] r ;;
            Some (DIncl (map (fun x => Incl x empty_fmeta) xs), r1)
          else
            '(x, r1) <- extended_ident (tl ts) ;;
            '(m, r2) <- annots true 2 r1 ;;
            Some (DIncl [Incl x m], r2)
      | _ =>
          '(x, r1) <- extended_ident (tl ts) ;;
          '(m, r2) <- annots true 2 r1 ;;
          Some (DIncl [Incl x m], r2)
      end
    else
      '(path, r) <- field_path lfuel [] ts ;;
      '(m, r1) <- annots false 2 r ;;
      if peek_is "=" r1 then
        '(_, r2) <- expect "=" r1 ;;
        '(v, r3) <- p_term r2 ;;
        Some (DField (FDef path m (Some v)), r3)
      else Some (DField (FDef path m None), r1).

Definition add_decl (d : fdecl) (r : urecord) : urecord :=
  match d with
  | DField f => URecord (ur_incs r) (ur_fields r ++ [f]) (ur_tail r) (ur_open r)
  | DIncl is => URecord (ur_incs r ++ is) (ur_fields r) (ur_tail r) (ur_open r)
  end.

Definition record_tail_and_close (acc : urecord) : P urecord :=
  fun ts =>
    if peek_is ";" ts then
      '(_, r) <- expect ";" ts ;;
      match r with
      | TId x :: r1 =>
          '(_, r2) <- expect "}" r1 ;;
          Some (URecord (ur_incs acc) (ur_fields acc) (Some (RTailVar x)) (ur_open acc), r2)
      | TK s :: r1 =>
          if String.eqb s "Dyn" then
            '(_, r2) <- expect "}" r1 ;;
            Some (URecord (ur_incs acc) (ur_fields acc) (Some RTailDyn) (ur_open acc), r2)
          else None
      | _ => None
      end
    else '(_, r) <- expect "}" ts ;; Some (acc, r).

(* UniRecord, after the opening brace *)
Fixpoint record_body (fuel : nat) (acc : urecord) : P urecord :=
  fun ts =>
    match fuel with
    | O => None
    | S fuel' =>
        if peek_is "}" ts || peek_is ";" ts then record_tail_and_close acc ts
        else if peek_is ".." ts then
          '(_, r) <- expect ".." ts ;;
          record_tail_and_close (URecord (ur_incs acc) (ur_fields acc) (ur_tail acc) true) r
        else
          '(d, r) <- field_decl ts ;;
          if peek_is "," r then
            '(_, r1) <- expect "," r ;; record_body fuel' (add_decl d acc) r1
          else record_tail_and_close (add_decl d acc) r
    end.

(* ---- types that are atoms *)

(* TypeEnumRow list, after the opening delimiter *)
Fixpoint enum_rows (fuel : nat) (acc : list (string * option typ)) : P typ :=
  fun ts =>
    match fuel with
    | O => None
    | S fuel' =>
        if peek_is "|]" ts then '(_, r) <- expect "|]" ts ;; Some (TEnum (rev acc) None, r)
        else if peek_is ";" ts then
          '(_, r) <- expect ";" ts ;;
          '(x, r1) <- ident r ;;
          '(_, r2) <- expect "|]" r1 ;;
          Some (TEnum (rev acc) (Some x), r2)
        else
          '(tag, r) <- enum_tag ts ;;
          '(arg, r1) <- (match r with
                         | t :: _ =>
                             if starts_atom t then
                               '(u, r') <- p_infix self 0 r ;;
                               ty <- as_type u ;; Some (Some ty, r')
                             else Some (None, r)
                         | [] => Some (None, r)
                         end) ;;
          if peek_is "," r1 then
            '(_, r2) <- expect "," r1 ;; enum_rows fuel' ((tag, arg) :: acc) r2
          else if peek_is ";" r1 then
            '(_, r2) <- expect ";" r1 ;;
            '(x, r3) <- ident r2 ;;
            '(_, r4) <- expect "|]" r3 ;;
            Some (TEnum (rev ((tag, arg) :: acc)) (Some x), r4)
          else
            '(_, r2) <- expect "|]" r1 ;; Some (TEnum (rev ((tag, arg) :: acc)) None, r2)
    end.

(* ---- atoms *)

Definition curried_op_name (t : token) : option string :=
  match t with
  | TK s =>
      if String.eqb s "." then Some "."
      else if String.eqb s "|>" then Some "|>"
      else if String.eqb s "!=" then Some "!="
      else match assoc_string s binops with
           | Some (_, _, BOp _) | Some (_, _, BLazy _) => Some s
           | _ =>
               match assoc_string s prefixops with
               | Some (_, PUnary _) => Some s
               | _ => None
               end
           end
  | _ => None
  end.

Definition var_pat (x : string) : pat := Pat None (PAny x).

(* EtaExpand *)
Definition eta_expand (s : string) : option term :=
  if String.eqb s "." then
    Some (Fun [var_pat "x"; var_pat "y"] (Op (ONamed "record/get") [Var "y"; Var "x"]))
  else if String.eqb s "|>" then
    Some (Fun [var_pat "x"; var_pat "y"] (App (Var "y") [Var "x"]))
  else if String.eqb s "!=" then
    Some (Fun [var_pat "x"; var_pat "y"]
              (Op (ONamed "bool/not") [Op (ONamed "(==)") [Var "x"; Var "y"]]))
  else
    match assoc_string s binops with
    | Some (_, _, BOp n) => Some (Fun [var_pat "x0"; var_pat "x1"] (Op (ONamed n) [Var "x0"; Var "x1"]))
    | Some (_, _, BLazy n) =>
        Some (Fun [var_pat "x"; var_pat "y"] (App (Op (ONamed n) [Var "x"]) [Var "y"]))
    | _ =>
        match assoc_string s prefixops with
        | Some (_, PUnary n) => Some (Fun [var_pat "x0"] (Op (ONamed n) [Var "x0"]))
        | _ => None
        end
    end.

Fixpoint term_list (fuel : nat) (acc : list term) : P (list term) :=
  fun ts =>
    match fuel with
    | O => None
    | S fuel' =>
        if peek_is "]" ts then '(_, r) <- expect "]" ts ;; Some (rev acc, r)
        else
          '(t, r) <- p_term ts ;;
          if peek_is "," r then '(_, r1) <- expect "," r ;; term_list fuel' (t :: acc) r1
          else '(_, r1) <- expect "]" r ;; Some (rev (t :: acc), r1)
    end.

Definition atom_base : P uni :=
  fun ts =>
    match ts with
    | TNum q :: r => Some (UTerm (Num q), r)
    | TId x :: r => Some (UVar x, r)
    | TTag s :: r => Some (UTerm (Enum s None), r)
    | TQTag :: r => '(s, r1) <- static_string_body r ;; Some (UTerm (Enum s None), r1)
    | (TStr | TMStr _) :: _ => '(cs, r) <- string_chunks ts ;; Some (UTerm (Chunks cs), r)
    | TK s :: r =>
        if String.eqb s "(" then
          match r with
          | t :: TK c :: r' =>
              match curried_op_name t, String.eqb c ")" with
              | Some o, true => f <- eta_expand o ;; Some (UTerm f, r')
              | _, _ => '(u, r1) <- p_uniterm self r ;; '(_, r2) <- expect ")" r1 ;; Some (u, r2)
              end
          | _ => '(u, r1) <- p_uniterm self r ;; '(_, r2) <- expect ")" r1 ;; Some (u, r2)
          end
        else if String.eqb s "null" then Some (UTerm Null, r)
        else if String.eqb s "true" then Some (UTerm (Bool true), r)
        else if String.eqb s "false" then Some (UTerm (Bool false), r)
        else if String.eqb s "[" then
          '(es, r1) <- term_list lfuel [] r ;; Some (UTerm (Array es), r1)
        else if String.eqb s "[|" then
          '(ty, r1) <- enum_rows lfuel [] r ;; Some (UType ty, r1)
        else if String.eqb s "_" then Some (UType (TWildcard 0), r)
        else if String.eqb s "{" then
          match r with
          | TK u :: TK c :: r' =>
              if String.eqb u "_" && String.eqb c ":" then
                '(ty, r1) <- p_type self r' ;; '(_, r2) <- expect "}" r1 ;;
                Some (UType (TDict false ty), r2)
              else if String.eqb u "_" && String.eqb c "|" then
                '(ty, r1) <- p_fixed_type r' ;; '(_, r2) <- expect "}" r1 ;;
                Some (UType (TDict true ty), r2)
              else
                '(rec, r1) <- record_body lfuel (URecord [] [] None false) r ;;
                Some (URec rec, r1)
          | _ =>
              '(rec, r1) <- record_body lfuel (URecord [] [] None false) r ;;
              Some (URec rec, r1)
          end
        else match type_builtin s with
             | Some ty => Some (UType ty, r)
             | None => None
             end
    | _ => None
    end.

(* RecordOperationChain: postfix accesses *)
Fixpoint access_loop (fuel : nat) (u : uni) : P uni :=
  fun ts =>
    match fuel with
    | O => None
    | S fuel' =>
        if peek_is "." ts then
          '(_, r) <- expect "." ts ;;
          e <- as_term u ;;
          match r with
          | t :: _ =>
              if is_string_start t then
                '(cs, r1) <- string_chunks r ;;
                match chunks_static cs with
                | Some s => access_loop fuel' (UTerm (Op (OStatAccess s) [e])) r1
                | None => access_loop fuel' (UTerm (Op (ONamed "record/get") [Chunks cs; e])) r1
                end
              else
                '(x, r1) <- extended_ident r ;;
                access_loop fuel' (UTerm (Op (OStatAccess x) [e])) r1
          | [] => None
          end
        else Some (u, ts)
    end.

Definition atom : P uni :=
  fun ts => '(u, r) <- atom_base ts ;; access_loop lfuel u r.

Definition atom_term : P term :=
  fun ts => '(u, r) <- atom ts ;; t <- as_term u ;; Some (t, r).

(* ---- application *)

Fixpoint atoms_n (n : nat) (acc : list term) : P (list term) :=
  fun ts =>
    match n with
    | O => Some (rev acc, ts)
    | S n' => '(t, r) <- atom_term ts ;; atoms_n n' (t :: acc) r
    end.

Fixpoint atoms_star (fuel : nat) (acc : list term) : P (list term) :=
  fun ts =>
    match fuel with
    | O => None
    | S fuel' =>
        match ts with
        | t :: _ =>
            if starts_atom t then '(a, r) <- atom_term ts ;; atoms_star fuel' (a :: acc) r
            else Some (rev acc, ts)
        | [] => Some (rev acc, ts)
        end
    end.

Fixpoint match_branches (fuel : nat) (acc : list branch) : P (list branch) :=
  fun ts =>
    match fuel with
    | O => None
    | S fuel' =>
        if peek_is "}" ts then '(_, r) <- expect "}" ts ;; Some (rev acc, r)
        else
          '(p, r) <- p_pat self PGeneral ts ;;
          '(g, r1) <- (if peek_is "if" r then
                         '(_, r') <- expect "if" r ;; '(t, r'') <- p_term r' ;; Some (Some t, r'')
                       else Some (None, r)) ;;
          '(_, r2) <- expect "=>" r1 ;;
          '(b, r3) <- p_term r2 ;;
          if peek_is "," r3 then
            '(_, r4) <- expect "," r3 ;; match_branches fuel' (Branch p g b :: acc) r4
          else
            '(_, r4) <- expect "}" r3 ;; Some (rev (Branch p g b :: acc), r4)
    end.

(* ApplicativeHead *)
Definition applicative_head : P uni :=
  fun ts =>
    match ts with
    | TK s :: r =>
        if String.eqb s "Array" then
          '(u, r1) <- atom r ;; ty <- as_type u ;; Some (UType (TArrayT ty), r1)
        else if String.eqb s "match" then
          '(_, r1) <- expect "{" r ;;
          '(bs, r2) <- match_branches lfuel [] r1 ;;
          Some (UTerm (Match bs), r2)
        else if String.eqb s "%enum/embed%" then
          '(x, r1) <- ident r ;; '(a, r2) <- atom_term r1 ;;
          Some (UTerm (Op (OEnumEmbed x) [a]), r2)
        else match assoc_string s primops with
             | Some (name, n) =>
                 '(args, r1) <- atoms_n n [] r ;; Some (UTerm (Op (ONamed name) args), r1)
             | None => atom ts
             end
    | _ => atom ts
    end.

(* Applicative *)
Definition applicative : P uni :=
  fun ts =>
    '(h, r) <- applicative_head ts ;;
    '(args, r1) <- atoms_star lfuel [] r ;;
    match args with
    | [] => Some (h, r1)
    | _ =>
        h' <- as_term h ;;
        match h', args with
        | Enum tag None, [a] => Some (UTerm (Enum tag (Some a)), r1)
        | _, _ => Some (UTerm (App h' args), r1)
        end
    end.

(* ---- infix expressions: precedence climbing over the operator table *)

Definition mk_binop (k : bkind) (l r : uni) : option uni :=
  match k with
  | BOp n => a <- as_term l ;; b <- as_term r ;; Some (UTerm (Op (ONamed n) [a; b]))
  | BLazy n => a <- as_term l ;; b <- as_term r ;; Some (UTerm (App (Op (ONamed n) [a]) [b]))
  | BRevApp => a <- as_term l ;; b <- as_term r ;; Some (UTerm (App b [a]))
  | BNotEq =>
      a <- as_term l ;; b <- as_term r ;;
      Some (UTerm (Op (ONamed "bool/not") [Op (ONamed "(==)") [a; b]]))
  | BArrow => a <- as_type l ;; b <- as_type r ;; Some (UType (TArrow a b))
  end.

Definition mk_prefix (k : pkind) (e : uni) : option uni :=
  match k with
  | PNeg => a <- as_term e ;; Some (UTerm (Op (ONamed "(-)") [Num (0 # 1); a]))
  | PUnary n => a <- as_term e ;; Some (UTerm (Op (ONamed n) [a]))
  end.

Definition infix_prefix (L : nat) : P uni :=
  fun ts =>
    match ts with
    | TK s :: r =>
        match assoc_string s prefixops with
        | Some (lvl, k) =>
            if Nat.leb lvl L then '(e, r1) <- p_infix self lvl r ;; u <- mk_prefix k e ;; Some (u, r1)
            else None
        | None => applicative ts
        end
    | _ => applicative ts
    end.

Fixpoint infix_loop (fuel : nat) (L : nat) (lhs : uni) : P uni :=
  fun ts =>
    match fuel with
    | O => None
    | S fuel' =>
        match ts with
        | TK s :: r =>
            match assoc_string s binops with
            | Some (lvl, a, k) =>
                if Nat.leb lvl L then
                  '(rhs, r1) <- p_infix self (match a with
                                             | ALeft | ANone => lvl - 1
                                             | ARight | AAll => lvl
                                             end) r ;;
                  u <- mk_binop k lhs rhs ;;
                  infix_loop fuel' L u r1
                else Some (lhs, ts)
            | None => Some (lhs, ts)
            end
        | _ => Some (lhs, ts)
        end
    end.

Definition infix (L : nat) : P uni :=
  fun ts => '(lhs, r) <- infix_prefix L ts ;; infix_loop lfuel L lhs r.

(* ---- Forall, Type *)

Fixpoint idents_plus (fuel : nat) (acc : list string) : P (list string) :=
  fun ts =>
    match fuel with
    | O => None
    | S fuel' =>
        match ts with
        | TId x :: r => idents_plus fuel' (x :: acc) r
        | _ => match acc with [] => None | _ => Some (rev acc, ts) end
        end
    end.

Definition forall_type : P typ :=
  fun ts =>
    '(_, r) <- expect "forall" ts ;;
    '(xs, r1) <- idents_plus lfuel [] r ;;
    '(_, r2) <- expect "." r1 ;;
    '(body, r3) <- p_type self r2 ;;
    Some (fold_right TForall body xs, r3).

Definition type_rule : P typ :=
  fun ts =>
    if peek_is "forall" ts then forall_type ts
    else '(u, r) <- infix max_level ts ;; ty <- as_type u ;; Some (ty, r).

(* ---- UniTerm *)

Definition let_binding : P binding :=
  fun ts =>
    '(p, r) <- p_pat self PGeneral ts ;;
    '(m, r1) <- annots true 1 r ;;
    '(_, r2) <- expect "=" r1 ;;
    '(v, r3) <- p_term r2 ;;
    Some (Bind p (m_doc m) (m_ann m) v, r3).

Fixpoint let_bindings (fuel : nat) (acc : list binding) : P (list binding) :=
  fun ts =>
    match fuel with
    | O => None
    | S fuel' =>
        '(b, r) <- let_binding ts ;;
        if peek_is "," r then
          '(_, r1) <- expect "," r ;;
          if peek_is "in" r1 then Some (rev (b :: acc), r1)
          else let_bindings fuel' (b :: acc) r1
        else Some (rev (b :: acc), r)
    end.

Fixpoint fun_patterns (fuel : nat) (acc : list pat) : P (list pat) :=
  fun ts =>
    match fuel with
    | O => None
    | S fuel' =>
        if peek_is "=>" ts then match acc with [] => None | _ => Some (rev acc, ts) end
        else '(p, r) <- p_pat self PFunArg ts ;; fun_patterns fuel' (p :: acc) r
    end.

Definition is_as (ts : list token) : bool :=
  match ts with TId x :: _ => String.eqb x "as" | _ => false end.

Definition uniterm : P uni :=
  fun ts =>
    match ts with
    | TK s :: r =>
        if String.eqb s "let" then
          let '(rec, r0) := if peek_is "rec" r then (true, tl r) else (false, r) in
          '(bs, r1) <- let_bindings lfuel [] r0 ;;
          '(_, r2) <- expect "in" r1 ;;
          '(body, r3) <- p_term r2 ;;
          Some (UTerm (Let rec bs body), r3)
        else if String.eqb s "fun" then
          '(ps, r1) <- fun_patterns lfuel [] r ;;
          '(_, r2) <- expect "=>" r1 ;;
          '(body, r3) <- p_term r2 ;;
          Some (UTerm (Fun ps body), r3)
        else if String.eqb s "if" then
          '(c, r1) <- p_term r ;;
          '(_, r2) <- expect "then" r1 ;;
          '(a, r3) <- p_term r2 ;;
          '(_, r4) <- expect "else" r3 ;;
          '(b, r5) <- p_term r4 ;;
          Some (UTerm (If c a b), r5)
        else if String.eqb s "import" then
          match r with
          | TStr :: _ =>
              '(p, r1) <- standard_static_string r ;;
              if is_as r1 then
                '(fmt, r2) <- enum_tag (tl r1) ;; Some (UTerm (ImportPath p fmt), r2)
              else
                Some (UTerm (ImportPath p (match format_from_path p with
                                           | Some f => f
                                           | None => "Nickel"
                                           end)), r1)
          | TId x :: r1 => Some (UTerm (ImportPkg x), r1)
          | _ => None
          end
        else if String.eqb s "forall" then
          '(ty, r1) <- forall_type ts ;; Some (UType ty, r1)
        else
          '(u, r1) <- infix max_level ts ;;
          if starts_annot r1 then
            '(m, r2) <- annots true 0 r1 ;;
            e <- as_term u ;;
            Some (UTerm (Annot (m_ann m) e), r2)
          else Some (u, r1)
    | _ =>
        '(u, r1) <- infix max_level ts ;;
        if starts_annot r1 then
          '(m, r2) <- annots true 0 r1 ;;
          e <- as_term u ;;
          Some (UTerm (Annot (m_ann m) e), r2)
        else Some (u, r1)
    end.

Definition step : parsers := Parsers uniterm infix type_rule pattern.

End Step.

Fixpoint parsers_n (lfuel fuel : nat) : parsers :=
  match fuel with
  | O => fail_parsers
  | S n => step lfuel (parsers_n lfuel n)
  end.

(* the Term rule on a complete token stream *)
Definition parse_fuel (fuel : nat) (ts : list token) : option term :=
  match p_term (parsers_n fuel fuel) ts with
  | Some (t, []) => Some t
  | _ => None
  end.

Definition parse (ts : list token) : option term := parse_fuel (S (length ts)) ts.

End Table.
