(* C14 — model of parser/src/utils.rs [min_indent] / [strip_indent] (the indentation handling of
   multiline strings) on chunk lists, and of the printer's decision procedure
   [multiline_roundtrips] (parser/src/ast/pretty.rs): would these chunks be read back unchanged if
   they were printed as a multiline string?  Interpolated expressions are opaque.
   Definitions only. *)
From Coq Require Import String Ascii List Bool Arith.
From NV Require Import Surface.Ast.
Import ListNotations.
Open Scope nat_scope.

Definition is_blank (c : ascii) : bool :=
  Nat.eqb (nat_of_ascii c) 32 || Nat.eqb (nat_of_ascii c) 9.
Definition is_nl (c : ascii) : bool := Nat.eqb (nat_of_ascii c) 10.

Definition omin (m : option nat) (n : nat) : option nat :=
  match m with None => Some n | Some k => Some (Nat.min k n) end.

(* state of both scans: (current column among leading blanks, at start of line) *)

Fixpoint mi_string (s : string) (mn : option nat) (cur : nat) (start : bool)
  : option nat * nat * bool :=
  match s with
  | EmptyString => (mn, cur, start)
  | String c s' =>
      if is_blank c && start then mi_string s' mn (S cur) start
      else if is_nl c then mi_string s' mn 0 true
      else if start then mi_string s' (omin mn cur) cur false
      else mi_string s' mn cur start
  end.

Fixpoint mi_chunks {Tm} (cs : list (chunk_ Tm)) (mn : option nat) (cur : nat) (start : bool)
  : option nat :=
  match cs with
  | [] => mn
  | CLit s :: r => let '(mn', cur', start') := mi_string s mn cur start in mi_chunks r mn' cur' start'
  | CExpr _ _ :: r => if start then mi_chunks r (omin mn cur) cur false else mi_chunks r mn cur start
  end.

(* None stands for usize::MAX *)
Definition min_indent {Tm} (cs : list (chunk_ Tm)) : option nat := mi_chunks cs None 0 true.

Definition below (cur : nat) (mn : option nat) : bool :=
  match mn with None => true | Some m => Nat.ltb cur m end.

(* one literal: the stripped text (reversed accumulator), the new state, and whether a newline
   was seen *)
Fixpoint strip_string (mn : option nat) (s : string) (acc : string) (cur : nat) (start nl : bool)
  : string * nat * bool * bool :=
  match s with
  | EmptyString => (acc, cur, start, nl)
  | String c s' =>
      if is_blank c && start then
        if below cur mn then strip_string mn s' acc (S cur) start nl
        else strip_string mn s' (String c acc) (S cur) start nl
      else if is_nl c then strip_string mn s' (String c acc) 0 true true
      else strip_string mn s' (String c acc) cur false nl
  end.

Fixpoint rev_string_acc (s acc : string) : string :=
  match s with EmptyString => acc | String c s' => rev_string_acc s' (String c acc) end.
Definition rev_string (s : string) : string := rev_string_acc s EmptyString.

Fixpoint all_blank (s : string) : bool :=
  match s with EmptyString => true | String c s' => is_blank c && all_blank s' end.

(* drop the first line if it is blank *)
Fixpoint split_first_nl (s : string) (pre : string) : option (string * string) :=
  match s with
  | EmptyString => None
  | String c s' => if is_nl c then Some (rev_string pre, s') else split_first_nl s' (String c pre)
  end.
Definition strip_first_line (s : string) : string :=
  match split_first_nl s EmptyString with
  | Some (pre, rest) => if all_blank pre then rest else s
  | None => s
  end.
(* drop the last line if it is blank: same thing on the reversed string *)
Definition strip_last_line (s : string) : string :=
  match split_first_nl (rev_string s) EmptyString with
  | Some (post_rev, rest_rev) => if all_blank post_rev then rev_string rest_rev else s
  | None => s
  end.

Fixpoint set_indent_zero {Tm} (cs : list (chunk_ Tm)) (idx : nat) (which : list nat) : list (chunk_ Tm) :=
  match cs with
  | [] => []
  | CExpr e i :: r =>
      (if existsb (Nat.eqb idx) which then CExpr e 0 else CExpr e i) :: set_indent_zero r (S idx) which
  | c :: r => c :: set_indent_zero r (S idx) which
  end.

(* the main loop of strip_indent: index, total length, state, expression seen on this line, the
   indices to unindent *)
Fixpoint strip_loop {Tm} (mn : option nat) (cs : list (chunk_ Tm)) (idx len : nat)
         (cur : nat) (start : bool) (on_line : option nat) (unindent : list nat)
  : list (chunk_ Tm) * list nat :=
  match cs with
  | [] => ([], unindent)
  | CLit s :: r =>
      let '(acc, cur', start', nl) := strip_string mn s EmptyString cur start false in
      let b0 := rev_string acc in
      let b1 := if Nat.eqb idx 0 then strip_first_line b0 else b0 in
      let b2 := if Nat.eqb (S idx) len then strip_last_line b1 else b1 in
      let '(r', u) := strip_loop mn r (S idx) len cur' start' (if nl then None else on_line) unindent in
      (CLit b2 :: r', u)
  | CExpr e i :: r =>
      if start then
        let ind := match mn with Some m => cur - m | None => 0 end in
        let '(r', u) := strip_loop mn r (S idx) len cur false (Some idx) unindent in
        (CExpr e ind :: r', u)
      else
        match on_line with
        | Some k =>
            let '(r', u) := strip_loop mn r (S idx) len cur start None (k :: unindent) in
            (CExpr e i :: r', u)
        | None =>
            let '(r', u) := strip_loop mn r (S idx) len cur start None unindent in
            (CExpr e i :: r', u)
        end
  end.

Definition strip_indent {Tm} (cs : list (chunk_ Tm)) : list (chunk_ Tm) :=
  match cs with
  | [] => []
  | _ =>
      let '(r, u) := strip_loop (min_indent cs) cs 0 (List.length cs) 0 true None [] in
      set_indent_zero r 0 u
  end.

(* ---- the printer's check *)

Definition push_chunk {Tm} (probe : list (chunk_ Tm)) (c : chunk_ Tm) : list (chunk_ Tm) :=
  (* [probe] is kept reversed *)
  match probe, c with
  | CLit prev :: r, CLit s => CLit (prev ++ s) :: r
  | _, _ => c :: probe
  end.

Fixpoint normalize_chunks {Tm} (cs : list (chunk_ Tm)) (acc : list (option string * nat))
  : list (option string * nat) :=
  (* [acc] is kept reversed *)
  match cs with
  | [] => rev acc
  | CLit EmptyString :: r => normalize_chunks r acc
  | CLit s :: r =>
      match acc with
      | (Some prev, n) :: acc' => normalize_chunks r ((Some (prev ++ s)%string, n) :: acc')
      | _ => normalize_chunks r ((Some s, 0) :: acc)
      end
  | CExpr _ i :: r => normalize_chunks r ((None, i) :: acc)
  end.

Fixpoint eqb_norm (a b : list (option string * nat)) : bool :=
  match a, b with
  | [], [] => true
  | (Some s, n) :: a', (Some s', n') :: b' => String.eqb s s' && Nat.eqb n n' && eqb_norm a' b'
  | (None, n) :: a', (None, n') :: b' => Nat.eqb n n' && eqb_norm a' b'
  | _, _ => false
  end.

Definition nl_string : string := String (ascii_of_nat 10) EmptyString.

Definition multiline_roundtrips {Tm} (cs : list (chunk_ Tm)) : bool :=
  let probe := rev (push_chunk (fold_left push_chunk cs [CLit nl_string]) (CLit nl_string)) in
  eqb_norm (normalize_chunks (strip_indent probe) []) (normalize_chunks cs []).
