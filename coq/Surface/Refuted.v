(* C14 — the statements refuted by the model of the *pinned* printer/parser (the variants selected
   by the [quirks] flags), each with its witness.  The same witnesses were replayed on the real
   code (nickel pprint-ast, harness c14) before the repairs went in; they are corpus cases now
   and must round-trip on the repaired tree. *)
From Coq Require Import String List ZArith QArith Bool.
From NV Require Import Surface.Ast Surface.Indent Surface.Print Surface.Parse Gen.OpTable.
Import ListNotations.
Open Scope string_scope.

Definition pr (q : quirks) : term -> list token := print keywords op_spelling infix_ops postfix_ops q.
Definition pa (q : quirks) : list token -> option term := parse binops prefixops max_level primops q.

Definition only_num := Quirks true false false false false false false false false.
Definition only_annot := Quirks false true false false false false false false false.
Definition only_dyn := Quirks false false true false false false false false false.
Definition only_ne := Quirks false false false true false false false false false.
Definition only_alias := Quirks false false false false true false false false false.
Definition only_incl := Quirks false false false false false true false false false.
Definition only_emptylit := Quirks false false false false false false true false false.
Definition only_multiline := Quirks false false false false false false false true false.

Definition only_aliaspar := Quirks false false false false false false false false true.

Definition no_ann : annot := Ann None [].
Definition vpat (x : string) : pat := Pat None (PAny x).
Definition ctr (t : term) : typ := TContract t.

(* 1. number literals: 123456789012345678901234567890 *)
Definition w_number : term := Num (123456789012345678901234567890 # 1).
Lemma number_refuted :
  pa only_num (pr only_num w_number) = Some (Num (123456789012345700000000000000 # 1)).
Proof. vm_compute. reflexivity. Qed.
Lemma number_repaired : pa repaired_code (pr repaired_code w_number) = Some w_number.
Proof. vm_compute. reflexivity. Qed.

(* 0.1234567890123456789012345 *)
Definition w_number2 : term := Num (246913578024691357802469 # 2000000000000000000000000).
Lemma number2_refuted :
  pa only_num (pr only_num w_number2) = Some (Num (1234567890123457 # 10000000000000000)).
Proof. vm_compute. reflexivity. Qed.

(* 2. x | (y | Z) *)
Definition w_annot : term :=
  Annot (Ann None [ctr (Annot (Ann None [ctr (Var "Z")]) (Var "y"))]) (Var "x").
Lemma annot_refuted :
  pa only_annot (pr only_annot w_annot) = Some (Annot (Ann None [ctr (Var "y"); ctr (Var "Z")]) (Var "x")).
Proof. vm_compute. reflexivity. Qed.
Lemma annot_repaired : pa repaired_code (pr repaired_code w_annot) = Some w_annot.
Proof. vm_compute. reflexivity. Qed.

(* 3. (f x)."%{y}"  and  (.) *)
Definition w_dyn : term :=
  Op (ONamed "record/get") [Chunks [CExpr (Var "y") 0]; App (Var "f") [Var "x"]].
Lemma dyn_refuted :
  pa only_dyn (pr only_dyn w_dyn)
  = Some (App (Var "f") [Op (ONamed "record/get") [Chunks [CExpr (Var "y") 0]; Var "x"]]).
Proof. vm_compute. reflexivity. Qed.
Lemma dyn_repaired : pa repaired_code (pr repaired_code w_dyn) = Some w_dyn.
Proof. vm_compute. reflexivity. Qed.

Definition w_dot : term :=
  Fun [vpat "x"; vpat "y"] (Op (ONamed "record/get") [Var "y"; Var "x"]).
Lemma dot_refuted :
  pa only_dyn (pr only_dyn w_dot) = Some (Fun [vpat "x"; vpat "y"] (Op (OStatAccess "y") [Var "x"])).
Proof. vm_compute. reflexivity. Qed.
Lemma dot_repaired : pa repaired_code (pr repaired_code w_dot) = Some w_dot.
Proof. vm_compute. reflexivity. Qed.

(* 4. { foo | not_exported = 1 } *)
Definition w_ne : term :=
  Record [] [FDef [PId "foo"] (FMeta None no_ann false true PNeutral) (Some (Num (1 # 1)))] false.
Lemma not_exported_refuted :
  pa only_ne (pr only_ne w_ne)
  = Some (Record [] [FDef [PId "foo"] (FMeta None no_ann false false PNeutral) (Some (Num (1 # 1)))] false).
Proof. vm_compute. reflexivity. Qed.
Lemma not_exported_repaired : pa repaired_code (pr repaired_code w_ne) = Some w_ne.
Proof. vm_compute. reflexivity. Qed.

(* 5. match { {foo = y @ foo} => y } *)
Definition w_alias : term :=
  Match [Branch (Pat None (PRecord [FPat "foo" no_ann None (Pat (Some "y") (PAny "foo"))] TClosed))
                None (Var "y")].
Lemma alias_refuted :
  pa only_alias (pr only_alias w_alias)
  = Some (Match [Branch (Pat None (PRecord [FPat "foo" no_ann None (Pat None (PAny "foo"))] TClosed))
                        None (Var "y")]).
Proof. vm_compute. reflexivity. Qed.
Lemma alias_repaired : pa repaired_code (pr repaired_code w_alias) = Some w_alias.
Proof. vm_compute. reflexivity. Qed.

(* 6. { include x } *)
Definition w_incl : term := Record [Incl "x" empty_fmeta] [] false.
Lemma include_refuted : pa only_incl (pr only_incl w_incl) = Some (Record [] [] false).
Proof. vm_compute. reflexivity. Qed.
Lemma include_repaired : pa repaired_code (pr repaired_code w_incl) = Some w_incl.
Proof. vm_compute. reflexivity. Qed.

(* 6b. fun g @ ('Some y) => y *)
Definition w_aliaspar : term :=
  Fun [Pat (Some "g") (PEnum "Some" (Some (Pat None (PAny "y"))))] (Var "y").
Lemma aliaspar_refuted : pa only_aliaspar (pr only_aliaspar w_aliaspar) = None.
Proof. vm_compute. reflexivity. Qed.
Lemma aliaspar_repaired : pa repaired_code (pr repaired_code w_aliaspar) = Some w_aliaspar.
Proof. vm_compute. reflexivity. Qed.

(* 7. the tokens of  m%"<newline>  %{x}<newline>"%  as the lexer and strip_indent deliver them: the
   pinned parser keeps two empty literal chunks which printing cannot reproduce *)
Definition w_emptylit_tokens : list token :=
  [TMStr 1; TLit ""; TInterp 0; TId "x"; TK "}"; TLit ""; TEnd].
Lemma emptylit_refuted :
  exists t, pa only_emptylit w_emptylit_tokens = Some t
            /\ pa only_emptylit (pr only_emptylit t) = Some (Chunks [CExpr (Var "x") 0])
            /\ t <> Chunks [CExpr (Var "x") 0].
Proof.
  exists (Chunks [CLit ""; CExpr (Var "x") 0; CLit ""]).
  split; [vm_compute; reflexivity|]. split; [vm_compute; reflexivity|]. discriminate.
Qed.
Lemma emptylit_repaired :
  exists t, pa repaired_code w_emptylit_tokens = Some t /\ pa repaired_code (pr repaired_code t) = Some t.
Proof. exists (Chunks [CExpr (Var "x") 0]). split; vm_compute; reflexivity. Qed.

(* 8. multiline strings: the pinned printer chooses the multiline style for these chunks although
   reading the result back (strip_indent, modelled in Indent.v) does not give them back *)
Definition nl : string := String (Ascii.ascii_of_nat 10) "".
Definition tab : string := String (Ascii.ascii_of_nat 9) "".
Definition w_ml1 : list chunk := [CLit (tab ++ " a" ++ nl ++ tab ++ " b")].       (* "\t a\n\t b" *)
Definition w_ml2 : list chunk := [CLit (" " ++ nl ++ " ")].                       (* " \n " *)
Definition w_ml3 : list chunk := [CLit ("a" ++ nl ++ "  "); CExpr (Var "x") 0; CLit (nl ++ "b")].
Lemma multiline_refuted :
  forall cs, In cs [w_ml1; w_ml2; w_ml3] ->
    chunks_multiline only_multiline false cs = true /\ multiline_roundtrips cs = false.
Proof. intros cs H. repeat (destruct H as [<- | H]; [split; vm_compute; reflexivity|]). destruct H. Qed.
Lemma multiline_repaired :
  forall cs, In cs [w_ml1; w_ml2; w_ml3] -> chunks_multiline repaired_code false cs = false.
Proof. intros cs H. repeat (destruct H as [<- | H]; [vm_compute; reflexivity|]). destruct H. Qed.
(* what re-reading would have produced *)
Lemma multiline_reread :
  strip_indent [CLit (nl ++ tab ++ " a" ++ nl ++ tab ++ " b" ++ nl) : chunk] = [CLit ("a" ++ nl ++ "b")]
  /\ strip_indent [CLit (nl ++ "a" ++ nl ++ "  "); CExpr (Var "x") 0; CLit (nl ++ "b" ++ nl)]
     = [CLit ("a" ++ nl ++ "  "); CExpr (Var "x") 2; CLit (nl ++ "b")].
Proof. split; vm_compute; reflexivity. Qed.
