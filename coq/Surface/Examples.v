(* C14 — a non-trivial inhabitant of the fragment for which [parse_print_core] is proved
   (non-vacuity of its hypothesis), and the round trip computed on it. *)
From Coq Require Import String List ZArith QArith Bool.
From NV Require Import Surface.Ast Surface.Indent Surface.Print Surface.Parse Surface.TableWf
  Surface.RoundTrip Surface.Refuted Gen.OpTable.
Import ListNotations.
Open Scope string_scope.

(* let f = fun x =>
       if x == 1 then [x + 2 * 3, -x, %string/replace% x "" (import "lib.ncl")]
       else { a = "s%{x}", "b c" = f.g 'Foo ('Bar null) }
   in (p && !q | Number -> Array C) *)
Definition ex_core : term :=
  Let false
    [Bind (Pat None (PAny "f")) None empty_annot
       (Fun [Pat None (PAny "x")]
          (If (Op (ONamed "(==)") [Var "x"; Num (1 # 1)])
              (Array [Op (ONamed "(+)") [Var "x"; Op (ONamed "(*)") [Num (2 # 1); Num (3 # 1)]];
                      Op (ONamed "(-)") [Num (0 # 1); Var "x"];
                      Op (ONamed "string/replace") [Var "x"; Chunks []; ImportPath "lib.ncl" "Nickel"]])
              (Record []
                 [FDef [PId "a"] empty_fmeta (Some (Chunks [CLit "s"; CExpr (Var "x") 0]));
                  FDef [PId "b c"] empty_fmeta
                    (Some (App (Op (OStatAccess "g") [Var "f"]) [Enum "Foo" None; Enum "Bar" (Some Null)]))]
                 false)))]
    (Annot (Ann None [TArrow TNumber (TArrayT (TContract (Var "C")))])
           (App (Op (ONamed "(&&)") [Var "p"]) [Op (ONamed "bool/not") [Var "q"]])).

Ltac in_cases :=
  intros; cbn [In] in *;
  repeat match goal with
         | H : _ \/ _ |- _ => destruct H
         | H : False |- _ => destruct H
         end; subst.

Ltac core_tac :=
  lazymatch goal with
  | |- core _ _ _ (App (Op (ONamed "(&&)") [_]) [_]) => apply C_lazy; [reflexivity | core_tac | core_tac]
  | |- core _ _ _ (App (Op (ONamed "(||)") [_]) [_]) => apply C_lazy; [reflexivity | core_tac | core_tac]
  | |- core _ _ _ (App _ _) =>
      apply C_app; [discriminate | core_tac | in_cases; core_tac | intros; discriminate]
  | |- core _ _ _ (Op (ONamed "bool/not") [_]) => apply C_not; core_tac
  | |- core _ _ _ (Op (ONamed "string/replace") _) =>
      apply (C_primop _ _ _ "%string/replace%"); [reflexivity | in_cases; core_tac]
  | |- core _ _ _ (Op (ONamed _) [_; _]) => apply C_binop; [reflexivity | core_tac | core_tac]
  | |- core _ _ _ (Op (OStatAccess _) [_]) => apply C_access; core_tac
  | |- core _ _ _ (Num _) => apply C_num; reflexivity
  | |- core _ _ _ (Enum _ None) => apply C_tag
  | |- core _ _ _ (Enum _ (Some _)) => apply C_variant; core_tac
  | |- core _ _ _ (Chunks _) =>
      apply C_chunks; [cbn; repeat split; discriminate | intros _; in_cases; try discriminate; congruence
                      | in_cases; try discriminate;
                        match goal with H : CExpr _ _ = CExpr _ _ |- _ => inversion H; subst end; core_tac]
  | |- core _ _ _ (Array _) => apply C_array; in_cases; core_tac
  | |- core _ _ _ (If _ _ _) => apply C_if; core_tac
  | |- core _ _ _ (Fun _ _) => apply C_fun; [discriminate | in_cases; eexists; reflexivity | core_tac]
  | |- core _ _ _ (Let _ _ _) =>
      apply C_let; [discriminate
                   | in_cases; split; [split; [eexists; reflexivity | split; reflexivity] | cbn [b_val]; core_tac]
                   | core_tac]
  | |- core _ _ _ (Annot _ _) =>
      apply C_annot; [reflexivity | core_tac | cbn [a_typ]; intros ? E; try discriminate; inversion E; subst; core_ty_tac
                     | cbn [a_ctrs]; in_cases; core_ty_tac]
  | |- core _ _ _ (Record [] _ false) =>
      apply C_record; in_cases; eexists; (split; [eexists; reflexivity | core_tac])
  | |- core _ _ _ _ => constructor
  end
with core_ty_tac :=
  lazymatch goal with
  | |- core_ty _ _ _ (TContract _) => apply CT_contract; [core_tac | reflexivity]
  | |- core_ty _ _ _ (TArrow _ _) => apply CT_arrow; core_ty_tac
  | |- core_ty _ _ _ (TArrayT _) => apply CT_array; core_ty_tac
  | |- core_ty _ _ _ _ => constructor
  end.

Example ex_core_in_fragment : core primops infix_ops repaired_code ex_core.
Proof. unfold ex_core. core_tac. Qed.

Example ex_core_roundtrip : pa repaired_code (pr repaired_code ex_core) = Some ex_core.
Proof. vm_compute. reflexivity. Qed.
