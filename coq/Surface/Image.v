(* C14 — the image of the parser, as an executable predicate over the whole surface AST
   ([parser_image]): what a term must satisfy to be the result of parsing some token stream with
   the repaired code.  It is the hypothesis of the full round-trip statement
   ([Props/C14.v: C14_full_parse_print]); the check evaluates it on every tree the model parser
   returns (real programs and printed trees) and on every generated tree.  Definitions only.

   This is the image of the model parser.  The real parser rejects a little more (a forall-bound
   variable used at two kinds -- type, enum rows, record rows -- is a TypeVariableKindMismatch;
   features switched off at compile time), so its image is smaller; the generator of the check
   respects the kind discipline, and the direct oracle always runs the real parser. *)
From Coq Require Import String Ascii List ZArith QArith Bool Arith.
From NV Require Import Surface.Ast Surface.Indent Surface.Print Surface.Parse.
Import ListNotations.
Close Scope Q_scope.
Open Scope nat_scope.
Open Scope string_scope.
Open Scope list_scope.

Definition num_nonneg (n : Q) : bool :=
  match Qnum n with Zpos _ => true | Z0 => Pos.eqb (Qden n) 1 | Zneg _ => false end.

(* priorities may be negative; a zero is written 0 *)
Definition num_canonical (n : Q) : bool :=
  match Qnum n with Z0 => Pos.eqb (Qden n) 1 | _ => true end.

Definition lazy_name (n : string) : bool := String.eqb n "(&&)" || String.eqb n "(||)".

Fixpoint chunks_shape_b {Tm} (cs : list (chunk_ Tm)) : bool :=
  match cs with
  | [] => true
  | CLit s :: r =>
      negb (String.eqb s "") && (match r with CLit _ :: _ => false | _ => true end) && chunks_shape_b r
  | CExpr _ _ :: r => chunks_shape_b r
  end.

Definition has_expr {Tm} (cs : list (chunk_ Tm)) : bool :=
  existsb (fun c => match c with CExpr _ _ => true | CLit _ => false end) cs.

(* may stand in type position *)
Definition contract_term_ok (t : term) : bool :=
  match t with
  | Null | Bool _ | Num _ | Str _ | Array _ | Enum _ _ | Chunks _ | TypeT _ | Var _ => false
  | Record [] [] false => false
  | _ => true
  end.

Definition prio_ok (p : prio) : bool :=
  match p with PNumeral n => num_canonical n | _ => true end.

Section Image.
Variable primops : list (string * (string * nat)).
Variable infix_ops : list string.
Variable q : quirks.

(* a field that is a row of a record type: id : T *)
Definition field_is_row (f : fdef) : bool :=
  match field_as_row f with Some _ => true | None => false end.

Definition image_annot_with (ity : list string -> typ -> bool) (a : annot_ typ) : bool :=
  (match a_typ a with Some ty => ity [] ty | None => true end) && forallb (ity []) (a_ctrs a).
Definition image_fmeta_with (ity : list string -> typ -> bool) (m : fmeta_ typ) : bool :=
  image_annot_with ity (m_ann m) && prio_ok (m_prio m).

Fixpoint image (t : term) : bool :=
  match t with
  | Null | Bool _ | Var _ | ImportPath _ _ | ImportPkg _ => true
  | Num n => num_nonneg n
  | Str _ => false
  | Chunks cs => chunks_shape_b cs && forallb (fun c => match c with CLit _ => true | CExpr e _ => image e end) cs
  | Fun args body =>
      (* [(.)] is parsed to its eta-expansion, the one place where the access operator is applied
         to something else than a string with an interpolation *)
      is_curried_dot args body
      || (negb (Nat.eqb (length args) 0) && forallb image_pat args && image body)
  | Let _ bs body =>
      negb (Nat.eqb (length bs) 0)
      && forallb (fun b => image_pat (b_pat b) && image_annot_with image_ty (b_ann b) && image (b_val b)) bs
      && image body
  | App h args =>
      match h, args with
      | Op (ONamed n) [a], [b] =>
          if lazy_name n then image a && image b else image h && image b
      | Enum _ None, [_] => false
      | _, [] => false
      | _, _ => image h && forallb image args
      end
  | Enum _ None => true
  | Enum _ (Some a) => image a
  | Record incs fs open =>
      forallb (fun i => image_fmeta_with image_ty (i_meta i)) incs
      && forallb (fun f =>
                    negb (Nat.eqb (length (f_path f)) 0)
                    && forallb (fun e => match e with
                                         | PId _ => true
                                         | PExpr cs =>
                                             chunks_shape_b cs && has_expr cs
                                             && forallb (fun c => match c with CLit _ => true | CExpr e _ => image e end) cs
                                         end) (f_path f)
                    && image_fmeta_with image_ty (f_meta f)
                    && match f_val f with Some v => image v | None => true end) fs
      (* a record all of whose fields are rows is a record type *)
      && (match fs, incs with
          | _ :: _, [] => negb (forallb field_is_row fs) || open
          | _, _ => true
          end)
  | If c a b => image c && image a && image b
  | Match bs =>
      forallb (fun b => image_pat (br_pat b)
                        && match br_guard b with Some g => image g | None => true end
                        && image (br_body b)) bs
  | Array es => forallb image es
  | Op (OStatAccess _) [a] => image a
  | Op (OEnumEmbed _) [a] => image a
  | Op (ONamed n) args =>
      forallb image args
      && ((String.eqb n "bool/not" && Nat.eqb (length args) 1)
          || (String.eqb n "record/get"
              && match args with [Chunks cs; _] => has_expr cs | _ => false end)
          || (mem_string n infix_ops && negb (String.eqb n "record/get") && Nat.eqb (length args) 2)
          || existsb (fun e => String.eqb (fst (snd e)) n && Nat.eqb (snd (snd e)) (length args)) primops)
  | Op _ _ => false
  | Annot a inner => negb (match a_typ a, a_ctrs a with None, [] => true | _, _ => false end)
                     && image_annot_with image_ty a && image inner
  | TypeT ty =>
      match ty with
      | TContract _ | TVar _ | TSymbol | TForeignId => false
      | TRecord [] RClosed => false
      | _ => image_ty [] ty
      end
  end
with image_ty (bound : list string) (ty : typ) : bool :=
  match ty with
  | TDyn | TNumber | TBool | TString => true
  | TSymbol | TForeignId => false
  | TContract t =>
      image t && (match t with Var x => negb (mem_string x bound) | _ => contract_term_ok t end)
  | TArrow a b => image_ty bound a && image_ty bound b
  | TVar x => mem_string x bound
  | TForall x b => image_ty (x :: bound) b
  | TEnum rows _ =>
      forallb (fun r => match snd r with Some t => image_ty bound t | None => true end) rows
  | TRecord rows _ => forallb (fun r => image_ty bound (snd r)) rows
  | TDict true t => image_ty [] t
  | TDict false t => image_ty bound t
  | TArrayT t => image_ty bound t
  | TWildcard _ => true
  end
with image_pat (p : pat) : bool :=
  match p with Pat _ d => image_pdata d end
with image_pdata (d : pdata) : bool :=
  match d with
  | PWild | PAny _ => true
  | PRecord fs _ =>
      forallb (fun f => image_annot_with image_ty (fp_ann f)
                        && match fp_default f with Some t => image t | None => true end
                        && image_pat (fp_pat f)) fs
  | PArray ps _ => forallb image_pat ps
  | PEnum _ None => true
  | PEnum _ (Some a) => image_pat a
  | PConst (CNum n) => num_nonneg n
  | PConst _ => true
  | POr ps =>
      Nat.leb 2 (length ps)
      && forallb image_pat ps
  end.

Definition parser_image (t : term) : bool := image t.

End Image.
