(* C14 — the fragment of the round-trip theorem lies inside the image of the parser:
   [core t -> parser_image t = true].  So [parse_print_core] is an instance of the full
   statement [C14_full_parse_print] restricted to [core]. *)
From Coq Require Import String Ascii List ZArith QArith Bool Arith Lia.
From NV Require Import Surface.Ast Surface.Indent Surface.Print Surface.Parse Surface.RoundTrip Surface.Image.
Import ListNotations.
Close Scope Q_scope.
Open Scope nat_scope.
Open Scope string_scope.
Open Scope list_scope.

Section CoreImage.
Variable primops : list (string * (string * nat)).
Variable infix_ops : list string.
Variable q : quirks.

Notation IMG := (image primops infix_ops).
Notation IMGTY := (image_ty primops infix_ops).
Notation CORE := (core primops infix_ops q).
Notation CORETY := (core_ty primops infix_ops q).

Lemma forallb_intro {A} (f : A -> bool) l : (forall x, In x l -> f x = true) -> forallb f l = true.
Proof. intros H. apply forallb_forall. exact H. Qed.

Lemma chunks_shape_dec (cs : list chunk) : chunks_shape cs -> chunks_shape_b cs = true.
Proof.
  induction cs as [|c r IH]; [reflexivity|]. destruct c as [s|e i]; cbn [chunks_shape chunks_shape_b].
  - intros (Hs & Hr & Hc). rewrite (IH Hc), andb_true_r.
    destruct (String.eqb s "") eqn:E; [apply String.eqb_eq in E; contradiction|].
    destruct r as [|[s'|e' i'] r']; [reflexivity|contradiction|reflexivity].
  - exact IH.
Qed.

Lemma image_op_named n args :
  IMG (Op (ONamed n) args)
  = forallb IMG args
    && ((String.eqb n "bool/not" && Nat.eqb (length args) 1)
             || (String.eqb n "record/get" && match args with [Chunks cs; _] => has_expr cs | _ => false end)
             || (mem_string n infix_ops && negb (String.eqb n "record/get") && Nat.eqb (length args) 2)
             || existsb (fun e => String.eqb (fst (snd e)) n && Nat.eqb (snd (snd e)) (length args)) primops).
Proof. destruct args as [|a [|b r]]; reflexivity. Qed.

Lemma image_app h args :
  args <> [] -> (forall s a, h = Enum s None -> args <> [a]) ->
  IMG h = true -> forallb IMG args = true -> IMG (App h args) = true.
Proof.
  intros Hne Henum Hh Hargs.
  destruct args as [|b [|c r]]; [congruence| |].
  - cbn [forallb] in Hargs. rewrite andb_true_r in Hargs.
    destruct h; try (cbn; cbn in Hh; rewrite ?Hh, ?Hargs; reflexivity).
    + (* Enum *) destruct arg; [cbn; cbn in Hh; rewrite Hh, Hargs; reflexivity|].
      exfalso. eapply Henum; reflexivity.
    + (* Op *) destruct o as [id|id|n].
      * cbn. cbn in Hh. rewrite Hh, Hargs. reflexivity.
      * cbn. cbn in Hh. rewrite Hh, Hargs. reflexivity.
      * destruct args as [|a [|a' r]].
        -- cbn. cbn in Hh. rewrite Hh, Hargs. reflexivity.
        -- change (IMG (App (Op (ONamed n) [a]) [b]))
             with (if lazy_name n then IMG a && IMG b else IMG (Op (ONamed n) [a]) && IMG b).
           destruct (lazy_name n).
           ++ rewrite image_op_named in Hh.
              apply andb_prop in Hh. destruct Hh as [Ha _]. cbn [forallb] in Ha.
              rewrite andb_true_r in Ha. rewrite Ha, Hargs. reflexivity.
           ++ rewrite Hh, Hargs. reflexivity.
        -- change (IMG (App (Op (ONamed n) (a :: a' :: r)) [b]))
             with (IMG (Op (ONamed n) (a :: a' :: r)) && forallb IMG [b]).
           cbn [forallb]. rewrite Hh, Hargs. reflexivity.
  - destruct h; try (cbn; cbn in Hh; cbn in Hargs; rewrite ?Hh, ?Hargs; reflexivity).
    + destruct arg; cbn; cbn in Hh; cbn in Hargs; rewrite ?Hh, ?Hargs; reflexivity.
    + destruct o as [id|id|n]; try (cbn; cbn in Hh; cbn in Hargs; rewrite ?Hh, ?Hargs; reflexivity).
      destruct args as [|a [|a' r']];
        change (IMG (App ?hh (b :: c :: r))) with (IMG hh && forallb IMG (b :: c :: r));
        rewrite Hh, Hargs; reflexivity.
Qed.

Ltac lsum_bound Hsz l Hin :=
  match type of Hsz with
  | context [lsum ?f l] =>
      let L := fresh "L" in pose proof (lsum_in f l _ Hin) as L; cbn in L; lia
  end.

Lemma core_image_n : forall n,
  (forall t, tsize t < n -> CORE t -> IMG t = true)
  /\ (forall ty, tysize ty < n -> CORETY ty -> IMGTY [] ty = true).
Proof.
  induction n as [|n [IHt IHty]]; [split; intros; lia|].
  split.
  - intros t Hsz Hc. destruct Hc.
    + reflexivity.
    + reflexivity.
    + reflexivity.
    + cbn. exact H.
    + reflexivity.
    + cbn. apply IHt; [cbn in Hsz; lia|assumption].
    + (* chunks *)
      cbn. rewrite (chunks_shape_dec cs H), andb_true_l.
      apply forallb_intro. intros [s|e i] Hin; [reflexivity|].
      apply IHt; [|eauto].
      cbn [tsize] in Hsz.
      lsum_bound Hsz cs Hin.
    + (* array *)
      cbn. apply forallb_intro. intros e Hin. apply IHt; [|auto].
      cbn [tsize] in Hsz. pose proof (lsum_in tsize es _ Hin). lia.
    + (* app *)
      cbn [tsize] in Hsz. apply image_app; auto.
      * apply IHt; [lia|assumption].
      * apply forallb_intro. intros a Hin. apply IHt; [|auto].
        pose proof (lsum_in tsize args _ Hin). lia.
    + (* lazy *)
      change (IMG (App (Op (ONamed n0) [a]) [b]))
        with (if lazy_name n0 then IMG a && IMG b else IMG (Op (ONamed n0) [a]) && IMG b).
      change (lazy_name n0) with (is_lazy_name n0). rewrite H.
      cbn in Hsz. rewrite !IHt; auto; lia.
    + (* binop *)
      cbn in Hsz.
      rewrite image_op_named.
      cbn [forallb]. rewrite !IHt by (auto; lia).
      unfold binop_name in H. rewrite H. cbn [length Nat.eqb andb]. rewrite !orb_true_r. reflexivity.
    + (* not *)
      cbn in Hsz. cbn. rewrite IHt by (auto; lia). reflexivity.
    + cbn in Hsz. cbn. apply IHt; [lia|assumption].
    + cbn in Hsz. cbn. rewrite !IHt by (auto; lia). reflexivity.
    + (* fun *)
      cbn [tsize] in Hsz.
      change (IMG (Fun args body)) with
        (is_curried_dot args body
         || (negb (Nat.eqb (length args) 0) && forallb (image_pat primops infix_ops) args && IMG body)).
      apply orb_true_iff. right.
      rewrite IHt by (auto; lia). rewrite andb_true_r.
      apply andb_true_iff. split.
      * destruct args; [congruence|reflexivity].
      * apply forallb_intro. intros p Hin. destruct (H0 p Hin) as [x ->]. reflexivity.
    + (* let *)
      cbn [tsize] in Hsz.
      change (IMG (Let rec bs body)) with
        (negb (Nat.eqb (length bs) 0)
         && forallb (fun b => image_pat primops infix_ops (b_pat b)
                              && image_annot_with IMGTY (b_ann b) && IMG (b_val b)) bs
         && IMG body).
      rewrite IHt by (auto; lia). rewrite andb_true_r.
      apply andb_true_iff. split.
      * destruct bs; [congruence|reflexivity].
      * apply forallb_intro. intros b Hin. destruct (H0 b Hin) as (([x Hp] & _ & Ha) & Hv).
        rewrite Hp, Ha. rewrite IHt; [reflexivity| |assumption].
        lsum_bound Hsz bs Hin.
    + (* annot *)
      cbn [tsize] in Hsz. unfold asize_with in Hsz.
      change (IMG (Annot a inner)) with
        (negb (match a_typ a, a_ctrs a with None, [] => true | _, _ => false end)
         && image_annot_with IMGTY a && IMG inner).
      rewrite IHt by (auto; lia). rewrite andb_true_r.
      change (match a_typ a, a_ctrs a with None, [] => true | _, _ => false end) with (empty_annot_b a).
      rewrite H. cbn [negb andb]. unfold image_annot_with.
      apply andb_true_iff. split.
      * destruct (a_typ a) as [ty|] eqn:E; [|reflexivity].
        apply IHty; [cbn in Hsz; lia|auto].
      * apply forallb_intro. intros ty Hin. apply IHty; [|auto].
        pose proof (lsum_in tysize (a_ctrs a) _ Hin). lia.
    + (* record *)
      cbn [tsize] in Hsz.
      change (IMG (Record [] fs false)) with
        (forallb (fun i => image_fmeta_with IMGTY (i_meta i)) []
         && forallb (fun f =>
                    negb (Nat.eqb (length (f_path f)) 0)
                    && forallb (fun e => match e with
                                         | PId _ => true
                                         | PExpr cs =>
                                             chunks_shape_b cs && has_expr cs
                                             && forallb (fun c => match c with CLit _ => true | CExpr e _ => IMG e end) cs
                                         end) (f_path f)
                    && image_fmeta_with IMGTY (f_meta f)
                    && match f_val f with Some v => IMG v | None => true end) fs
         && (match fs, @nil incl with
             | _ :: _, [] => negb (forallb field_is_row fs) || false
             | _, _ => true
             end)).
      cbn [forallb andb].
      apply andb_true_iff. split.
      * apply forallb_intro. intros f Hin. destruct (H f Hin) as (v & [s ->] & Hv).
        cbn. apply IHt; [|assumption].
        lsum_bound Hsz fs Hin.
      * destruct fs as [|f fs']; [reflexivity|].
        destruct (H f (or_introl eq_refl)) as (v & [s ->] & _). reflexivity.
    + (* primop *)
      cbn [tsize] in Hsz.
      rewrite image_op_named.
      apply andb_true_iff. split.
      * apply forallb_intro. intros a Hin. apply IHt; [|auto].
        pose proof (lsum_in tsize args _ Hin). lia.
      * apply orb_true_iff. right. apply existsb_exists.
        exists (sp, (name, length args)). split; [apply assoc_string_in; assumption|].
        cbn [fst snd]. rewrite String.eqb_refl, Nat.eqb_refl. reflexivity.
    + reflexivity.
    + reflexivity.
  - intros ty Hsz Hc. destruct Hc; try reflexivity.
    + (* contract *)
      cbn [tysize] in Hsz.
      change (IMGTY [] (TContract t)) with
        (IMG t && (match t with Var x => negb (mem_string x []) | _ => contract_term_ok t end)).
      rewrite IHt by (auto; lia). cbn [andb].
      destruct t; try reflexivity; try discriminate.
      destruct incs, fields, open; try reflexivity; discriminate.
    + cbn [tysize] in Hsz. cbn. rewrite !IHty by (auto; lia). reflexivity.
    + cbn [tysize] in Hsz. cbn. apply IHty; [lia|assumption].
Qed.

Theorem core_in_image t : CORE t -> parser_image primops infix_ops t = true.
Proof.
  intros Hc. unfold parser_image. exact (proj1 (core_image_n (S (tsize t))) t (Nat.lt_succ_diag_r _) Hc).
Qed.

End CoreImage.
