(* C14 — what the round-trip proofs need from the operator tables, as a boolean check that is
   evaluated on the table generated from the grammar (Gen/OpTable.v) on every run.

   The printer parenthesises every operand that is not an atom, so it relies on the *relative*
   precedence of operators in exactly these places:
   - a type arrow is printed [dom -> codom] with [dom] and [codom] bare infix expressions (unless
     [dom] is itself an arrow or a forall, or [codom] a forall): the arrow must be the loosest
     operator and associate to the right;
   - prefix operators are printed [op atom] and may be followed by an arrow: their level must be
     tighter than the arrow's;
   and on the *identity* of operators everywhere: each operator text the printer emits must be read
   back by the grammar as the same primitive operation, with the same arity and laziness, and
   no operator text may be mistaken for the start of an atom.
   Definitions only. *)
From Coq Require Import String List Bool Arith.
From NV Require Import Surface.Ast Surface.Print Surface.Parse.
Import ListNotations.
Open Scope string_scope.

Fixpoint nodup_strings (l : list string) : bool :=
  match l with
  | [] => true
  | x :: r => negb (mem_string x r) && nodup_strings r
  end.

(* punctuation and keywords the printer emits around expressions: an operator spelled like one of
   them would be misread *)
Definition structural_tokens : list string :=
  ["("; ")"; "{"; "}"; "["; "]"; "[|"; "|]"; ","; ";"; ":"; "|"; "="; "=>"; "."; ".."; "?";
   "_"; "let"; "rec"; "in"; "fun"; "if"; "then"; "else"; "match"; "import"; "forall"; "null";
   "true"; "false"; "Dyn"; "Number"; "Bool"; "String"; "Array"; "doc"; "default"; "force";
   "priority"; "optional"; "not_exported"].

Definition is_arrow (k : bkind) : bool := match k with BArrow => true | _ => false end.

Section Check.
Variable binops : list (string * (nat * assoc * bkind)).
Variable prefixops : list (string * (nat * pkind)).
Variable max_level : nat.
Variable primops : list (string * (string * nat)).
Variable op_spelling : list (string * string).
Variable infix_ops : list string.
Variable postfix_ops : list string.

Definition op_token_ok (sp : string) : bool :=
  negb (starts_atom (TK sp)) && negb (mem_string sp structural_tokens).

Definition binop_entry_ok (e : string * (nat * assoc * bkind)) : bool :=
  let '(sp, (lvl, a, k)) := e in
  op_token_ok sp && Nat.leb 1 lvl && Nat.leb lvl max_level
  && (if is_arrow k then String.eqb sp "->" && Nat.eqb lvl max_level
                         && match a with ARight => true | _ => false end
      else Nat.ltb lvl max_level && match a with ALeft => true | _ => false end).

Definition prefixop_entry_ok (e : string * (nat * pkind)) : bool :=
  let '(sp, (lvl, _)) := e in
  op_token_ok sp && Nat.leb 1 lvl && Nat.ltb lvl max_level.

(* an operator the printer prints infix is read back as the same strict binary primop *)
Definition printed_infix_ok (name : string) : bool :=
  String.eqb name "record/get"
  || match assoc_string name op_spelling with
     | Some sp => match assoc_string sp binops with
                  | Some (_, _, BOp n) => String.eqb n name
                  | _ => false
                  end
     | None => false
     end.

Definition lazy_ok (sp name : string) : bool :=
  match assoc_string sp binops with
  | Some (_, _, BLazy n) => String.eqb n name
  | _ => false
  end.

Definition primop_entry_ok (e : string * (string * nat)) : bool :=
  let '(sp, (name, n)) := e in
  String.eqb sp ("%" ++ name ++ "%") && Nat.leb 1 n
  && negb (starts_atom (TK sp)) && negb (mem_string sp structural_tokens)
  && match assoc_string name op_spelling with None => true | Some _ => false end
  && negb (mem_string name infix_ops)
  && negb (String.eqb name "(&&)") && negb (String.eqb name "(||)")
  && negb (String.eqb name "enum/embed") && negb (String.eqb name "record/access")
  && negb (String.eqb sp "%enum/embed%") && negb (mem_string name postfix_ops).

Definition table_ok : bool :=
  nodup_strings (map fst binops) && nodup_strings (map fst prefixops)
  && nodup_strings (map fst primops) && nodup_strings (map (fun e => fst (snd e)) primops)
  && forallb binop_entry_ok binops
  && forallb prefixop_entry_ok prefixops
  && forallb primop_entry_ok primops
  && existsb (fun e => is_arrow (snd (snd e))) binops
  && forallb printed_infix_ok infix_ops
  && lazy_ok "&&" "(&&)" && lazy_ok "||" "(||)"
  && match assoc_string "!" prefixops with Some (_, PUnary n) => String.eqb n "bool/not" | _ => false end
  && match assoc_string "bool/not" op_spelling with Some sp => String.eqb sp "!" | None => false end
  && match assoc_string "-" prefixops with Some (_, PNeg) => true | _ => false end
  && match assoc_string "(-)" op_spelling with Some sp => String.eqb sp "-" | None => false end
  && mem_string "(-)" infix_ops
  && match assoc_string "record/get" op_spelling with Some sp => String.eqb sp "." | None => false end
  && mem_string "record/get" infix_ops
  && forallb (fun n => negb (mem_string n infix_ops)) postfix_ops
  && mem_string "(&&)" postfix_ops && mem_string "(||)" postfix_ops
  && forallb (fun e => negb (mem_string (fst e) (map fst prefixops))
                       && negb (mem_string (fst e) (map fst binops))) primops.

End Check.
